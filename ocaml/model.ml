
(** val negb : bool -> bool **)

let negb = function
| true -> false
| false -> true

type nat =
| O
| S of nat

(** val length : 'a1 list -> nat **)

let rec length = function
| [] -> O
| _ :: l' -> S (length l')

(** val app : 'a1 list -> 'a1 list -> 'a1 list **)

let rec app l m =
  match l with
  | [] -> m
  | a :: l1 -> a :: (app l1 m)

type comparison =
| Eq
| Lt
| Gt

(** val compOpp : comparison -> comparison **)

let compOpp = function
| Eq -> Eq
| Lt -> Gt
| Gt -> Lt

module Coq__1 = struct
 (** val add : nat -> nat -> nat **)
 let rec add n m =
   match n with
   | O -> m
   | S p -> S (add p m)
end
include Coq__1

(** val existsb : ('a1 -> bool) -> 'a1 list -> bool **)

let rec existsb f = function
| [] -> false
| a :: l0 -> (||) (f a) (existsb f l0)

(** val forallb : ('a1 -> bool) -> 'a1 list -> bool **)

let rec forallb f = function
| [] -> true
| a :: l0 -> (&&) (f a) (forallb f l0)

type positive =
| XI of positive
| XO of positive
| XH

type z =
| Z0
| Zpos of positive
| Zneg of positive

module Pos =
 struct
  (** val succ : positive -> positive **)

  let rec succ = function
  | XI p -> XO (succ p)
  | XO p -> XI p
  | XH -> XO XH

  (** val add : positive -> positive -> positive **)

  let rec add x y =
    match x with
    | XI p ->
      (match y with
       | XI q -> XO (add_carry p q)
       | XO q -> XI (add p q)
       | XH -> XO (succ p))
    | XO p ->
      (match y with
       | XI q -> XI (add p q)
       | XO q -> XO (add p q)
       | XH -> XI p)
    | XH -> (match y with
             | XI q -> XO (succ q)
             | XO q -> XI q
             | XH -> XO XH)

  (** val add_carry : positive -> positive -> positive **)

  and add_carry x y =
    match x with
    | XI p ->
      (match y with
       | XI q -> XI (add_carry p q)
       | XO q -> XO (add_carry p q)
       | XH -> XI (succ p))
    | XO p ->
      (match y with
       | XI q -> XO (add_carry p q)
       | XO q -> XI (add p q)
       | XH -> XO (succ p))
    | XH ->
      (match y with
       | XI q -> XI (succ q)
       | XO q -> XO (succ q)
       | XH -> XI XH)

  (** val pred_double : positive -> positive **)

  let rec pred_double = function
  | XI p -> XI (XO p)
  | XO p -> XI (pred_double p)
  | XH -> XH

  (** val mul : positive -> positive -> positive **)

  let rec mul x y =
    match x with
    | XI p -> add y (XO (mul p y))
    | XO p -> XO (mul p y)
    | XH -> y

  (** val size : positive -> positive **)

  let rec size = function
  | XI p0 -> succ (size p0)
  | XO p0 -> succ (size p0)
  | XH -> XH

  (** val compare_cont : comparison -> positive -> positive -> comparison **)

  let rec compare_cont r x y =
    match x with
    | XI p ->
      (match y with
       | XI q -> compare_cont r p q
       | XO q -> compare_cont Gt p q
       | XH -> Gt)
    | XO p ->
      (match y with
       | XI q -> compare_cont Lt p q
       | XO q -> compare_cont r p q
       | XH -> Gt)
    | XH -> (match y with
             | XH -> r
             | _ -> Lt)

  (** val compare : positive -> positive -> comparison **)

  let compare =
    compare_cont Eq

  (** val eqb : positive -> positive -> bool **)

  let rec eqb p q =
    match p with
    | XI p0 -> (match q with
                | XI q0 -> eqb p0 q0
                | _ -> false)
    | XO p0 -> (match q with
                | XO q0 -> eqb p0 q0
                | _ -> false)
    | XH -> (match q with
             | XH -> true
             | _ -> false)

  (** val iter_op : ('a1 -> 'a1 -> 'a1) -> positive -> 'a1 -> 'a1 **)

  let rec iter_op op p a =
    match p with
    | XI p0 -> op a (iter_op op p0 (op a a))
    | XO p0 -> iter_op op p0 (op a a)
    | XH -> a

  (** val to_nat : positive -> nat **)

  let to_nat x =
    iter_op Coq__1.add x (S O)

  (** val of_succ_nat : nat -> positive **)

  let rec of_succ_nat = function
  | O -> XH
  | S x -> succ (of_succ_nat x)
 end

module Z =
 struct
  (** val double : z -> z **)

  let double = function
  | Z0 -> Z0
  | Zpos p -> Zpos (XO p)
  | Zneg p -> Zneg (XO p)

  (** val succ_double : z -> z **)

  let succ_double = function
  | Z0 -> Zpos XH
  | Zpos p -> Zpos (XI p)
  | Zneg p -> Zneg (Pos.pred_double p)

  (** val pred_double : z -> z **)

  let pred_double = function
  | Z0 -> Zneg XH
  | Zpos p -> Zpos (Pos.pred_double p)
  | Zneg p -> Zneg (XI p)

  (** val pos_sub : positive -> positive -> z **)

  let rec pos_sub x y =
    match x with
    | XI p ->
      (match y with
       | XI q -> double (pos_sub p q)
       | XO q -> succ_double (pos_sub p q)
       | XH -> Zpos (XO p))
    | XO p ->
      (match y with
       | XI q -> pred_double (pos_sub p q)
       | XO q -> double (pos_sub p q)
       | XH -> Zpos (Pos.pred_double p))
    | XH ->
      (match y with
       | XI q -> Zneg (XO q)
       | XO q -> Zneg (Pos.pred_double q)
       | XH -> Z0)

  (** val add : z -> z -> z **)

  let add x y =
    match x with
    | Z0 -> y
    | Zpos x' ->
      (match y with
       | Z0 -> x
       | Zpos y' -> Zpos (Pos.add x' y')
       | Zneg y' -> pos_sub x' y')
    | Zneg x' ->
      (match y with
       | Z0 -> x
       | Zpos y' -> pos_sub y' x'
       | Zneg y' -> Zneg (Pos.add x' y'))

  (** val opp : z -> z **)

  let opp = function
  | Z0 -> Z0
  | Zpos x0 -> Zneg x0
  | Zneg x0 -> Zpos x0

  (** val sub : z -> z -> z **)

  let sub m n =
    add m (opp n)

  (** val mul : z -> z -> z **)

  let mul x y =
    match x with
    | Z0 -> Z0
    | Zpos x' ->
      (match y with
       | Z0 -> Z0
       | Zpos y' -> Zpos (Pos.mul x' y')
       | Zneg y' -> Zneg (Pos.mul x' y'))
    | Zneg x' ->
      (match y with
       | Z0 -> Z0
       | Zpos y' -> Zneg (Pos.mul x' y')
       | Zneg y' -> Zpos (Pos.mul x' y'))

  (** val compare : z -> z -> comparison **)

  let compare x y =
    match x with
    | Z0 -> (match y with
             | Z0 -> Eq
             | Zpos _ -> Lt
             | Zneg _ -> Gt)
    | Zpos x' -> (match y with
                  | Zpos y' -> Pos.compare x' y'
                  | _ -> Gt)
    | Zneg x' ->
      (match y with
       | Zneg y' -> compOpp (Pos.compare x' y')
       | _ -> Lt)

  (** val leb : z -> z -> bool **)

  let leb x y =
    match compare x y with
    | Gt -> false
    | _ -> true

  (** val ltb : z -> z -> bool **)

  let ltb x y =
    match compare x y with
    | Lt -> true
    | _ -> false

  (** val eqb : z -> z -> bool **)

  let eqb x y =
    match x with
    | Z0 -> (match y with
             | Z0 -> true
             | _ -> false)
    | Zpos p -> (match y with
                 | Zpos q -> Pos.eqb p q
                 | _ -> false)
    | Zneg p -> (match y with
                 | Zneg q -> Pos.eqb p q
                 | _ -> false)

  (** val to_nat : z -> nat **)

  let to_nat = function
  | Zpos p -> Pos.to_nat p
  | _ -> O

  (** val of_nat : nat -> z **)

  let of_nat = function
  | O -> Z0
  | S n0 -> Zpos (Pos.of_succ_nat n0)

  (** val pos_div_eucl : positive -> z -> z * z **)

  let rec pos_div_eucl a b =
    match a with
    | XI a' ->
      let (q, r) = pos_div_eucl a' b in
      let r' = add (mul (Zpos (XO XH)) r) (Zpos XH) in
      if ltb r' b
      then ((mul (Zpos (XO XH)) q), r')
      else ((add (mul (Zpos (XO XH)) q) (Zpos XH)), (sub r' b))
    | XO a' ->
      let (q, r) = pos_div_eucl a' b in
      let r' = mul (Zpos (XO XH)) r in
      if ltb r' b
      then ((mul (Zpos (XO XH)) q), r')
      else ((add (mul (Zpos (XO XH)) q) (Zpos XH)), (sub r' b))
    | XH -> if leb (Zpos (XO XH)) b then (Z0, (Zpos XH)) else ((Zpos XH), Z0)

  (** val div_eucl : z -> z -> z * z **)

  let div_eucl a b =
    match a with
    | Z0 -> (Z0, Z0)
    | Zpos a' ->
      (match b with
       | Z0 -> (Z0, a)
       | Zpos _ -> pos_div_eucl a' b
       | Zneg b' ->
         let (q, r) = pos_div_eucl a' (Zpos b') in
         (match r with
          | Z0 -> ((opp q), Z0)
          | _ -> ((opp (add q (Zpos XH))), (add b r))))
    | Zneg a' ->
      (match b with
       | Z0 -> (Z0, a)
       | Zpos _ ->
         let (q, r) = pos_div_eucl a' b in
         (match r with
          | Z0 -> ((opp q), Z0)
          | _ -> ((opp (add q (Zpos XH))), (sub b r)))
       | Zneg b' -> let (q, r) = pos_div_eucl a' (Zpos b') in (q, (opp r)))

  (** val div : z -> z -> z **)

  let div a b =
    let (q, _) = div_eucl a b in q

  (** val modulo : z -> z -> z **)

  let modulo a b =
    let (_, r) = div_eucl a b in r

  (** val log2 : z -> z **)

  let log2 = function
  | Zpos p0 ->
    (match p0 with
     | XI p -> Zpos (Pos.size p)
     | XO p -> Zpos (Pos.size p)
     | XH -> Z0)
  | _ -> Z0
 end

type text = z list

type 'a outcome =
| Ok of 'a
| Err
| Panic

(** val lAST_COLUMN : z **)

let lAST_COLUMN =
  Zpos (XO (XO (XO (XO (XO (XO (XO (XO (XO (XO (XO (XO (XO (XO
    XH))))))))))))))

(** val lAST_ROW : z **)

let lAST_ROW =
  Zpos (XO (XO (XO (XO (XO (XO (XO (XO (XO (XO (XO (XO (XO (XO (XO (XO (XO
    (XO (XO (XO XH))))))))))))))))))))

(** val is_digit : z -> bool **)

let is_digit c =
  (&&) (Z.leb (Zpos (XO (XO (XO (XO (XI XH)))))) c)
    (Z.leb c (Zpos (XI (XO (XO (XI (XI XH)))))))

(** val is_upper : z -> bool **)

let is_upper c =
  (&&) (Z.leb (Zpos (XI (XO (XO (XO (XO (XO XH))))))) c)
    (Z.leb c (Zpos (XO (XI (XO (XI (XI (XO XH))))))))

(** val is_lower : z -> bool **)

let is_lower c =
  (&&) (Z.leb (Zpos (XI (XO (XO (XO (XO (XI XH))))))) c)
    (Z.leb c (Zpos (XO (XI (XO (XI (XI (XI XH))))))))

(** val is_ascii : z -> bool **)

let is_ascii c =
  (&&) (Z.leb Z0 c) (Z.ltb c (Zpos (XO (XO (XO (XO (XO (XO (XO XH)))))))))

(** val dec_val : z -> text -> z **)

let rec dec_val acc = function
| [] -> acc
| c :: r ->
  dec_val
    (Z.add (Z.mul acc (Zpos (XO (XI (XO XH)))))
      (Z.sub c (Zpos (XO (XO (XO (XO (XI XH)))))))) r

(** val dec_fuel : nat -> z -> text **)

let rec dec_fuel f n =
  match f with
  | O -> []
  | S f' ->
    if Z.ltb n (Zpos (XO (XI (XO XH))))
    then (Z.add (Zpos (XO (XO (XO (XO (XI XH)))))) n) :: []
    else app (dec_fuel f' (Z.div n (Zpos (XO (XI (XO XH))))))
           ((Z.add (Zpos (XO (XO (XO (XO (XI XH))))))
              (Z.modulo n (Zpos (XO (XI (XO XH)))))) :: [])

(** val dec_of_nonneg : z -> text **)

let dec_of_nonneg n =
  dec_fuel (S (Z.to_nat (Z.log2 n))) n

(** val dec_of_Z : z -> text **)

let dec_of_Z z0 =
  if Z.ltb z0 Z0
  then (Zpos (XI (XO (XI (XI (XO XH)))))) :: (dec_of_nonneg (Z.opp z0))
  else dec_of_nonneg z0

(** val wrap32 : z -> z **)

let wrap32 x =
  Z.sub
    (Z.modulo
      (Z.add x (Zpos (XO (XO (XO (XO (XO (XO (XO (XO (XO (XO (XO (XO (XO (XO
        (XO (XO (XO (XO (XO (XO (XO (XO (XO (XO (XO (XO (XO (XO (XO (XO (XO
        XH))))))))))))))))))))))))))))))))) (Zpos (XO (XO (XO (XO (XO (XO (XO
      (XO (XO (XO (XO (XO (XO (XO (XO (XO (XO (XO (XO (XO (XO (XO (XO (XO (XO
      (XO (XO (XO (XO (XO (XO (XO XH)))))))))))))))))))))))))))))))))) (Zpos
    (XO (XO (XO (XO (XO (XO (XO (XO (XO (XO (XO (XO (XO (XO (XO (XO (XO (XO
    (XO (XO (XO (XO (XO (XO (XO (XO (XO (XO (XO (XO (XO
    XH))))))))))))))))))))))))))))))))

(** val is_valid_column_number : z -> bool **)

let is_valid_column_number n =
  (&&) (Z.leb (Zpos XH) n) (Z.leb n lAST_COLUMN)

(** val col_loop : z -> text -> z option **)

let rec col_loop acc = function
| [] -> Some acc
| c :: r ->
  if is_upper c
  then col_loop
         (wrap32
           (Z.add (wrap32 (Z.mul acc (Zpos (XO (XI (XO (XI XH)))))))
             (Z.sub c (Zpos (XO (XO (XO (XO (XO (XO XH)))))))))) r
  else None

(** val column_to_number : text -> z outcome **)

let column_to_number s = match s with
| [] -> Err
| _ :: _ ->
  if negb (forallb is_ascii s)
  then Err
  else if Z.ltb (Zpos (XI XH)) (Z.of_nat (length s))
       then Err
       else (match col_loop Z0 s with
             | Some n -> if is_valid_column_number n then Ok n else Err
             | None -> Err)

(** val col_overflows : z -> text -> bool **)

let rec col_overflows acc = function
| [] -> false
| c :: r ->
  if is_upper c
  then let v =
         Z.add (Z.mul acc (Zpos (XO (XI (XO (XI XH))))))
           (Z.sub c (Zpos (XO (XO (XO (XO (XO (XO XH))))))))
       in
       if Z.leb v (Zpos (XI (XI (XI (XI (XI (XI (XI (XI (XI (XI (XI (XI (XI
            (XI (XI (XI (XI (XI (XI (XI (XI (XI (XI (XI (XI (XI (XI (XI (XI
            (XI XH)))))))))))))))))))))))))))))))
       then col_overflows v r
       else true
  else false

(** val n2c_fuel : nat -> z -> text **)

let rec n2c_fuel f i =
  match f with
  | O -> []
  | S f' ->
    if Z.ltb Z0 i
    then app
           (n2c_fuel f'
             (Z.div (Z.sub i (Zpos XH)) (Zpos (XO (XI (XO (XI XH)))))))
           ((Z.add (Zpos (XI (XO (XO (XO (XO (XO XH)))))))
              (Z.modulo (Z.sub i (Zpos XH)) (Zpos (XO (XI (XO (XI XH))))))) :: [])
    else []

(** val number_to_column : z -> text option **)

let number_to_column i =
  if is_valid_column_number i
  then Some (n2c_fuel (S (S (S (S O)))) i)
  else None

(** val is_valid_column : text -> bool **)

let is_valid_column s =
  if Z.ltb (Zpos (XI XH)) (Z.of_nat (length s))
  then false
  else (match column_to_number s with
        | Ok n -> is_valid_column_number n
        | _ -> false)

type pref = { p_row : z; p_col : z; p_abs_col : bool; p_abs_row : bool }

type a1st = { ac : bool; ar : bool; rw : text; cl : text; s2 : bool }

(** val a1_step : a1st -> z -> a1st option **)

let a1_step st ch =
  if (&&) (is_upper ch) (negb st.s2)
  then Some { ac = st.ac; ar = st.ar; rw = st.rw; cl =
         (app st.cl (ch :: [])); s2 = st.s2 }
  else if is_digit ch
       then Some { ac = st.ac; ar = st.ar; rw = (app st.rw (ch :: [])); cl =
              st.cl; s2 = true }
       else if Z.eqb ch (Zpos (XO (XO (XI (XO (XO XH))))))
            then (match st.cl with
                  | [] ->
                    Some { ac = true; ar = st.ar; rw = st.rw; cl = st.cl;
                      s2 = st.s2 }
                  | _ :: _ ->
                    if negb st.s2
                    then Some { ac = st.ac; ar = true; rw = st.rw; cl =
                           st.cl; s2 = true }
                    else None)
            else None

(** val a1_run : a1st -> text -> a1st option **)

let rec a1_run st = function
| [] -> Some st
| ch :: r ->
  (match a1_step st ch with
   | Some st' -> a1_run st' r
   | None -> None)

(** val valid_row_str : text -> z option **)

let valid_row_str r = match r with
| [] -> None
| _ :: _ ->
  let v = dec_val Z0 r in
  if (&&) (Z.leb (Zpos XH) v) (Z.leb v lAST_ROW) then Some v else None

(** val a1_init : a1st **)

let a1_init =
  { ac = false; ar = false; rw = []; cl = []; s2 = false }

(** val parse_reference_a1 : text -> pref option **)

let parse_reference_a1 s =
  match a1_run a1_init s with
  | Some st ->
    if is_valid_column st.cl
    then (match valid_row_str st.rw with
          | Some r ->
            (match column_to_number st.cl with
             | Ok c ->
               Some { p_row = r; p_col = c; p_abs_col = st.ac; p_abs_row =
                 st.ar }
             | _ -> None)
          | None -> None)
    else None
  | None -> None

(** val print_a1 : z -> z -> bool -> bool -> text option **)

let print_a1 row col abs_row abs_col =
  if Z.ltb row (Zpos XH)
  then None
  else (match number_to_column col with
        | Some letters ->
          Some
            (app
              (if abs_col
               then (Zpos (XO (XO (XI (XO (XO XH)))))) :: []
               else [])
              (app letters
                (app
                  (if abs_row
                   then (Zpos (XO (XO (XI (XO (XO XH)))))) :: []
                   else []) (dec_of_Z row))))
        | None -> None)

(** val span_digits : text -> text * text **)

let rec span_digits s = match s with
| [] -> ([], [])
| c :: r ->
  if is_digit c
  then let (d, r') = span_digits r in ((c :: d), r')
  else ([], s)

(** val i32_or_zero : bool -> text -> z **)

let i32_or_zero neg d = match d with
| [] -> Z0
| _ :: _ ->
  let v = dec_val Z0 d in
  let v' = if neg then Z.opp v else v in
  if (&&)
       (Z.leb (Zneg (XO (XO (XO (XO (XO (XO (XO (XO (XO (XO (XO (XO (XO (XO
         (XO (XO (XO (XO (XO (XO (XO (XO (XO (XO (XO (XO (XO (XO (XO (XO (XO
         XH)))))))))))))))))))))))))))))))) v')
       (Z.leb v' (Zpos (XI (XI (XI (XI (XI (XI (XI (XI (XI (XI (XI (XI (XI
         (XI (XI (XI (XI (XI (XI (XI (XI (XI (XI (XI (XI (XI (XI (XI (XI (XI
         XH))))))))))))))))))))))))))))))))
  then v'
  else Z0

(** val rc_coord : text -> ((bool * z) * text) option **)

let rc_coord s = match s with
| [] -> Some ((true, Z0), [])
| c :: r ->
  if Z.eqb c (Zpos (XI (XI (XO (XI (XI (XO XH)))))))
  then (match r with
        | [] ->
          let neg = false in
          let (d, r2) = span_digits r in
          (match r2 with
           | [] -> None
           | e :: r3 ->
             if Z.eqb e (Zpos (XI (XO (XI (XI (XI (XO XH)))))))
             then Some ((false, (i32_or_zero neg d)), r3)
             else None)
        | m :: r' ->
          if Z.eqb m (Zpos (XI (XO (XI (XI (XO XH))))))
          then let neg = true in
               let (d, r2) = span_digits r' in
               (match r2 with
                | [] -> None
                | e :: r3 ->
                  if Z.eqb e (Zpos (XI (XO (XI (XI (XI (XO XH)))))))
                  then Some ((false, (i32_or_zero neg d)), r3)
                  else None)
          else let neg = false in
               let (d, r2) = span_digits r in
               (match r2 with
                | [] -> None
                | e :: r3 ->
                  if Z.eqb e (Zpos (XI (XO (XI (XI (XI (XO XH)))))))
                  then Some ((false, (i32_or_zero neg d)), r3)
                  else None))
  else let (d, r2) = span_digits s in Some ((true, (i32_or_zero false d)), r2)

(** val parse_reference_r1c1 : text -> pref option **)

let parse_reference_r1c1 s =
  if negb (forallb is_ascii s)
  then None
  else if Z.ltb (Z.of_nat (length s)) (Zpos (XO (XO XH)))
       then None
       else (match s with
             | [] -> None
             | c0 :: r ->
               if Z.eqb c0 (Zpos (XO (XI (XO (XO (XI (XO XH)))))))
               then (match rc_coord r with
                     | Some p ->
                       let (p0, t) = p in
                       let (absr, row) = p0 in
                       (match t with
                        | [] -> None
                        | c1 :: r' ->
                          if Z.eqb c1 (Zpos (XI (XI (XO (XO (XO (XO XH)))))))
                          then (match rc_coord r' with
                                | Some p1 ->
                                  let (p2, t0) = p1 in
                                  let (absc, col) = p2 in
                                  (match t0 with
                                   | [] ->
                                     Some { p_row = row; p_col = col;
                                       p_abs_col = absc; p_abs_row = absr }
                                   | _ :: _ -> None)
                                | None -> None)
                          else None)
                     | None -> None)
               else None)

(** val print_rc : z -> z -> bool -> bool -> text **)

let print_rc row col abs_row abs_col =
  app
    (if abs_row
     then (Zpos (XO (XI (XO (XO (XI (XO XH))))))) :: (dec_of_Z row)
     else (Zpos (XO (XI (XO (XO (XI (XO XH))))))) :: ((Zpos (XI (XI (XO (XI
            (XI (XO
            XH))))))) :: (app (dec_of_Z row) ((Zpos (XI (XO (XI (XI (XI (XO
                           XH))))))) :: []))))
    (if abs_col
     then (Zpos (XI (XI (XO (XO (XO (XO XH))))))) :: (dec_of_Z col)
     else (Zpos (XI (XI (XO (XO (XO (XO XH))))))) :: ((Zpos (XI (XI (XO (XI
            (XI (XO
            XH))))))) :: (app (dec_of_Z col) ((Zpos (XI (XO (XI (XI (XI (XO
                           XH))))))) :: []))))

(** val consume_integer : text -> (z * text) option **)

let consume_integer = function
| [] -> None
| c :: r ->
  let (d, r') = span_digits r in
  let digits = if is_digit c then c :: d else d in
  if negb
       ((||) ((||) (is_digit c) (Z.eqb c (Zpos (XI (XO (XI (XI (XO XH))))))))
         (Z.eqb c (Zpos (XI (XI (XO (XI (XO XH))))))))
  then None
  else (match digits with
        | [] -> None
        | _ :: _ ->
          let v = dec_val Z0 digits in
          let v' =
            if Z.eqb c (Zpos (XI (XO (XI (XI (XO XH)))))) then Z.opp v else v
          in
          if (&&)
               (Z.leb (Zneg (XO (XO (XO (XO (XO (XO (XO (XO (XO (XO (XO (XO
                 (XO (XO (XO (XO (XO (XO (XO (XO (XO (XO (XO (XO (XO (XO (XO
                 (XO (XO (XO (XO XH)))))))))))))))))))))))))))))))) v')
               (Z.leb v' (Zpos (XI (XI (XI (XI (XI (XI (XI (XI (XI (XI (XI
                 (XI (XI (XI (XI (XI (XI (XI (XI (XI (XI (XI (XI (XI (XI (XI
                 (XI (XI (XI (XI XH))))))))))))))))))))))))))))))))
          then Some (v', r')
          else None)

(** val lex_rc_coord : text -> ((bool * z) * text) option **)

let lex_rc_coord s = match s with
| [] -> None
| c :: r ->
  if Z.eqb c (Zpos (XI (XI (XO (XI (XI (XO XH)))))))
  then (match consume_integer r with
        | Some p ->
          let (v, t) = p in
          (match t with
           | [] -> None
           | e :: r' ->
             if Z.eqb e (Zpos (XI (XO (XI (XI (XI (XO XH)))))))
             then Some ((false, v), r')
             else None)
        | None -> None)
  else (match consume_integer s with
        | Some p -> let (v, r') = p in Some ((true, v), r')
        | None -> None)

(** val lex_reference_r1c1 : (z -> bool) -> text -> (pref * text) option **)

let lex_reference_r1c1 alnum = function
| [] -> None
| c0 :: r ->
  if Z.eqb c0 (Zpos (XO (XI (XO (XO (XI (XO XH)))))))
  then (match lex_rc_coord r with
        | Some p ->
          let (p0, t) = p in
          let (absr, row) = p0 in
          (match t with
           | [] -> None
           | c1 :: r' ->
             if Z.eqb c1 (Zpos (XI (XI (XO (XO (XO (XO XH)))))))
             then (match lex_rc_coord r' with
                   | Some p1 ->
                     let (p2, rest) = p1 in
                     let (absc, col) = p2 in
                     (match rest with
                      | [] ->
                        Some ({ p_row = row; p_col = col; p_abs_col = absc;
                          p_abs_row = absr }, rest)
                      | c :: _ ->
                        if alnum c
                        then None
                        else Some ({ p_row = row; p_col = col; p_abs_col =
                               absc; p_abs_row = absr }, rest))
                   | None -> None)
             else None)
        | None -> None)
  else None

(** val double_quotes : text -> text **)

let rec double_quotes = function
| [] -> []
| c :: r ->
  if Z.eqb c (Zpos (XI (XI (XI (XO (XO XH))))))
  then (Zpos (XI (XI (XI (XO (XO XH)))))) :: ((Zpos (XI (XI (XI (XO (XO
         XH)))))) :: (double_quotes r))
  else c :: (double_quotes r)

(** val skip_ws : (z -> bool) -> text -> text **)

let rec skip_ws ws s = match s with
| [] -> []
| c :: r -> if ws c then skip_ws ws r else s

(** val ident_char : (z -> bool) -> z -> bool **)

let ident_char alnum c =
  (||) ((||) (alnum c) (Z.eqb c (Zpos (XI (XI (XI (XI (XI (XO XH)))))))))
    (Z.eqb c (Zpos (XO (XI (XI (XI (XO XH)))))))

(** val ident_start : (z -> bool) -> z -> bool **)

let ident_start alpha c =
  (||) (alpha c) (Z.eqb c (Zpos (XI (XI (XI (XI (XI (XO XH))))))))

(** val name_needs_quoting : (z -> bool) -> (z -> bool) -> text -> bool **)

let name_needs_quoting alpha alnum name =
  (||)
    ((||)
      ((||) (existsb (fun c -> negb (ident_char alnum c)) name)
        (match name with
         | [] -> false
         | c :: _ -> negb (ident_start alpha c)))
      (match parse_reference_a1 name with
       | Some _ -> true
       | None -> false))
    (match parse_reference_r1c1 name with
     | Some _ -> true
     | None -> false)

(** val quote_name : (z -> bool) -> (z -> bool) -> text -> text **)

let quote_name alpha alnum name =
  if name_needs_quoting alpha alnum name
  then (Zpos (XI (XI (XI (XO (XO
         XH)))))) :: (app (double_quotes name) ((Zpos (XI (XI (XI (XO (XO
                       XH)))))) :: []))
  else name

(** val span_ident : (z -> bool) -> text -> text * text **)

let rec span_ident alnum s = match s with
| [] -> ([], [])
| c :: r ->
  if ident_char alnum c
  then let (d, r') = span_ident alnum r in ((c :: d), r')
  else ([], s)

(** val scan_quoted : text -> (text * text) option **)

let rec scan_quoted = function
| [] -> None
| c :: r ->
  if Z.eqb c (Zpos (XI (XI (XI (XO (XO XH))))))
  then (match r with
        | [] -> Some ([], r)
        | c2 :: r' ->
          if Z.eqb c2 (Zpos (XI (XI (XI (XO (XO XH))))))
          then (match scan_quoted r' with
                | Some p ->
                  let (inner, rest) = p in
                  Some (((Zpos (XI (XI (XI (XO (XO XH)))))) :: ((Zpos (XI (XI
                  (XI (XO (XO XH)))))) :: inner)), rest)
                | None -> None)
          else Some ([], r))
  else (match scan_quoted r with
        | Some p -> let (inner, rest) = p in Some ((c :: inner), rest)
        | None -> None)

(** val undouble : text -> text **)

let rec undouble = function
| [] -> []
| c :: r ->
  if Z.eqb c (Zpos (XI (XI (XI (XO (XO XH))))))
  then (match r with
        | [] -> (Zpos (XI (XI (XI (XO (XO XH)))))) :: []
        | c2 :: r' ->
          if Z.eqb c2 (Zpos (XI (XI (XI (XO (XO XH))))))
          then (Zpos (XI (XI (XI (XO (XO XH)))))) :: (undouble r')
          else (Zpos (XI (XI (XI (XO (XO XH)))))) :: (undouble r))
  else c :: (undouble r)

(** val lex_sheet_prefix :
    (z -> bool) -> (z -> bool) -> (z -> bool) -> text -> (text * text) option **)

let lex_sheet_prefix alpha alnum ws s0 =
  match skip_ws ws s0 with
  | [] -> None
  | c :: r ->
    if Z.eqb c (Zpos (XI (XI (XI (XO (XO XH))))))
    then (match scan_quoted r with
          | Some p ->
            let (inner, after) = p in
            (match skip_ws ws after with
             | [] -> None
             | b :: rest ->
               if Z.eqb b (Zpos (XI (XO (XO (XO (XO XH))))))
               then Some ((undouble inner), rest)
               else None)
          | None -> None)
    else if ident_start alpha c
         then let (name, r') = span_ident alnum (c :: r) in
              (match r' with
               | [] -> None
               | b :: rest ->
                 if Z.eqb b (Zpos (XI (XO (XO (XO (XO XH))))))
                 then Some (name, rest)
                 else None)
         else None

(** val ascii_alpha : z -> bool **)

let ascii_alpha c =
  (||) (is_upper c) (is_lower c)

(** val x_alpha : z -> bool **)

let x_alpha c =
  if Z.ltb c (Zpos (XO (XO (XO (XO (XO (XO (XO XH))))))))
  then ascii_alpha c
  else existsb (Z.eqb c) ((Zpos (XI (XO (XO (XI (XO (XI (XI
         XH)))))))) :: ((Zpos (XI (XO (XO (XO (XI (XI (XI
         XH)))))))) :: ((Zpos (XI (XO (XI (XI (XO (XI (XO (XO (XO (XI (XI (XI
         (XO (XO XH))))))))))))))) :: ((Zpos (XO (XI (XO (XO (XI (XI (XO (XI
         (XI XH)))))))))) :: ((Zpos (XO (XI (XI (XO (XI (XO (XO (XO (XO (XO
         XH))))))))))) :: [])))))

(** val x_alnum : z -> bool **)

let x_alnum c =
  if Z.ltb c (Zpos (XO (XO (XO (XO (XO (XO (XO XH))))))))
  then (||) (ascii_alpha c) (is_digit c)
  else existsb (Z.eqb c) ((Zpos (XI (XO (XO (XI (XO (XI (XI
         XH)))))))) :: ((Zpos (XI (XO (XO (XO (XI (XI (XI
         XH)))))))) :: ((Zpos (XI (XO (XI (XI (XO (XI (XO (XO (XO (XI (XI (XI
         (XO (XO XH))))))))))))))) :: ((Zpos (XO (XI (XO (XO (XI (XI (XO (XI
         (XI XH)))))))))) :: ((Zpos (XO (XI (XI (XO (XI (XO (XO (XO (XO (XO
         XH))))))))))) :: ((Zpos (XI (XI (XO (XO (XO (XI (XI (XO (XO (XI
         XH))))))))))) :: ((Zpos (XO (XI (XO (XO (XI (XI (XO
         XH)))))))) :: ((Zpos (XI (XO (XI (XI (XI (XI (XO
         XH)))))))) :: []))))))))

(** val x_ws : z -> bool **)

let x_ws c =
  (||)
    ((||)
      ((||)
        ((||)
          ((||)
            ((||)
              ((||)
                ((||)
                  ((||)
                    ((||)
                      ((&&) (Z.leb (Zpos (XI (XO (XO XH)))) c)
                        (Z.leb c (Zpos (XI (XO (XI XH))))))
                      (Z.eqb c (Zpos (XO (XO (XO (XO (XO XH))))))))
                    (Z.eqb c (Zpos (XI (XO (XI (XO (XO (XO (XO XH))))))))))
                  (Z.eqb c (Zpos (XO (XO (XO (XO (XO (XI (XO XH))))))))))
                (Z.eqb c (Zpos (XO (XO (XO (XO (XO (XO (XO (XI (XO (XI (XI
                  (XO XH)))))))))))))))
              ((&&)
                (Z.leb (Zpos (XO (XO (XO (XO (XO (XO (XO (XO (XO (XO (XO (XO
                  (XO XH)))))))))))))) c)
                (Z.leb c (Zpos (XO (XI (XO (XI (XO (XO (XO (XO (XO (XO (XO
                  (XO (XO XH)))))))))))))))))
            (Z.eqb c (Zpos (XO (XO (XO (XI (XO (XI (XO (XO (XO (XO (XO (XO
              (XO XH))))))))))))))))
          (Z.eqb c (Zpos (XI (XO (XO (XI (XO (XI (XO (XO (XO (XO (XO (XO (XO
            XH))))))))))))))))
        (Z.eqb c (Zpos (XI (XI (XI (XI (XO (XI (XO (XO (XO (XO (XO (XO (XO
          XH))))))))))))))))
      (Z.eqb c (Zpos (XI (XI (XI (XI (XI (XO (XI (XO (XO (XO (XO (XO (XO
        XH))))))))))))))))
    (Z.eqb c (Zpos (XO (XO (XO (XO (XO (XO (XO (XO (XO (XO (XO (XO (XI
      XH)))))))))))))))

(** val lex_sheet_prefix_x : text -> (text * text) option **)

let lex_sheet_prefix_x =
  lex_sheet_prefix x_alpha x_alnum x_ws

(** val quote_name_x : text -> text **)

let quote_name_x =
  quote_name x_alpha x_alnum

(** val lex_reference_r1c1_x : text -> (pref * text) option **)

let lex_reference_r1c1_x =
  lex_reference_r1c1 x_alnum
