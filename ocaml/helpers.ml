(* helpers.ml — trusted glue shared by every runner: integer and text conversion between
   OCaml and the extracted datatypes. Textually included after `open Model_cXX`. *)
let rec pos_of_int n = if n = 1 then XH else if n land 1 = 0 then XO (pos_of_int (n lsr 1)) else XI (pos_of_int (n lsr 1))
let z_of_int n = if n = 0 then Z0 else if n > 0 then Zpos (pos_of_int n) else Zneg (pos_of_int (-n))
let rec int_of_pos = function XH -> 1 | XO p -> 2 * int_of_pos p | XI p -> 2 * int_of_pos p + 1
let int_of_z = function Z0 -> 0 | Zpos p -> int_of_pos p | Zneg p -> - (int_of_pos p)

(* text on the wire: code points in decimal joined by '.', the empty text is "-" *)
let text_of_wire s = if s = "-" then [] else List.map (fun x -> z_of_int (int_of_string x)) (String.split_on_char '.' s)
let wire_of_text t = if t = [] then "-" else String.concat "." (List.map (fun z -> string_of_int (int_of_z z)) t)
let zs = fun z -> string_of_int (int_of_z z)
let bs b = if b then "1" else "0"
let zi s = z_of_int (int_of_string s)
let bi s = s = "1"

