(* h_c24.ml — case handler of the C24 (escaping codec) runner (appended after helpers.ml) *)
let out = function Ok t -> "ok " ^ wire_of_text t | Err -> "err" | Panic -> "panic"
let handle f = match f with
  | ["esc"; s] -> wire_of_text (escape (text_of_wire s))
  | ["dec"; t] -> wire_of_text (decode (text_of_wire t))
  | ["xun"; t] -> out (xml_unescape (text_of_wire t))
  | ["rt"; s] -> out (roundtrip (text_of_wire s))
  | _ -> "badcase"
