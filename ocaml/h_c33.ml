(* h_c33.ml — case handler of the C33 runner (appended after helpers.ml): one case line -> one
   observation line, computed by the extracted Syntax/Metadata.v and Syntax/Displace.v *)
let disp_of k ds at delta = match k with
  | "0" -> DRow (zi ds, zi at, zi delta)
  | "1" -> DCol (zi ds, zi at, zi delta)
  | "2" -> DRowMove (zi ds, zi at, zi delta)
  | "3" -> DColMove (zi ds, zi at, zi delta)
  | _ -> DNone

let nat_of_int n = let rec go n acc = if n <= 0 then acc else go (n - 1) (S acc) in go n O

(* the DisplaceData values a block move issues, in execution order (Model::move_rows_action:
   the last line first when delta > 0, the first line first otherwise) *)
let move_lines at n delta =
  let at = int_of_string at and n = int_of_string n and delta = int_of_string delta in
  let l = List.init n (fun j -> at + j) in
  if delta > 0 then List.rev l else l

let handle f = match f with
  (* where a link planted at (row, col) is after the real operation *)
  | ["lnk"; k; at; delta; n; row; col] ->
    let r =
      if k = "2" || k = "3" then link_block_move (k = "2") (zi at) (nat_of_int (int_of_string n)) (zi delta) (zi row, zi col)
      else link_map (disp_of k "0" at delta) (zi row, zi col) in
    (match r with Some (r, c) -> Printf.sprintf "some %s %s" (zs r) (zs c) | None -> "none")
  (* the range of a conditional format on sheet [sh] after the real operation on sheet 0 *)
  | ["cfr"; k; at; delta; n; sh; t] ->
    let t0 = text_of_wire t in
    let out =
      if k = "2" || k = "3" then
        List.fold_left (fun t line -> cf_on_sheet (disp_of k "0" (string_of_int line) delta) (zi sh) t) t0 (move_lines at n delta)
      else cf_on_sheet (disp_of k "0" at delta) (zi sh) t0 in
    wire_of_text out
  (* a rule formula "=<ref>" of a conditional format anchored at (ar, ac): to_string_displaced *)
  | ["cff"; k; at; delta; ar; ac; row; col; absr; absc] ->
    wire_of_text (displace_text (disp_of k "0" at delta) false false (zi ar, zi ac)
      { a_sheet = zi "0"; a_row = zi row; a_col = zi col; a_abs_row = bi absr; a_abs_col = bi absc })
  (* the range of a conditional format after a cut of the area to (ar + dr, ac + dc) *)
  | ["cut"; ar; ac; ah; aw; dr; dc; t] ->
    wire_of_text (cf_cut_sqref (zi ar) (zi ac) (zi ah) (zi aw) (zi dr) (zi dc) (text_of_wire t))
  | _ -> "badcase"
