(* h_c03.ml — replication over the generic machine: the queue entries each step produces are
   grouped into batches at the given cut points and applied to a replica.
   case:  sched <d|n|u|r ...> | <batch sizes in steps ...>     observation: ok / diverged *)
let rec nat_of_int n = if n <= 0 then O else S (nat_of_int (n - 1))
let handle f = match f with
  | "sched" :: rest ->
    let rec split acc = function "|" :: r -> (List.rev acc, r) | x :: r -> split (x :: acc) r | [] -> (List.rev acc, []) in
    let (evs, cuts) = split [] rest in
    let counter = ref 0 in
    let ev s = match s with
      | "u" -> WUndo | "r" -> WRedo | "n" -> WNop
      | _ -> incr counter; WDo (z_of_int !counter) in
    let evs = List.map ev (List.filter (fun s -> s <> "") evs) in
    let cuts = List.map (fun s -> nat_of_int (int_of_string s)) (List.filter (fun s -> s <> "") cuts) in
    let (replica, primary) = replica_after Z0 evs cuts in
    let (replica2, primary2) = flush_after Z0 evs cuts in
    if replica = primary && replica2 = primary2 && primary2 = primary then "ok"
    else if replica = primary then "diverged-flush-model" else "diverged"
  | _ -> "badcase"
