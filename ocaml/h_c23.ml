(* h_c23.ml — case handler of the C23 runner (appended after helpers.ml) *)
let rec nat_of_int n = if n <= 0 then O else S (nat_of_int (n - 1))
let rec int_of_nat = function O -> 0 | S k -> 1 + int_of_nat k
let ns n = string_of_int (int_of_nat n)
let ni s = nat_of_int (int_of_string s)
let onat = function Some f -> "some " ^ ns f | None -> "none"

let handle f = match f with
  | ["lk"; l; t] -> onat (lookup (ni l) (text_of_wire t))
  | ["call"; l; t] -> (match call (ni l) (text_of_wire t) with
      | CNotIdent -> "notident"
      | CFn g -> "fn " ^ ns g
      | CLambda -> "lambda"
      | CSingle -> "single"
      | CAnchor -> "anchor"
      | CNamed n -> "named " ^ wire_of_text n)
  | ["lexe"; l; t] -> (match lex_error (ni l) (text_of_wire t) with
      | Some (e, rest) -> "e " ^ ns e ^ " " ^ wire_of_text rest
      | None -> "spill")
  | ["ebn"; l; t] -> onat (error_by_name (ni l) (text_of_wire t))
  | ["een"; t] -> onat (english_lookup (text_of_wire t))
  | ["prt"; l; e] -> wire_of_text (print_error_literal (ni l) (ni e))
  | ["up"; t] -> wire_of_text (upper (text_of_wire t))
  | _ -> "badcase"
