(* mainloop.ml — one case per line on stdin, one observation per line on stdout *)
let () =
  (try
    while true do
      let line = input_line stdin in
      let f = String.split_on_char ' ' line in
      print_string (try handle f with Stack_overflow -> "stackoverflow" | Not_found -> "notfound"); print_char '\n'
    done
  with End_of_file -> ())
