(* h_c11.ml — case handler of the C11 runner: the lexer cursor model on one string.
   Language data (boolean and error names) arrive in the first case line ("lang ..."), dumped by
   the harness from the built code; the character table of each string (classes and to_uppercase
   of the Rust standard library) arrives with the case. *)
let lang_true = ref []
let lang_false = ref []
let lang_errs = ref []

let rec parse_tab l acc = match l with
  | [] -> List.rev acc
  | c :: cls :: n :: r ->
    let rec take k l a = if k = 0 then (List.rev a, l) else (match l with x :: t -> take (k - 1) t (x :: a) | [] -> failwith "tab") in
    let (up, rest) = take n r [] in
    parse_tab rest ((z_of_int c, (z_of_int cls, List.map z_of_int up)) :: acc)
  | _ -> failwith "tab"

let show toks = String.concat "," (List.map (fun (k, p) -> zs k ^ ":" ^ zs p) toks)

let handle f = match f with
  | "lang" :: t :: fa :: errs ->
    lang_true := text_of_wire t; lang_false := text_of_wire fa; lang_errs := List.map text_of_wire errs; "lang"
  | ["lex"; mode; dec; t; tab] ->
    let tabl = if tab = "-" then [] else parse_tab (List.map int_of_string (String.split_on_char '.' tab)) [] in
    let chars = text_of_wire t in
    (match Exec.lex tabl !lang_errs !lang_true !lang_false (mode = "a1") (zi dec) chars with
     | Ok toks ->
       let ended = (match List.rev toks with (k, _) :: _ -> int_of_z k = 1 | [] -> false) in
       (if ended then "ok " else "loop ") ^ show toks
     | Err -> "fuel"
     | Panic -> "panic")
  | _ -> "badcase"
