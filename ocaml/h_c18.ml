(* h_c18.ml — case handler of the C18 runner (appended after helpers.ml) *)
let loc_tbl : (string, locale) Hashtbl.t = Hashtbl.create 8
let lang_tbl : (string, language) Hashtbl.t = Hashtbl.create 8
let str_of_text t = String.concat "." (List.map (fun z -> string_of_int (int_of_z z)) t)
let () =
  List.iter (fun (k, v) -> Hashtbl.replace loc_tbl (str_of_text k) v) locales;
  List.iter (fun (k, v) -> Hashtbl.replace lang_tbl (str_of_text k) v) languages
let key_of_id s = String.concat "." (List.map (fun c -> string_of_int (Char.code c)) (List.init (String.length s) (String.get s)))
let get_loc s = Hashtbl.find loc_tbl (key_of_id s)
let get_lang s = Hashtbl.find lang_tbl (key_of_id s)
let ascii_of_text t = String.concat "" (List.map (fun z -> String.make 1 (Char.chr (int_of_z z))) t)

let float_of_value = function
  | VNum (p, pct, oneg) ->
      let v = float_of_string (ascii_of_text p.p_lit) in
      let f = (if p.p_neg then -1.0 else 1.0) *. v in
      let f = if pct then f /. 100.0 else f in
      if oneg then -. f else f
  | VSerial n -> float_of_int (int_of_z n)

let cell_line c =
  match c.c_val with
  | VEmpty -> "empty"
  | VNumber v -> Printf.sprintf "num %Lx %s" (Int64.bits_of_float (float_of_value v)) (wire_of_text c.c_fmt)
  | VBool b -> "bool " ^ bs b
  | VError i -> "err " ^ zs i
  | VText s -> (if c.c_qp then "quoted " else "text ") ^ wire_of_text s
  | VFormula _ -> "formula"

let handle f = match f with
  | ["rt"; loc; lang; t; oracle] ->
      let l = get_loc loc and g = get_lang lang in
      let c1 = apply_input l g empty_cell (text_of_wire t) in
      let d = display g (text_of_wire oracle) c1 in
      let c2 = apply_input l g c1 d in
      cell_line c1 ^ " ; " ^ wire_of_text d ^ " ; " ^ cell_line c2
  | ["r2"; loc; lang; fmt; qp; steps; t; oracle] ->
      let l = get_loc loc and g = get_lang lang in
      let c0 = { c_val = VEmpty; c_qp = bi qp; c_fmt = text_of_wire fmt } in
      let stepl = if steps = "_" then [] else List.map text_of_wire (String.split_on_char ',' steps) in
      let cp = List.fold_left (fun c s -> apply_input l g c s) c0 stepl in
      let c1 = apply_input l g cp (text_of_wire t) in
      let d = display g (text_of_wire oracle) c1 in
      let c2 = apply_input l g c1 d in
      cell_line c1 ^ " q" ^ bs c1.c_qp ^ " ; " ^ wire_of_text d ^ " ; " ^ cell_line c2 ^ " q" ^ bs c2.c_qp
  | _ -> "badcase"
