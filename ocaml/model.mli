
val negb : bool -> bool

type nat =
| O
| S of nat

val length : 'a1 list -> nat

val app : 'a1 list -> 'a1 list -> 'a1 list

type comparison =
| Eq
| Lt
| Gt

val compOpp : comparison -> comparison

val add : nat -> nat -> nat

val existsb : ('a1 -> bool) -> 'a1 list -> bool

val forallb : ('a1 -> bool) -> 'a1 list -> bool

type positive =
| XI of positive
| XO of positive
| XH

type z =
| Z0
| Zpos of positive
| Zneg of positive

module Pos :
 sig
  val succ : positive -> positive

  val add : positive -> positive -> positive

  val add_carry : positive -> positive -> positive

  val pred_double : positive -> positive

  val mul : positive -> positive -> positive

  val size : positive -> positive

  val compare_cont : comparison -> positive -> positive -> comparison

  val compare : positive -> positive -> comparison

  val eqb : positive -> positive -> bool

  val iter_op : ('a1 -> 'a1 -> 'a1) -> positive -> 'a1 -> 'a1

  val to_nat : positive -> nat

  val of_succ_nat : nat -> positive
 end

module Z :
 sig
  val double : z -> z

  val succ_double : z -> z

  val pred_double : z -> z

  val pos_sub : positive -> positive -> z

  val add : z -> z -> z

  val opp : z -> z

  val sub : z -> z -> z

  val mul : z -> z -> z

  val compare : z -> z -> comparison

  val leb : z -> z -> bool

  val ltb : z -> z -> bool

  val eqb : z -> z -> bool

  val to_nat : z -> nat

  val of_nat : nat -> z

  val pos_div_eucl : positive -> z -> z * z

  val div_eucl : z -> z -> z * z

  val div : z -> z -> z

  val modulo : z -> z -> z

  val log2 : z -> z
 end

type text = z list

type 'a outcome =
| Ok of 'a
| Err
| Panic

val lAST_COLUMN : z

val lAST_ROW : z

val is_digit : z -> bool

val is_upper : z -> bool

val is_lower : z -> bool

val is_ascii : z -> bool

val dec_val : z -> text -> z

val dec_fuel : nat -> z -> text

val dec_of_nonneg : z -> text

val dec_of_Z : z -> text

val wrap32 : z -> z

val is_valid_column_number : z -> bool

val col_loop : z -> text -> z option

val column_to_number : text -> z outcome

val col_overflows : z -> text -> bool

val n2c_fuel : nat -> z -> text

val number_to_column : z -> text option

val is_valid_column : text -> bool

type pref = { p_row : z; p_col : z; p_abs_col : bool; p_abs_row : bool }

type a1st = { ac : bool; ar : bool; rw : text; cl : text; s2 : bool }

val a1_step : a1st -> z -> a1st option

val a1_run : a1st -> text -> a1st option

val valid_row_str : text -> z option

val a1_init : a1st

val parse_reference_a1 : text -> pref option

val print_a1 : z -> z -> bool -> bool -> text option

val span_digits : text -> text * text

val i32_or_zero : bool -> text -> z

val rc_coord : text -> ((bool * z) * text) option

val parse_reference_r1c1 : text -> pref option

val print_rc : z -> z -> bool -> bool -> text

val consume_integer : text -> (z * text) option

val lex_rc_coord : text -> ((bool * z) * text) option

val lex_reference_r1c1 : (z -> bool) -> text -> (pref * text) option

val double_quotes : text -> text

val skip_ws : (z -> bool) -> text -> text

val ident_char : (z -> bool) -> z -> bool

val ident_start : (z -> bool) -> z -> bool

val name_needs_quoting : (z -> bool) -> (z -> bool) -> text -> bool

val quote_name : (z -> bool) -> (z -> bool) -> text -> text

val span_ident : (z -> bool) -> text -> text * text

val scan_quoted : text -> (text * text) option

val undouble : text -> text

val lex_sheet_prefix :
  (z -> bool) -> (z -> bool) -> (z -> bool) -> text -> (text * text) option

val ascii_alpha : z -> bool

val x_alpha : z -> bool

val x_alnum : z -> bool

val x_ws : z -> bool

val lex_sheet_prefix_x : text -> (text * text) option

val quote_name_x : text -> text

val lex_reference_r1c1_x : text -> (pref * text) option
