(* h_c19.ml — case handler of the C19 runner (appended after helpers.ml) *)
let lookup tbl name =
  let rec go = function
    | [] -> raise Not_found
    | (k, v) :: r -> if k = name then v else go r in
  go tbl

let loc_tbl : (string, locale) Hashtbl.t = Hashtbl.create 8
let lang_tbl : (string, language) Hashtbl.t = Hashtbl.create 8
let str_of_text t = String.concat "." (List.map (fun z -> string_of_int (int_of_z z)) t)
let () =
  List.iter (fun (k, v) -> Hashtbl.replace loc_tbl (str_of_text k) v) locales;
  List.iter (fun (k, v) -> Hashtbl.replace lang_tbl (str_of_text k) v) languages
(* locale ids arrive as plain ASCII words ("en-GB"); the table is keyed by code points *)
let key_of_id s = String.concat "." (List.map (fun c -> string_of_int (Char.code c)) (List.init (String.length s) (String.get s)))
let get_loc s = Hashtbl.find loc_tbl (key_of_id s)
let get_lang s = Hashtbl.find lang_tbl (key_of_id s)

(* ASCII text -> OCaml string (the literal only contains digits . e + -) *)
let ascii_of_text t = String.concat "" (List.map (fun z -> String.make 1 (Char.chr (int_of_z z))) t)

(* the f64 the branch computes: ((sign * parse(lit)) [/ 100.0]) [negated]; serials are exact integers *)
let float_of_value = function
  | VNum (p, pct, oneg) ->
      let v = float_of_string (ascii_of_text p.p_lit) in
      let f = (if p.p_neg then -1.0 else 1.0) *. v in
      let f = if pct then f /. 100.0 else f in
      if oneg then -. f else f
  | VSerial n -> float_of_int (int_of_z n)

let general = text_of_wire "103.101.110.101.114.97.108"

let ui_line l g t =
  match user_input l g t with
  | IEmpty -> "empty"
  | IQuoted s -> "quoted " ^ wire_of_text s
  | IFormula _ -> "formula"
  | INumber r ->
      let f = float_of_value r.r_value in
      Printf.sprintf "num %Lx %s" (Int64.bits_of_float f)
        (wire_of_text (match r.r_fmt with Some f -> f | None -> general))
  | IBool b -> "bool " ^ bs b
  | IError i -> "err " ^ zs i
  | IText s -> "text " ^ wire_of_text s

let sp_line l t =
  let m = parse_formatted_number l t in
  let s = spec_stored l t in
  match known_class l t with
  | Some k when (match m with Some _ -> true | None -> false) -> "known " ^ ascii_of_text k
  | _ ->
    (match m, s with
     | None, None -> "agree none"
     | Some r, Some d -> if agrees r d then "agree num" else "DISAGREE description"
     | Some r, None -> (match r.r_kind with KDate -> "agree date" | _ -> "DISAGREE model-only")
     | None, Some _ -> "DISAGREE spec-only")

let handle f = match f with
  | ["ui"; loc; lang; t] -> ui_line (get_loc loc) (get_lang lang) (text_of_wire t)
  | ["sp"; loc; _; t] -> sp_line (get_loc loc) (text_of_wire t)
  | ["up"; c] -> wire_of_text (upper_char (zi c))
  | ["ws"; c] -> bs (is_ws (zi c))
  | _ -> "badcase"
