(* h_c09.ml — case handler of the C09 runner (appended after helpers.ml).
   Lines of cases/c09.in:
     T fn <lang> <id> <name>          function name table (lang "xl" = Function::to_xlsx_string)
     T err <lang> <idx> <atoms...>    tokens the lexer of <lang> reads from the English spelling of error idx
     T bool <lang> <TRUE> <FALSE>      the boolean literals of the language
     T tf <id true> <id false>        indices of Function::True / Function::False
     T sheet <name> | T ctxsheet <name> | T defname <name> <scope> <formula>
     C <form> <dot> <lang> <row> <col> <ast atoms...>
     FR <row1> <col1> <abs_row1> <abs_col1> <row2> <col2> <abs_row2> <abs_col2>   (stored fields of a range)
   A C line answers "<tokens of print> | <dump of parse of those tokens> | <bad pairs> | <image>".
   The rendering of tokens / trees as atoms is the one of harness/c09/src/nodeio.rs. *)

let fn_names : (string * int, text) Hashtbl.t = Hashtbl.create 4096
let fn_ids : (string * string, int) Hashtbl.t = Hashtbl.create 4096
let err_toks : (string * int, token list) Hashtbl.t = Hashtbl.create 128
let tf = ref (0, 0)
let bools : (string, string * string) Hashtbl.t = Hashtbl.create 8
let sheets : text list ref = ref []
let ctx_sheet : text ref = ref []
let defnames : ((text * z option) * text) list ref = ref []

let up c = if (c >= 97 && c <= 122) || (c >= 224 && c <= 254 && c <> 247) then c - 32 else c
let low c = if (c >= 65 && c <= 90) || (c >= 192 && c <= 222 && c <> 215) then c + 32 else c
let t_upper (t : text) : text = List.map (fun z -> z_of_int (up (int_of_z z))) t
let t_lower (t : text) : text = List.map (fun z -> z_of_int (low (int_of_z z))) t
let key_of (t : text) = wire_of_text t

let opt_text s = if s = "~" then None else Some (text_of_wire s)
let text_opt = function None -> "~" | Some t -> wire_of_text t
let opt_z s = if s = "-1" then None else Some (zi s)
let z_opt = function None -> "-1" | Some z -> zs z
let cmp_of = function "lt" -> CLt | "gt" -> CGt | "eq" -> CEq | "le" -> CLe | "ge" -> CGe | _ -> CNe
let cmp_s = function CLt -> "lt" | CGt -> "gt" | CEq -> "eq" | CLe -> "le" | CGe -> "ge" | CNe -> "ne"
let mkpref r c ar ac = { p_row = zi r; p_col = zi c; p_abs_col = bi ac; p_abs_row = bi ar }

(* ---- tokens <-> atoms ------------------------------------------------------------------ *)
let pref_s p = Printf.sprintf "%s:%s:%s:%s" (zs p.p_row) (zs p.p_col) (bs p.p_abs_row) (bs p.p_abs_col)
let token_atom = function
  | TIllegal -> "ILLEGAL" | TIdent s -> "I:" ^ wire_of_text s | TString s -> "S:" ^ wire_of_text s
  | TNumber n -> "N:" ^ wire_of_text n | TBoolean b -> "B:" ^ bs b | TError e -> "E:" ^ zs e
  | TCompare op -> "c" ^ cmp_s op | TAddition SAdd -> "+" | TAddition SMinus -> "-"
  | TProduct PTimes -> "*" | TProduct PDivide -> "/" | TPower -> "^" | TLParen -> "(" | TRParen -> ")"
  | TColon -> ":" | TSemicolon -> ";" | TLBracket -> "[" | TRBracket -> "]" | TLBrace -> "{" | TRBrace -> "}"
  | TComma -> "," | TBang -> "!" | TPercent -> "%" | TAnd -> "&" | TAt -> "@" | TSpill -> "#" | TBackslash -> "\\"
  | TReference (s, p) -> Printf.sprintf "R:%s:%s" (text_opt s) (pref_s p)
  | TRange (s, p, q) -> Printf.sprintf "G:%s:%s:%s" (text_opt s) (pref_s p) (pref_s q)
let atom_token a =
  let n = String.length a in
  let rest k = String.sub a k (n - k) in
  match a with
  | "ILLEGAL" -> TIllegal | "+" -> TAddition SAdd | "-" -> TAddition SMinus | "*" -> TProduct PTimes
  | "/" -> TProduct PDivide | "^" -> TPower | "(" -> TLParen | ")" -> TRParen | ":" -> TColon | ";" -> TSemicolon
  | "[" -> TLBracket | "]" -> TRBracket | "{" -> TLBrace | "}" -> TRBrace | "," -> TComma | "!" -> TBang
  | "%" -> TPercent | "&" -> TAnd | "@" -> TAt | "#" -> TSpill | "\\" -> TBackslash
  | _ when n > 2 && a.[1] = ':' ->
    (match a.[0] with
     | 'I' -> TIdent (text_of_wire (rest 2)) | 'S' -> TString (text_of_wire (rest 2))
     | 'N' -> TNumber (text_of_wire (rest 2)) | 'B' -> TBoolean (rest 2 = "1") | 'E' -> TError (zi (rest 2))
     | 'R' -> (match String.split_on_char ':' (rest 2) with
               | [s; r; c; ar; ac] -> TReference (opt_text s, mkpref r c ar ac) | _ -> TIllegal)
     | 'G' -> (match String.split_on_char ':' (rest 2) with
               | [s; r; c; ar; ac; r2; c2; ar2; ac2] -> TRange (opt_text s, mkpref r c ar ac, mkpref r2 c2 ar2 ac2) | _ -> TIllegal)
     | _ -> TIllegal)
  | _ when n > 1 && a.[0] = 'c' -> TCompare (cmp_of (rest 1))
  | _ -> TIllegal

(* ---- trees <-> atoms -------------------------------------------------------------------- *)
let rec take_n n f l = if n = 0 then ([], l) else let (x, l1) = f l in let (xs, l2) = take_n (n - 1) f l1 in (x :: xs, l2)
let rec read_ast (l : string list) : ast * string list =
  match l with
  | "B" :: v :: r -> (EBool (bi v), r)
  | "N" :: t :: r -> (ENum (text_of_wire t), r)
  | "S" :: t :: r -> (EStr (text_of_wire t), r)
  | "R" :: s :: i :: row :: col :: ar :: ac :: r -> (ERef (opt_text s, opt_z i, mkpref row col ar ac), r)
  | "G" :: s :: i :: r1 :: c1 :: ar1 :: ac1 :: r2 :: c2 :: ar2 :: ac2 :: r ->
    (ERange (opt_text s, opt_z i, mkpref r1 c1 ar1 ac1, mkpref r2 c2 ar2 ac2), r)
  | ":" :: r -> let (a, r) = read_ast r in let (b, r) = read_ast r in (ERangeOp (a, b), r)
  | "&" :: r -> let (a, r) = read_ast r in let (b, r) = read_ast r in (EConcat (a, b), r)
  | "+" :: r -> let (a, r) = read_ast r in let (b, r) = read_ast r in (ESum (SAdd, a, b), r)
  | "-" :: r -> let (a, r) = read_ast r in let (b, r) = read_ast r in (ESum (SMinus, a, b), r)
  | "*" :: r -> let (a, r) = read_ast r in let (b, r) = read_ast r in (EProd (PTimes, a, b), r)
  | "/" :: r -> let (a, r) = read_ast r in let (b, r) = read_ast r in (EProd (PDivide, a, b), r)
  | "^" :: r -> let (a, r) = read_ast r in let (b, r) = read_ast r in (EPow (a, b), r)
  | "F" :: id :: n :: r -> let (args, r) = take_n (int_of_string n) read_ast r in (EFun (zi id, args), r)
  | "L" :: n :: r ->
    let (ps, r) = take_n (int_of_string n) (fun l -> match l with
        | name :: id :: o :: r -> ({ lp_name = text_of_wire name; lp_id = opt_z id; lp_opt = bi o }, r)
        | _ -> failwith "param") r in
    let (body, r) = read_ast r in (ELambdaDef (ps, body), r)
  | "K" :: r -> let (lam, r) = read_ast r in
    (match r with n :: r -> let (args, r) = take_n (int_of_string n) read_ast r in (ELambdaCall (lam, args), r) | _ -> failwith "K")
  | "U" :: id :: name :: n :: r -> let (args, r) = take_n (int_of_string n) read_ast r in (ENamedFun (opt_z id, text_of_wire name, args), r)
  | "A" :: nr :: r ->
    let read_el l = match l with
      | "b" :: v :: r -> (ABool (bi v), r) | "n" :: t :: r -> (ANum (false, text_of_wire t), r)
      | "m" :: t :: r -> (ANum (true, text_of_wire t), r) | "s" :: t :: r -> (AStr (text_of_wire t), r)
      | "e" :: k :: r -> (AErr (zi k), r) | "z" :: r -> (AEmpty, r) | _ -> failwith "aelem" in
    let read_row l = match l with n :: r -> take_n (int_of_string n) read_el r | _ -> failwith "row" in
    let (rows, r) = take_n (int_of_string nr) read_row r in (EArray rows, r)
  | "D" :: name :: sc :: f :: r -> (EDefName (text_of_wire name, opt_z sc, text_of_wire f), r)
  | "T" :: name :: r -> (ETable (text_of_wire name), r)
  | "V" :: name :: id :: r -> (EVar (text_of_wire name, opt_z id), r)
  | "@" :: a :: r -> let (c, r) = read_ast r in (EAt (bi a, c), r)
  | "#" :: r -> let (c, r) = read_ast r in (ESpill c, r)
  | "neg" :: r -> let (c, r) = read_ast r in (ENeg c, r)
  | "pct" :: r -> let (c, r) = read_ast r in (EPct c, r)
  | "E" :: k :: r -> (EErr (zi k), r)
  | "P" :: r -> (EParseError, r)
  | "_" :: r -> (EEmpty, r)
  | op :: r when String.length op = 3 && op.[0] = 'c' ->
    let (a, r) = read_ast r in let (b, r) = read_ast r in (ECmp (cmp_of (String.sub op 1 2), a, b), r)
  | _ -> failwith "ast"

let rec dump (e : ast) (acc : string list) : string list =
  (* acc is reversed *)
  let pr p acc = bs p.p_abs_col :: bs p.p_abs_row :: zs p.p_col :: zs p.p_row :: acc in
  let args l acc = List.fold_left (fun acc a -> dump a acc) acc l in
  match e with
  | EBool v -> bs v :: "B" :: acc
  | ENum t -> wire_of_text t :: "N" :: acc
  | EStr t -> wire_of_text t :: "S" :: acc
  | ERef (s, i, p) -> pr p (z_opt i :: text_opt s :: "R" :: acc)
  | ERange (s, i, p, q) -> pr q (pr p (z_opt i :: text_opt s :: "G" :: acc))
  | ERangeOp (a, b) -> dump b (dump a (":" :: acc))
  | EConcat (a, b) -> dump b (dump a ("&" :: acc))
  | ESum (SAdd, a, b) -> dump b (dump a ("+" :: acc))
  | ESum (SMinus, a, b) -> dump b (dump a ("-" :: acc))
  | EProd (PTimes, a, b) -> dump b (dump a ("*" :: acc))
  | EProd (PDivide, a, b) -> dump b (dump a ("/" :: acc))
  | EPow (a, b) -> dump b (dump a ("^" :: acc))
  | EFun (f, l) -> args l (string_of_int (List.length l) :: zs f :: "F" :: acc)
  | ELambdaDef (ps, body) ->
    let acc = List.fold_left (fun acc p -> bs p.lp_opt :: z_opt p.lp_id :: wire_of_text p.lp_name :: acc)
        (string_of_int (List.length ps) :: "L" :: acc) ps in
    dump body acc
  | ELambdaCall (lam, l) -> args l (string_of_int (List.length l) :: dump lam ("K" :: acc))
  | ENamedFun (id, name, l) -> args l (string_of_int (List.length l) :: wire_of_text name :: z_opt id :: "U" :: acc)
  | EArray rows ->
    List.fold_left (fun acc row ->
        List.fold_left (fun acc el -> match el with
            | ABool v -> bs v :: "b" :: acc | ANum (false, t) -> wire_of_text t :: "n" :: acc
            | ANum (true, t) -> wire_of_text t :: "m" :: acc | AStr t -> wire_of_text t :: "s" :: acc
            | AErr k -> zs k :: "e" :: acc | AEmpty -> "z" :: acc)
          (string_of_int (List.length row) :: acc) row)
      (string_of_int (List.length rows) :: "A" :: acc) rows
  | EDefName (n, sc, f) -> wire_of_text f :: z_opt sc :: wire_of_text n :: "D" :: acc
  | ETable n -> wire_of_text n :: "T" :: acc
  | EVar (n, id) -> z_opt id :: wire_of_text n :: "V" :: acc
  | EAt (a, c) -> dump c (bs a :: "@" :: acc)
  | ESpill c -> dump c ("#" :: acc)
  | ECmp (op, a, b) -> dump b (dump a (("c" ^ cmp_s op) :: acc))
  | ENeg c -> dump c ("neg" :: acc)
  | EPct c -> dump c ("pct" :: acc)
  | EErr k -> zs k :: "E" :: acc
  | EParseError -> "P" :: acc
  | EEmpty -> "_" :: acc
let dump_s e = String.concat " " (List.rev (dump e []))

let names_of (lang : string) : names =
  { fn_name = (fun id -> try Hashtbl.find fn_names (lang, int_of_z id) with Not_found -> text_of_wire "63");
    fn_lookup = (fun t ->
        (* the xlsx form is read back by the English parser *)
        let l = if lang = "xl" then "en" else lang in
        try Some (z_of_int (Hashtbl.find fn_ids (l, key_of (t_upper t)))) with Not_found -> None);
    bool_of_name = (fun t ->
        let l = if lang = "xl" then "en" else lang in
        (try let (a, b) = Hashtbl.find bools l in
           let k = key_of (t_upper t) in if k = a then Some true else if k = b then Some false else None
         with Not_found -> None));
    fn_true = z_of_int (fst !tf); fn_false = z_of_int (snd !tf);
    nm_lower = t_lower; nm_upper = t_upper;
    err_tokens = (fun k ->
        let l = if lang = "xl" then "en" else lang in
        try Hashtbl.find err_toks (l, int_of_z k) with Not_found -> [TError k]) }

let str_of_text (t : text) = String.concat "" (List.map (fun z -> String.make 1 (Char.chr (int_of_z z))) t)
let pos_name = function PLeft -> "left" | PRight -> "right" | POnly -> "only" | PArg -> "arg"
let pair_name p pos c = Printf.sprintf "%s<-%s:%s" (str_of_text (kind_name p)) (str_of_text (kind_name c)) (pos_name pos)

let handle f = match f with
  | "T" :: "fn" :: lang :: id :: name :: [] ->
    let t = text_of_wire name in
    Hashtbl.replace fn_names (lang, int_of_string id) t;
    if lang <> "xl" then Hashtbl.replace fn_ids (lang, key_of t) (int_of_string id);
    "ok"
  | "T" :: "err" :: lang :: idx :: atoms -> Hashtbl.replace err_toks (lang, int_of_string idx) (List.map atom_token atoms); "ok"
  | "T" :: "bool" :: lang :: a :: b :: [] -> Hashtbl.replace bools lang (a, b); "ok"
  | "T" :: "tf" :: a :: b :: [] -> tf := (int_of_string a, int_of_string b); "ok"
  | "T" :: "sheet" :: name :: [] -> sheets := !sheets @ [text_of_wire name]; "ok"
  | "T" :: "ctxsheet" :: name :: [] -> ctx_sheet := text_of_wire name; "ok"
  | "T" :: "defname" :: name :: sc :: fo :: [] -> defnames := !defnames @ [((text_of_wire name, opt_z sc), text_of_wire fo)]; "ok"
  | "C" :: form :: dot :: lang :: row :: col :: atoms ->
    let (e, rest) = read_ast atoms in
    if rest <> [] then "badcase-trailing" else
    let m = { pm_rc = (form = "rc"); pm_xlsx = (form = "xl"); pm_dot = bi dot; pm_row = zi row; pm_col = zi col } in
    let nm = names_of (if form = "xl" then "xl" else lang) in
    let env = { pe_sheets = !sheets; pe_ctx_sheet = !ctx_sheet; pe_defnames = !defnames; pe_tables = [] } in
    (* C09_POLICY=fixed: the hypothetical printer that also wraps the three associative cases (Printer.full_policy) *)
    let ts = if Sys.getenv_opt "C09_POLICY" = Some "fixed" then print_fixed m nm e else print m nm e in
    let glued = glue m.pm_rc ts in
    let toks = String.concat " " (List.map token_atom glued) in
    let back = match parse m nm env glued with Some (e', _) -> dump_s e' | None -> "P" in
    let bp = String.concat "," (List.map (fun ((p, pos), c) -> pair_name p pos c) (bad_pairs m.pm_xlsx e)) in
    Printf.sprintf "%s | %s | bad=%s" toks back bp
  | "I" :: atoms ->
    (* is the tree one the parser returns for some text? (A1 form, English) *)
    let (e, _) = read_ast atoms in
    let m = { pm_rc = false; pm_xlsx = false; pm_dot = true; pm_row = zi "3"; pm_col = zi "3" } in
    let env = { pe_sheets = !sheets; pe_ctx_sheet = !ctx_sheet; pe_defnames = !defnames; pe_tables = [] } in
    bs (image m (names_of "en") env e)
  | ["FR"; r1; c1; ar1; ac1; r2; c2; ar2; ac2] ->
    (* does the A1 text of this range omit the row numbers / the column letters? (Syntax/FullRange.v) *)
    let p1 = mkpref r1 c1 ar1 ac1 and p2 = mkpref r2 c2 ar2 ac2 in
    bs (full_row p1 p2) ^ " " ^ bs (full_column p1 p2)
  | _ -> "badcase"
