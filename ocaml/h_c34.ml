(* h_c34.ml — case handler of the C34 runner (appended after helpers.ml)
   cyc <formula> <start> <end> <ntok> (<isref> <tok_start> <tok_end>)*  ->  ok <text> <s> <e> | err | panic
   cls <code point>                                                      ->  is_whitespace
   ep <text> / tt <text>: cycle_endpoint / cycle_token_text (used by hand, not by the harness) *)
let rec toks_of = function
  | k :: s :: e :: r -> { t_ref = bi k; t_start = zi s; t_end = zi e } :: toks_of r
  | _ -> []

let handle f = match f with
  | "cyc" :: w :: s :: e :: n :: rest ->
      let toks = toks_of rest in
      if List.length toks <> int_of_string n then "badcase" else
      (match cycle_reference_x (text_of_wire w) (zi s) (zi e) toks with
       | Ok ((t, a), b) -> Printf.sprintf "ok %s %s %s" (wire_of_text t) (zs a) (zs b)
       | Err -> "err"
       | Panic -> "panic")
  | ["cls"; c] -> bs (f4_ws (zi c))
  | ["ep"; t] -> wire_of_text (cycle_endpoint (text_of_wire t))
  | ["tt"; t] -> wire_of_text (cycle_token_text_x (text_of_wire t))
  | _ -> "badcase"
