(* h_c32.ml — case handler of the C32 runner (appended after helpers.ml).
   Lines of cases/c32.in:
     S <old> <scope> <new> <new scope> <ctx sheet> <env> | <tokens>   (see the handler)
     R <old name> <scope | -1> <new name> | <ast atoms...>
   a formula tree as it was before update_defined_name renamed <old name> (scope) to <new name>; answer =
   dump of RenameName.rename (Localize.lower) old scope new tree, the formula field of DefinedNameKind
   leaves blanked (the re-parse refreshes it).  Atoms as in harness/c09/src/nodeio.rs. *)

let opt_text s = if s = "~" then None else Some (text_of_wire s)
let text_opt = function None -> "~" | Some t -> wire_of_text t
let opt_z s = if s = "-1" then None else Some (zi s)
let z_opt = function None -> "-1" | Some z -> zs z
let cmp_of = function "lt" -> CLt | "gt" -> CGt | "eq" -> CEq | "le" -> CLe | "ge" -> CGe | _ -> CNe
let cmp_s = function CLt -> "lt" | CGt -> "gt" | CEq -> "eq" | CLe -> "le" | CGe -> "ge" | CNe -> "ne"
let mkpref r c ar ac = { p_row = zi r; p_col = zi c; p_abs_col = bi ac; p_abs_row = bi ar }

(* ---- trees <-> atoms -------------------------------------------------------------------- *)
let rec take_n n f l = if n = 0 then ([], l) else let (x, l1) = f l in let (xs, l2) = take_n (n - 1) f l1 in (x :: xs, l2)
let rec read_ast (l : string list) : ast * string list =
  match l with
  | "B" :: v :: r -> (EBool (bi v), r)
  | "N" :: t :: r -> (ENum (text_of_wire t), r)
  | "S" :: t :: r -> (EStr (text_of_wire t), r)
  | "R" :: s :: i :: row :: col :: ar :: ac :: r -> (ERef (opt_text s, opt_z i, mkpref row col ar ac), r)
  | "G" :: s :: i :: r1 :: c1 :: ar1 :: ac1 :: r2 :: c2 :: ar2 :: ac2 :: r ->
    (ERange (opt_text s, opt_z i, mkpref r1 c1 ar1 ac1, mkpref r2 c2 ar2 ac2), r)
  | ":" :: r -> let (a, r) = read_ast r in let (b, r) = read_ast r in (ERangeOp (a, b), r)
  | "&" :: r -> let (a, r) = read_ast r in let (b, r) = read_ast r in (EConcat (a, b), r)
  | "+" :: r -> let (a, r) = read_ast r in let (b, r) = read_ast r in (ESum (SAdd, a, b), r)
  | "-" :: r -> let (a, r) = read_ast r in let (b, r) = read_ast r in (ESum (SMinus, a, b), r)
  | "*" :: r -> let (a, r) = read_ast r in let (b, r) = read_ast r in (EProd (PTimes, a, b), r)
  | "/" :: r -> let (a, r) = read_ast r in let (b, r) = read_ast r in (EProd (PDivide, a, b), r)
  | "^" :: r -> let (a, r) = read_ast r in let (b, r) = read_ast r in (EPow (a, b), r)
  | "F" :: id :: n :: r -> let (args, r) = take_n (int_of_string n) read_ast r in (EFun (zi id, args), r)
  | "L" :: n :: r ->
    let (ps, r) = take_n (int_of_string n) (fun l -> match l with
        | name :: id :: o :: r -> ({ lp_name = text_of_wire name; lp_id = opt_z id; lp_opt = bi o }, r)
        | _ -> failwith "param") r in
    let (body, r) = read_ast r in (ELambdaDef (ps, body), r)
  | "K" :: r -> let (lam, r) = read_ast r in
    (match r with n :: r -> let (args, r) = take_n (int_of_string n) read_ast r in (ELambdaCall (lam, args), r) | _ -> failwith "K")
  | "U" :: id :: name :: n :: r -> let (args, r) = take_n (int_of_string n) read_ast r in (ENamedFun (opt_z id, text_of_wire name, args), r)
  | "A" :: nr :: r ->
    let read_el l = match l with
      | "b" :: v :: r -> (ABool (bi v), r) | "n" :: t :: r -> (ANum (false, text_of_wire t), r)
      | "m" :: t :: r -> (ANum (true, text_of_wire t), r) | "s" :: t :: r -> (AStr (text_of_wire t), r)
      | "e" :: k :: r -> (AErr (zi k), r) | "z" :: r -> (AEmpty, r) | _ -> failwith "aelem" in
    let read_row l = match l with n :: r -> take_n (int_of_string n) read_el r | _ -> failwith "row" in
    let (rows, r) = take_n (int_of_string nr) read_row r in (EArray rows, r)
  | "D" :: name :: sc :: f :: r -> (EDefName (text_of_wire name, opt_z sc, text_of_wire f), r)
  | "T" :: name :: r -> (ETable (text_of_wire name), r)
  | "V" :: name :: id :: r -> (EVar (text_of_wire name, opt_z id), r)
  | "@" :: a :: r -> let (c, r) = read_ast r in (EAt (bi a, c), r)
  | "#" :: r -> let (c, r) = read_ast r in (ESpill c, r)
  | "neg" :: r -> let (c, r) = read_ast r in (ENeg c, r)
  | "pct" :: r -> let (c, r) = read_ast r in (EPct c, r)
  | "E" :: k :: r -> (EErr (zi k), r)
  | "P" :: r -> (EParseError, r)
  | "_" :: r -> (EEmpty, r)
  | op :: r when String.length op = 3 && op.[0] = 'c' ->
    let (a, r) = read_ast r in let (b, r) = read_ast r in (ECmp (cmp_of (String.sub op 1 2), a, b), r)
  | _ -> failwith "ast"

let rec dump (e : ast) (acc : string list) : string list =
  (* acc is reversed *)
  let pr p acc = bs p.p_abs_col :: bs p.p_abs_row :: zs p.p_col :: zs p.p_row :: acc in
  let args l acc = List.fold_left (fun acc a -> dump a acc) acc l in
  match e with
  | EBool v -> bs v :: "B" :: acc
  | ENum t -> wire_of_text t :: "N" :: acc
  | EStr t -> wire_of_text t :: "S" :: acc
  | ERef (s, i, p) -> pr p (z_opt i :: text_opt s :: "R" :: acc)
  | ERange (s, i, p, q) -> pr q (pr p (z_opt i :: text_opt s :: "G" :: acc))
  | ERangeOp (a, b) -> dump b (dump a (":" :: acc))
  | EConcat (a, b) -> dump b (dump a ("&" :: acc))
  | ESum (SAdd, a, b) -> dump b (dump a ("+" :: acc))
  | ESum (SMinus, a, b) -> dump b (dump a ("-" :: acc))
  | EProd (PTimes, a, b) -> dump b (dump a ("*" :: acc))
  | EProd (PDivide, a, b) -> dump b (dump a ("/" :: acc))
  | EPow (a, b) -> dump b (dump a ("^" :: acc))
  | EFun (f, l) -> args l (string_of_int (List.length l) :: zs f :: "F" :: acc)
  | ELambdaDef (ps, body) ->
    let acc = List.fold_left (fun acc p -> bs p.lp_opt :: z_opt p.lp_id :: wire_of_text p.lp_name :: acc)
        (string_of_int (List.length ps) :: "L" :: acc) ps in
    dump body acc
  | ELambdaCall (lam, l) -> args l (string_of_int (List.length l) :: dump lam ("K" :: acc))
  | ENamedFun (id, name, l) -> args l (string_of_int (List.length l) :: wire_of_text name :: z_opt id :: "U" :: acc)
  | EArray rows ->
    List.fold_left (fun acc row ->
        List.fold_left (fun acc el -> match el with
            | ABool v -> bs v :: "b" :: acc | ANum (false, t) -> wire_of_text t :: "n" :: acc
            | ANum (true, t) -> wire_of_text t :: "m" :: acc | AStr t -> wire_of_text t :: "s" :: acc
            | AErr k -> zs k :: "e" :: acc | AEmpty -> "z" :: acc)
          (string_of_int (List.length row) :: acc) row)
      (string_of_int (List.length rows) :: "A" :: acc) rows
  | EDefName (n, sc, f) -> "-" :: z_opt sc :: wire_of_text n :: "D" :: acc
  | ETable n -> wire_of_text n :: "T" :: acc
  | EVar (n, id) -> z_opt id :: wire_of_text n :: "V" :: acc
  | EAt (a, c) -> dump c (bs a :: "@" :: acc)
  | ESpill c -> dump c ("#" :: acc)
  | ECmp (op, a, b) -> dump b (dump a (("c" ^ cmp_s op) :: acc))
  | ENeg c -> dump c ("neg" :: acc)
  | EPct c -> dump c ("pct" :: acc)
  | EErr k -> zs k :: "E" :: acc
  | EParseError -> "P" :: acc
  | EEmpty -> "_" :: acc
let dump_s e = String.concat " " (List.rev (dump e []))


(* ---- tokens <-> atoms ------------------------------------------------------------------ *)
let pref_s p = Printf.sprintf "%s:%s:%s:%s" (zs p.p_row) (zs p.p_col) (bs p.p_abs_row) (bs p.p_abs_col)
let token_atom = function
  | TIllegal -> "ILLEGAL" | TIdent s -> "I:" ^ wire_of_text s | TString s -> "S:" ^ wire_of_text s
  | TNumber n -> "N:" ^ wire_of_text n | TBoolean b -> "B:" ^ bs b | TError e -> "E:" ^ zs e
  | TCompare op -> "c" ^ cmp_s op | TAddition SAdd -> "+" | TAddition SMinus -> "-"
  | TProduct PTimes -> "*" | TProduct PDivide -> "/" | TPower -> "^" | TLParen -> "(" | TRParen -> ")"
  | TColon -> ":" | TSemicolon -> ";" | TLBracket -> "[" | TRBracket -> "]" | TLBrace -> "{" | TRBrace -> "}"
  | TComma -> "," | TBang -> "!" | TPercent -> "%" | TAnd -> "&" | TAt -> "@" | TSpill -> "#" | TBackslash -> "\\"
  | TReference (s, p) -> Printf.sprintf "R:%s:%s" (text_opt s) (pref_s p)
  | TRange (s, p, q) -> Printf.sprintf "G:%s:%s:%s" (text_opt s) (pref_s p) (pref_s q)
let atom_token a =
  let n = String.length a in
  let rest k = String.sub a k (n - k) in
  match a with
  | "ILLEGAL" -> TIllegal | "+" -> TAddition SAdd | "-" -> TAddition SMinus | "*" -> TProduct PTimes
  | "/" -> TProduct PDivide | "^" -> TPower | "(" -> TLParen | ")" -> TRParen | ":" -> TColon | ";" -> TSemicolon
  | "[" -> TLBracket | "]" -> TRBracket | "{" -> TLBrace | "}" -> TRBrace | "," -> TComma | "!" -> TBang
  | "%" -> TPercent | "&" -> TAnd | "@" -> TAt | "#" -> TSpill | "\\" -> TBackslash
  | _ when n > 2 && a.[1] = ':' ->
    (match a.[0] with
     | 'I' -> TIdent (text_of_wire (rest 2)) | 'S' -> TString (text_of_wire (rest 2))
     | 'N' -> TNumber (text_of_wire (rest 2)) | 'B' -> TBoolean (rest 2 = "1") | 'E' -> TError (zi (rest 2))
     | 'R' -> (match String.split_on_char ':' (rest 2) with
               | [s; r; c; ar; ac] -> TReference (opt_text s, mkpref r c ar ac) | _ -> TIllegal)
     | 'G' -> (match String.split_on_char ':' (rest 2) with
               | [s; r; c; ar; ac; r2; c2; ar2; ac2] -> TRange (opt_text s, mkpref r c ar ac, mkpref r2 c2 ar2 ac2) | _ -> TIllegal)
     | _ -> TIllegal)
  | _ when n > 1 && a.[0] = 'c' -> TCompare (cmp_of (rest 1))
  | _ -> TIllegal


let rec take k l = if k = 0 then ([], l) else match l with x :: r -> let (a, b) = take (k - 1) r in (x :: a, b) | [] -> failwith "take"
let nm_en = lazy (names_of O)
let rec split_bar acc = function
  | "|" :: r -> (List.rev acc, r)
  | x :: r -> split_bar (x :: acc) r
  | [] -> (List.rev acc, [])

let handle f = match f with
  | "R" :: old :: sc :: nw :: rest ->
    let (_, atoms) = split_bar [] rest in
    let (e, rest') = read_ast atoms in
    if rest' <> [] then "badcase-trailing" else
    dump_s (rename lower (text_of_wire old) (opt_z sc) (text_of_wire nw) e)
  | "S" :: old :: sc :: nw :: nsc :: ctx :: rest ->
    (* one update_defined_name(old, sc, nw, nsc, _) on a stored formula of sheet ctx: environment BEFORE the update and the
       real R1C1 lexer's tokens of the stored text before; answer: tokens of RenameName.update_name_in_formula *)
    let (envf, toks) = split_bar [] rest in
    (match envf with
     | n :: r ->
       let (sh, r) = take (int_of_string n) r in
       (match r with
        | k :: r ->
          let (dn, _) = take (3 * int_of_string k) r in
          let rec defs = function
            | name :: s :: fo :: tl -> ((text_of_wire name, opt_z s), text_of_wire fo) :: defs tl
            | _ -> [] in
          let env = { pe_sheets = List.map text_of_wire sh; pe_ctx_sheet = text_of_wire ctx; pe_defnames = defs dn; pe_tables = [] } in
          let out = update_name_in_formula (Lazy.force nm_en) env lower (text_of_wire old) (opt_z sc) (text_of_wire nw) (opt_z nsc) (List.map atom_token toks) in
          String.concat " " (List.map token_atom (glue true out))
        | [] -> "badcase-env")
     | [] -> "badcase-env")
  | _ -> "badcase"
