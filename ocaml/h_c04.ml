(* h_c04.ml — predicted observation of a failing call from the discipline table (UserModel/AtomicTable.v)
   case:  call <kind/label> err|accepted *)
let coq_string (s : Stdlib.String.t) =
  let rec go i = if i >= Stdlib.String.length s then EmptyString else
    let c = Char.code s.[i] in
    let b k = (c lsr k) land 1 = 1 in
    String (Ascii (b 0, b 1, b 2, b 3, b 4, b 5, b 6, b 7), go (i + 1)) in
  go 0
let rec ocaml_string = function
  | EmptyString -> ""
  | String (Ascii (b0, b1, b2, b3, b4, b5, b6, b7), r) ->
    let v x k = if x then 1 lsl k else 0 in
    Stdlib.String.make 1 (Char.chr (v b0 0 + v b1 1 + v b2 2 + v b3 3 + v b4 4 + v b5 5 + v b6 6 + v b7 7)) ^ ocaml_string r
let handle f = match f with
  | ["call"; key; "accepted"] -> "accepted"
  | ["call"; key; "err"] -> ocaml_string (predict (coq_string key))
  | _ -> "badcase"
