(* h_c31.ml — case handler of the C31 runner (appended after helpers.ml).
   Values are integers: numbers are themselves, -1 = #SPILL!, -2 = #CALC!, -3 = Unevaluated,
   -9 = anything else; values of cells that are neither dynamic anchors nor spill cells are 0.
   wire:  dflt  = nr (r cf s)*nr nc (min max s)*nc
          sheet = n (r c s K ...)*n   with K = E | V | F f | D f w h v | C f w h | S ar ac v
*)
let spill_err = z_of_int (-1)
let calc_err = z_of_int (-2)
let uneval = z_of_int (-3)

let take_n n parse toks =
  let rec go n acc toks = if n = 0 then (List.rev acc, toks) else
    let (x, toks) = parse toks in go (n - 1) (x :: acc) toks in
  go n [] toks

let parse_dflt toks =
  match toks with
  | nr :: toks ->
    let (rows, toks) = take_n (int_of_string nr) (function r :: cf :: s :: t -> ((int_of_string r, cf = "1", int_of_string s), t) | _ -> failwith "dflt") toks in
    (match toks with
     | nc :: toks ->
       let (cols, toks) = take_n (int_of_string nc) (function a :: b :: s :: t -> ((int_of_string a, int_of_string b, int_of_string s), t) | _ -> failwith "dflt") toks in
       let f (p : pos) =
         let (r, c) = (int_of_z (fst p), int_of_z (snd p)) in
         let rec rowstyle = function
           | [] -> None
           | (r', cf, s) :: rest -> if r' = r then (if cf then Some s else None) else rowstyle rest in
         match rowstyle rows with
         | Some s -> z_of_int s
         | None ->
           let rec colstyle = function
             | [] -> 0
             | (a, b, s) :: rest -> if c >= a && c <= b then s else colstyle rest in
           z_of_int (colstyle cols) in
       (f, toks)
     | _ -> failwith "dflt")
  | _ -> failwith "dflt"

let parse_cell toks =
  match toks with
  | r :: c :: s :: k :: t ->
    let p = (zi r, zi c) in
    let mk kd = (p, { c_s = zi s; c_k = kd }) in
    (match k, t with
     | "E", t -> (mk KEmpty, t)
     | "V", t -> (mk (KValue Z0), t)
     | "F", f :: t -> (mk (KFormula (zi f, Z0)), t)
     | "D", f :: w :: h :: v :: t -> (mk (KDyn (zi f, zi w, zi h, zi v)), t)
     | "C", f :: w :: h :: t -> (mk (KCse (zi f, zi w, zi h, Z0)), t)
     | "S", ar :: ac :: v :: t -> (mk (KSpill (zi ar, zi ac, zi v)), t)
     | _ -> failwith "cell")
  | _ -> failwith "cell"

let parse_sheet toks =
  match toks with
  | n :: toks -> take_n (int_of_string n) parse_cell toks
  | _ -> failwith "sheet"

let cell_s ((p, c) : pos * z cell) =
  let head = Printf.sprintf "%s %s %s" (zs (fst p)) (zs (snd p)) (zs c.c_s) in
  match c.c_k with
  | KEmpty -> head ^ " E"
  | KValue _ -> head ^ " V"
  | KFormula (f, _) -> Printf.sprintf "%s F %s" head (zs f)
  | KDyn (f, w, h, v) -> Printf.sprintf "%s D %s %s %s %s" head (zs f) (zs w) (zs h) (zs v)
  | KCse (f, w, h, _) -> Printf.sprintf "%s C %s %s %s" head (zs f) (zs w) (zs h)
  | KSpill (ar, ac, v) -> Printf.sprintf "%s S %s %s %s" head (zs ar) (zs ac) (zs v)

let sheet_s (sh : z sheet) =
  let l = List.sort (fun ((p, _) : pos * z cell) ((q, _) : pos * z cell) ->
      compare (int_of_z (fst p), int_of_z (snd p)) (int_of_z (fst q), int_of_z (snd q))) sh in
  String.concat " " (string_of_int (List.length l) :: List.map cell_s l)

let out_s = function Ok sh -> "ok " ^ sheet_s sh | Err -> "err" | Panic -> "panic"

(* SEQUENCE(h, w): 1 .. h*w in row-major order *)
let sequence h w = List.init h (fun i -> List.init w (fun j -> z_of_int (i * w + j + 1)))

let handle f = match f with
  | "ev" :: toks ->
    let (dflt, toks) = parse_dflt toks in
    let (sh, toks) = parse_sheet toks in
    (match toks with
     | k :: toks ->
       let (anchors, _) = take_n (int_of_string k) (function r :: c :: h :: w :: t ->
           (((zi r, zi c), RArray (sequence (int_of_string h) (int_of_string w))), t) | _ -> failwith "anchor") toks in
       out_s (eval_anchors spill_err calc_err dflt anchors sh)
     | _ -> "badcase")
  | "in" :: toks ->
    let (dflt, toks) = parse_dflt toks in
    let (sh, toks) = parse_sheet toks in
    (match toks with
     | [r; c] -> out_s (input_value uneval dflt (zi r, zi c) Z0 sh)
     | _ -> "badcase")
  | "inv" :: toks ->
    let (sh, _) = parse_sheet toks in
    Printf.sprintf "%s %s" (bs (spill_exact_b sh)) (bs (spill_full_b sh))
  | _ -> "badcase"
