(* h_c21.ml — case handler of the C21 runner (appended after helpers.ml).
   Line formats: see harness/c21/src/main.rs.  A hash line ("rs a b" / "rf a b") folds the
   per-serial tuples of the extracted model with the same mixing function as the harness. *)
let mask = (1 lsl 62) - 1
let hstep h v = ((h * 1000003) + v + 7) land mask
let term = 0x7fff
let wtypes = [1; 2; 3; 11; 12; 13; 14; 15; 16; 17; 0; 4]

let fres_code = function FNum v -> int_of_z v | FErrNum -> -1 | FErrValue -> -2 | FPanic -> -3

(* [y; m; d; ts; text code points...] or [-1; fmt...] *)
let direct_tuple n =
  let z = z_of_int n in
  let fmt = match fmt_iso z with Ok t -> List.map int_of_z t | _ -> [-1] in
  match of_serial z with
  | Ok ((y, m), d) ->
    let ts = (match to_serial y m d with Ok s -> int_of_z s | _ -> -1) in
    [int_of_z y; int_of_z m; int_of_z d; ts] @ fmt
  | _ -> (-1) :: fmt

let direct_line t =
  let txt v = if v = [-1] then "err" else if v = [] then "-" else String.concat "." (List.map string_of_int v) in
  match t with
  | -1 :: rest -> "err " ^ txt rest
  | y :: m :: d :: ts :: rest ->
    Printf.sprintf "%d %d %d %s %s" y m d (if ts < 0 then "err" else string_of_int ts) (txt rest)
  | _ -> "badtuple"

(* YEAR MONTH DAY WEEKDAY(n) WEEKDAY(n,t) x 12 DATE(Y,M,D) TYPED *)
let func_tuple n =
  let z = z_of_int n in
  let base = [fres_code (fn_year z); fres_code (fn_month z); fres_code (fn_day z); fres_code (fn_weekday z (z_of_int 1))]
             @ List.map (fun t -> fres_code (fn_weekday z (z_of_int t))) wtypes in
  match of_serial z with
  | Ok ((y, m), d) ->
    let typed = (match parse_iso (iso_text ((y, m), d)) with Ok s -> int_of_z s | _ -> -7) in
    base @ [fres_code (fn_date y m d); typed]
  | _ -> base @ [0; 0]

let hash_range f a b =
  let h = ref 0 in
  for n = a to b do
    List.iter (fun v -> h := hstep !h v) (f n);
    h := hstep !h term
  done;
  !h

let handle f = match f with
  | ["s"; n] -> direct_line (direct_tuple (int_of_string n))
  | ["rs"; a; b] -> string_of_int (hash_range direct_tuple (int_of_string a) (int_of_string b))
  | ["f"; n] -> String.concat " " (List.map string_of_int (func_tuple (int_of_string n)))
  | ["rf"; a; b] -> string_of_int (hash_range func_tuple (int_of_string a) (int_of_string b))
  | ["d"; y; m; d] ->
    (match fn_date (zi y) (zi m) (zi d) with
     | FNum v -> "num " ^ zs v | FErrNum -> "errnum" | FErrValue -> "errvalue" | FPanic -> "panic")
  | ["ts"; y; m; d] -> (match to_serial (zi y) (zi m) (zi d) with Ok s -> "ok " ^ zs s | _ -> "err")
  | ["iso"; t] -> (match parse_iso (text_of_wire t) with Ok s -> "num " ^ zs s | _ -> "other")
  | _ -> "badcase"
