(* h_c02.ml — the generic history machine at snapshot identifiers (UserModel/HistoryId.v).
   case:  hist d<id> u r ...      observation:  <state id>:<can_undo>:<can_redo> per event *)
let ev s = if s = "u" then WUndo else if s = "r" then WRedo else if s = "n" then WNop
  else WDo (z_of_int (int_of_string (String.sub s 1 (String.length s - 1))))
let handle f = match f with
  | "hist" :: evs ->
    let evs = List.filter (fun s -> s <> "") evs in
    let obs = wire_run (id_init Z0) (List.map ev evs) in
    String.concat " " (List.map (fun ((s, cu), cr) -> Printf.sprintf "%s:%s:%s" (zs s) (bs cu) (bs cr)) obs)
  | _ -> "badcase"
