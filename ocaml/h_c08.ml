(* h_c08.ml — identical to h_c06.ml (the evaluator runners share one handler; copied because build_runner.sh takes one file per property) *)
(* h_c06.ml — case handler of the evaluator runners (C05–C08 share it by copy).
   Trusted glue: the NumOps instance over native doubles, the wire parser and printer.
   NumOps instance: + - * / are OCaml's IEEE doubles, pow is C pow (as Rust's powf), min/max,
   round and the 15-digit comparison re-implement the Rust expressions of the engine;
   number -> text re-implements Rust's Display for f64 (shortest round-trip digits, positional);
   text -> number: Rust's f64 grammar is checked here and the digits converted by strtod;
   everything else (dates, currencies, percentages: parse_formatted_number) comes from a table
   produced by the Rust side (VH_CASTS); a text that is not in the table makes the case answer
   "ask <text>" and the driver extends the table and re-runs. *)
exception Ask of string

let str_of_text (t : z list) : string =
  let b = Buffer.create 16 in
  List.iter (fun z -> let c = int_of_z z in
    (* UTF-8 encode *)
    if c < 0x80 then Buffer.add_char b (Char.chr c)
    else if c < 0x800 then (Buffer.add_char b (Char.chr (0xC0 lor (c lsr 6))); Buffer.add_char b (Char.chr (0x80 lor (c land 0x3F))))
    else if c < 0x10000 then (Buffer.add_char b (Char.chr (0xE0 lor (c lsr 12))); Buffer.add_char b (Char.chr (0x80 lor ((c lsr 6) land 0x3F))); Buffer.add_char b (Char.chr (0x80 lor (c land 0x3F))))
    else (Buffer.add_char b (Char.chr (0xF0 lor (c lsr 18))); Buffer.add_char b (Char.chr (0x80 lor ((c lsr 12) land 0x3F))); Buffer.add_char b (Char.chr (0x80 lor ((c lsr 6) land 0x3F))); Buffer.add_char b (Char.chr (0x80 lor (c land 0x3F))))) t;
  Buffer.contents b
let text_of_ascii (s : string) : z list = List.init (String.length s) (fun i -> z_of_int (Char.code s.[i]))

let float_of_bits (h : string) : float = if h = "NaN" then Float.nan else Int64.float_of_bits (Int64.of_string ("0x" ^ h))
let bits_of_float (f : float) : string = if Float.is_nan f then "NaN" else Printf.sprintf "%016Lx" (Int64.bits_of_float f)

(* ---- Rust's f64::from_str grammar ---- *)
let rust_float_syntax (s : string) : bool =
  let n = String.length s in
  let i = ref 0 in
  if !i < n && (s.[!i] = '+' || s.[!i] = '-') then incr i;
  let rest = String.lowercase_ascii (String.sub s !i (n - !i)) in
  if rest = "inf" || rest = "infinity" || rest = "nan" then true
  else begin
    let digits = ref 0 in
    while !i < n && s.[!i] >= '0' && s.[!i] <= '9' do incr i; incr digits done;
    if !i < n && s.[!i] = '.' then begin incr i; while !i < n && s.[!i] >= '0' && s.[!i] <= '9' do incr i; incr digits done end;
    if !digits = 0 then false
    else if !i = n then true
    else if s.[!i] = 'e' || s.[!i] = 'E' then begin
      incr i;
      if !i < n && (s.[!i] = '+' || s.[!i] = '-') then incr i;
      let ed = ref 0 in
      while !i < n && s.[!i] >= '0' && s.[!i] <= '9' do incr i; incr ed done;
      !ed > 0 && !i = n
    end else false
  end
let rust_parse (s : string) : float option =
  if rust_float_syntax s then
    let l = String.lowercase_ascii s in
    let body = if String.length l > 0 && (l.[0] = '+' || l.[0] = '-') then String.sub l 1 (String.length l - 1) else l in
    if body = "nan" then Some Float.nan
    else if body = "inf" || body = "infinity" then Some (if l.[0] = '-' then Float.neg_infinity else Float.infinity)
    else Some (float_of_string s)
  else None
let is_rust_ws c = c = ' ' || c = '\t' || c = '\n' || c = '\r' || c = '\x0b' || c = '\x0c'
let rust_trim (s : string) : string =
  let n = String.length s in
  let i = ref 0 and j = ref n in
  while !i < n && is_rust_ws s.[!i] do incr i done;
  while !j > !i && is_rust_ws s.[!j - 1] do decr j done;
  String.sub s !i (!j - !i)

(* ---- the cast table from the Rust side ---- *)
let casts : (string, float option) Hashtbl.t = Hashtbl.create 64
let () =
  match Sys.getenv_opt "VH_CASTS" with
  | None -> ()
  | Some path ->
    (try
      let ic = open_in path in
      (try while true do
        let l = input_line ic in
        match String.split_on_char ' ' l with
        | [w; a; _] -> Hashtbl.replace casts w (if a = "none" then None else Some (float_of_bits a))
        | _ -> ()
      done with End_of_file -> close_in ic)
    with Sys_error _ -> ())
let cast_number (t : z list) : float option =
  let s = str_of_text t in
  match rust_parse (rust_trim s) with
  | Some f -> Some f
  | None ->
    let w = wire_of_text t in
    (match Hashtbl.find_opt casts w with
     | Some r -> r
     | None ->
       (* a text without any digit is never a formatted number *)
       let has_digit = ref false in String.iter (fun c -> if c >= '0' && c <= '9' then has_digit := true) s;
       if not !has_digit then None else raise (Ask w))

(* ---- Rust's Display for f64 ---- *)
let rust_display (f : float) : string =
  if Float.is_nan f then "NaN"
  else if f = Float.infinity then "inf" else if f = Float.neg_infinity then "-inf"
  else if f = 0.0 then (if 1.0 /. f < 0.0 then "-0" else "0")
  else begin
    (* shortest digits that round-trip *)
    let rec find p = let s = Printf.sprintf "%.*e" (p - 1) f in if p >= 17 || float_of_string s = f then s else find (p + 1) in
    let s = find 1 in
    (* s = [-]d[.ddd]e[+-]XX *)
    let neg = s.[0] = '-' in
    let s = if neg then String.sub s 1 (String.length s - 1) else s in
    let epos = String.index s 'e' in
    let mant = String.sub s 0 epos in
    let exp = int_of_string (String.sub s (epos + 1) (String.length s - epos - 1)) in
    let digits = String.concat "" (String.split_on_char '.' mant) in
    (* strip trailing zeros of the digit string *)
    let dl = ref (String.length digits) in
    while !dl > 1 && digits.[!dl - 1] = '0' do decr dl done;
    let digits = String.sub digits 0 !dl in
    let nd = String.length digits in
    let body =
      if exp >= nd - 1 then digits ^ String.make (exp - (nd - 1)) '0'
      else if exp >= 0 then String.sub digits 0 (exp + 1) ^ "." ^ String.sub digits (exp + 1) (nd - exp - 1)
      else "0." ^ String.make (-exp - 1) '0' ^ digits in
    (if neg then "-" else "") ^ body
  end

let p15 (f : float) : float = if Float.is_finite f then float_of_string (Printf.sprintf "%.14e" f) else f
(* value.min(result) / value.max(result) as compiled for x86-64: on a tie (-0 vs 0) both return self *)
let rust_min (a : float) (b : float) : float = if Float.is_nan a then b else if Float.is_nan b then a else if b < a then b else a
let rust_max (a : float) (b : float) : float = if Float.is_nan a then b else if Float.is_nan b then a else if b > a then b else a
let round_kernel (x : float) (d : float) : float =
  let value = p15 x in
  let nd = if d > 0.0 then Float.floor d else Float.ceil d in
  let scale = 10.0 ** nd in
  Float.round (value *. scale) /. scale
let cmp15 (a : float) (b : float) : comparison =
  let a = p15 a and b = p15 b in
  if Float.abs (b -. a) < epsilon_float then Eq else if a < b then Lt else Gt

let upper_cp (c : int) : int = if c >= 97 && c <= 122 then c - 32 else if (c >= 0xE0 && c <= 0xFE && c <> 0xF7) then c - 32 else c
let lower_cp (c : int) : int = if c >= 65 && c <= 90 then c + 32 else if (c >= 0xC0 && c <= 0xDE && c <> 0xD7) then c + 32 else c

let ops : float numOps = {
  nadd = (fun a b -> a +. b); nsub = (fun a b -> a -. b); nmul = (fun a b -> a *. b); ndiv = (fun a b -> a /. b);
  npow = (fun a b -> a ** b); nneg = (fun a -> -. a); nabs = Float.abs; nmin = rust_min; nmax = rust_max;
  nround = round_kernel; nis_zero = (fun a -> a = 0.0); nis_finite = Float.is_finite; ncmp = cmp15;
  nof_text = cast_number;
  nof_text_strict = (fun t -> rust_parse (str_of_text t));
  nto_text = (fun f -> text_of_ascii (rust_display f));
  nof_Z = (fun z -> float_of_int (int_of_z z)); nnan = Float.nan;
  str_upper = List.map (fun z -> z_of_int (upper_cp (int_of_z z)));
  str_lower = List.map (fun z -> z_of_int (lower_cp (int_of_z z)));
}

(* ---- wire parser (a token stream) ---- *)
let toks : string list ref = ref []
let next () = match !toks with t :: r -> toks := r; t | [] -> failwith "eof"
let nexti () = int_of_string (next ())
let nextz () = z_of_int (nexti ())
let err_of_code = function
  | 0 -> EREF | 1 -> ENAME | 2 -> EVALUE | 3 -> EDIV | 4 -> ENA | 5 -> ENUM | 6 -> EERROR | 7 -> ENIMPL
  | 8 -> ESPILL | 9 -> ECALC | 10 -> ECIRC | _ -> ENULL
let code_of_err = function
  | EREF -> 0 | ENAME -> 1 | EVALUE -> 2 | EDIV -> 3 | ENA -> 4 | ENUM -> 5 | EERROR -> 6 | ENIMPL -> 7
  | ESPILL -> 8 | ECALC -> 9 | ECIRC -> 10 | ENULL -> 11
let p_scalar () = match next () with
  | "n" -> SNum (float_of_bits (next ())) | "s" -> SStr (text_of_wire (next ())) | "b" -> SBool (next () = "1")
  | "x" -> SErr (err_of_code (nexti ())) | "e" -> SEmpty | t -> failwith ("scalar " ^ t)
let fname_of = function
  | "IF" -> FIf | "AND" -> FAnd | "OR" -> FOr | "NOT" -> FNot | "SUM" -> FSum | "MIN" -> FMin | "MAX" -> FMax
  | "COUNT" -> FCount | "COUNTA" -> FCounta | "AVERAGE" -> FAverage | "ABS" -> FAbs | "ROUND" -> FRound
  | "LEN" -> FLen | "CONCAT" -> FConcat | "ISNUMBER" -> FIsnumber | "ISTEXT" -> FIstext | "ISBLANK" -> FIsblank
  | "IFERROR" -> FIferror | t -> failwith ("fname " ^ t)
let rec p_ast () = match next () with
  | "N" -> ENum (float_of_bits (next ()))
  | "S" -> EStr (text_of_wire (next ()))
  | "B" -> EBool (next () = "1")
  | "X" -> EErr (err_of_code (nexti ()))
  | "EA" -> EEmptyArg
  | "R" -> let s = nextz () in let r = nextz () in let c = nextz () in ERef (s, r, c)
  | "G" -> let s = nextz () in let r1 = nextz () in let c1 = nextz () in let r2 = nextz () in let c2 = nextz () in ERange (s, r1, c1, r2, c2)
  | "A" -> let rows = nexti () in let cols = nexti () in
           EArray (List.init rows (fun _ -> List.init cols (fun _ -> p_scalar ())))
  | "U" -> let k = (match next () with "m" -> UMinus | _ -> UPercent) in let e = p_ast () in EUnary (k, e)
  | "O" -> let o = (match next () with "a" -> OAdd | "s" -> OSub | "m" -> OMul | "d" -> ODiv | _ -> OPow) in
           let l = p_ast () in let r = p_ast () in EBin (o, l, r)
  | "C" -> let l = p_ast () in let r = p_ast () in EConcat (l, r)
  | "P" -> let k = (match next () with "eq" -> CEq | "lt" -> CLt | "gt" -> CGt | "le" -> CLe | "ge" -> CGe | _ -> CNe) in
           let l = p_ast () in let r = p_ast () in ECmp (k, l, r)
  | "I" -> let e = p_ast () in EImplicit e
  | "F" -> let f = fname_of (next ()) in let n = nexti () in
           let rec go k = if k = 0 then [] else let a = p_ast () in a :: go (k - 1) in EFun (f, go n)
  | t -> failwith ("ast " ^ t)
let p_fv () = match next () with
  | "u" -> FUnevaluated | "n" -> FNum (float_of_bits (next ())) | "s" -> FText (text_of_wire (next ()))
  | "b" -> FBool (next () = "1") | "x" -> FErr (err_of_code (nexti ())) | t -> failwith ("fv " ^ t)
let p_sv () = match next () with
  | "n" -> PNum (float_of_bits (next ())) | "s" -> PText (text_of_wire (next ()))
  | "b" -> PBool (next () = "1") | "x" -> PErr (err_of_code (nexti ())) | t -> failwith ("sv " ^ t)
let p_cref () = let s = nextz () in let r = nextz () in let c = nextz () in { c_sheet = s; c_row = r; c_col = c }
let p_content () = match next () with
  | "e" -> CEmpty | "n" -> CNumber (float_of_bits (next ())) | "s" -> CString (text_of_wire (next ()))
  | "b" -> CBoolean (next () = "1") | "x" -> CError (err_of_code (nexti ()))
  | "f" -> let v = p_fv () in let a = p_ast () in CFormula (a, v)
  | "af" -> let dyn = next () = "1" in let w = nextz () in let h = nextz () in let v = p_fv () in let a = p_ast () in
            CArrayFormula (dyn, w, h, a, v)
  | "sp" -> let ar = nextz () in let ac = nextz () in let v = p_sv () in CSpill (ar, ac, v)
  | t -> failwith ("content " ^ t)
let p_list (p : unit -> 'a) : 'a list = let n = nexti () in let rec go k = if k = 0 then [] else let x = p () in x :: go (k - 1) in go n
let p_workbook () = p_list (fun () -> let c = p_cref () in let x = p_content () in (c, x))

let show_value = function
  | VNum f -> "n" ^ bits_of_float f | VStr t -> "s" ^ wire_of_text t | VBool b -> "b" ^ bs b
  | VErr e -> "x" ^ string_of_int (code_of_err e) | VEmptyCell -> "e" | VEmptyArg -> "ea"
  | VRange _ -> "range" | VArray _ -> "array"
(* the stored value as the harness prints it: an empty cell is "e" *)
let show_cell st c = match st.cont c with CEmpty -> "e" | _ -> show_value (value_at st c)

let rec nat_of_int n = if n <= 0 then O else S (nat_of_int (n - 1))

let handle f =
  try
    match f with
    | "ev" :: rest ->
        toks := rest;
        let order = p_list p_cref in
        let q = p_list p_cref in
        let wb = p_workbook () in
        let st = evaluate_in ops (fuel_for wb) order (store_of wb) in
        if st.oof then "outoffuel" else String.concat " " (List.map (show_cell st) q)
    | "cons" :: rest ->
        (* the property statement on the implementation's own values *)
        toks := rest;
        let cells = p_list p_cref in
        let wb = p_workbook () in
        let st = store_of wb in
        let eqn a b = bits_of_float a = bits_of_float b in
        let all = List.map fst wb in
        let bad = List.filter (fun c -> not (values_consistent_in_b ops eqn st.cont all [c])) cells in
        if bad = [] then "consistent" else "inconsistent " ^ String.concat " " (List.map (fun c -> Printf.sprintf "%d,%d,%d" (int_of_z c.c_sheet) (int_of_z c.c_row) (int_of_z c.c_col)) bad)
    | "den" :: rest ->
        toks := rest;
        let q = p_list p_cref in
        let wb = p_workbook () in
        String.concat " " (List.map (fun c -> match lookup wb c with CEmpty -> "e" | _ -> show_value (denote ops wb c)) q)
    | ["ty"; w] ->
        (* the typed path: what cell A1 holds after the text is typed *)
        let c = { c_sheet = Z0; c_row = z_of_int 1; c_col = z_of_int 1 } in
        show_cell (type_number ops c (text_of_wire w) (store_of [])) c
    | ["api"; b] ->
        (* Model::update_cell_with_number on A1 of an empty workbook *)
        let c = { c_sheet = Z0; c_row = z_of_int 1; c_col = z_of_int 1 } in
        (match api_set_number ops c (float_of_bits b) (store_of []) with Some st -> show_cell st c | None -> "err")
    | ["imp"; k; w] ->
        (* the xlsx importer's <v> conversion at one of its sites; "-" = no text *)
        let c = { c_sheet = Z0; c_row = z_of_int 1; c_col = z_of_int 1 } in
        let t = if w = "-" then None else Some (text_of_wire w) in
        let site = (match k with "num" -> ImpNumberCell | "sp" -> ImpSpillCell (z_of_int 1, z_of_int 1) | _ -> ImpFormulaValue (ENum 0.0)) in
        show_cell (import_cell ops c site t (store_of [])) c
    | "fin" :: rest ->
        toks := rest;
        let cells = p_list p_cref in
        let wb = p_workbook () in
        bs (no_nonfinite_b ops cells (store_of wb))
    | _ -> "badcase"
  with Ask w -> "ask " ^ w | Failure m -> "fail " ^ m
