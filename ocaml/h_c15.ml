(* h_c12.ml — case handler shared in text by the C12–C15 runners (appended after helpers.ml):
   one case line -> one observation line, computed by the extracted Syntax/Displace.v *)
let disp_of k ds at delta = match k with
  | "0" -> DRow (zi ds, zi at, zi delta)
  | "1" -> DCol (zi ds, zi at, zi delta)
  | "2" -> DRowMove (zi ds, zi at, zi delta)
  | "3" -> DColMove (zi ds, zi at, zi delta)
  | _ -> DNone

let nat_of_int n = let rec go n acc = if n <= 0 then acc else go (n - 1) (S acc) in go n O

let rewritten_s = function
  | RwRef ((qr, qc), a) -> Printf.sprintf "ref %s %s %s %s %s %s" (zs qr) (zs qc) (zs a.a_row) (zs a.a_col) (bs a.a_abs_row) (bs a.a_abs_col)
  | RwRefError -> "referr"
  | RwUnreadable -> "unreadable"
  | RwGone -> "gone"

let handle f = match f with
  | ["ref"; k; ds; at; delta; qr; qc; sa; row; col; ar; ac] ->
    wire_of_text (displace_text (disp_of k ds at delta) false false (zi qr, zi qc)
      { a_sheet = zi sa; a_row = zi row; a_col = zi col; a_abs_row = bi ar; a_abs_col = bi ac })
  | ["rng"; k; ds; at; delta; qr; qc; sa; r1; c1; ar1; ac1; r2; c2; ar2; ac2] ->
    wire_of_text (displace_range_text (disp_of k ds at delta) (zi qr, zi qc)
      { g_sheet = zi sa; g_row1 = zi r1; g_col1 = zi c1; g_abs_row1 = bi ar1; g_abs_col1 = bi ac1;
        g_row2 = zi r2; g_col2 = zi c2; g_abs_row2 = bi ar2; g_abs_col2 = bi ac2 })
  | ["cmap"; k; at; delta; row; col] ->
    (match cell_map (disp_of k "0" at delta) (zi row, zi col) with
     | Some (r, c) -> Printf.sprintf "some %s %s" (zs r) (zs c)
     | None -> "none")
  | ["app"; k; at; delta; same; qr; qc; sa; row; col; ar; ac] ->
    rewritten_s (apply_disp_full (disp_of k "0" at delta) (bi same) (zi qr, zi qc)
      { a_sheet = zi sa; a_row = zi row; a_col = zi col; a_abs_row = bi ar; a_abs_col = bi ac })
  | ["appb"; rw; i; n; d; same; qr; qc; sa; row; col; ar; ac] ->
    rewritten_s (apply_disp_seq (move_disps (bi rw) (zi "0") (zi i) (nat_of_int (int_of_string n)) (zi d)) (bi same) (zi qr, zi qc)
      { a_sheet = zi sa; a_row = zi row; a_col = zi col; a_abs_row = bi ar; a_abs_col = bi ac })
  | ["blk"; _; i; n; d; x] -> zs (iterate_moves (zi i) (nat_of_int (int_of_string n)) (zi d) (zi x))
  | ["hid"; last; i; n; d; h] ->
    let hs = text_of_wire h in
    let hidden x = List.exists (fun y -> y = x) hs in
    (match hidden_adjust hidden (zi last) (zi i) (zi n) (zi d) with
     | Ok d' -> if move_valid (zi last) (zi i) (zi n) d' then "ok " ^ zs d' else "err"
     | _ -> "err")
  | ["val"; last; at; delta] -> if edit_valid (zi last) (zi at) (zi delta) then "ok" else "err"
  | _ -> "badcase"
