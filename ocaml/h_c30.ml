(* h_c30.ml — case handler of the C30 runner: replays a history of style assignments on the
   extracted model of the style pools.  Component values are integer tokens; a negative token
   stands for a value that is not equal to itself (NaN tint). *)
let ios = int_of_string
let teq a b = a = b && a >= 0

(* reads k items with f from the token list *)
let rec many k f r acc = if k = 0 then (List.rev acc, r) else let (x, r') = f r in many (k - 1) f r' (x :: acc)

let expect tag = function t :: r when t = tag -> r | _ -> raise Not_found
let count = function n :: r -> (ios n, r) | [] -> raise Not_found

let parse_pools r =
  let r = expect "nf" r in let (n, r) = count r in
  let (nfs, r) = many n (function a :: b :: r -> ({ nf_id = zi a; nf_code = text_of_wire b }, r) | _ -> raise Not_found) r [] in
  let r = expect "fo" r in let (n, r) = count r in
  let (fo, r) = many n (function a :: r -> (ios a, r) | _ -> raise Not_found) r [] in
  let r = expect "fi" r in let (n, r) = count r in
  let (fi, r) = many n (function a :: r -> (ios a, r) | _ -> raise Not_found) r [] in
  let r = expect "bo" r in let (n, r) = count r in
  let (bo, r) = many n (function a :: r -> (ios a, r) | _ -> raise Not_found) r [] in
  let r = expect "xf" r in let (n, r) = count r in
  let (xs, r) = many n (function a :: b :: c :: d :: e :: f :: g :: h :: r ->
      ({ x_xf_id = zi a; x_num_fmt_id = zi b; x_font_id = zi c; x_fill_id = zi d; x_border_id = zi e; x_apply = zi f;
         x_quote = (g = "1"); x_align = (let t = ios h in if t = 0 then None else Some (t - 1)) }, r)
    | _ -> raise Not_found) r [] in
  ({ st_num_fmts = nfs; st_fonts = fo; st_fills = fi; st_borders = bo; st_xfs = xs }, r)

let parse_style = function
  | a :: n :: fi :: fo :: bo :: q :: r ->
    ({ s_align = (let t = ios a in if t = 0 then None else Some (t - 1)); s_num_fmt = text_of_wire n; s_fill = ios fi; s_font = ios fo;
       s_border = ios bo; s_quote = (q = "1") }, r)
  | _ -> raise Not_found

let pools_ints st =
  let out = ref [] in
  let push x = out := x :: !out in
  push (List.length st.st_num_fmts);
  List.iter (fun nf -> push (int_of_z nf.nf_id); push (List.length nf.nf_code); List.iter (fun c -> push (int_of_z c)) nf.nf_code) st.st_num_fmts;
  push (List.length st.st_fonts); List.iter push st.st_fonts;
  push (List.length st.st_fills); List.iter push st.st_fills;
  push (List.length st.st_borders); List.iter push st.st_borders;
  push (List.length st.st_xfs);
  List.iter (fun x -> push (int_of_z x.x_xf_id); push (int_of_z x.x_num_fmt_id); push (int_of_z x.x_font_id); push (int_of_z x.x_fill_id);
                      push (int_of_z x.x_border_id); push (int_of_z x.x_apply); push (if x.x_quote then 1 else 0);
                      push (match x.x_align with None -> 0 | Some t -> t + 1)) st.st_xfs;
  List.rev !out

let pools_wire st =
  let b = Buffer.create 256 in
  let add s = Buffer.add_string b s in
  add (Printf.sprintf "nf %d" (List.length st.st_num_fmts));
  List.iter (fun nf -> add (Printf.sprintf " %d %s" (int_of_z nf.nf_id) (wire_of_text nf.nf_code))) st.st_num_fmts;
  add (Printf.sprintf " fo %d" (List.length st.st_fonts)); List.iter (fun x -> add (Printf.sprintf " %d" x)) st.st_fonts;
  add (Printf.sprintf " fi %d" (List.length st.st_fills)); List.iter (fun x -> add (Printf.sprintf " %d" x)) st.st_fills;
  add (Printf.sprintf " bo %d" (List.length st.st_borders)); List.iter (fun x -> add (Printf.sprintf " %d" x)) st.st_borders;
  add (Printf.sprintf " xf %d" (List.length st.st_xfs));
  List.iter (fun x -> add (Printf.sprintf " %d %d %d %d %d %d %d %d" (int_of_z x.x_xf_id) (int_of_z x.x_num_fmt_id) (int_of_z x.x_font_id)
                             (int_of_z x.x_fill_id) (int_of_z x.x_border_id) (int_of_z x.x_apply) (if x.x_quote then 1 else 0)
                             (match x.x_align with None -> 0 | Some t -> t + 1))) st.st_xfs;
  Buffer.contents b

let hash_ints v h = List.fold_left (fun h x -> (h * 1000003 + (x + 1000000007)) land 0x3FFFFFFFFFFFFFFF) h v

let idz z = z
type target = TCell of z * z | TRow of z | TCol of z
let parse_step = function
  | k :: a :: b :: r ->
    let tg = (match k with "0" -> TCell (zi a, zi b) | "1" -> TRow (zi a) | _ -> TCol (zi a)) in
    let (s, r) = parse_style r in ((tg, s), r)
  | _ -> raise Not_found

(* the index a target reads through the layer *)
let read_target l = function
  | TCell (r, c) -> int_of_z (get_cell_style_index l r c)
  | TRow r -> (match get_row_style l.l_rows r with Some i -> int_of_z i | None -> -1)
  | TCol c -> (match style_at l.l_cols c with Some i -> int_of_z i | None -> -1)

let assign l tg i = match tg with
  | TCell (r, c) -> set_cell_style l r c i
  | TRow r -> layer_set_row_style idz l r i
  | TCol c -> layer_set_column_style idz idz l c i

(* ---- L lines: a history of attribute operations on the style layer ------------------------------- *)
let lop_of k a b = match k with
  | 0 -> LCell (z_of_int a, z_of_int (b / 10), z_of_int (b mod 10))
  | 1 -> LRowStyle (z_of_int a, z_of_int b)
  | 2 -> LColStyle (z_of_int a, z_of_int b)
  | 3 -> LRowHeight (z_of_int a, z_of_int b)
  | 4 -> LRowHidden (z_of_int a, b <> 0)
  | 5 -> LRowDel (z_of_int a)
  | 6 -> LColWidth (z_of_int a, z_of_int b)
  | 7 -> LColHidden (z_of_int a, b <> 0)
  | _ -> LColDel (z_of_int a)

let handle_layer r =
  let (rr, r) = (match r with a :: r -> (zi a, r) | [] -> raise Not_found) in
  let (cc, r) = (match r with a :: r -> (zi a, r) | [] -> raise Not_found) in
  let r = expect "cells" r in let (n, r) = count r in
  let (cells, r) = many n (function a :: b :: c :: r -> (((zi a, zi b), zi c), r) | _ -> raise Not_found) r [] in
  let r = expect "rows" r in let (n, r) = count r in
  let (rows, r) = many n (function a :: b :: c :: d :: e :: f :: r ->
      ({ r_r = zi a; r_height = zi b; r_custom_format = (c = "1"); r_custom_height = (d = "1"); r_s = zi e; r_hidden = (f = "1") }, r)
    | _ -> raise Not_found) r [] in
  let r = expect "cols" r in let (n, r) = count r in
  let (cols, r) = many n (function a :: b :: c :: d :: e :: f :: r ->
      ({ c_min = zi a; c_max = zi b; c_width = zi c; c_custom = (d = "1"); c_hidden = (e = "1");
         c_style = (let t = ios f in if t = 0 then None else Some (z_of_int (t - 1))) }, r)
    | _ -> raise Not_found) r [] in
  let r = expect "ops" r in let (n, r) = count r in
  let (ops, r) = many n (function a :: b :: c :: r -> (lop_of (ios a) (ios b) (ios c), r) | _ -> raise Not_found) r [] in
  let r = expect "probes" r in let (n, r) = count r in
  let (probes, _) = many n (function a :: b :: r -> ((zi a, zi b), r) | _ -> raise Not_found) r [] in
  let obs = Buffer.create 256 in
  let add s = (if Buffer.length obs > 0 then Buffer.add_char obs ' '); Buffer.add_string obs s in
  let _ = List.fold_left (fun l o ->
    let (ok, l') = (match apply_lop idz idz l o with Ok l' -> (1, l') | _ -> (0, l)) in
    add (string_of_int ok);
    List.iter (fun (pr, pc) ->
      add (Printf.sprintf "%d %d" (int_of_z (get_cell_style_index l' pr pc))
             (match get_cell_style_or_none l' pr pc with Some i -> int_of_z i + 1 | None -> 0))) probes;
    add (Printf.sprintf "%d %d" (match get_row_style l'.l_rows rr with Some i -> int_of_z i + 1 | None -> 0)
           (match style_at l'.l_cols cc with Some i -> int_of_z i + 1 | None -> 0));
    l') { l_cells = cells; l_rows = rows; l_cols = cols } ops in
  Buffer.contents obs

let handle f = match f with
  | "L" :: r -> handle_layer r
  | "h" :: r ->
    let (st, r) = parse_pools r in
    let (pre, r) = (match r with p :: r -> (zi p, r) | [] -> raise Not_found) in
    let (n, r) = count r in
    let (steps, _) = many n parse_step r [] in
    let l0 = { l_cells = [((z_of_int 1000, z_of_int 1), pre)]; l_rows = []; l_cols = [] } in
    let obs = Buffer.create 256 in
    let fin = List.fold_left (fun acc (tg, s) ->
      match acc with
      | None -> None
      | Some (st, l, prev) ->
        (match intern teq teq teq teq st s with
         | Ok (st', i) ->
           let l' = (match assign l tg i with Ok l' -> l' | _ -> l) in
           if Buffer.length obs > 0 then Buffer.add_char obs ' ';
           Buffer.add_string obs (Printf.sprintf "%d %d %d" (read_target l' tg)
             (match prev with Some p -> read_target l' p | None -> -2) (hash_ints (pools_ints st') 0));
           Some (st', l', Some tg)
         | _ -> Buffer.add_string obs " panic"; None)) (Some (st, l0, None)) steps in
    (match fin with
     | Some (st, _, _) -> Buffer.contents obs ^ " | " ^ pools_wire st
     | None -> Buffer.contents obs)
  | _ -> "badcase"
