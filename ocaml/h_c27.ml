(* h_c27.ml — case handler of the C27 runner: one workbook skeleton per line -> "wf" / "notwf:<clause>".
   wire: wb nstrings nfonts nfills nborders  nnf id*  nxfs (font fill border numfmt)*  nnames sid*(-1 = global)
         nsheets ( name uname id nformulas  ncols (min max)*  nrows r*  ncells cell* )*
   cell: r c s E | r c s V si(-1 = no shared string) | r c s F f | r c s D f w h | r c s C f w h | r c s S ar ac *)
let take_n n parse toks =
  let rec go n acc toks = if n = 0 then (List.rev acc, toks) else
    let (x, toks) = parse toks in go (n - 1) (x :: acc) toks in
  go n [] toks
let one = function x :: t -> (zi x, t) | [] -> failwith "eof"
let count = function x :: t -> (int_of_string x, t) | [] -> failwith "eof"

let parse_cell toks =
  match toks with
  | r :: c :: s :: k :: t ->
    let p = (zi r, zi c) in
    let mk kd = (p, { c_s = zi s; c_k = kd }) in
    (match k, t with
     | "E", t -> (mk KEmpty, t)
     | "V", si :: t -> (mk (KValue (if si = "-1" then None else Some (zi si))), t)
     | "F", f :: t -> (mk (KFormula (zi f, None)), t)
     | "D", f :: w :: h :: t -> (mk (KDyn (zi f, zi w, zi h, None)), t)
     | "C", f :: w :: h :: t -> (mk (KCse (zi f, zi w, zi h, None)), t)
     | "S", ar :: ac :: t -> (mk (KSpill (zi ar, zi ac, None)), t)
     | _ -> failwith "cell")
  | _ -> failwith "cell"

let parse_sheet toks =
  match toks with
  | name :: uname :: id :: nf :: toks ->
    let (nc, toks) = count toks in
    let (cols, toks) = take_n nc (function a :: b :: t ->
        ({ c_min = zi a; c_max = zi b; c_width = Z0; c_custom = false; c_hidden = false; c_style = None }, t) | _ -> failwith "col") toks in
    let (nr, toks) = count toks in
    let (rows, toks) = take_n nr one toks in
    let (ncells, toks) = count toks in
    let (cells, toks) = take_n ncells parse_cell toks in
    ({ ws_name = text_of_wire name; ws_uname = text_of_wire uname; ws_id = zi id; ws_cells = cells; ws_cols = cols;
       ws_rows = rows; ws_nformulas = zi nf }, toks)
  | _ -> failwith "sheet"

let parse_wb toks =
  match toks with
  | ns :: nfo :: nfi :: nbo :: toks ->
    let (nnf, toks) = count toks in
    let (nfs, toks) = take_n nnf one toks in
    let (nx, toks) = count toks in
    let (xfs, toks) = take_n nx (function a :: b :: c :: d :: t -> ({ xf_font = zi a; xf_fill = zi b; xf_border = zi c; xf_numfmt = zi d }, t) | _ -> failwith "xf") toks in
    let (nn, toks) = count toks in
    let (names, toks) = take_n nn (function x :: t -> ((if x = "-1" then None else Some (zi x)), t) | [] -> failwith "name") toks in
    let (nsh, toks) = count toks in
    let (sheets, _) = take_n nsh parse_sheet toks in
    { wb_sheets = sheets; wb_nstrings = zi ns;
      wb_pools = { p_fonts = zi nfo; p_fills = zi nfi; p_borders = zi nbo; p_numfmts = nfs; p_xfs = xfs };
      wb_names = names }
  | _ -> failwith "wb"

let verdict wb =
  if wf_workbook_b wb then "wf" else
  let clauses = [ ("names-valid", names_valid_b); ("names-unique", names_unique_b); ("ids-unique", ids_unique_b);
                  ("cells", cells_ok_b); ("xfs", xfs_ok_b); ("cols", cols_ok_b); ("rows", rows_ok_b);
                  ("spills", spills_ok_b); ("dnames", dnames_ok_b) ] in
  let rec first = function [] -> "none" | (n, f) :: r -> if f wb then first r else n in
  "notwf:" ^ first clauses

(* descriptor surgery: dc start count n (min max)*  /  ic column count n (min max)*  ->  ok n (min max)* | err *)
let parse_cols toks =
  let (n, toks) = count toks in
  fst (take_n n (function a :: b :: t ->
      ({ c_min = zi a; c_max = zi b; c_width = Z0; c_custom = false; c_hidden = false; c_style = None }, t) | _ -> failwith "col") toks)
let cols_s = function
  | Ok cs -> String.concat " " ("ok" :: string_of_int (List.length cs) :: List.concat_map (fun c -> [zs c.c_min; zs c.c_max]) cs)
  | Err -> "err" | Panic -> "panic"

let handle f = match f with
  | "dc" :: a :: b :: toks -> cols_s (delete_columns_descrs (zi a) (zi b) (parse_cols toks))
  | "ic" :: a :: b :: toks -> cols_s (insert_columns_descrs (zi a) (zi b) (parse_cols toks))
  | "wb" :: toks -> verdict (parse_wb toks)
  | ["init"] -> verdict init
  | _ -> "badcase"
