(* h_c28.ml — case handler of the C28 runner (appended after helpers.ml).
   One history per line:  h <setup tokens> | <op tokens>;  one observation line out. *)
let zbig s =
  let neg = String.length s > 0 && s.[0] = '-' in
  let d = if neg then String.sub s 1 (String.length s - 1) else s in
  let t = List.init (String.length d) (fun i -> z_of_int (Char.code d.[i])) in
  let v = dec_val Z0 t in
  if neg then Z.opp v else v
let zsbig z = String.concat "" (List.map (fun c -> String.make 1 (Char.chr (int_of_z c))) (dec_of_Z z))

let plist s = if s = "-" || s = "" then [] else String.split_on_char ',' s
let pair sep s = match String.split_on_char sep s with [a; b] -> (zi a, zi b) | _ -> failwith "pair"

let setup_sheet i tok =
  match String.split_on_char ':' tok with
  | ["S"; hr; rh; hc; cw; ce] ->
    let g = { g_hrows = List.map zi (plist hr); g_rowh = List.map (pair '=') (plist rh);
              g_hcols = List.map zi (plist hc); g_colw = List.map (pair '=') (plist cw);
              g_cells = List.map (pair 'x') (plist ce) } in
    { sh_name = sHEET @ dec_of_Z (z_of_int (i + 1)); sh_vis = true; sh_view = view0; sh_geom = g }
  | _ -> failwith "setup"

let dir_of = function "U" -> DUp | "D" -> DDown | "L" -> DLeft | _ -> DRight
let key_of = function "U" -> KUp | "D" -> KDown | "L" -> KLeft | "R" -> KRight | _ -> KOther

let op_of tok =
  match String.split_on_char ':' tok with
  | ["ss"; i] -> OSetSheet (zi i)
  | ["sc"; r; c] -> OSetCell (zi r, zi c)
  | ["sr"; a; b; c; d] -> OSetRange (zi a, zi b, zi c, zi d)
  | ["ex"; k] -> OExpand (key_of k)
  | ["tl"; r; c] -> OTopLeft (zi r, zi c)
  | ["ww"; w] -> OWinW (zbig w)
  | ["wh"; h] -> OWinH (zbig h)
  | ["ar"] -> OArrow DRight | ["al"] -> OArrow DLeft | ["au"] -> OArrow DUp | ["ad"] -> OArrow DDown
  | ["pd"] -> OPageDown | ["pu"] -> OPageUp
  | ["as"; r; c] -> OAreaSel (zi r, zi c)
  | ["ne"; d] -> ONavEdge (dir_of d)
  | ["new"] -> ONewSheet
  | ["dup"; i] -> ODuplicate (zi i)
  | ["del"; i] -> ODelete (zi i)
  | ["ren"; i; n] -> ORename (zi i, text_of_wire n)
  | ["mv"; i; j] -> OMove (zi i, zi j)
  | ["hide"; i] -> OHide (zi i)
  | ["unhide"; i] -> OUnhide (zi i)
  | ["color"; i] -> OColor (zi i)
  | ["hc"; s; a; b; h] -> OColsHidden (zi s, zi a, zi b, h = "1")
  | ["hr"; s; a; b; h] -> ORowsHidden (zi s, zi a, zi b, h = "1")
  | ["rh"; s; a; b; h] -> ORowsHeight (zi s, zi a, zi b, zi h)
  | ["cw"; s; a; b; w] -> OColsWidth (zi s, zi a, zi b, zi w)
  | ["ps"; h; w] -> OPaste (zi h, zi w)
  | ["undo"] -> OUndo | ["redo"] -> ORedo
  | _ -> failwith ("op " ^ tok)

let view_s v = Printf.sprintf "%s,%s,%s,%s,%s,%s,%s,%s" (zs v.v_row) (zs v.v_col) (zs v.v_r1) (zs v.v_c1) (zs v.v_r2) (zs v.v_c2) (zs v.v_top) (zs v.v_left)

let step_obs res s =
  let vis = String.concat "" (List.map (fun sh -> if sh.sh_vis then "1" else "0") s.sheets) in
  let vs = match get_sheet s.sheets s.sel with Some sh -> view_s sh.sh_view | None -> "x" in
  Printf.sprintf "%c,%d,%s,%s,%s,%s,%s,%d,%d" res (List.length s.sheets) (zs s.sel) vis vs (zsbig s.win_w) (zsbig s.win_h)
    (List.length s.undo_st) (List.length s.redo_st)

let uniq_sorted l = List.sort_uniq compare l
let lines_s hidden sizes dflt =
  let keys = uniq_sorted (List.map int_of_z hidden @ List.map (fun (k, _) -> int_of_z k) sizes) in
  let items = List.filter_map (fun k ->
    let hid = zmem (z_of_int k) hidden in
    let h = int_of_z (zassoc (z_of_int k) sizes (z_of_int dflt)) in
    if hid || h <> dflt then Some (Printf.sprintf "%d%s%d" k (if hid then "h" else "v") h) else None) keys in
  if items = [] then "-" else String.concat "," items

let dump s =
  String.concat " " (List.map (fun sh ->
    let g = sh.sh_geom in
    let cells = uniq_sorted (List.map (fun (r, c) -> (int_of_z r, int_of_z c)) g.g_cells) in
    Printf.sprintf "%s/%d/%s/%s/%s/%s" (wire_of_text sh.sh_name) (if sh.sh_vis then 1 else 0) (view_s sh.sh_view)
      (lines_s g.g_hrows g.g_rowh 25) (lines_s g.g_hcols g.g_colw 90)
      (if cells = [] then "-" else String.concat "," (List.map (fun (r, c) -> Printf.sprintf "%dx%d" r c) cells)))
    s.sheets)

let handle f = match f with
  | "h" :: rest ->
    let rec split acc = function
      | "|" :: ops -> (List.rev acc, ops)
      | x :: t -> split (x :: acc) t
      | [] -> (List.rev acc, []) in
    let (st, ops) = split [] rest in
    let ops = List.filter (fun x -> x <> "") ops in
    let s0 = mk_state (List.mapi setup_sheet st) in
    let rec go s ops acc =
      match ops with
      | [] -> (s, List.rev acc)
      | tok :: t ->
        let r = step_r s (op_of tok) in
        let (c, stop) = match r with ROk _ -> ('o', false) | RErr _ -> ('e', false) | RPanic _ -> ('p', true) | RFuel _ -> ('f', false) in
        let s' = state_of r in
        let acc = step_obs c s' :: acc in
        if stop then (s', List.rev acc) else go s' t acc in
    let (s, obs) = go s0 ops [] in
    String.concat ";" obs ^ " # " ^ dump s
  | _ -> "badcase"
