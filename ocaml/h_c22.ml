(* h_c22.ml — case handler of the C22 runner (appended after helpers.ml) *)
let pref_s = function
  | Some p -> Printf.sprintf "some %s %s %s %s" (zs p.p_row) (zs p.p_col) (bs p.p_abs_col) (bs p.p_abs_row)
  | None -> "none"

let handle f = match f with
  | ["cls"; c] -> let c = zi c in Printf.sprintf "%s %s %s" (bs (x_alpha c)) (bs (x_alnum c)) (bs (x_ws c))
  | ["c2n"; t] -> (match column_to_number (text_of_wire t) with Ok n -> "ok " ^ zs n | Err -> "err" | Panic -> "panic")
  | ["n2c"; n] -> (match number_to_column (zi n) with Some t -> "some " ^ wire_of_text t | None -> "none")
  | ["ovf"; t] -> bs (col_overflows Z0 (text_of_wire t))
  | ["pa1"; t] -> pref_s (parse_reference_a1 (text_of_wire t))
  | ["pr1"; t] -> pref_s (parse_reference_r1c1 (text_of_wire t))
  | ["fa1"; r; c; ar; ac] -> (match print_a1 (zi r) (zi c) (bi ar) (bi ac) with Some t -> "some " ^ wire_of_text t | None -> "ref")
  | ["frc"; r; c; ar; ac] -> wire_of_text (print_rc (zi r) (zi c) (bi ar) (bi ac))
  | ["lrc"; t] -> (match lex_reference_r1c1_x (text_of_wire t) with Some (p, []) -> pref_s (Some p) | _ -> "none")
  | ["qn"; t] -> wire_of_text (quote_name_x (text_of_wire t))
  | ["lsp"; t] -> (match lex_sheet_prefix_x (text_of_wire t) with
                   | Some (name, rest) when rest = [z_of_int 65; z_of_int 49] -> "some " ^ wire_of_text name
                   | _ -> "none")
  | _ -> "badcase"

