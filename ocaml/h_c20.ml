(* h_c20.ml — case handler of the C20 runner (appended after helpers.ml).
   pl <lgroup> <gsep> <dsep> <thousands> <dc> <ec> <sci_minus> <currency|-1> <neg> <int> <frac> <exp> <expneg> <raw> <tokens>
   tokens: comma separated  L<cp> | T<wire> | B | R | P | O | D{i,d,e}<kind>:<index>   ("-" = none)
   answer: ok <text> <wf> <sideconds> <spec_agrees>  |  panic <wf> ... *)
let tok_of_string s =
  let n = String.length s in
  let rest k = String.sub s k (n - k) in
  match s.[0] with
  | 'L' -> TLit (zi (rest 1))
  | 'T' -> TText (text_of_wire (rest 1))
  | 'B' -> TBlank
  | 'R' -> TRaw
  | 'P' -> TPeriod
  | 'O' -> TOther
  | 'D' ->
      let st = (match s.[1] with 'i' -> NInt | 'd' -> NDec | _ -> NExp) in
      (match String.split_on_char ':' (rest 2) with
       | [k; i] -> TDigit (zi k, zi i, st)
       | _ -> failwith "bad digit token")
  | _ -> failwith "bad token"

let toks_of_string s = if s = "-" then [] else List.map tok_of_string (String.split_on_char ',' s)

let string_of_tok = function
  | TLit c -> "L" ^ zs c
  | TText t -> "T" ^ wire_of_text t
  | TBlank -> "B"
  | TRaw -> "R"
  | TPeriod -> "P"
  | TOther -> "O"
  | TDigit (k, i, st) -> Printf.sprintf "D%s%s:%s" (match st with NInt -> "i" | NDec -> "d" | NExp -> "e") (zs k) (zs i)

let string_of_toks l = if l = [] then "-" else String.concat "," (List.map string_of_tok l)

let ltok_of_string s =
  let n = String.length s in
  let rest k = String.sub s k (n - k) in
  match s.[0] with
  | 'Z' -> KZero | 'S' -> KSharp | 'Q' -> KQuestion | 'C' -> KComma | 'P' -> KPeriod | '%' -> KPercent
  | ';' -> KSeparator | '@' -> KRaw | 'e' -> KSci | 'm' -> KSciMinus | 'G' -> KGeneral | 'I' -> KIllegal
  | 'L' -> KLiteral (zi (rest 1)) | 'T' -> KText (text_of_wire (rest 1)) | 'g' -> KGhost | 's' -> KSpacer
  | 'c' -> KCurrency (zi (rest 1)) | 'o' -> KColor | 'n' -> KCondition
  | 'd' -> KDate | 'M' -> KMonth | 't' -> KTime
  | _ -> failwith "bad lexer token"

let string_of_presult = function
  | PDate -> "D" | PError -> "E" | PGeneral -> "G"
  | PNumber n ->
      let p = n.np_part in
      Printf.sprintf "N%s/%s/%s/%s/%s/%s/%s/%s/%s/%s" (bs p.p_thousands) (zs n.np_percent) (zs n.np_comma) (zs p.p_digit_count)
        (zs n.np_precision) (bs n.np_sci) (bs p.p_sci_minus) (zs p.p_exp_count)
        (match p.p_currency with None -> "-1" | Some c -> zs c) (string_of_toks p.p_tokens)

let handle f = match f with
  | ["pp"; toks] ->
      let l = if toks = "-" then [] else List.map ltok_of_string (String.split_on_char ',' toks) in
      let r = parse l in
      if r = [] then "-" else String.concat "|" (List.map string_of_presult r)
  | ["pf"; lg; gsep; dsep; th; dc; ec; scim; cur; neg; sint; izero; bstr; ep; eneg; raw; toks] ->
      (* from the strings the float primitives printed: int_part emptied when zero, get_fract_part, walk *)
      let p = { p_thousands = bi th; p_digit_count = zi dc; p_exp_count = zi ec; p_sci_minus = bi scim;
                p_currency = (if cur = "-1" then None else Some (zi cur)); p_tokens = toks_of_string toks } in
      let loc = { l_group = zi lg; l_gsep = text_of_wire gsep; l_dsep = text_of_wire dsep } in
      let wf = wf_part p in
      let ip = if bi izero then [] else text_of_wire sint in
      (match format_text p loc (bi neg) (text_of_wire sint) (bi izero) (text_of_wire bstr) (text_of_wire ep) (bi eneg) (text_of_wire raw) with
       | Ok t ->
           let agrees = (match get_fract_part (text_of_wire bstr) (z_of_int (List.length ip)) with
             | Ok fp ->
                 let d = { d_neg = bi neg; d_int = ip; d_frac = fp; d_exp = text_of_wire ep; d_expneg = bi eneg; d_raw = text_of_wire raw } in
                 let side = group_ok p loc d && exp_ok p d && qperiod_ok p d in
                 (* proved equations re-observed: place = spec_place under the side conditions, and
                    get_fract_part = spec_fract on strings of the shape "d.ddd" *)
                 ((not (wf && side)) || (t = spec_place p loc d))
                 && (match text_of_wire bstr with
                     | _ :: dot :: ds when int_of_z dot = 46 -> fp = spec_fract ds (z_of_int (List.length ip))
                     | _ -> true)
             | _ -> false) in
           Printf.sprintf "ok %s %s %s" (wire_of_text t) (bs wf) (bs agrees)
       | Err -> Printf.sprintf "err %s 1" (bs wf)
       | Panic -> Printf.sprintf "panic %s 1" (bs wf))
  | ["pl"; lg; gsep; dsep; th; dc; ec; scim; cur; neg; ip; fp; ep; eneg; raw; toks] ->
      let p = { p_thousands = bi th; p_digit_count = zi dc; p_exp_count = zi ec; p_sci_minus = bi scim;
                p_currency = (if cur = "-1" then None else Some (zi cur)); p_tokens = toks_of_string toks } in
      let loc = { l_group = zi lg; l_gsep = text_of_wire gsep; l_dsep = text_of_wire dsep } in
      let d = { d_neg = bi neg; d_int = text_of_wire ip; d_frac = text_of_wire fp; d_exp = text_of_wire ep;
                d_expneg = bi eneg; d_raw = text_of_wire raw } in
      let wf = wf_part p in
      let side = group_ok p loc d && exp_ok p d && qperiod_ok p d in
      (match place p loc d with
       | Ok t ->
           (* the proved equation place = spec_place, re-observed on the extracted code: under wf and the
              three side conditions the two must agree (the runner prints 1 = "theorem not contradicted") *)
           let agrees = (not (wf && side)) || (t = spec_place p loc d) in
           Printf.sprintf "ok %s %s %s" (wire_of_text t) (bs wf) (bs agrees)
       | Err -> Printf.sprintf "err %s 1" (bs wf)
       | Panic -> Printf.sprintf "panic %s 1" (bs wf))
  | _ -> "badcase"
