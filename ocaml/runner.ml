(* runner.ml — reads one case per line on stdin, runs the extracted model, prints one
   observation per line. Trusted glue: integer and text conversion, line parsing. *)
open Model

let rec pos_of_int n = if n = 1 then XH else if n land 1 = 0 then XO (pos_of_int (n lsr 1)) else XI (pos_of_int (n lsr 1))
let z_of_int n = if n = 0 then Z0 else if n > 0 then Zpos (pos_of_int n) else Zneg (pos_of_int (-n))
let rec int_of_pos = function XH -> 1 | XO p -> 2 * int_of_pos p | XI p -> 2 * int_of_pos p + 1
let int_of_z = function Z0 -> 0 | Zpos p -> int_of_pos p | Zneg p -> - (int_of_pos p)

(* text on the wire: code points in decimal joined by '.', the empty text is "-" *)
let text_of_wire s = if s = "-" then [] else List.map (fun x -> z_of_int (int_of_string x)) (String.split_on_char '.' s)
let wire_of_text t = if t = [] then "-" else String.concat "." (List.map (fun z -> string_of_int (int_of_z z)) t)
let zs = fun z -> string_of_int (int_of_z z)
let bs b = if b then "1" else "0"
let zi s = z_of_int (int_of_string s)
let bi s = s = "1"

let pref_s = function
  | Some p -> Printf.sprintf "some %s %s %s %s" (zs p.p_row) (zs p.p_col) (bs p.p_abs_col) (bs p.p_abs_row)
  | None -> "none"

let c22 f = match f with
  | ["cls"; c] -> let c = zi c in Printf.sprintf "%s %s %s" (bs (x_alpha c)) (bs (x_alnum c)) (bs (x_ws c))
  | ["c2n"; t] -> (match column_to_number (text_of_wire t) with Ok n -> "ok " ^ zs n | Err -> "err" | Panic -> "panic")
  | ["n2c"; n] -> (match number_to_column (zi n) with Some t -> "some " ^ wire_of_text t | None -> "none")
  | ["ovf"; t] -> bs (col_overflows Z0 (text_of_wire t))
  | ["pa1"; t] -> pref_s (parse_reference_a1 (text_of_wire t))
  | ["pr1"; t] -> pref_s (parse_reference_r1c1 (text_of_wire t))
  | ["fa1"; r; c; ar; ac] -> (match print_a1 (zi r) (zi c) (bi ar) (bi ac) with Some t -> "some " ^ wire_of_text t | None -> "ref")
  | ["frc"; r; c; ar; ac] -> wire_of_text (print_rc (zi r) (zi c) (bi ar) (bi ac))
  | ["lrc"; t] -> (match lex_reference_r1c1_x (text_of_wire t) with Some (p, []) -> pref_s (Some p) | _ -> "none")
  | ["qn"; t] -> wire_of_text (quote_name_x (text_of_wire t))
  | ["lsp"; t] -> (match lex_sheet_prefix_x (text_of_wire t) with
                   | Some (name, rest) when rest = [z_of_int 65; z_of_int 49] -> "some " ^ wire_of_text name
                   | _ -> "none")
  | _ -> "badcase"

let () =
  let prop = Sys.argv.(1) in
  let handler = match prop with
    | "c22" -> c22
    | _ -> (fun _ -> "noprop") in
  (try
    while true do
      let line = input_line stdin in
      let f = String.split_on_char ' ' line in
      print_string (handler f); print_char '\n'
    done
  with End_of_file -> ())
