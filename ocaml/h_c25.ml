(* h_c25.ml — case handler of the C25 runner: decodes an abstract package from the wire
   (a '.'-separated list of integers, see harness/c25/src/abs.rs Pkg::wire) and prints the
   outcome class the navigation skeleton predicts. *)
exception Bad_wire

let ints_of_wire s = List.map int_of_string (String.split_on_char '.' s)

let take = function x :: r -> (x, r) | [] -> raise Bad_wire

let rec parse_attrs n l acc =
  if n = 0 then (List.rev acc, l)
  else
    let (a, l) = take l in
    let (k, l) = take l in
    let (x1, l) = take l in
    let (x2, l) = take l in
    let (x3, l) = take l in
    let (x4, l) = take l in
    let z = z_of_int in
    let v = match k with
      | 0 -> VNum (z x1) | 1 -> VBad | 2 -> VWord (z x1) | 3 -> VId (z x1)
      | 4 -> VTarget (z x1, z x2) | 5 -> VCell (z x1, z x2)
      | 6 -> VRange (z x1, z x2, z x3, z x4) | 7 -> VRgb (z x1)
      | _ -> raise Bad_wire in
    parse_attrs (n - 1) l ((z a, v) :: acc)

let rec parse_xml l =
  let (tag, l) = take l in
  let (na, l) = take l in
  let (attrs, l) = parse_attrs na l [] in
  let (tx, l) = take l in
  let (nk, l) = take l in
  let (kids, l) = parse_kids nk l [] in
  (Elem (z_of_int tag, attrs, (tx = 1), kids), l)
and parse_kids n l acc =
  if n = 0 then (List.rev acc, l)
  else let (k, l) = parse_xml l in parse_kids (n - 1) l (k :: acc)

let parse_fstate l =
  let (k, l) = take l in
  match k with
  | 0 -> (Missing, l)
  | 1 -> (Malformed, l)
  | 2 -> let (x, l) = parse_xml l in (Tree x, l)
  | _ -> raise Bad_wire

let rec parse_parts n l acc =
  if n = 0 then (List.rev acc, l)
  else
    let (id, l) = take l in
    let (f, l) = parse_fstate l in
    parse_parts (n - 1) l ((z_of_int id, f) :: acc)

let parse_pkg l =
  let (sst, l) = parse_fstate l in
  let (wb, l) = parse_fstate l in
  let (rels, l) = parse_fstate l in
  let (styles, l) = parse_fstate l in
  let (np, l) = take l in
  let (parts, l) = parse_parts np l [] in
  let (ns, l) = take l in
  let (srels, l) = parse_parts ns l [] in
  if l <> [] then raise Bad_wire;
  { p_sst = sst; p_wb = wb; p_rels = rels; p_styles = styles; p_parts = parts; p_srels = srels }

let cls = function Ok _ -> "ok" | Err -> "err" | Panic -> "panic"

let handle f = match f with
  | ["pkg"; w] -> (try cls (load_skel (parse_pkg (ints_of_wire w))) with Bad_wire | Failure _ -> "badwire")
  | ["dec"; w] -> (match decode_cursor_x (text_of_wire w) with Panic -> "panic" | _ -> "nopanic")
  | _ -> "badcase"
