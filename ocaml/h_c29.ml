(* h_c29.ml — case handler of the C29 runner: replays a history on the extracted model of the
   column descriptors / row records and prints the same integers as harness/c29. *)
let zdiv a b = z_of_int (int_of_z a / b)
(* pixel <-> stored tokens: exact on the multiples of 9 (widths) and 25 (heights) the cases use *)
let down_w w = z_of_int (let x = int_of_z w in if x >= 0 then x / 9 else - ((- x) / 9))
let up_w x = z_of_int (int_of_z x * 9)
let down_h h = z_of_int (int_of_z h * 16 / 25)
let up_h x = z_of_int (int_of_z x * 25 / 16)

let rec take n l = if n = 0 then ([], l) else match l with x :: r -> let (a, b) = take (n - 1) r in (x :: a, b) | [] -> raise Not_found
let ios = int_of_string

(* n then n*6 ints *)
let parse_cols f =
  match f with
  | n :: r ->
    let n = ios n in
    let rec go k r acc = if k = 0 then (List.rev acc, r) else
      match r with
      | a :: b :: c :: d :: e :: s :: r' ->
        let st = ios s in
        go (k - 1) r' ({ c_min = zi a; c_max = zi b; c_width = zi c; c_custom = (d = "1"); c_hidden = (e = "1");
                         c_style = (if st = 0 then None else Some (z_of_int (st - 1))) } :: acc)
      | _ -> raise Not_found in
    go n r []
  | [] -> raise Not_found

let parse_rows f =
  match f with
  | n :: r ->
    let n = ios n in
    let rec go k r acc = if k = 0 then (List.rev acc, r) else
      match r with
      | a :: b :: c :: d :: e :: s :: r' ->
        go (k - 1) r' ({ r_r = zi a; r_height = zi b; r_custom_format = (c = "1"); r_custom_height = (d = "1");
                         r_s = zi e; r_hidden = (s = "1") } :: acc)
      | _ -> raise Not_found in
    go n r []
  | [] -> raise Not_found

let parse_ops f =
  match f with
  | n :: r ->
    let n = ios n in
    let rec go k r acc = if k = 0 then (List.rev acc, r) else
      match r with
      | a :: b :: c :: r' -> go (k - 1) r' ((ios a, zi b, ios c) :: acc)
      | _ -> raise Not_found in
    go n r []
  | [] -> raise Not_found

let parse_list f =
  match f with
  | n :: r -> let (a, b) = take (ios n) r in (List.map zi a, b)
  | [] -> raise Not_found

let cop_of (k, j, v) = match k with
  | 0 -> SetWidth (j, z_of_int v) | 1 -> SetHidden (j, v <> 0) | 2 -> SetStyle (j, z_of_int v) | _ -> DelStyle j
let rop_of (k, j, v) = match k with
  | 0 -> SetHeight (j, z_of_int v) | 1 -> SetRowHidden (j, v <> 0) | 2 -> SetRowStyle (j, z_of_int v) | _ -> DelRowStyle j

let b2i b = if b then 1 else 0

(* one step: (ok, flag, state'); columns have no flag (printed only for rows) *)
let col_step cs o =
  match apply_cop down_w up_w cs o with
  | Ok cs' -> (1, 0, cs')
  | _ -> (0, 0, cs)
let row_step rs o =
  let d = b2i (materialises rs o) in
  match apply_rop down_h rs o with
  | Ok rs' -> (1, d, rs')
  | _ -> (0, d, rs)

let col_final cs oks _defs obs =
  let out = ref [] in
  let push x = out := x :: !out in
  List.iter push oks;
  push (List.length cs);
  List.iter (fun c -> push (int_of_z c.c_min); push (int_of_z c.c_max); push (int_of_z c.c_width); push (b2i c.c_custom);
                      push (b2i c.c_hidden); push (match c.c_style with None -> 0 | Some s -> int_of_z s + 1)) cs;
  List.iter (fun j ->
    push (match get_column_width up_w cs j with Ok w -> int_of_z w | _ -> -1);
    push (match get_actual_column_width up_w cs j with Ok w -> int_of_z w | _ -> -1);
    push (match is_column_hidden cs j with Ok b -> b2i b | _ -> -1);
    push (match get_column_style cs j with Ok None -> 0 | Ok (Some s) -> int_of_z s + 1 | _ -> -1);
    (* Model::get_cell_style_index on an empty cell of the column, in a row without record *)
    push (match style_at cs j with Some s -> int_of_z s | None -> 0)) obs;
  List.rev !out

let row_final rs oks defs obs =
  let out = ref [] in
  let push x = out := x :: !out in
  List.iter push oks; List.iter push defs;
  push (List.length rs);
  List.iter (fun x -> push (int_of_z x.r_r); push (int_of_z x.r_height); push (b2i x.r_custom_format); push (b2i x.r_custom_height);
                      push (int_of_z x.r_s); push (b2i x.r_hidden)) rs;
  List.iter (fun r ->
    push (match row_height up_h rs r with Ok h -> int_of_z h | _ -> -1);
    push (match is_row_hidden rs r with Ok b -> b2i b | _ -> -1);
    push (match get_row_style rs r with None -> 0 | Some s -> int_of_z s + 1);
    push (int_of_z (rheight_at up_h rs r));
    let (s, cf) = rstyle_at rs r in
    push (int_of_z s); push (b2i cf);
    (* Model::get_cell_style_index on an empty cell of a column without descriptor *)
    push (if cf then int_of_z s else 0)) obs;
  List.rev !out

let hash_ints v h =
  List.fold_left (fun h x -> (h * 1000003 + (x + 1000000007)) land 0x3FFFFFFFFFFFFFFF) h v

let ints v = String.concat " " (List.map string_of_int v)

let run step ops st =
  let (oks, defs, st) = List.fold_left (fun (oks, defs, st) o -> let (k, d, st') = step st o in (k :: oks, d :: defs, st')) ([], [], st) ops in
  (List.rev oks, List.rev defs, st)

let handle f = match f with
  | "c" :: r ->
    let (cs, r) = parse_cols r in let (ops, r) = parse_ops r in let (obs, _) = parse_list r in
    let (oks, defs, cs') = run col_step (List.map cop_of ops) cs in
    ints (col_final cs' oks defs obs)
  | "cx" :: r ->
    let (cs, r) = parse_cols r in let (ops, r) = parse_ops r in let (obs, r) = parse_list r in let (alpha, _) = parse_ops r in
    let (oks, defs, cs') = run col_step (List.map cop_of ops) cs in
    let h = List.fold_left (fun h o -> let (k, d, cs'') = col_step cs' (cop_of o) in
                             hash_ints (col_final cs'' (oks @ [k]) (defs @ [d]) obs) h) 0 alpha in
    string_of_int h
  | "r" :: r ->
    let (rs, r) = parse_rows r in let (ops, r) = parse_ops r in let (obs, _) = parse_list r in
    let (oks, defs, rs') = run row_step (List.map rop_of ops) rs in
    ints (row_final rs' oks defs obs)
  | "rx" :: r ->
    let (rs, r) = parse_rows r in let (ops, r) = parse_ops r in let (obs, r) = parse_list r in let (alpha, _) = parse_ops r in
    let (oks, defs, rs') = run row_step (List.map rop_of ops) rs in
    let h = List.fold_left (fun h o -> let (k, d, rs'') = row_step rs' (rop_of o) in
                             hash_ints (row_final rs'' (oks @ [k]) (defs @ [d]) obs) h) 0 alpha in
    string_of_int h
  | _ -> "badcase"
