#!/usr/bin/env python3
"""Regenerates the three artefacts that are enumerations of Shape.bad_pair:
   coq/theories/Syntax/Refuted.v, the C09_refuted_* block of coq/theories/Props/C09.v (printed to
   stdout) and the F02 lines of known/C09.jsonl (printed to stdout with --known).
   The table below must be the one of coq/theories/Syntax/Shape.v (bad_pair, xlsx = false); the lemma
   C09_bad_pair_table and the vm_compute proofs of Refuted.v fail if it is not."""
import sys, json
table = []
def add(p, pos, cs):
    for c in cs: table.append((p, pos, c))
# since commit 1fc9128: only the three associative pairs are printed bare
add("Concat", "right", ["Concat"]); add("Add", "right", ["Add", "Sub"])
child = {"Cmp": "(ECmp CLt n1 n2)", "Concat": "(EConcat n1 n2)", "Add": "(ESum SAdd n1 n2)", "Sub": "(ESum SMinus n1 n2)", "Prod": "(EProd PTimes n2 n3)",
         "Pow": "(EPow n2 n3)", "Neg": "(ENeg n1)", "Pct": "(EPct n1)", "Range": "(ERangeOp xv r0)", "At": "(EAt false r0)", "Spill": "(ESpill r0)"}
kn = {"Cmp": "KCmp", "Concat": "KConcat", "Add": "(KSum SAdd)", "Sub": "(KSum SMinus)", "Prod": "KProd", "Pow": "KPow", "Neg": "KNeg", "Pct": "KPct", "Range": "KRangeOp", "At": "KAt", "Spill": "KSpill"}
pn = {"left": "PLeft", "right": "PRight", "only": "POnly"}
def wit(p, pos, c):
    x = child[c]
    if p == "Neg": return "ENeg %s" % x
    if p == "Pct": return "EPct %s" % x
    if p == "At": return "EAt false %s" % x
    if p == "Spill": return "ESpill %s" % x
    con = {"Cmp": "ECmp CLt", "Concat": "EConcat", "Add": "ESum SAdd", "Sub": "ESum SMinus", "Prod": "EProd PTimes", "Range": "ERangeOp"}[p]
    if p == "Range": return "%s %s xv" % (con, x) if pos == "left" else "%s xv %s" % (con, x)
    return "%s %s n3" % (con, x) if pos == "left" else "%s n3 %s" % (con, x)
bu = ["Cmp", "Concat", "Add", "Sub", "Prod", "Pow", "Neg", "Pct", "Range"]
np_ = bu + ["At", "Spill"]
former = []
def addf(p, pos, cs):
    for c in cs:
        if (p, pos, c) not in table: former.append((p, pos, c))
# the table before commit 1fc9128 (63 triples); the 60 that are not in `table` are repaired
addf("Cmp", "right", ["Cmp"]); addf("Concat", "left", ["Cmp"]); addf("Concat", "right", ["Cmp", "Concat"])
addf("Add", "left", ["Concat"]); addf("Sub", "left", ["Concat"]); addf("Add", "right", ["Concat", "Add", "Sub"]); addf("Sub", "right", ["Concat"])
addf("Prod", "left", ["Concat"]); addf("Prod", "right", ["Concat"])
addf("Neg", "only", ["Cmp", "Concat", "Prod"]); addf("Pct", "only", ["Cmp", "Concat", "Add", "Sub", "Prod", "Pow"])
addf("Range", "left", bu); addf("Range", "right", np_); addf("At", "only", np_); addf("Spill", "only", np_)
if "--former-list" in sys.argv:
    for t in former: print("%s<-%s:%s" % (t[0], t[2], t[1]))
    sys.exit(0)
if "--former" in sys.argv:
    print("(* the 60 witnesses of the pairs repaired by commit 1fc9128: each now comes back *)")
    print("Lemma former_witnesses_roundtrip :")
    print("  " + " /\\\n  ".join("parse m_rc nm0 env0 (glue true (print m_rc nm0 (%s))) = Some (%s, [])" % (wit(*t), wit(*t)) for t in former) + ".")
    print("Proof. repeat split; vm_compute; reflexivity. Qed.")
    sys.exit(0)
if "--list" in sys.argv:
    for t in table: print("%s<-%s:%s" % (t[0], t[2], t[1]))
    sys.exit(0)
for (p, pos, c) in table:
    n = "C09_refuted_%s_%s_%s" % (p, c, pos)
    if "--props" in sys.argv:
        print("Theorem %s : bad_pair false %s %s %s = true /\\ refutes w_%s_%s_%s.\nProof. exact Refuted.%s. Qed.\nPrint Assumptions %s.\n" % (n, kn[p], pn[pos], kn[c], p, c, pos, n, n))
    else:
        print("Definition w_%s_%s_%s : ast := %s." % (p, c, pos, wit(p, pos, c)))
        print("Lemma %s : bad_pair false %s %s %s = true /\\ refutes w_%s_%s_%s.\nProof. split; [reflexivity|]. repeat split; try (vm_compute; reflexivity). vm_compute. discriminate. Qed.\n" % (n, kn[p], pn[pos], kn[c], p, c, pos))
