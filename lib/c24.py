"""C24 — xlsx export then import preserves the workbook: proved codecs (escaping, cell types, formula text) + whole-workbook oracle"""
from common import *

ASSUMPTIONS = [
  "PROVED: the escaping codec, the cell-type codec (t= / <v> / <f> / cm per Cell x FormulaValue kind) and formula text by reduction to C09 (xlsx printer mode) + C23 (xlsx function names) + the character layer. ORACLE ONLY: styles.xml, theme, sheet properties, rows / columns, defined names, links, conditional formats, tables, doc props, the zip container — compared on whole workbooks (snapshot of vh_hist, styles by value)",
  "the cell-type codec theorem has the law of the two Rust number primitives as an explicit premise, on FINITE numbers (parse::<f64>(format!(\"{}\", v)) = v; a non-finite <v> is read as 0 since /repo 3c03706); the whole-workbook oracle exercises it on every number it generates (bit-exact comparison of cell values)",
  "the imported workbook is compared with the original saved in the internal format, reloaded and evaluated once more (not with the original's cached values): stale or order-dependent cached values (C07 / C31) are not charged to the xlsx round trip",
  "value-only differences (same formula text, same style) are treated as consequences when the same comparison has a classified root difference; alone they are reported as xlsx:value-changed",
  "what to_excel_string does before printing (remove_redundant_implicit_intersection, prefix_bound_variables) and what the reader does after parsing (add_implicit_intersection) is not modelled; it is covered by the whole-workbook oracle only",
  "escape_xml and decode_xlsx_escapes are private to the xlsx crate: they are observed through save_xlsx_to_writer (the <t> contents of xl/sharedStrings.xml, read with the zip crate) and load_from_xlsx_bytes (a crafted sharedStrings.xml part), not called directly",
  "the model works on code points while the code indexes bytes of the UTF-8 encoding; the equivalence is argued in Codec/XmlEscape.v (ASCII tests at i, i+1, i+6; a matching window is four one-byte characters) and exercised with 2-, 3- and 4-byte characters at every position of the window",
  "xml_unescape models roxmltree 0.19 on text content (five entities, decimal and hex character references, CR/CRLF -> LF, '<' and non-XML characters rejected); compared with roxmltree on every string the writer produced and on hand-written references",
  "the zip container and the rest of the XML documents are exercised, not modelled",
]

def run(cfg):
    rc, log, meta = run_harness(cfg, "c24")
    if rc != 0:
        return {"evaluations": 0, "distinct_nontrivial": 0, "disagreements": [{"input": "harness", "impl": "exit %d" % rc, "model": log[-500:]}], "oracle_failures": []}
    rc2, err = run_model(cfg, "c24")
    n, ndis, dis = diff_lines(cfg, "c24")
    if rc2 != 0:
        dis.append({"input": "runner", "impl": "", "model": err[-500:]})
    return {
        "evaluations": n + meta.get("oracle_checked", 0),
        "distinct_nontrivial": meta.get("distinct_nontrivial", 0),
        "rule": "writer (esc), importer's XML parser (xun), reader (dec) and writer+reader (rt) separately against the extracted model: all strings up to length 5 (quick) / 6 (thorough) over _ x 0 4 1 F A U+0001 <; all strings up to length 3 / 4 over a 17-symbol alphabet with & \" ' LF CR TAB, a 2-byte and a 4-byte character; exhaustive sweeps of the 7-8 character look-alike window (a b h h h h u v) incl. multi-byte characters inside the window and prefixes; 30k / 300k random strings of 6-40 characters from every plane; crafted <t> contents for the reader (window sweeps incl. surrogate values D800, lower-case hex, short strings, random, real writer output). Oracle: writer+reader returns the string. WHOLE WORKBOOKS: 50 (quick) / 400 (thorough) seeded user-model histories of 25 / 40 operations (vh_hist generator: inputs, array formulas, clears, row/column insert/delete/move, widths, heights, hidden flags, frozen panes, styles, borders, sheets, names, locale, links, named styles, conditional formats, autofill, copy/cut/paste, csv) exported and re-imported after EVERY operation, plus 46 coverage workbooks (every font / fill / border / alignment attribute, 48 number formats incl. the built-in codes typed as custom ones, quote prefix, row / column / named styles, widths / heights / hidden flags, 18 sheet names, sheet states / colours / frozen panes / grid lines, global and sheet-scoped names, 6 link shapes, one workbook per conditional-format rule kind (28) and one with all, every value and error kind, CSE and dynamic arrays, strings from every plane / XML specials / every C0 control / look-alikes / blanks as values, as cached formula results and inside formulas); snapshots compared line by line, every difference classified by a root-cause class computed from the original workbook; a history continues past recorded classes and stops at any other. Non-trivial = strings the writer changes + contents the reader changes + workbooks round-tripped",
        "samples": meta.get("samples", []),
        "disagreements": dis, "n_disagreements": ndis,
        "oracle_failures": meta.get("oracle_failures", []),
        "exhaustive": True,
        "extra": {"input_distribution": meta.get("distribution", {}), "oracle_checked": meta.get("oracle_checked", 0),
                  "oracle_failures_per_class": meta.get("oracle_failures_per_class", {}),
                  "known_class_members_generated": meta.get("class_members", 0),
                  "known_class_members_failing": meta.get("class_members_failing", 0),
                  "scope": "proved: escaping codec, cell-type codec, formula text by reduction; oracle-only: the rest of the workbook",
                  "workbooks": meta.get("workbooks", {}),
                  "model_vs_impl_cases": n, "model_vs_impl_disagreements": ndis},
    }
