"""C24 — xlsx export then import preserves the workbook: the STRING-ESCAPING CODEC part only"""
from common import *

ASSUMPTIONS = [
  "SCOPE: only the escaping codec of C24 is claimed so far (escape_xml, the XML parser's entity resolution, decode_xlsx_escapes on shared strings); cell types, formulas, styles and the container are not covered yet",
  "escape_xml and decode_xlsx_escapes are private to the xlsx crate: they are observed through save_xlsx_to_writer (the <t> contents of xl/sharedStrings.xml, read with the zip crate) and load_from_xlsx_bytes (a crafted sharedStrings.xml part), not called directly",
  "the model works on code points while the code indexes bytes of the UTF-8 encoding; the equivalence is argued in Codec/XmlEscape.v (ASCII tests at i, i+1, i+6; a matching window is four one-byte characters) and exercised with 2-, 3- and 4-byte characters at every position of the window",
  "xml_unescape models roxmltree 0.19 on text content (five entities, decimal and hex character references, CR/CRLF -> LF, '<' and non-XML characters rejected); compared with roxmltree on every string the writer produced and on hand-written references",
  "the zip container and the rest of the XML documents are exercised, not modelled",
]

def run(cfg):
    rc, log, meta = run_harness(cfg, "c24")
    if rc != 0:
        return {"evaluations": 0, "distinct_nontrivial": 0, "disagreements": [{"input": "harness", "impl": "exit %d" % rc, "model": log[-500:]}], "oracle_failures": []}
    rc2, err = run_model(cfg, "c24")
    n, ndis, dis = diff_lines(cfg, "c24")
    if rc2 != 0:
        dis.append({"input": "runner", "impl": "", "model": err[-500:]})
    return {
        "evaluations": n + meta.get("oracle_checked", 0),
        "distinct_nontrivial": meta.get("distinct_nontrivial", 0),
        "rule": "writer (esc), importer's XML parser (xun), reader (dec) and writer+reader (rt) separately against the extracted model: all strings up to length 5 (quick) / 6 (thorough) over _ x 0 4 1 F A U+0001 <; all strings up to length 3 / 4 over a 17-symbol alphabet with & \" ' LF CR TAB, a 2-byte and a 4-byte character; exhaustive sweeps of the 7-8 character look-alike window (a b h h h h u v) incl. multi-byte characters inside the window and prefixes; 30k / 300k random strings of 6-40 characters from every plane; crafted <t> contents for the reader (window sweeps incl. surrogate values D800, lower-case hex, short strings, random, real writer output). Oracle: writer+reader returns the string. Non-trivial = strings the writer changes + contents the reader changes",
        "samples": meta.get("samples", []),
        "disagreements": dis, "n_disagreements": ndis,
        "oracle_failures": meta.get("oracle_failures", []),
        "exhaustive": True,
        "extra": {"input_distribution": meta.get("distribution", {}), "oracle_checked": meta.get("oracle_checked", 0),
                  "oracle_failures_per_class": meta.get("oracle_failures_per_class", {}),
                  "known_class_members_generated": meta.get("class_members", 0),
                  "known_class_members_failing": meta.get("class_members_failing", 0),
                  "scope": "escaping codec only",
                  "model_vs_impl_cases": n, "model_vs_impl_disagreements": ndis},
    }
