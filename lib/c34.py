"""C34 — F4 reference cycling has period four and touches only $ markers"""
from common import *

ASSUMPTIONS = [
  "the lexer is not modelled: the model of cycle_reference takes the marked tokens (is Reference/Range, start, end) that get_tokens_with_locale returns for the formula body as an input; the harness passes the implementation's token list with every case, and the theorems about the driver assume only that token boundaries are monotone and inside the body",
  "char::is_whitespace is the parameter ws of the model; the executable instance f4_ws (Unicode White_Space) is compared with the Rust standard library on every code point below U+3100 and on every character the generators use ('cls' cases)",
  "usize cursor positions and the `as i32` casts of lengths are modelled by unbounded Z (formulas are far shorter than 2^31 characters)",
  "the formula-level period statement needs the cycled text to lex to the same reference tokens (reparse hypothesis, stated explicitly in C34_formula_period_partial); where it fails (F04, juxtaposed operands, row 0) the oracle reports a listed finding",
]

def run(cfg):
    rc, log, meta = run_harness(cfg, "c34")
    if rc != 0:
        return {"evaluations": 0, "distinct_nontrivial": 0, "disagreements": [{"input": "harness", "impl": "exit %d" % rc, "model": log[-500:]}], "oracle_failures": []}
    rc2, err = run_model(cfg, "c34")
    n, ndis, dis = diff_lines(cfg, "c34")
    if rc2 != 0:
        dis.append({"input": "runner", "impl": "", "model": err[-500:]})
    return {
        "evaluations": n + meta.get("oracle_checked", 0),
        "distinct_nontrivial": meta.get("distinct_nontrivial", 0),
        "rule": "formulas from a grammar of up to 3 references/ranges (cells with '$' in every position, cell ranges, row-only and column-only ranges, lower case, leading blanks, no / unquoted / quoted sheet prefix incl. doubled quotes, blank before '!'), joined by 8 operators incl. ':' and juxtaposition, and embedded in 26 surrounding contexts (functions, unfinished input, range operator with a function/name/number on the right); every family is enumerated completely in both tiers (2- and 3-reference formulas up to %s characters); for each formula ALL cursor positions and ALL selections start<=end (this finite space is what 'exhaustive' refers to); in addition, sampled: random longer formulas (up to 6 references, long columns/rows, de locale) with random cursors incl. start>end and out-of-range, plus short random strings over the grammar's alphabet. Per case: extracted model vs implementation (text and both cursor positions), and the oracle: only '$'/case change inside touched tokens, cursor lands where documented, every one of four presses parses to the same cells, four presses restore the original up to case. Non-trivial = distinct (formula, first touched token, number of touched tokens)" % meta.get("max_len_exhaustive", "?"),
        "samples": meta.get("samples", []),
        "disagreements": dis, "n_disagreements": ndis,
        "oracle_failures": meta.get("oracle_failures", []),
        "exhaustive": True,
        "extra": {"input_distribution": meta.get("distribution", {}), "oracle_checked": meta.get("oracle_checked", 0),
                  "oracle_failures_per_class": meta.get("oracle_failures_per_class", {}),
                  "model_vs_impl_cases": n, "model_vs_impl_disagreements": ndis},
    }
