"""C17 — sheet rename, move and duplicate preserve values"""
from common import *

ASSUMPTIONS = [
  "L2 works on tokens (as C09): the character level — in particular the spelling of the new sheet name inside the stored text — is tied by the correspondence (the real English lexer's tokens of the stored text before and after must be the model's input and printed tokens) and, for the name itself, by C22's sheet-name codec theorem instantiated in C17_rename_name_survives",
  "function, boolean and error names and str::to_uppercase/to_lowercase are parameters of the models (record Printer.names), instantiated by the runner with the tables the harness dumps from the built code on every run; case mapping is ASCII/Latin-1 (sheet names in the pools differ by more than case outside Latin-1)",
  "the parser environment after the operation takes its defined-name texts from the implementation (they are carried inside DefinedNameKind nodes); the defined-name rewrite itself is checked by the oracle only",
  "boolean literals are not generated in stored formulas of non-English workbooks (their tokens differ per lexer language)",
  "values are compared through Model::get_cell_value_by_index on a reloaded (to_bytes/from_bytes) workbook, so what reloading changes (C09) is not attributed to the sheet operation",
]

def run(cfg):
    rc, log, meta = run_harness(cfg, "c17")
    if rc != 0:
        return {"evaluations": 0, "distinct_nontrivial": 0, "disagreements": [{"input": "harness", "impl": "exit %d" % rc, "model": log[-500:]}], "oracle_failures": []}
    rc2, err = run_model(cfg, "c17")
    n, ndis, dis = diff_lines(cfg, "c17")
    if rc2 != 0:
        dis.append({"input": "runner", "impl": "", "model": err[-500:]})
    return {
        "evaluations": n + meta.get("oracle_checked", 0),
        "distinct_nontrivial": meta.get("distinct_nontrivial", 0),
        "rule": "generated workbooks (2-4 sheets with tricky names; per sheet up to 14 formulas: cross-sheet, self-qualified, unqualified references, references and ranges on nonexistent sheets, multi-argument calls, decimal literals, global and sheet-local defined names, second-layer formulas) in English and non-English language/locale configurations (quick 8 workbooks, thorough 60 over all 30 language x locale pairs); EVERY sheet x a pool of 58 new names (valid tricky ones: quotes, blanks, '!', look-alikes of references/booleans/functions, non-ASCII, operators, 31 characters; invalid ones; names of other sheets) — quick: a rotating third of the pool per sheet after the first three workbooks; every (from, to) pair of move_sheet incl. out of range; duplicate of every sheet. Per operation: the node pass + stored printer + re-parse of every stored formula (extracted model vs implementation), validation result, sheet order, the property oracle on trees and values of every cell, undo of rename. distinct_nontrivial = distinct (stored formula before, after) pairs",
        "samples": meta.get("samples", []),
        "disagreements": dis, "n_disagreements": ndis,
        "oracle_failures": meta.get("oracle_failures", []),
        "exhaustive": True,
        "extra": {"input_distribution": meta.get("distribution", {}), "oracle_checked": meta.get("oracle_checked", 0),
                  "oracle_failures_per_class": meta.get("oracle_failures_per_class", {}),
                  "model_vs_impl_cases": n, "model_vs_impl_disagreements": ndis},
    }
