"""C27 — workbook structure stays well-formed"""
from common import *

ASSUMPTIONS = [
  "the upper-cased sheet name is computed by the implementation side (str::to_uppercase) and handed to the predicate; the model does not re-implement Unicode case mapping",
  "the proved operation set is: column descriptor operations (Cols.cop), row record creation/removal, style interning on the pool skeleton, shared-string push, new sheet, rename, delete sheet, and (for the spill clause, given fullness) evaluate-anchor / reset / prepare-for-input; every other operation is monitored only",
  "number-format ids below 50 count as built-in (styles.rs DEFAULT_NUM_FMTS)",
  "states with more than 3000 cells (histories) / 20000 cells (xlsx) are judged by the Rust re-implementation of the predicate only",
]

def run(cfg):
    rc, log, meta = run_harness(cfg, "c27")
    if rc != 0:
        return {"evaluations": 0, "distinct_nontrivial": 0, "disagreements": [{"input": "harness", "impl": "exit %d" % rc, "model": log[-500:]}], "oracle_failures": []}
    rc2, err = run_model(cfg, "c27")
    n, ndis, dis = diff_lines(cfg, "c27", limit=6)
    if rc2 != 0:
        dis.append({"input": "runner", "impl": "", "model": err[-500:]})
    for d in dis:
        for k in ("input", "impl", "model", "readable"):
            if isinstance(d.get(k), str) and len(d[k]) > 1500: d[k] = d[k][:1500] + " ..."
    return {
        "evaluations": n + meta.get("oracle_checked", 0),
        "distinct_nontrivial": meta.get("distinct_nontrivial", 0),
        "rule": "descriptor surgery of delete_columns / insert_columns: every well-formed layout over 6 (thorough 7) columns at both ends of the grid x every band, implementation vs extracted model; after every step (successful, failed, undo, redo) of seeded vh_hist histories from the seed workbook, and after load and after evaluate of the repository's .xlsx test files (a third of them per quick run, all in thorough), the skeleton of model.workbook is dumped and judged by the extracted wf_workbook_b and by its Rust re-implementation. Non-trivial = history steps + 2 x loaded files",
        "samples": meta.get("samples", []),
        "disagreements": dis, "n_disagreements": ndis,
        "oracle_failures": meta.get("oracle_failures", []),
        "exhaustive": False,
        "extra": {"input_distribution": meta.get("distribution", {}), "oracle_checked": meta.get("oracle_checked", 0),
                  "oracle_failures_per_class": meta.get("oracle_failures_per_class", {}),
                  "model_vs_impl_cases": n, "model_vs_impl_disagreements": ndis},
    }
