"""C32 — defined names are stable under edits"""
from common import *
import os, json, subprocess, resource

ASSUMPTIONS = [
  "the rename pass RenameName.rename is tied on the trees update_defined_name leaves behind (formula field of DefinedNameKind blanked: the re-parse refreshes it); trees that the stored text does not bring back unchanged (C09/C26 classes) are excluded from the tie because the re-parse, not the pass, changes them",
  "str::to_lowercase is modelled on ASCII and Latin-1 (Localize.lower)",
  "C32_rename_values is about the name table as a key/value list (parsed_defined_names keyed by (scope, lower-cased name)); that the evaluator resolves a DefinedNameKind / NamedFunctionKind through that table is observed on the implementation only",
  "C32_other_sheets models rename_sheet_by_index on ONE name formula at token level (parse with the English parser, rename, print with to_english_string — commit 9f60d5e) and formula_after_name_rename models update_defined_name on ONE stored cell formula (English parser since commit 0ec334c); the character level (a leading '=', decimal separators inside number tokens) is outside the model: a formula stored with its leading '=' does not parse at all and is copied (oracle class rename_sheet_skips_name_formula_with_equals_sign)",
  "the xlsx round trip is oracle-only (names compared modulo the leading '=' the writer drops); the binary round trip is C26's theorem",
]

def pre_proof(cfg):
    """the theorems range over the generated tables of the compiled code: regenerate them with C23's translator
    (its harness binary is rebuilt first, so that the dump is of the code as it is now)"""
    root = cfg["root"]
    p = subprocess.run(["bash", "-c", "cargo build --release --offline -p vh_c23 2>&1 | tail -5; exit ${PIPESTATUS[0]}"],
                       cwd=os.path.join(root, "harness"), env=dict(os.environ, CARGO_NET_OFFLINE="true"),
                       stdout=subprocess.PIPE, stderr=subprocess.STDOUT, timeout=2400)
    if p.returncode != 0:
        raise RuntimeError("building vh_c23 failed: " + p.stdout.decode("utf-8", "replace")[-400:])
    import c23
    return c23.pre_proof(cfg)


def run(cfg):
    root = cfg["root"]
    out = os.path.join(root, "cases")
    cmd = [os.path.join(root, "harness/target/release/vh_c32"), str(cfg["seed"]), cfg["tier"], out]
    def lim():
        resource.setrlimit(resource.RLIMIT_AS, (12 << 30, 12 << 30))
    p = subprocess.run(cmd, stdout=subprocess.PIPE, stderr=subprocess.STDOUT, timeout=3000, preexec_fn=lim)
    log = p.stdout.decode("utf-8", "replace")
    mp = os.path.join(out, "c32.meta.json")
    meta = json.load(open(mp)) if os.path.exists(mp) else {}
    if p.returncode != 0:
        return {"evaluations": 0, "distinct_nontrivial": 0, "disagreements": [{"input": "harness", "impl": "exit %d" % p.returncode, "model": log[-500:]}], "oracle_failures": []}
    rc2, err = run_model(cfg, "c32")
    n, ndis, dis = diff_lines(cfg, "c32")
    if rc2 != 0:
        dis.append({"input": "runner", "impl": "", "model": err[-500:]})
    return {
        "evaluations": n + meta.get("oracle_checked", 0),
        "distinct_nontrivial": meta.get("distinct_nontrivial", 0),
        "rule": "EXHAUSTIVE over configurations x operations: all 5 languages x 6 locales x 13 operations (switch only; rename / move / delete ANOTHER sheet; rename a sheet the names mention; new sheet; rename a global cell name, a global range name, a LAMBDA name, a sheet-local name, rename to an identifier a formula already uses; to_bytes/from_bytes; xlsx export/import) on a workbook with global and sheet-local cell, range and LAMBDA names (6 variants: LAMBDA bodies with / without built-in functions, decimals, leading '='; one variant per scenario quick, all six thorough) and 10 cells that use them; observed in English: workbook.defined_names with the scope as a sheet name, and the stored values of the using cells; expectation = the names / values before with the operation's intended effect; every scenario also runs in en/en (twin) to separate language-specific from language-independent defects. The full product of ONE update_defined_name: 5 names (global, sheet-local, a shadowing global/local pair, local elsewhere) x {name kept, 2 new names} x 4 new scopes x {formula kept, changed} with 12 using cells on three sheets: exactly the formulas that resolved to the old (name, scope) are rewritten, and the result equals the workbook built directly in the end state. Tie: stored tokens before -> RenameName.update_name_in_formula = stored tokens after (S lines); RenameName.rename on every stored formula tree of the name operations plus 30 / 400 pool workbooks with 24 random formulas over the names. distinct_nontrivial = distinct (language, locale, operation, variant) scenarios",
        "samples": meta.get("samples", []),
        "disagreements": dis, "n_disagreements": ndis,
        "oracle_failures": meta.get("oracle_failures", []),
        "exhaustive": True,
        "extra": {"input_distribution": meta.get("distribution", {}), "oracle_checked": meta.get("oracle_checked", 0),
                  "oracle_failures_per_class": meta.get("oracle_failures_per_class", {}),
                  "model_vs_impl_cases": n, "model_vs_impl_disagreements": ndis},
    }
