"""C16 — cut and paste moves meaning, copy and paste translates it"""
from common import *

ASSUMPTIONS = [
  "L2 works on tokens (as C09): the character level is tied by the correspondence (the real lexer's tokens of the pasted text must equal the model's printed tokens after Shape.glue); where a character-level effect is outside the token model the case is oracle-only: in comma-decimal locales the hard-coded ',' of to_string_moved is not a separator token (it continues or starts a number), digit ':' digit '.' patterns, non-English error names, references already off the grid at the source",
  "function, boolean and error names and case mapping are parameters of the models (Printer.names), instantiated with the tables the harness dumps from the built code on every run",
  "move_cell_value_to_area is called directly with the proper source sheet for the correspondence; UserModel::paste_from_clipboard (which passes the target sheet as source sheet, finding F67) is exercised by the end-to-end oracle",
  "the sheet index recorded by the target-side parser (tidx in move_ast) is supplied by the runner from the sheet list; sheet-local defined names are compared by spelling (their visibility follows the sheet)",
]

def run(cfg):
    rc, log, meta = run_harness(cfg, "c16")
    if rc != 0:
        return {"evaluations": 0, "distinct_nontrivial": 0, "disagreements": [{"input": "harness", "impl": "exit %d" % rc, "model": log[-500:]}], "oracle_failures": []}
    rc2, err = run_model(cfg, "c16")
    n, ndis, dis = diff_lines(cfg, "c16")
    if rc2 != 0:
        dis.append({"input": "runner", "impl": "", "model": err[-500:]})
    return {
        "evaluations": n + meta.get("oracle_checked", 0),
        "distinct_nontrivial": meta.get("distinct_nontrivial", 0),
        "rule": "formulas from C09's exhaustive parent kind x position x child kind set (1686 trees), all operator triples (3296), every leaf kind / function name, random trees to depth 6, and every cell of a 6x6 block x 4 flag combinations as single references and ranges; each cut from C3 of Sheet1 with cut areas 1x1 ... 3x3 and targets on the same sheet (disjoint and overlapping) and on two other sheets (7 contexts; quick: rotating, thorough: all for the pair set), in English and rotating / all 30 locale x language pairs: Model::move_cell_value_to_area (pasted text lexed by the real lexer and re-parsed at the target cell) vs the extracted to_string_moved model; the same for copy (extend_copied_value). End to end with UserModel: cut / copy of ranges 1x1..3x3 with formulas inside and formulas elsewhere referring to cut cells and ranges, pasted on the same sheet (disjoint, overlapping) or another sheet; values, styles, cleared source, external formulas. distinct_nontrivial = distinct (configuration, pasted text)",
        "samples": meta.get("samples", []),
        "disagreements": dis, "n_disagreements": ndis,
        "oracle_failures": meta.get("oracle_failures", []),
        "exhaustive": True,
        "extra": {"input_distribution": meta.get("distribution", {}), "oracle_checked": meta.get("oracle_checked", 0),
                  "oracle_failures_per_class": meta.get("oracle_failures_per_class", {}), "end_to_end": meta.get("e2e", {}),
                  "model_vs_impl_cases": n, "model_vs_impl_disagreements": ndis},
    }
