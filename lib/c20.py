"""C20 — number formats display correctly rounded values (placement proved, rounding by oracle)"""
from common import *

ASSUMPTIONS = [
  "SPLIT: the Coq models are (1) the token walk of format_number (Num/FormatPlace.v, format.rs:474-654: digit vectors + parsed section -> text), (2) the format parser parse_part/parse over the lexer's token stream (Num/FormatParse.v) and (3) the string-level step of the float stage (Num/FormatNum.v: int_part emptied when zero, get_fract_part on the printed fraction). The float primitives (format.rs:436-473: scaling by 100^percent/1000^comma, to_precision, log10/powf, round/floor, format!(\"{}\"), format!(\"{:.p}\") of fract, is_negative, exponent_is_negative) are NOT modelled; the harness recomputes what they print with the same Rust primitives (function `mirror`, a copy of those lines) and the model consumes those strings. The theorems are about parsing, fraction-digit extraction and placement; rounding is covered by the oracle only.",
  "the mirror is validated on every case by the tie itself: extracted place(parsed section, mirrored digits) must equal format_number(value, code, locale).text; a mirror that departs from format.rs shows up as a correspondence disagreement",
  "the format-code lexer (characters -> tokens) is not modelled: the parser model is fed the tokens /repo's Lexer produces and compared with Parser::parse() on every generated code; wf_part of the parsed section is proved for the parser model (C20_parser_wf) and additionally re-observed by the extracted wf_part on every case (the impl line carries the constant 1)",
  "i32 arithmetic on indices (ln - digit_count + index etc.) is modelled in Z: overflow would need a format code or a number with 2^31 digits",
  "locales enter the walk through three fields only (decimal_formats.standard compared with two literal strings, symbols.group, symbols.decimal); the harness passes them for each of the locales of locales.bin",
  "oracle arithmetic: the 15-significant-digit decimal is format!(\"{:.14e}\") of |value| (the reduction the engine applies); percent/comma scaling is a shift of the decimal point; rounding half away from zero is done on digit strings (no f64 arithmetic)",
  "oracle family: codes built from 0 # ? , . % E+ E- and literal pieces (\"lit\" \\x - space $ _) *x \"a\"\"b\" ( ); a code is read as a member of the stated family when commas are either single between two integer placeholders (grouping) or directly after the last integer placeholder (scaling), there is at most one '.', and E+/E- is directly followed by one contiguous run of exponent placeholders; all other symbol sequences go through the tie, the no-panic check and the placement oracle only",
  "scientific formats: the statement's mantissa has one integer digit whatever the number of integer placeholders (engineering notation is a TODO in the code; not part of the oracle)",
]

def run(cfg):
    rc, log, meta = run_harness(cfg, "c20")
    if rc != 0:
        return {"evaluations": 0, "distinct_nontrivial": 0, "disagreements": [{"input": "harness", "impl": "exit %d" % rc, "model": log[-500:]}], "oracle_failures": []}
    rc2, err = run_model(cfg, "c20")
    n, ndis, dis = diff_lines(cfg, "c20")
    if rc2 != 0:
        dis.append({"input": "runner", "impl": "", "model": err[-500:]})
    dist = meta.get("distribution", {})
    return {
        "evaluations": n + meta.get("oracle_checked", 0),
        "distinct_nontrivial": meta.get("distinct_nontrivial", 0),
        "rule": "format codes: ALL sequences of up to 5 (quick) / 6 (thorough) symbols over {0 # ? , . % E+ E- literal} (literal pieces rotating over 9 kinds), family members up to 6 / 8 symbols (sampled above 40k / 150k per length), 12k / 60k two- and three-section codes, the built-in formats and the design probes; values (~2.7k / 4.9k, both signs): integers around 2^52 and 2^53, 15/16/17-digit decimals, halves / quarter ties / 49 / 51 / 4999999 / 5000001 tails at every precision 0..6, 10^k and its two neighbours for k in [-20,22], subnormals, f64::MAX, 0 and -0, random decimals with 1..17 digits; locales: all of locales.bin, rotating per case, plus a block with every locale on the same (value, code). Parser tie: every generated code plus all sequences of up to 3 / 4 pieces over a 36-piece alphabet (dates, times, colours, conditions, currencies, General, @, illegal characters) and 40k / 300k random longer ones. Each case: tie (extracted format_text = get_fract_part + place, wf_part, proved equations re-observed, vs format_number().text) and the three-layer oracle. Non-trivial = distinct (code, shown text) pairs",
        "samples": meta.get("samples", []),
        "disagreements": dis, "n_disagreements": ndis,
        "oracle_failures": meta.get("oracle_failures", []),
        "exhaustive": True,
        "extra": {"input_distribution": dist, "oracle_checked": meta.get("oracle_checked", 0),
                  "oracle_failures_per_class": meta.get("oracle_failures_per_class", {}),
                  "values": meta.get("values"), "locales": meta.get("locales"),
                  "model_vs_impl_cases": n, "model_vs_impl_disagreements": ndis},
    }
