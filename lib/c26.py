"""C26 — saving to and loading from the internal binary format is lossless"""
from common import *
import os, json, subprocess, resource

ASSUMPTIONS = [
  "the codec law dec(enc w) = Some w (bitcode) is a premise of the theorems; the harness checks it on every generated workbook with Workbook: PartialEq (through the bit-exact snapshot when the workbook holds a NaN, where f64 == is not reflexive)",
  "the character-level lexer is a parameter (lex_rc): for every stored formula of every generated workbook the real R1C1 lexer's tokens are given to the extracted Persist.parse_stored (= Syntax.Parser.parse in the stored form with the workbook's sheets, defined names and tables as environment), which must return the tree the real parser returned in from_bytes; name tables are dumped from the built code on every run (T lines), case mapping ASCII/Latin-1",
  "what from_workbook reads of the workbook is the projection `view`; parse_defined_names is an uninterpreted function of the stored workbook (its effect is observed through values only); StaticResult (second component of parsed_formulas) is not modelled",
  "C26_values assumes that the evaluator's inputs are a function of (stored workbook, parsed formulas) — parameter inputs_of — and then cites C07 (plain cells, acyclic, storable results); outside that scope values are compared on the implementation only (snapshots after evaluate on both sides)",
  "numbers in trees are canonical 15-digit texts (C09); the stored integer literal model store_int covers non-negative integer literals below 2^53; other long literals are oracle-only (class number_more_than_15_digits)",
  "vh_hist histories run in language en (the normalisation inputs also in de/fr/es/it models; the reload uses the live model's language); workbooks with volatile functions (RAND, RANDBETWEEN, NOW, TODAY) are not generated",
]

def run(cfg):
    root = cfg["root"]
    out = os.path.join(root, "cases")
    cmd = [os.path.join(root, "harness/target/release/vh_c26"), str(cfg["seed"]), cfg["tier"], out]
    def lim():
        resource.setrlimit(resource.RLIMIT_AS, (12 << 30, 12 << 30))
    p = subprocess.run(cmd, stdout=subprocess.PIPE, stderr=subprocess.STDOUT, timeout=3000, preexec_fn=lim)
    log = p.stdout.decode("utf-8", "replace")
    mp = os.path.join(out, "c26.meta.json")
    meta = json.load(open(mp)) if os.path.exists(mp) else {}
    if p.returncode != 0:
        return {"evaluations": 0, "distinct_nontrivial": 0, "disagreements": [{"input": "harness", "impl": "exit %d" % p.returncode, "model": log[-500:]}], "oracle_failures": []}
    rc2, err = run_model(cfg, "c26")
    n, ndis, dis = diff_lines(cfg, "c26")
    if rc2 != 0:
        dis.append({"input": "runner", "impl": "", "model": err[-500:]})
    return {
        "evaluations": n + meta.get("oracle_checked", 0),
        "distinct_nontrivial": meta.get("distinct_nontrivial", 0),
        "rule": "every workbook state of seeded user-model histories (vh_hist: 50 x 40 operations quick, 500 x 60 thorough, all operation kinds incl. undo/redo, stopped at the first oracle failure), 60 / 700 formula-rich pool workbooks (3 sheets, global / local / LAMBDA names, 12-31 random formulas of depth <= 4 over every node kind with random explicit parentheses) 62 fixed formulas that pin the known findings, and inputs set_user_input normalises before storing (50 fixed: 1-3 missing closing parentheses nested in calls and arithmetic, leading +/-, lower-case names, localized names / separators in de, fr, es, it models; 20 / 200 histories of generated formulas with dropped parentheses, leading signs, lower case); per state: to_bytes/from_bytes, == on Workbook, parsed trees before = after, evaluate both and compare canonical snapshots (contents, formula texts, values bit-exact, styles, names) and the displayed content of every formula cell, second save/load identical; tie: every distinct (environment, sheet, stored text): real R1C1 tokens -> extracted parse_stored = real tree; integer literals below 2^53 (boundaries, ties, random): stored literal = store_int. distinct_nontrivial = distinct stored formula texts",
        "samples": meta.get("samples", []),
        "disagreements": dis, "n_disagreements": ndis,
        "oracle_failures": meta.get("oracle_failures", []),
        "exhaustive": False,
        "extra": {"input_distribution": meta.get("distribution", {}), "oracle_checked": meta.get("oracle_checked", 0),
                  "oracle_failures_per_class": meta.get("oracle_failures_per_class", {}),
                  "operation_kinds": meta.get("op_kinds", {}),
                  "workbook_states": meta.get("states"), "stored_formulas_checked": meta.get("formulas"),
                  "tree_differences": meta.get("tree_diffs"),
                  "snapshot_differences_explained_by_tree_differences": meta.get("snapshot_diffs_explained_by_tree_diffs"),
                  "model_vs_impl_cases": n, "model_vs_impl_disagreements": ndis},
    }
