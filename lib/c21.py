"""C21 — date serial numbers and calendar dates correspond one-to-one"""
from common import *
import os, subprocess

ASSUMPTIONS = [
  "chrono's NaiveDate is NOT assumed to be the proleptic Gregorian calendar: Num/Civil.v re-implements it and the correspondence compares from_excel_date / date_to_serial_number / format_number with the extracted model on every serial 1..2958465 on every run (hashed per 1024 serials; a differing hash is expanded to per-serial lines)",
  "chrono's year range (-262143..262142: NaiveDate::from_ymd_opt and checked_add/sub_months/days return None outside) is written into the model as constants; checked on boundary cases ('ts' and 'd' lines, incl. astronomic and i32::MIN/MAX arguments) on every run",
  "the harness is built in release mode: `month - 1` / `day - 1` in permissive_date_to_serial_number wrap at i32::MIN (the model uses Z; both end in None -> #NUM!, tied by the i32::MIN cases); an overflow-checked build panics there instead",
  "DATE/YEAR/MONTH/DAY/WEEKDAY are modelled on already floored integer arguments; the argument coercion (get_number, floor, `as i32` saturation) is not part of the model",
  "typed ISO dates: only the ISO arm of parse_date with separator '-' and ASCII digits is modelled (parse_iso); other date shapes belong to C19",
  "the formatter is observed with locale en and the format code yyyy-mm-dd only",
]

NPROC = 8

def run_model_parallel(cfg, prop, infile, outfile, nproc=NPROC, timeout=3000):
    """the runner is a pure line -> line function: deal the lines round-robin to nproc runner processes"""
    root = cfg["root"]
    lines = open(infile, encoding="utf-8").read().split("\n")
    if lines and lines[-1] == "": lines.pop()
    nproc = max(1, min(nproc, len(lines) // 50 + 1))
    parts = []
    for k in range(nproc):
        pi = "%s.part%d" % (infile, k); po = "%s.part%d" % (outfile, k)
        open(pi, "w", encoding="utf-8").write("".join(l + "\n" for l in lines[k::nproc]))
        parts.append((pi, po))
    procs = []
    for pi, po in parts:
        procs.append(subprocess.Popen([os.path.join(root, "ocaml/bin/runner_" + prop)], stdin=open(pi, "rb"), stdout=open(po, "wb"), stderr=subprocess.PIPE))
    rc, err = 0, ""
    for p in procs:
        try:
            _, e = p.communicate(timeout=timeout)
        except subprocess.TimeoutExpired:
            p.kill(); e = b"runner timed out"; rc = 124
        if p.returncode: rc = p.returncode
        err += e.decode("utf-8", "replace")
    outs = []
    for pi, po in parts:
        o = open(po, encoding="utf-8").read().split("\n")
        if o and o[-1] == "": o.pop()
        outs.append(o)
        os.remove(pi); os.remove(po)
    merged = []
    for i in range(len(lines)):
        o = outs[i % nproc]
        j = i // nproc
        merged.append(o[j] if j < len(o) else "(missing)")
    open(outfile, "w", encoding="utf-8").write("".join(l + "\n" for l in merged))
    return rc, err

def read_lines(path):
    a = open(path, encoding="utf-8", errors="replace").read().split("\n")
    if a and a[-1] == "": a.pop()
    return a

def run(cfg):
    root = cfg["root"]
    rc, log, meta = run_harness(cfg, "c21")
    if rc != 0:
        return {"evaluations": 0, "distinct_nontrivial": 0, "disagreements": [{"input": "harness", "impl": "exit %d" % rc, "model": log[-500:]}], "oracle_failures": []}
    cdir = os.path.join(root, "cases")
    rc2, err = run_model_parallel(cfg, "c21", os.path.join(cdir, "c21.in"), os.path.join(cdir, "c21.model"))
    n, ndis, dis = diff_lines(cfg, "c21", limit=10)
    if rc2 != 0:
        dis.append({"input": "runner", "impl": "", "model": err[-500:]})
    # a differing hash line stands for up to 1024 serials: expand those ranges to per-serial lines and locate
    located = []
    if ndis:
        ins, impl, model = read_lines(os.path.join(cdir, "c21.in")), read_lines(os.path.join(cdir, "c21.impl")), read_lines(os.path.join(cdir, "c21.model"))
        bad = [ins[i].split(" ") for i in range(min(len(ins), len(impl), len(model))) if impl[i] != model[i] and ins[i].split(" ")[0] in ("rs", "rf")][:6]
        if bad:
            extra = ["expand"] + [x for b in bad for x in b]
            rc3, log3, _ = run_harness(cfg, "c21", extra_args=extra)
            if rc3 == 0:
                run_model_parallel(cfg, "c21", os.path.join(cdir, "c21x.in"), os.path.join(cdir, "c21x.model"), nproc=4)
                _, nx, disx = diff_lines(cfg, "c21x", limit=10)
                located = disx
                dis = [d for d in dis if d.get("input", "").split(" ")[0] not in ("rs", "rf")] + \
                      [dict(d, located_in="hash range") for d in disx] + \
                      [d for d in dis if d.get("input", "").split(" ")[0] in ("rs", "rf")]
    serials_direct = meta.get("serials_direct", 0)
    serials_model = meta.get("serials_model_layer", 0)
    dist = meta.get("distribution", {})
    evaluations = serials_direct + serials_model + sum(dist.get(k, 0) for k in ("direct_single_lines", "date_calls", "date_to_serial_calls", "typed_texts")) + meta.get("oracle_checked", 0)
    return {
        "evaluations": evaluations,
        "distinct_nontrivial": meta.get("distinct_nontrivial", 0),
        "rule": "EXHAUSTIVE over the property's quantifier: every serial 1..2958465 through from_excel_date, date_to_serial_number and format_number(yyyy-mm-dd) against the extracted model (hash per 1024 serials, expanded to single serials on mismatch); YEAR/MONTH/DAY/WEEKDAY(n), WEEKDAY(n,t) for t in 1,2,3,11..17,0,4, DATE(YEAR,MONTH,DAY) and the typed yyyy-mm-dd text through a real Model: in quick for every 97th serial + the two days around every month boundary + Feb 27..Mar 1 of every year + the first 800 and last 400 serials (~240k serials x 19 cells), in thorough for every serial; out-of-range serials; DATE(y,m,d) on boundary and random month/day overflows incl. astronomic and i32::MIN/MAX arguments (a panic is a violation); date_to_serial_number on invalid dates and chrono's year limits; typed ISO texts (valid, invalid, unpadded, years < 1899). Non-trivial = distinct serials evaluated",
        "samples": meta.get("samples", []),
        "disagreements": dis, "n_disagreements": ndis,
        "oracle_failures": meta.get("oracle_failures", []),
        "exhaustive": True,
        "extra": {"input_distribution": dist, "oracle_checked": meta.get("oracle_checked", 0),
                  "oracle_failures_per_class": meta.get("oracle_failures_per_class", {}),
                  "model_vs_impl_cases": n, "model_vs_impl_disagreements": ndis,
                  "serials_direct_layer": serials_direct, "serials_model_layer": serials_model,
                  "located_by_expansion": located, "fault_injected": meta.get("fault_injected")},
    }
