"""C25 — xlsx import never crashes (navigation skeleton + structure-aware tie + byte-level search)"""
from common import *
import os, subprocess, json

ASSUMPTIONS = [
  "PROOF covers the navigation skeleton only (Xlsx/Skeleton.v): workbook.xml, workbook.xml.rels, styles.xml (fonts/fills/borders[left]/cellStyleXfs/cellStyles/cellXfs/dxfs, colours), worksheet parts (cols, sheetPr/tabColor, sheetData rows/cells/formulas, mergeCells, hyperlinks), sheet rels, comments and table parts, reparse_formula_hack. Conditional formatting, theme, metadata, sheet views and dimension are not in the skeleton (theme/metadata errors are swallowed by the code; the others have no failing path that the generators exercise).",
  "zip container and XML syntax are third-party code (zip 0.6, roxmltree 0.19): abstracted to Missing | Malformed | Tree. Everything below that level is reached only by the byte-level SEARCH stream (no panic / no hang), which is not a proof.",
  "attribute values are abstracted to the classes of Skeleton.aval; the concretiser harness/c25/src/abs.rs chooses one concrete string per class (e.g. Short = \"\" and \"x\", NonBoundary = \"x\\u00e9/...\"). The tie checks model = implementation on every generated package, including the exhaustive set of single edits of four base packages.",
  "Model::from_workbook on an imported workbook is assumed to return Ok without panicking for the generated packages (it parses formulas: C11's domain); the tie observes the composed outcome, so a panic there would show up as a disagreement.",
  "decode_xlsx_escapes: PROOF of the byte-cursor index safety for every byte string with the shape of UTF-8 (Xlsx/EscapeSafe.v, C25_decode_escapes_index_safe); its returned VALUE is C24's Codec/XmlEscape.v. The text-payload stream (text slots x hostile texts) is SEARCH; for shared-string / t=str / cached-formula-string slots it is also a panic/nopanic TIE with the extracted cursor model",
  "release build: integer overflow wraps (no arithmetic of the importer can overflow on the generated values: rows/columns are validated to the grid before subtraction)",
]

def pre_proof(cfg):
    """regenerate Generated/Witness_c25.v from the harness's witness packages"""
    root = cfg["root"]
    exe = os.path.join(root, "harness/target/release/vh_c25")
    p = subprocess.run([exe, "1", "quick", os.path.join(root, "cases"), "coq-witnesses"], stdout=subprocess.PIPE, stderr=subprocess.PIPE, timeout=120)
    if p.returncode != 0 or b"Definition w_no_sheetdata" not in p.stdout:
        raise RuntimeError("coq-witnesses failed: " + p.stderr.decode("utf-8", "replace")[-300:])
    path = os.path.join(root, "coq/theories/Generated/Witness_c25.v")
    os.makedirs(os.path.dirname(path), exist_ok=True)
    new = p.stdout.decode("utf-8")
    if not os.path.exists(path) or open(path).read() != new:
        open(path, "w").write(new)
        return "Witness_c25.v regenerated"
    return "Witness_c25.v unchanged"

def _fixed_classes(root):
    """classes of findings recorded as fixed in known/C25.jsonl: a recurrence must be a VIOLATION even
    while a stale 'known' line for the same class is still in known_findings.jsonl"""
    res = {}
    path = os.path.join(root, "known/C25.jsonl")
    if os.path.exists(path):
        for line in open(path):
            line = line.strip()
            if line:
                r = json.loads(line)
                if r.get("status") == "fixed":
                    res[r["class"]] = r
    return res

def run(cfg):
    rc, log, meta = run_harness(cfg, "c25")
    if rc != 0:
        return {"evaluations": 0, "distinct_nontrivial": 0, "disagreements": [{"input": "harness", "impl": "exit %d" % rc, "model": log[-500:]}], "oracle_failures": []}
    fixed = _fixed_classes(cfg["root"])
    for f in meta.get("oracle_failures", []):
        k = fixed.get(f.get("class"))
        if k is not None:
            f["class"] = "REGRESSION of %s (fixed in %s): %s" % (k["id"], k.get("commit", "?"), f["class"])
    rc2, err = run_model(cfg, "c25")
    n, ndis, dis = diff_lines(cfg, "c25", limit=6)
    for d in dis:
        d.pop("readable", None)
        if isinstance(d.get("input"), str) and len(d["input"]) > 3000:
            d["input"] = d["input"][:3000] + "..."
    if rc2 != 0:
        dis.append({"input": "runner", "impl": "", "model": err[-500:]})
    return {
        "evaluations": n + meta.get("byte_level_cases", 0) + meta.get("text_payload_cases", 0),
        "distinct_nontrivial": meta.get("distinct_nontrivial", 0),
        "rule": "TIE (model vs implementation, outcome class ok/err/panic): 4 valid abstract packages (1-3 sheets, absolute/relative targets, defined names, hidden sheet, non-worksheet relationship, shared strings, sheet rels with comments/hyperlink/table), 17 named witnesses, EVERY single edit of each base package (file missing/malformed; per node: delete/duplicate/swap each child, delete all children, toggle text; per attribute: remove, and every alternative abstract state; add each attribute the reader looks at), plus random 2-5 edit combinations (2.5k quick / 40k thorough); all distinct. TIE (decoder cursor): every plain hostile text (<= 1500 bytes) as shared string, t=\"str\" value and cached formula string: panic/nopanic vs extracted decode_cursor. SEARCH (no model; only no-panic/no-hang): TEXT payloads — one small valid package with 20 text slots (shared string with and without xml:space, rich-text runs, inline string, t=str cached value with and without formula, formula / shared-formula / array-formula text, sheet name, defined-name text and name, comment text, number-format code, hyperlink target and location, error / number cell value, cell type, table column name) x a pool of ~870 hostile texts (every prefix, suffix and single deletion of _x0041_ / _x005F_ / _xZZZZ_ / _x000A_ / _xD800_ / _x00e9_ / _x0000_ / _xFFFF_ alone, at the start, in the middle and at the END of the text, doubled; multi-byte characters straddling the 7-byte window; lone & and malformed entities, &#0;, surrogate / non-character / out-of-range references, entity-produced underscores, CDATA, comments, markup; empty and white-space-only texts; 70 kB texts), EXHAUSTIVE over slot x pool, plus random multi-slot combinations (600 quick / 30k thorough); byte-level mutations (truncate, bit flips, delete/duplicate/swap ranges, invalid UTF-8, metacharacters, extreme numbers, multi-byte insertions) of the zip container and of single XML entries re-zipped, seeds = exported workbook, two base packages and the xlsx files under /repo/xlsx/tests (12k quick / up to 300k thorough). Non-trivial = distinct abstract packages.",
        "samples": meta.get("samples", []),
        "disagreements": dis, "n_disagreements": ndis,
        "oracle_failures": meta.get("oracle_failures", []),
        "exhaustive": True,
        "extra": {
            "model_vs_impl_cases": n, "model_vs_impl_disagreements": ndis,
            "structured_outcomes": meta.get("structured_outcomes", {}),
            "structured_distribution_top": dict(sorted(((k.split(":")[0], 0) for k in meta.get("distribution", {})), key=lambda x: x[0])),
            "search_only_text_payload_cases": meta.get("text_payload_cases", 0),
            "search_only_text_payload_outcomes": meta.get("text_payload_outcomes", {}),
            "search_only_text_payload_by_slot": meta.get("text_payload_by_slot", {}),
            "text_pool_size": meta.get("text_pool_size", 0), "text_slots": meta.get("text_slots", []),
            "search_only_byte_level_cases": meta.get("byte_level_cases", 0),
            "search_only_byte_level_distribution": meta.get("byte_level_distribution", {}),
            "search_only_byte_level_outcomes": meta.get("byte_level_outcomes", {}),
            "byte_level_seeds": meta.get("byte_level_seeds", []),
            "panic_classes_observed": meta.get("panic_classes", {}),
            "hazard_witnesses_child_process": meta.get("hazard_witnesses", {}),
            "hangs": meta.get("hangs", 0), "max_case_ms": meta.get("max_case_ms", 0),
            "oracle_checked": meta.get("oracle_checked", 0),
            "oracle_failures_per_class": meta.get("oracle_failures_per_class", {}),
            "labels": {"proof": "navigation skeleton (C25_import_never_panics, C25_fixed_*), decoder cursor (C25_decode_escapes_index_safe)", "tie": "structured stream", "search": "text-payload stream, byte-level stream and hazard witnesses"},
        },
    }
