"""C28 — the selection always points at an existing sheet and cell"""
from common import *

ASSUMPTIONS = [
  "row heights / column widths enter the model as the integers ui_row_height / ui_column_width return (f64::round of the stored size); the harness only sets integer pixel sizes, for which size/FACTOR*FACTOR rounds back to the same integer, so the f64 sums of ui.rs are exact integer sums (compared on every run through top_row / left_column)",
  "window sizes are the i64 stored by set_window_width/height (Rust's saturating `as i64` is applied by the harness on both sides); comparisons of a pixel sum < 2^53 with `window as f64` agree with the integer comparison",
  "sheet indices are u32 and rows/columns i32 in the implementation; the model uses Z and the generators stay below 2^31 (no wrap-around is modelled except the u32 sum in hide_sheet)",
  "sheet names are ASCII in every generated history (to_uppercase is modelled as ASCII upper-casing)",
  "columns are modelled as a finite map column -> (hidden, width); the band representation of worksheet.cols is compared with it in the final dump of every history (C29 is about the bands themselves)",
  "non-empty cells are placed before the history starts (Model::set_user_input) and only change through delete/undo/duplicate of whole sheets; operations that edit cells are not part of the model (they do not touch the selection fields: monitored by the oracle only)",
  "apply_external_diffs (remote diffs) is outside the model (C03)",
]

def run(cfg):
    rc, log, meta = run_harness(cfg, "c28")
    if rc != 0:
        return {"evaluations": 0, "distinct_nontrivial": 0, "disagreements": [{"input": "harness", "impl": "exit %d" % rc, "model": log[-500:]}], "oracle_failures": []}
    rc2, err = run_model(cfg, "c28")
    n, ndis, dis = diff_lines(cfg, "c28", limit=6)
    # shorten: report the first differing step of each disagreeing history
    short = []
    for d in dis:
        if "impl" in d and isinstance(d["impl"], str) and isinstance(d.get("model"), str):
            a = d["impl"].split(" # ")[0].split(";"); b = d["model"].split(" # ")[0].split(";")
            ops = d["input"].split(" | ")[1].split(" ") if " | " in d["input"] else []
            k = next((j for j, (p, q) in enumerate(zip(a, b)) if p != q), None)
            if k is not None:
                short.append({"input": d["input"][:600], "step": k, "op": ops[k] if k < len(ops) else "?", "impl": a[k], "model": b[k]})
            else:
                short.append({"input": d["input"][:600], "step": "final dump", "impl": d["impl"].split(" # ")[-1][:400], "model": d["model"].split(" # ")[-1][:400]})
        else:
            short.append(d)
    if rc2 != 0:
        short.append({"input": "runner", "impl": "", "model": err[-500:]})
    return {
        "evaluations": meta.get("steps", 0) + n,
        "distinct_nontrivial": meta.get("distinct_nontrivial", 0),
        "rule": "histories of UserModel operations (token lines) run on the implementation and on the extracted model; after EVERY step the observation (result Ok/Err, number of sheets, selected sheet, visibility flags, selected cell, range, top_row, left_column, window, undo/redo depths) is compared, and at the end of every history a dump of every sheet (name, state, view, hidden/sized rows and columns, non-empty cells). Histories: the 8 witnesses; ALL sequences of length <= 2 (quick) / <= 3 (thorough) over a 28-op alphabet and ALL sequences of length 3 (quick) / 3-4 (thorough) over a 13-op sheet-structure alphabet on a 3-sheet workbook; 400 / 6000 seeded random histories of 5-40/60 steps (mixed, sheet-op heavy, navigation heavy) on 1-4 sheets with hidden row/column bands, custom sizes and cells near both ends of the grid, indices chosen relative to the selected sheet (sel-1, sel, sel+1, 0, n-1, n, n+3), boundary and off-grid arguments, extreme window sizes. Oracle: sel_ok on the implementation's fields (every sheet's view) after every step; a step that breaks it is classified by a predicate on (state before, op). distinct_nontrivial = distinct (op kind, observation) pairs",
        "samples": meta.get("samples", []),
        "disagreements": short, "n_disagreements": ndis,
        "oracle_failures": meta.get("oracle_failures", []),
        "exhaustive": True,
        "extra": {"input_distribution": meta.get("distribution", {}), "oracle_checked": meta.get("oracle_checked", 0),
                  "oracle_failures_per_class": meta.get("oracle_failures_per_class", {}),
                  "op_result_counts": meta.get("op_result_counts", {}),
                  "selected_view_disagrees_with_fields": meta.get("selected_view_disagrees_with_fields", 0),
                  "selected_view_panics": meta.get("selected_view_panics", 0),
                  "costly_ops_substituted": meta.get("costly_ops_substituted", 0),
                  "histories": n, "model_vs_impl_disagreements": ndis},
    }
