"""C08 — No cell ever stores a non-finite number

run(cfg):  property oracle (function sweep, operators, typed path, raw API, xlsx import) through
           harness/c08, model-vs-implementation cases when the runner exists, and the INVENTORY of
           the code sites that construct a numeric cell value, compared with the list the model was
           written against (corpus/C08/inventory_expected.json).

python3 lib/c08.py --write-inventory     regenerate the expected inventory from the current /repo
python3 lib/c08.py --inventory           print the current inventory (with file:line sites)
"""
import os, re, json, sys
sys.path.insert(0, os.path.dirname(os.path.abspath(__file__)))
from common import *

REPO = "/repo"
SRC_DIRS = ["base/src", "xlsx/src"]
EXPECTED = "corpus/C08/inventory_expected.json"

ASSUMPTIONS = [
  "the sweep enumerates every ironcalc_base::Function (Function::into_iter(), English names) but only finitely many argument tuples per function: extreme/degenerate values in arities 1..3 plus mixed tuples up to arity 6; it is an oracle on the sink, the theorem about set_cells_with_result is what covers all results",
  "a formula whose evaluation exceeds the per-formula time limit or the address-space limit of the child process (ulimit -v) is recorded in skipped_timeouts together with the remaining shapes/forms of the same argument tuple; those are not evaluated",
  "panics inside function implementations are counted (meta `panics`) and are not part of this property",
  "the inventory is a textual count of construction/pattern sites per file (comment lines, paths containing /test and inline #[cfg(test)] modules excluded); it detects a new or removed site, not a semantic change inside an existing one",
  "every cell of every worksheet is scanned after evaluate(): NumberCell, CellFormula, ArrayFormula and SpillCell values; undo/redo history and the clipboard are not scanned here",
]

# ---------------------------------------------------------------------------------------------
# inventory
# ---------------------------------------------------------------------------------------------

GLOBAL_PATTERNS = [
    "NumberCell {",
    "FormulaValue::Number(",
    "CellFormulaNumber",
    "SpillValue::Number(",
    "set_cell_with_number(",
    "update_cell_with_number(",
    "Cell::new_number(",
]
# patterns counted inside the body of one function of base/src/model.rs
SCOPED = {
    "set_cells_with_result": ["ArrayNode::Number(", "FormulaValue::Number(", "SpillValue::Number(", "CalcResult::Number(",
                              "array_node_to_formula_value(", "array_node_to_spill_value(", "formula_value_to_spill_value(",
                              "is_nan()", "is_infinite()", "is_finite()", "Cell::CellFormula {", "Cell::ArrayFormula {", "Cell::SpillCell {"],
    "array_node_to_formula_value": ["ArrayNode::Number(", "FormulaValue::Number(", "is_nan()", "is_infinite()", "is_finite()"],
    "array_node_to_spill_value": ["ArrayNode::Number(", "SpillValue::Number(", "is_nan()", "is_infinite()", "is_finite()"],
    "formula_value_to_spill_value": ["FormulaValue::Number(", "SpillValue::Number(", "is_nan()", "is_infinite()", "is_finite()"],
}
# the typed path and the xlsx reader: where a text becomes an f64 that is stored
SCOPED_FILES = {
    "base/src/formatter/format.rs": {"parse_number": ["parse::<f64>()", "is_nan()", "is_infinite()", "is_finite()"],
                                      "parse_formatted_number": ["parse_number(", "is_nan()", "is_infinite()", "is_finite()"]},
    "base/src/model.rs": {"update_cell_with_number": ["set_cell_with_number(", "is_nan()", "is_infinite()", "is_finite()"],
                          "set_user_input": ["set_cell_with_number(", "parse_formatted_number(", "is_nan()", "is_infinite()", "is_finite()"]},
    "base/src/worksheet.rs": {"set_cell_with_number": ["Cell::new_number(", "is_nan()", "is_infinite()", "is_finite()"]},
}
XLSX_IMPORT = "xlsx/src/import/worksheets.rs"


def _source_files():
    out = []
    for d in SRC_DIRS:
        for root, dirs, files in os.walk(os.path.join(REPO, d)):
            dirs[:] = sorted(x for x in dirs if x not in ("test", "tests"))
            for f in sorted(files):
                p = os.path.join(root, f)
                rel = os.path.relpath(p, REPO)
                if f.endswith(".rs") and "/test" not in "/" + rel:
                    out.append(rel)
    return out


def _code_lines(rel):
    """(line number, text) of the non-comment lines outside inline `#[cfg(test)] mod … { }` modules"""
    try:
        lines = open(os.path.join(REPO, rel), encoding="utf-8", errors="replace").read().split("\n")
    except OSError:
        return []
    out = []
    i = 0
    while i < len(lines):
        s = lines[i].strip()
        if s == "#[cfg(test)]":
            j = i + 1
            while j < len(lines) and not lines[j].strip():
                j += 1
            if j < len(lines) and re.match(r"(pub\s+)?mod\s+\w+\s*\{", lines[j].strip()):
                # skip the body of the inline test module (brace matching)
                depth = 0
                while j < len(lines):
                    depth += lines[j].count("{") - lines[j].count("}")
                    j += 1
                    if depth <= 0:
                        break
                i = j
                continue
        if not s.startswith("//"):
            out.append((i + 1, lines[i]))
        i += 1
    return out


def _fn_body(code, name):
    """lines of the body of `fn name(` (brace matching from the first `{` after the signature)"""
    start = None
    for idx, (_, t) in enumerate(code):
        if re.search(r"\bfn\s+" + re.escape(name) + r"\s*(<[^>]*>)?\s*\(", t):
            start = idx
            break
    if start is None:
        return None
    depth, seen, body = 0, False, []
    for ln, t in code[start:]:
        body.append((ln, t))
        for ch in t:
            if ch == "{":
                depth += 1; seen = True
            elif ch == "}":
                depth -= 1
        if seen and depth <= 0:
            break
    return body


def inventory(with_sites=False):
    """{pattern: {relative file: count}} for the sites where a number becomes cell content"""
    inv, sites = {}, {}
    def add(key, rel, ln):
        inv.setdefault(key, {})
        inv[key][rel] = inv[key].get(rel, 0) + 1
        sites.setdefault(key, []).append("%s:%d" % (rel, ln))
    for p in GLOBAL_PATTERNS:
        inv[p] = {}
    files = _source_files()
    cache = {}
    for rel in files:
        code = cache[rel] = _code_lines(rel)
        for ln, t in code:
            for p in GLOBAL_PATTERNS:
                k = t.count(p)
                for _ in range(k):
                    add(p, rel, ln)
    def scoped(rel, fn, pats):
        code = cache.get(rel) or _code_lines(rel)
        body = _fn_body(code, fn)
        for p in pats:
            key = "%s::%s::%s" % (os.path.basename(rel), fn, p)
            inv[key] = {}
            if body is None:
                inv[key] = {rel: -1}          # the function is gone
                continue
            for ln, t in body:
                for _ in range(t.count(p)):
                    add(key, rel, ln)
    for fn, pats in SCOPED.items():
        scoped("base/src/model.rs", fn, pats)
    for rel, fns in SCOPED_FILES.items():
        for fn, pats in fns.items():
            scoped(rel, fn, pats)
    # xlsx reader: every text -> f64 conversion in the worksheet importer
    key = "import/worksheets.rs::parse::<f64>()"
    inv[key] = {}
    for ln, t in cache.get(XLSX_IMPORT, []):
        for _ in range(t.count("parse::<f64>()")):
            add(key, XLSX_IMPORT, ln)
    return (inv, sites) if with_sites else inv


def inventory_diff(actual, expected):
    diff = []
    for key in sorted(set(actual) | set(expected)):
        a, e = actual.get(key), expected.get(key)
        if a is None:
            diff.append({"pattern": key, "expected": e, "actual": "pattern no longer inventoried"}); continue
        if e is None:
            diff.append({"pattern": key, "expected": "not in the expected inventory", "actual": a}); continue
        for f in sorted(set(a) | set(e)):
            if a.get(f, 0) != e.get(f, 0):
                diff.append({"pattern": key, "file": f, "expected": e.get(f, 0), "actual": a.get(f, 0)})
    return diff


def write_expected(root):
    inv = inventory()
    p = os.path.join(root, EXPECTED)
    os.makedirs(os.path.dirname(p), exist_ok=True)
    json.dump(inv, open(p, "w"), indent=1, sort_keys=True)
    return p


# ---------------------------------------------------------------------------------------------

BASELINE = "known/C08_array_nonfinite_baseline.txt"
PER_SOURCE = ("array_branch_nonfinite", "coerce_1x1_nonfinite")

def load_baseline(root):
    p = os.path.join(root, BASELINE)
    if not os.path.exists(p):
        return None
    return set(l.strip() for l in open(p, encoding="utf-8") if l.strip() and not l.startswith("#"))

def per_source_classes(meta):
    return sorted(k for k in meta.get("oracle_failures_per_class", {}) if k.split(":")[0] in PER_SOURCE and ":" in k)

def write_baseline(root, metas):
    """union of the committed baseline and the per-source classes of the given meta files"""
    cur = load_baseline(root) or set()
    for m in metas:
        cur |= set(per_source_classes(json.load(open(m))))
    p = os.path.join(root, BASELINE)
    os.makedirs(os.path.dirname(p), exist_ok=True)
    with open(p, "w", encoding="utf-8") as f:
        f.write("# C08: the sources (function, function~wrapper of the dynamic forms, or expr:<formula>) whose array result reaches the\n"
                "# UNGUARDED sinks of set_cells_with_result with a non-finite element ON THE UNCHANGED TREE (findings F09 / F09b).\n"
                "# Generated by `python3 lib/c08.py --write-baseline <meta.json>...` from thorough + multi-seed quick sweeps and reviewed.\n"
                "# A source that is not listed here is reported as a VIOLATION (a function newly producing inf/NaN element-wise).\n")
        for k in sorted(cur):
            f.write(k + "\n")
    return p, len(cur)

def run(cfg):
    root = cfg["root"]
    rc, log, meta = run_harness(cfg, "c08")
    if rc != 0 or not meta:
        return {"evaluations": 0, "distinct_nontrivial": 0, "disagreements": [{"input": "harness", "impl": "exit %d" % rc, "model": log[-500:]}], "oracle_failures": []}
    dis, n, ndis = [], 0, 0
    cases_in = os.path.join(root, "cases", "c08.in")
    if os.path.exists(os.path.join(root, "ocaml/bin/runner_c08")) and os.path.exists(cases_in) and os.path.getsize(cases_in) > 0:
        rc2, err = run_model(cfg, "c08")
        n, ndis, dis = diff_lines(cfg, "c08")
        if rc2 != 0:
            dis.append({"input": "runner", "impl": "", "model": err[-500:]})
    # the sweep must have covered every function: an abandoned shard breaks the claim
    abandoned = [s for s in meta.get("skipped_timeouts", []) if "shard" in s]
    for s in abandoned:
        dis.append({"input": "function sweep", "impl": s, "model": "every Function is swept"})
    if meta.get("sweep_formulas", 0) == 0 or meta.get("functions", 0) == 0:
        dis.append({"input": "function sweep", "impl": "no formula evaluated", "model": "every Function is swept"})
    # inventory
    inv, sites = inventory(with_sites=True)
    exp_path = os.path.join(root, EXPECTED)
    if os.path.exists(exp_path):
        idiff = inventory_diff(inv, json.load(open(exp_path)))
    else:
        idiff = [{"pattern": "*", "expected": "missing file " + EXPECTED, "actual": "run python3 lib/c08.py --write-inventory"}]
    if idiff:
        dis.append({"input": "inventory", "impl": idiff[:12], "model": "inventory_expected.json"})
    # per-source classes of the unguarded array sinks: a source of the committed baseline is the known
    # finding (F09 / F09b); a new source keeps its own class and is therefore reported as a VIOLATION
    baseline = load_baseline(root)
    if baseline is None:
        dis.append({"input": "baseline", "impl": "missing " + BASELINE, "model": "python3 lib/c08.py --write-baseline cases/c08.meta.json"})
        baseline = set()
    failures, new_sources = [], set()
    for f in meta.get("oracle_failures", []):
        c = f.get("class", "")
        base = c.split(":")[0]
        if base in PER_SOURCE and ":" in c:
            if c in baseline:
                f = dict(f, **{"class": base, "source": c[len(base) + 1:]})
            else:
                new_sources.add(c)
                f = dict(f, detail="NEW SOURCE of a non-finite number in an unguarded array sink (not in %s): %s" % (BASELINE, f.get("detail", "")))
        failures.append(f)
    # known sources first are not needed in bulk: keep at most 3 records per mapped class, all unmapped ones
    kept, seen = [], {}
    for f in sorted(failures, key=lambda f: (f["class"] in PER_SOURCE, len(json.dumps(f.get("input", {}).get("formula", ""))))):
        have = seen.get(f["class"], 0)
        if f["class"] in PER_SOURCE and have >= 3:
            continue
        seen[f["class"]] = have + 1
        kept.append(f)
    collapsed = {}
    for k, cnt in meta.get("oracle_failures_per_class", {}).items():
        kk = k.split(":")[0] if (k in baseline) else k
        collapsed[kk] = collapsed.get(kk, 0) + cnt
    sources_seen = per_source_classes(meta)
    thorough = cfg["tier"] == "thorough"
    return {
        "evaluations": n + meta.get("oracle_checked", 0),
        "distinct_nontrivial": meta.get("distinct_nontrivial", 0),
        "rule": ("every Function (%d, Function::into_iter) x argument tuples (%s; arities 1..3 of one value plus 20 mixed tuples up to arity 6) x argument shape (%s) x form (%s); "
                 "one fresh model per formula, every cell of the workbook scanned for a non-finite number after evaluate(). Plus 64 operator formulas on arrays/ranges (single + CSE), "
                 "%d typed texts through set_user_input, update_cell_with_number with 6 floats, 30 patched xlsx files. Non-trivial = formulas whose anchor holds a number/text/boolean (not an error)"
                 % (meta.get("functions", 0),
                    "24 values" if thorough else "10 core values (1E308, -1E308, 1E-308, 0, -0, empty, \"inf\", #NUM!, -1, 1) + 3 per function chosen from the seed",
                    "literal, cell, column range, row range, {v,v}, {v;v}, {v}" if thorough else "literal, cell, column range, {v,v}, {v}",
                    "single cell, CSE 2x2, dynamic *{1,1}, dynamic ^{1,2}" if thorough else "single cell, CSE 2x2, dynamic *{1,1}",
                    meta.get("distribution", {}).get("typed:set_user_input", 0))),
        "samples": meta.get("samples", []),
        "disagreements": dis, "n_disagreements": ndis + (1 if idiff else 0) + len(abandoned),
        "oracle_failures": kept,
        "exhaustive": not abandoned,
        "extra": {"input_distribution": meta.get("distribution", {}), "oracle_checked": meta.get("oracle_checked", 0),
                  "oracle_failures_per_class": collapsed,
                  "array_sink_sources_seen": len(sources_seen), "array_sink_sources_in_baseline": len(baseline),
                  "array_sink_new_sources": sorted(new_sources),
                  "functions": meta.get("functions", 0), "sweep_formulas": meta.get("sweep_formulas", 0),
                  "panics": meta.get("panics", {}), "skipped_timeouts": meta.get("skipped_timeouts", []),
                  "functions_with_nonfinite_per_class": meta.get("functions_with_nonfinite_per_class", {}),
                  "nonfinite_by_function": {k: v for k, v in meta.get("nonfinite_by_function", {}).items() if k != "array_branch_nonfinite"},
                  "functions_never_nontrivial": meta.get("functions_never_nontrivial", []),
                  "repro": meta.get("repro", {}), "xlsx": meta.get("xlsx", {}).get("status"),
                  "harness_wall_s": meta.get("wall_s", {}),
                  "inventory": inv, "inventory_sites": sites, "inventory_diff": idiff,
                  "model_vs_impl_cases": n, "model_vs_impl_disagreements": ndis},
    }


if __name__ == "__main__":
    root = os.path.dirname(os.path.dirname(os.path.abspath(__file__)))
    if "--write-inventory" in sys.argv:
        print("wrote", write_expected(root))
    elif "--write-baseline" in sys.argv:
        metas = [a for a in sys.argv[1:] if a.endswith(".json")] or [os.path.join(root, "cases", "c08.meta.json")]
        print("wrote %s (%d sources)" % write_baseline(root, metas))
    else:
        inv, sites = inventory(with_sites=True)
        print(json.dumps({"inventory": inv, "sites": sites}, indent=1, sort_keys=True))
