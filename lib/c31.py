"""C31 — dynamic-array spills are exact and never stale"""
from common import *

ASSUMPTIONS = [
  "the formula evaluator is outside this model: the result array of an anchor is an input of write_dynamic/eval_anchor (the evaluator itself is Eval/Store.v, properties C05-C08); between the clearing of the old extent and the write no other cell changes (single-anchor class; competing anchors are C07's finding F29)",
  "tie of set_cells_with_result/evaluate_cell/evaluate (anchor pass) and of prepare_cell_for_user_input runs through the public Model API (set_user_input, evaluate) with SEQUENCE results; reset_dynamic_array_spills is crate-private and is only monitored through the histories",
  "HashMap iteration order (reset_dynamic_array_spills) is a parameter of the model; the theorem holds for every duplicate-free order",
  "spill_exact_b / spill_full_b are evaluated on sheets of at most 400 cells by the extracted predicate and by a Rust re-implementation (compared line by line); larger sheets only by the Rust re-implementation",
]

def run(cfg):
    rc, log, meta = run_harness(cfg, "c31")
    if rc != 0:
        return {"evaluations": 0, "distinct_nontrivial": 0, "disagreements": [{"input": "harness", "impl": "exit %d" % rc, "model": log[-500:]}], "oracle_failures": []}
    rc2, err = run_model(cfg, "c31")
    n, ndis, dis = diff_lines(cfg, "c31", limit=6)
    if rc2 != 0:
        dis.append({"input": "runner", "impl": "", "model": err[-500:]})
    for d in dis:
        # the dumps are long; keep the replay readable
        for k in ("input", "impl", "model", "readable"):
            if isinstance(d.get(k), str) and len(d[k]) > 1500: d[k] = d[k][:1500] + " ..."
    dist = meta.get("distribution", {})
    return {
        "evaluations": n + meta.get("oracle_checked", 0),
        "distinct_nontrivial": meta.get("distinct_nontrivial", 0),
        "rule": "tie: anchor at interior / corner / edge positions x previous extent (none, 3x3, 1x2, 2x1, 2x3) x result 1..3 x 1..3 x one blocking cell of each kind (styled empty, number, text, formula, dynamic anchor 1x2 / 2x1, CSE 1x1) at each offset -1..3 x -1..3, with and without row/column styles: pre-state dumped, Model::evaluate run, post-state compared with eval_anchors of the extracted model; typing a number into every such place compared with input_value. geometry: reader array before/after an anchor =SEQUENCE(3,3), its input range every rectangle up to 3x3 in the ring around the block, reader-first / anchor-first, Model and UserModel: every spilled cell compared with the element computed from the geometry, second evaluate changes nothing. oracle: spill_exact_b and spill_full_b on the implementation's workbook after every step + evaluate of seeded histories (spill-rich inputs, blocking/unblocking, structural edits, paste, undo/redo); half of the histories without CSE arrays. Non-trivial = tie cases that spilled, were blocked or left the grid + monitored states holding a dynamic anchor",
        "samples": meta.get("samples", []),
        "disagreements": dis, "n_disagreements": ndis,
        "oracle_failures": meta.get("oracle_failures", []),
        "exhaustive": True,
        "extra": {"input_distribution": dist, "oracle_checked": meta.get("oracle_checked", 0),
                  "oracle_failures_per_class": meta.get("oracle_failures_per_class", {}),
                  "model_vs_impl_cases": n, "model_vs_impl_disagreements": ndis},
    }
