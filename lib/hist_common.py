"""shared plugin logic of the history properties C01-C04 (drivers in harness/hist/src/driver.rs)"""
from common import *
import json, os

def load_known_classes(cfg, prop):
    res = set()
    p = os.path.join(cfg["root"], "known_findings.jsonl")
    for line in open(p):
        line = line.strip()
        if line:
            r = json.loads(line)
            if r.get("property") == prop and r.get("status") == "known":
                res.add(r["class"])
    return res

def inventory(cfg):
    """coverage tie (not a verdict): the Diff variants and the public mutating UserModel methods that exist
    in /repo now, against the methods the operation language of harness/hist exercises"""
    import re, glob
    repo = "/repo/base/src/user_model"
    try:
        hist = open(os.path.join(repo, "history.rs")).read()
        body = hist[hist.index("pub(crate) enum Diff {"):]
        body = body[:body.index("\n}\n")]
        variants = re.findall(r"^    ([A-Z][A-Za-z]+)\s*[{(,]", body, re.M)
        methods = set()
        for f in glob.glob(os.path.join(repo, "*.rs")):
            src = open(f).read()
            for m in re.finditer(r"pub fn (\w+)\s*(?:<[^>]*>)?\(\s*&mut self", src):
                methods.add(m.group(1))
        ops = open(os.path.join(cfg["root"], "harness/hist/src/ops.rs")).read() + open(os.path.join(cfg["root"], "harness/hist/src/driver.rs")).read()
        used = set(re.findall(r"\bm\.(\w+)\(", ops))
        ui = {m for m in methods if m.startswith("on_") or m.startswith("set_selected") or m.startswith("set_window") or m in ("set_top_left_visible_cell",)}
        not_ex = sorted(methods - used - ui - {"undo", "redo", "evaluate", "pause_evaluation", "resume_evaluation", "flush_send_queue", "apply_external_diffs", "set_language"})
        return {"diff_variants_in_repo": len(variants), "mutating_methods_in_repo": len(methods), "methods_exercised_by_op_language": len(methods & used),
                "ui_selection_methods_left_to_C28": len(ui), "mutating_methods_not_exercised": not_ex}
    except Exception as e:
        return {"error": repr(e)}

def run_hist(cfg, p, rule):
    rc, log, meta = run_harness(cfg, p)
    if rc != 0:
        return {"evaluations": 0, "distinct_nontrivial": 0, "disagreements": [{"input": "harness", "impl": "exit %d" % rc, "model": log[-500:]}], "oracle_failures": []}
    rc2, err = run_model(cfg, p)
    n, ndis, dis = diff_lines(cfg, p, limit=100000)
    # inside a known class the correspondence does not insist that the code keeps its defect:
    # histories in which the oracle already reported a failure are judged by the oracle alone
    tags = meta.get("case_tags", {})
    known = load_known_classes(cfg, p.upper())
    lines = open(os.path.join(cfg["root"], "cases", p + ".in")).read().split("\n")
    index = {}
    for i, l in enumerate(lines): index.setdefault(l, []).append(i)
    kept, skipped = [], 0
    for d in dis:
        if d.get("input") in ("(line counts)", "runner"): kept.append(d); continue
        idxs = index.get(d["input"], [])
        if any(str(i) in tags for i in idxs): skipped += 1; continue
        kept.append(d)
    if rc2 != 0:
        kept.append({"input": "runner", "impl": "", "model": err[-500:]})
    return {
        "evaluations": n + meta.get("oracle_checked", 0),
        "distinct_nontrivial": meta.get("distinct_nontrivial", 0),
        "rule": rule,
        "samples": meta.get("samples", []),
        "disagreements": kept[:10],
        "oracle_failures": meta.get("oracle_failures", []),
        "exhaustive": False,
        "extra": {"input_distribution": meta.get("distribution", {}), "oracle_checked": meta.get("oracle_checked", 0),
                  "oracle_failures_per_class": meta.get("oracle_failures_per_class", {}),
                  "model_vs_impl_cases": n, "model_vs_impl_disagreements": len(kept),
                  "model_vs_impl_disagreements_inside_failed_histories": skipped, "inventory": inventory(cfg)},
    }

COMMON_ASSUMPTIONS = [
  "the theorems are about the generic undo/redo/replication machine (any state and diff types); that each real operation records a faithful diff list is the hypothesis `faithful`/`valid`, checked on the implementation for every generated operation by the snapshot oracle, not proved per operation",
  "snapshots are canonical observables (cells, values, styles by value, row/column attributes by effect, sheets, names, links, conditional formats, theme, settings); pool indices, unreferenced pool entries and view state are not part of them",
  "UserModel::evaluate() is called before a snapshot is taken as the 'before' state, so that a stale value left by an earlier call (paste_csv_string does not evaluate) is not attributed to the next operation",
  "operations known to be unfaithful in many interacting ways on the pinned tree (row/column insert/delete/move, delete_sheet, paste, autofill) are reported under one coarse class per group; a history stops at its first oracle failure",
]
