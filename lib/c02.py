"""C02 — redo re-applies exactly what undo removed (cursor semantics)"""
from hist_common import *
ASSUMPTIONS = COMMON_ASSUMPTIONS
def run(cfg):
    return run_hist(cfg, "c02", "seeded histories with undo/redo interleaved at random (about 15% of the events), new operations after partial undo; the expected snapshot after every undo/redo is the one recorded when that state was first reached (the cursor specification); can_undo/can_redo compared with the cursor; the extracted generic machine predicts (state id, can_undo, can_redo) after every event. Non-trivial = successful events")
