"""C33 — cell-attached metadata (links, conditional-format ranges and rule formulas) follows its cells"""
from common import *

PROP = "c33"
ASSUMPTIONS = [
  "i32 arithmetic of the link closures and of displace_cf_row/displace_cf_col is modelled over Z: rows, columns and deltas stay below 2^21 (the operations validate their arguments against LAST_ROW/LAST_COLUMN), so no overflow is possible",
  "worksheet.links (a HashMap) is modelled as an association list; collecting the displaced keys loses no link because every key map is injective where defined (C33_links_no_collision)",
  "conditional-format range texts are ASCII: str::to_uppercase is modelled on a-z only and char::is_whitespace by the Unicode White_Space code points listed in Syntax/Metadata.v; the generators use ASCII plus TAB and U+00A0",
  "rule formulas are rewritten by to_string_displaced, modelled by Displace.displace_text (theorems of C12-C15); the tie re-checks it here on rule formulas of the form =<reference> read back after the real operation",
  "clearing, undo/redo and cut/copy-paste have no Coq model here (History machine: C01-C04); they are decided on the implementation by the oracle. Only the range arithmetic of the cut (cf_range_part_update_for_cut) is modelled and tied",
]

RULE = ("links: a 9x3 (rows) / 3x9 (columns) block of links (two thirds on marker cells, one third on no cell) through the real insert/delete rows/columns at every position -1..11 x counts {1,2,4} "
        "and at the last nine lines of the sheet, and through Model::move_rows_action / move_columns_action for every first line 1..9 x block sizes {1,2,3} x deltas -8..10 and at the sheet's end, vs link_map / link_block_move; "
        "conditional-format ranges: ~130 range texts (all single cells and all corner pairs of a 9-line window incl. reversed corners, $ markers, lower case, several parts, parts that do not parse, "
        "whole columns/rows written corner by corner, the far edges of the grid, entries on the other sheet) through the same operations vs cf_on_sheet (iterated for block moves); "
        "rule formulas =<ref> (all flags, 2 anchors, 9 targets x 2) vs displace_text; ranges under UserModel cut+paste (4 areas x 5 targets x ~50 ranges) vs cf_cut_sqref; "
        "property oracle: 300 (quick) / 6000 (thorough) generated workbooks (20 marker cells incl. URL texts and style-only cells in a third of the books each, 12 links, 4 conditional formats with a Formula rule, "
        "a planted =SUM(<range>) and a planted copy of the rule formula per conditional format) x 6 steps of insert/delete/move rows/columns, clear contents/all, empty input, cut+paste, copy+paste, each followed by undo+redo with probability 2/3. "
        "Non-trivial = distinct observations of the model-vs-implementation cases")

def run(cfg):
    rc, log, meta = run_harness(cfg, PROP)
    if rc != 0:
        return {"evaluations": 0, "distinct_nontrivial": 0, "disagreements": [{"input": "harness", "impl": "exit %d" % rc, "model": log[-500:]}], "oracle_failures": []}
    rc2, err = run_model(cfg, PROP)
    n, ndis, dis = diff_lines(cfg, PROP)
    if rc2 != 0:
        dis.append({"input": "runner", "impl": "", "model": err[-500:]})
    return {
        "evaluations": n + meta.get("oracle_checked", 0),
        "distinct_nontrivial": meta.get("distinct_nontrivial", 0),
        "rule": RULE,
        "samples": meta.get("samples", []),
        "disagreements": dis, "n_disagreements": ndis,
        "oracle_failures": meta.get("oracle_failures", []),
        "exhaustive": True,
        "extra": {"input_distribution": meta.get("distribution", {}), "oracle_checked": meta.get("oracle_checked", 0),
                  "oracle_failures_per_class": meta.get("oracle_failures_per_class", {}),
                  "model_vs_impl_cases": n, "model_vs_impl_disagreements": ndis},
    }
