"""shared helpers for the per-property check plugins"""
import os, json, subprocess, time

def run_harness(cfg, prop, extra_args=(), timeout=3000, mem_kb=None):
    root = cfg["root"]
    out = os.path.join(root, "cases")
    cmd = [os.path.join(root, "harness/target/release/vh_" + prop), str(cfg["seed"]), cfg["tier"], out] + list(extra_args)
    pre = None
    p = subprocess.run(cmd, stdout=subprocess.PIPE, stderr=subprocess.STDOUT, timeout=timeout)
    log = p.stdout.decode("utf-8", "replace")
    meta_path = os.path.join(out, prop + ".meta.json")
    meta = json.load(open(meta_path)) if os.path.exists(meta_path) else {}
    return p.returncode, log, meta

def run_model(cfg, prop, infile=None, outfile=None, timeout=3000):
    root = cfg["root"]
    infile = infile or os.path.join(root, "cases", prop + ".in")
    outfile = outfile or os.path.join(root, "cases", prop + ".model")
    with open(infile, "rb") as fi, open(outfile, "wb") as fo:
        p = subprocess.run([os.path.join(root, "ocaml/bin/runner_" + prop)], stdin=fi, stdout=fo, stderr=subprocess.PIPE, timeout=timeout)
    return p.returncode, p.stderr.decode("utf-8", "replace")

def diff_lines(cfg, prop, limit=10):
    """compare cases/<prop>.impl with cases/<prop>.model line by line"""
    root = cfg["root"]
    a = open(os.path.join(root, "cases", prop + ".in"), encoding="utf-8", errors="replace").read().split("\n")
    b = open(os.path.join(root, "cases", prop + ".impl"), encoding="utf-8", errors="replace").read().split("\n")
    c = open(os.path.join(root, "cases", prop + ".model"), encoding="utf-8", errors="replace").read().split("\n")
    if a and a[-1] == "": a.pop()
    if b and b[-1] == "": b.pop()
    if c and c[-1] == "": c.pop()
    dis = []
    n = len(a)
    if len(b) != n or len(c) != n:
        dis.append({"input": "(line counts)", "impl": len(b), "model": len(c), "cases": n})
        n = min(len(a), len(b), len(c))
    ndis = 0
    for i in range(n):
        if b[i] != c[i]:
            ndis += 1
            if len(dis) < limit:
                dis.append({"input": a[i], "impl": b[i], "model": c[i], "readable": wire_readable(a[i])})
    return n, ndis, dis

def wire_to_str(w):
    if w == "-": return ""
    try:
        return "".join(chr(int(x)) for x in w.split("."))
    except Exception:
        return w

def wire_readable(line):
    out = []
    for tok in line.split(" "):
        if "." in tok and all(x.isdigit() for x in tok.split(".")):
            out.append(repr(wire_to_str(tok)))
        else:
            out.append(tok)
    return " ".join(out)
