"""shared by the C05-C08 plugins: running the evaluator runner with the cast table protocol"""
import os, subprocess
from common import *

def run_model_with_casts(cfg, prop, harness_prop="c06", max_rounds=4):
    """runs runner_<prop> on cases/<prop>.in; texts the runner cannot convert to a number by
    Rust's float grammar are looked up in cases/<harness_prop>.casts; unknown ones ("ask w")
    are resolved by the Rust side (vh_c06 ... casts) and the affected cases re-run."""
    root = cfg["root"]
    cases = os.path.join(root, "cases")
    casts = os.path.join(cases, "c06.casts")
    os.environ["VH_CASTS"] = casts
    if not os.path.exists(casts):
        open(casts, "w").close()
    rc, err = run_model(cfg, prop)
    asked_total = 0
    for _ in range(max_rounds):
        model_path = os.path.join(cases, prop + ".model")
        lines = open(model_path, encoding="utf-8", errors="replace").read().split("\n")
        idx = [i for i, l in enumerate(lines) if l.startswith("ask ")]
        if not idx:
            break
        wires = sorted(set(lines[i][4:] for i in idx))
        asked_total += len(wires)
        ask_file = os.path.join(cases, prop + ".ask")
        open(ask_file, "w").write("\n".join(wires) + "\n")
        subprocess.run([os.path.join(root, "harness/target/release/vh_c06"), str(cfg["seed"]), cfg["tier"], cases, "casts", ask_file],
                       stdout=subprocess.PIPE, stderr=subprocess.STDOUT, timeout=600)
        inl = open(os.path.join(cases, prop + ".in"), encoding="utf-8", errors="replace").read().split("\n")
        sub_in = os.path.join(cases, prop + ".sub.in"); sub_out = os.path.join(cases, prop + ".sub.model")
        open(sub_in, "w").write("\n".join(inl[i] for i in idx) + "\n")
        run_model(cfg, prop, infile=sub_in, outfile=sub_out)
        sub = open(sub_out, encoding="utf-8", errors="replace").read().split("\n")
        for k, i in enumerate(idx):
            if k < len(sub):
                lines[i] = sub[k]
        open(model_path, "w").write("\n".join(lines))
    return rc, err, asked_total
