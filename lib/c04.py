"""C04 — a failed operation changes nothing"""
from hist_common import *
ASSUMPTIONS = ["the discipline table (UserModel/AtomicTable.v) was read from common.rs; the correspondence compares its prediction with the implementation for every cell of the method x invalid-argument-class matrix on every run",
               "snapshots as for C01; history observed through verif_history_depths (hook), can_undo, can_redo"]
def run(cfg):
    return run_hist(cfg, "c04", "the full matrix of mutating UserModel methods x classes of invalid argument (about 190 cells: nonexistent sheet, coordinates 0 / negative / past the grid, zero and negative counts and sizes, invalid timezone/locale/colour/style path/style value/name, duplicate and invalid sheet and defined names, partly off-grid areas), each from 4 (quick) / 40 (thorough) reachable states with non-empty undo AND redo stacks; oracle: snapshot, undo/redo/queue depths, can_undo, can_redo identical before and after every call that returns Err. Non-trivial = calls that returned Err")
