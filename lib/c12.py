"""C12 — inserting rows or columns preserves every value"""
from common import *

PROP = "c12"
ASSUMPTIONS = [
  "i32 arithmetic of stringify_reference is modelled over Z: with |row|, |column|, |delta| below 2^21 no overflow is possible (the harness stays inside that range; insert/delete/move validate their arguments against LAST_ROW/LAST_COLUMN)",
  "the reference clause is proved about Syntax/Displace.v, tied to /repo by running the extracted model and the implementation on the same cases: to_string_displaced on hand-built ReferenceKind/RangeKind nodes (exhaustive 9-line windows, all flags, all anchors, every displacement position, deltas, both sheets, full-row/column ranges, the last rows/columns of the grid), where marker cells go, and what every stored reference of a planted formula becomes after the real operation (read back from Model::parsed_formulas)",
  "the content clause (cells are re-typed by move_cell) reduces to C18 and is decided on the implementation by the oracle; 'typing does not reproduce this cell' is asked of the engine itself on a scratch model (set_user_input of the display text)",
  "the value clause is decided by the oracle on generated workbooks for formulas that do not transitively read a cell whose value may legitimately change (position-dependent, blank-counting, holding a reference pushed off the grid)",
  "column descriptor surgery is modelled in Sheet/Cols.v (C29) and only checked here at implementation level (attributes of every column at its shifted position)",
]

RULE = ("reference arithmetic: rows/columns 1..9 x all anchors x all absolute/relative flags x every displacement position (-2..10) x deltas 1..4 x sheet match/mismatch, "
        "ranges with both corners anywhere in the window (3 anchors quick / 5 thorough), full-row/full-column ranges and near misses, the last 6 rows/columns; "
        "argument validation (val): index -4..4, LAST-8..LAST+3 and extreme i32 values x counts on the real insert/delete; where cells go: 9x9 marker windows at every position incl. the end of the sheet; stored references: 162 planted formulas per (position, delta, same/other sheet, target sheet) read back from parsed_formulas; "
        "property oracle: generated two-sheet workbooks (literals of every type incl. quote-prefixed look-alikes, 17-digit numbers, URLs; relative/absolute/mixed/cross-sheet references, ranges, A:C and 2:5 ranges, "
        "cell/row/column styles, links, multi-column descriptors; in half of them non-square CSE array formulas 2x3/3x1/1x3 and a dynamic array beside the window) x insertion positions (row 1, inside, after the data, near the last line) x counts {1,2,7} through Model and UserModel. "
        "Non-trivial = distinct observations of the model-vs-implementation cases")

def run(cfg):
    rc, log, meta = run_harness(cfg, PROP)
    if rc != 0:
        return {"evaluations": 0, "distinct_nontrivial": 0, "disagreements": [{"input": "harness", "impl": "exit %d" % rc, "model": log[-500:]}], "oracle_failures": []}
    rc2, err = run_model(cfg, PROP)
    n, ndis, dis = diff_lines(cfg, PROP)
    if rc2 != 0:
        dis.append({"input": "runner", "impl": "", "model": err[-500:]})
    return {
        "evaluations": n + meta.get("oracle_checked", 0),
        "distinct_nontrivial": meta.get("distinct_nontrivial", 0),
        "rule": RULE,
        "samples": meta.get("samples", []),
        "disagreements": dis, "n_disagreements": ndis,
        "oracle_failures": meta.get("oracle_failures", []),
        "exhaustive": True,
        "extra": {"input_distribution": meta.get("distribution", {}), "oracle_checked": meta.get("oracle_checked", 0),
                  "oracle_failures_per_class": meta.get("oracle_failures_per_class", {}),
                  "model_vs_impl_cases": n, "model_vs_impl_disagreements": ndis},
    }
