"""C29 — row and column attributes change independently"""
from common import *

ASSUMPTIONS = [
  "f64 scaling of sizes: the theorems take the premise `forall w, up (down w) = w` ((w / FACTOR) * FACTOR == w on f64). The model/implementation cases use only sizes on which it holds exactly (pixel widths that are multiples of 9, pixel heights that are multiples of 25); the harness measures the premise on all integer sizes 0..2000 px and on random fractional sizes and reports every size on which the implementation's read-back differs (classes col_width_not_representable / row_height_not_representable)",
  "the theorems about columns are for well-formed layouts (sorted by min, min <= max, disjoint, inside the grid); wf is proved to be preserved by every operation, imported layouts are assumed to satisfy it (the tie also runs unsorted / overlapping layouts, on which model and implementation agree too)",
  "style values are pool indices; resolving an index to a Style (Model::get_column_style / get_row_style) is C30's subject. The harness pre-registers 8 styles and checks on every observation that the Style-level getter and the index-level getter agree",
  "Model-level wrappers (model.rs) are one-line delegations to Worksheet methods; the harness drives the Model wrappers, so they are inside the tie",
]

def run(cfg):
    rc, log, meta = run_harness(cfg, "c29")
    if rc != 0:
        return {"evaluations": 0, "distinct_nontrivial": 0, "disagreements": [{"input": "harness", "impl": "exit %d" % rc, "model": log[-500:]}], "oracle_failures": []}
    rc2, err = run_model(cfg, "c29")
    n, ndis, dis = diff_lines(cfg, "c29")
    if rc2 != 0:
        dis.append({"input": "runner", "impl": "", "model": err[-500:]})
    d = meta.get("distribution", {})
    return {
        "evaluations": n + meta.get("oracle_checked", 0),
        "distinct_nontrivial": meta.get("distinct_nontrivial", 0),
        "rule": "EXHAUSTIVE small scope: every operation sequence of length <= 3 (thorough: <= 4, the last level compared by hash) over 4 columns x {set width 45/180, hide, unhide, set style 1/2, delete style} from each of 13 column layouts (empty, single, descriptors spanning 2-5 columns and up to column 16384, adjacent descriptors, hidden, custom_width off, zero width, descriptor at 16384 exercised on columns 16381..16384), and the same for 4 rows x 8 operations from 7 row layouts (unsorted, duplicate records, imported s without custom_format, row 1048576); after every sequence the full descriptor vector, the per-step ok flag (rows: also whether the step creates the record) and all getters on 8 columns / 6 rows are compared between the extracted Coq model and the implementation. Plus refused calls (column 0, -1, 16385, i32::MAX, negative sizes) on well-formed and on unsorted/overlapping layouts, plus random histories of 4-25 steps on far columns/rows. Oracle = the frame property on the implementation: getters of every observed (column, attribute) before and after the last step of every sequence (the former F23a/b/c witnesses are among the sequences; any column failure is a violation). Non-trivial = distinct histories",
        "samples": meta.get("samples", []),
        "disagreements": dis, "n_disagreements": ndis,
        "oracle_failures": meta.get("oracle_failures", []),
        "exhaustive": True,
        "extra": {"input_distribution": d, "oracle_checked": meta.get("oracle_checked", 0),
                  "oracle_failures_per_class": meta.get("oracle_failures_per_class", {}),
                  "model_vs_impl_cases": n, "model_vs_impl_disagreements": ndis},
    }
