"""C07 — evaluation is deterministic and independent of editing order"""
from common import *
from evalcommon import run_model_with_casts

ASSUMPTIONS = [
  "the store model is tied on the workbooks of plain cells within the core language (sorted entry order, one evaluation); dynamic-array workbooks and workbooks using other functions are covered by the oracle only",
  "a workbook is a SET of cell inputs typed with Model::set_user_input into a fresh en/UTC model with 2-3 sheets (Sheet1..Sheet3 made by new_sheet); styles, defined names, tables, CSE array formulas and volatile functions are outside the generated vocabulary",
  "the reference build enters the inputs in sorted (sheet,row,column) order and evaluates once; every other build (reverse + random entry orders x {one evaluation, evaluation after every edit, evaluation/reload in the middle, second evaluation, reload after evaluation with and without re-evaluation}) must give the same value dump",
  "value dump = get_cell_value_by_index of every cell present in sheet_data or in the input set, numbers compared by their bits, errors by their text and cell type; an absent cell and a cell record with an empty value are identified (cleared spill cells leave EmptyCell records)",
  "finding classes are predicates on the SHRUNK input workbook only (harness/c07/src/classify.rs: syntactic references, ranges, potential spill extents of the generated dynamic-array shapes); an unclassified difference keeps the class order_dependent / not_idempotent / reload_changes_values and is a VIOLATION",
  "HashMap iteration order inside one process run is not varied by the harness (each run uses Rust's per-process random SipHash keys, so repeated runs sample it)",
]

def run(cfg):
    rc, log, meta = run_harness(cfg, "c07")
    if rc != 0:
        return {"evaluations": 0, "distinct_nontrivial": 0, "rule": "", "samples": [],
                "disagreements": [{"input": "harness", "impl": "exit %d" % rc, "model": log[-500:]}], "oracle_failures": [],
                "exhaustive": False, "extra": {}}
    # the tie of the store model the C07 theorems are about: every generated workbook of plain cells
    # within the core language, extracted evaluator vs implementation (same model as C05/C06)
    rc2, err, asked = run_model_with_casts(cfg, "c07")
    n, ndis, dis = diff_lines(cfg, "c07")
    if rc2 != 0:
        dis.append({"input": "runner", "impl": "", "model": err[-500:]})
    model_cases = sum(1 for l in open(os.path.join(cfg["root"], "cases", "c07.in"), encoding="utf-8", errors="replace") if l.startswith("ev "))
    return {
        "evaluations": meta.get("oracle_checked", 0) + model_cases,
        "distinct_nontrivial": meta.get("distinct_nontrivial", 0),
        "rule": "corpus witnesses (F29, F10, raw-vs-stored probes, F02, spill-on-spill) + 150 (quick) / 3000 (thorough) generated workbooks over 2-3 sheets, 6-40 cells in A1:F8 (chains: 200 rows), kinds: acyclic formula DAG, chain of depth 200, cycles of length 1-5 without / with error-absorbing functions, cross-sheet references, empty-reference and overflow sources with type-sensitive readers, 2-5 dynamic arrays (ranges, SEQUENCE, array literals, lifted arithmetic, X# spill references) in disjoint and competing layouts with readers of spill cells, and spill-boundary reads (a consumer dynamic array reading as a plain range exactly the first row / last row / first column / last column / a corner / an interior cell / all of another anchor's spill, placed before and after the producer in sheet order, on the same and on the other sheet, optionally chained, plus scalar readers). Plus EDIT HISTORIES (120 quick / 1500 thorough + 3 witnesses): dynamic arrays whose extent depends on input cells (SEQUENCE(r,c), TAKE, FILTER, IF-selected ranges; optional second anchor) with scalar readers before and after them; 1-5 rounds of edits that shrink/grow rows only, columns only, both, to 1x1, to an error, evaluation between rounds (also evaluate twice, after every edit, reload between rounds / at the end, reversed entry of the base), every cell of the used area compared with the DIRECT build of the final workbook. Each workbook: sorted + reverse + 4 (quick) / 12 (thorough) random entry orders x 10 schedules; every value dump is compared with the reference dump (one evaluation = one dump comparison). Non-trivial = workbooks with at least one formula whose value is not an error",
        "samples": meta.get("samples", []),
        "disagreements": dis,
        "oracle_failures": meta.get("oracle_failures", []),
        "exhaustive": False,
        "extra": {"input_distribution": meta.get("distribution", {}), "workbooks": meta.get("workbooks", 0),
                  "oracle_checked": meta.get("oracle_checked", 0),
                  "oracle_failures_per_class": meta.get("oracle_failures_per_class", {}),
                  "failures_per_kind_and_class": meta.get("failures_per_kind_and_class", {}),
                  "workbooks_failing_per_kind": meta.get("workbooks_failing_per_kind", {}),
                  "entry_rejected": meta.get("entry_rejected", 0), "stats": meta.get("stats", {}),
                  "witnesses": meta.get("witnesses", []),
                  "model_vs_impl_cases": model_cases, "model_vs_impl_disagreements": ndis},
    }
