"""C09 — printing a formula and parsing it back preserves its meaning"""
from common import *
import os, json, subprocess, resource

ASSUMPTIONS = [
  "L2 works on tokens: the character level (operator spelling, white space, number and string literals, reference and sheet-name spelling) is tied by the correspondence only: for every generated tree the token stream the real lexer reads from the implementation's text must equal the model's printed tokens (after Shape.glue, the token-level model of the three places where the lexer merges or rejects printed tokens around ':'), and the implementation's parse of its text must equal the model's parse of those tokens",
  "function, boolean and error names and str::to_uppercase/to_lowercase are parameters of the models (record Printer.names); what the theorems need of them is part of the per-tree decidable premise Shape.image (the printed name of a built-in function is looked up to the same function and is not LAMBDA/_xlfn.SINGLE/_xlfn.ANCHORARRAY, the lexer reads the error's English spelling back as that error, ...); the runner instantiates the record with the tables the harness dumps from the built code on every run (T lines) with ASCII/Latin-1 case mapping; C23 owns the tables themselves",
  "numbers are canonical decimal texts (what to_excel_precision_str prints); literals with more than 15 significant digits are outside parser_image for the printer (finding F03, checked by the oracle)",
  "the xlsx form is the printer with export_to_excel = true; the rewriting passes of to_excel_string (remove_redundant_implicit_intersection, prefix_bound_variables) are applied by the implementation only; the structural oracle compares modulo remove_redundant_implicit_intersection, the model tie is restricted to trees the passes leave unchanged (C24 owns the passes)",
  "identifiers that are column letters followed by ':' (x:D4), names that look like references in the other notation, structured (table) references and TableNameKind are not generated",
  "the end-to-end oracle evaluates in-process under an address-space limit; trees with full-row or full-column ranges are not evaluated",
]

def run(cfg):
    root = cfg["root"]
    out = os.path.join(root, "cases")
    cmd = [os.path.join(root, "harness/target/release/vh_c09"), str(cfg["seed"]), cfg["tier"], out]
    def lim():
        resource.setrlimit(resource.RLIMIT_AS, (12 << 30, 12 << 30))
    p = subprocess.run(cmd, stdout=subprocess.PIPE, stderr=subprocess.STDOUT, timeout=3000, preexec_fn=lim)
    log = p.stdout.decode("utf-8", "replace")
    mp = os.path.join(out, "c09.meta.json")
    meta = json.load(open(mp)) if os.path.exists(mp) else {}
    if p.returncode != 0:
        return {"evaluations": 0, "distinct_nontrivial": 0, "disagreements": [{"input": "harness", "impl": "exit %d" % p.returncode, "model": log[-500:]}], "oracle_failures": []}
    rc2, err = run_model(cfg, "c09")
    n, ndis, dis = diff_lines(cfg, "c09")
    if rc2 != 0:
        dis.append({"input": "runner", "impl": "", "model": err[-500:]})
    e2e = meta.get("e2e", {})
    return {
        "evaluations": n + meta.get("oracle_checked", 0),
        "distinct_nontrivial": meta.get("distinct_nontrivial", 0),
        "rule": "EXHAUSTIVE: every parent kind (6 comparison/concat/+/-/*/'/'/^ operators, ':', unary minus, %, @, #, function / named-function / LAMBDA-call arguments, LAMBDA body) x child position x child kind (25 kinds, 1-4 representatives each with representative grandchildren); all triples of the 8 binary operator classes in the 5 tree shapes and all placements of the 4 unary operators above/below/between them; every leaf kind in every spelling class and every built-in function name; random trees of depth <= 7; range literals on the boundary grid (stored value 1, 2, LAST-1, LAST x absolute/relative for each of row1/col1/row2/col2, sentinel values in all 16 flag combinations, also WrongRangeKind and other-sheet, from formula cells at A1, B2, C3 and the grid edges) together with 'FR' cases comparing what the A1 text omits with Syntax/FullRange.full_row/full_column. Each tree is printed in the stored R1C1 form, the English A1 form, the xlsx form and rotating (quick) / all 30 (thorough, for the exhaustive pairs) locale x language display forms, lexed and parsed back by the implementation and by the extracted model. End-to-end: each evaluable tree is typed fully parenthesised into a real Model, and its value compared after to_bytes/from_bytes, after re-typing get_localized_cell_content, and after re-typing the text displayed in a rotating locale/language. distinct_nontrivial = distinct (form, printed text) pairs",
        "samples": meta.get("samples", []),
        "disagreements": dis, "n_disagreements": ndis,
        "oracle_failures": meta.get("oracle_failures", []),
        "exhaustive": True,
        "extra": {"input_distribution": meta.get("distribution", {}), "oracle_checked": meta.get("oracle_checked", 0),
                  "oracle_failures_per_class": meta.get("oracle_failures_per_class", {}),
                  "end_to_end": e2e, "trees": {k: meta.get(k) for k in ("pairs", "triples", "leaves", "random")},
                  "model_vs_impl_cases": n, "model_vs_impl_disagreements": ndis},
    }
