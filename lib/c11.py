"""C11 — text inputs never crash the engine (lexer cursor model + fuzz-style search)"""
from common import *
import os, subprocess, json

ASSUMPTIONS = [
  "PROOF covers index safety of the lexer's consumers only (Syntax/LexerSafe.v: character loops, consume_number/integer/identifier/string/single_quote_string/error, consume_reference_a1, consume_range_a1 incl. the row-range restart, expect_char, consume_table_specifier, consume_column_reference), for all texts, cursors and decision oracles. The composition in next_token (dispatch, identifier arm, R1C1 references with recursive expect, structured-reference grammar) is MODELLED and TIED (token kinds and cursor after every token, model = implementation on every generated string, A1 and R1C1 mode, '.' and ',' decimal) but its no-Panic theorem is not proved.",
  "everything else in the statement (parser, printers, completion at every cursor, F4 cycling at every selection, get_tokens, format_number on format codes x finite and non-finite numbers, set_user_input in every language/locale, evaluation) is SEARCH: fuzz-style runs under catch_unwind, labelled search in the evidence; F4 and the number-format token walk have their own models (C34 Codec/F4.v, C20 Num/FormatPlace.v).",
  "character classes and to_uppercase of the Rust standard library reach the model as a per-case table computed by the harness from std itself (closed under to_uppercase); language data (boolean and error names of 'en') are dumped from the built code in the first case line",
  "the release harness wraps on integer overflow; the search streams are run a second time with the binary built with --profile checked (overflow-checks, debug-assertions)",
  "evaluation runs in a child process under ulimit -v 600000 and timeout 120 s; a child killed by the limit is the observation 'abort'",
]

def _build_checked(root):
    env = dict(os.environ, CARGO_NET_OFFLINE="true")
    try:
        p = subprocess.run(["bash", "-c", "timeout 2400 cargo build --profile checked --offline -p vh_c11 2>&1 | tail -5; exit ${PIPESTATUS[0]}"],
                           cwd=os.path.join(root, "harness"), env=env, stdout=subprocess.PIPE, stderr=subprocess.STDOUT, timeout=2500)
        return p.returncode == 0, p.stdout.decode("utf-8", "replace")
    except Exception as e:
        return False, repr(e)

def run(cfg):
    root = cfg["root"]
    rc, log, meta = run_harness(cfg, "c11")
    if rc != 0:
        return {"evaluations": 0, "distinct_nontrivial": 0, "disagreements": [{"input": "harness", "impl": "exit %d" % rc, "model": log[-500:]}], "oracle_failures": []}
    rc2, err = run_model(cfg, "c11")
    n, ndis, dis = diff_lines(cfg, "c11", limit=8)
    if rc2 != 0:
        dis.append({"input": "runner", "impl": "", "model": err[-500:]})
    failures = list(meta.get("oracle_failures", []))
    per_class = dict(meta.get("oracle_failures_per_class", {}))
    # the overflow-checked variant: search streams only
    ok, blog = _build_checked(root)
    checked = {"built": ok}
    if ok:
        exe = os.path.join(root, "harness/target/checked/vh_c11")
        out = os.path.join(root, "cases")
        p = subprocess.run([exe, str(cfg["seed"]), cfg["tier"], out, "search-only"], stdout=subprocess.PIPE, stderr=subprocess.STDOUT, timeout=3000)
        mp = os.path.join(out, "c11_checked.meta.json")
        if p.returncode == 0 and os.path.exists(mp):
            m2 = json.load(open(mp))
            checked.update({"oracle_checked": m2.get("oracle_checked", 0), "search_counts": m2.get("search_counts", {}),
                            "lexer_outcomes": m2.get("lexer_outcomes", {}), "oracle_failures_per_class": m2.get("oracle_failures_per_class", {})})
            failures += m2.get("oracle_failures", [])
        else:
            dis.append({"input": "checked-build harness", "impl": "exit %d" % p.returncode, "model": p.stdout.decode("utf-8", "replace")[-400:]})
    else:
        dis.append({"input": "checked-build", "impl": "cargo build --profile checked failed", "model": blog[-400:]})
    search_total = sum(meta.get("search_counts", {}).values()) + sum(checked.get("search_counts", {}).values())
    return {
        "evaluations": n + search_total,
        "distinct_nontrivial": meta.get("distinct_nontrivial", 0),
        "rule": "strings: the empty string, 100 fragments (operators, references, R1C1 pieces, quotes, brackets, error names, numbers, table pieces, non-ASCII letters/digits, emoji, white space), ALL ordered pairs of fragments, every prefix and every single-character deletion of 24 valid formulas, named edge cases, random fragment strings and mutations of valid formulas (12k quick / 400k thorough). TIE: each string lexed in A1 and R1C1 mode with '.' and ',' decimal: token kinds + cursor after every token, model = implementation. SEARCH (catch_unwind): parser+printers in 5 languages, parse_at_cursor at every cursor, get_tokens, cycle_reference at every (start,end), format_number on valid / mutated / fragment-pair format codes x 31 finite and non-finite numbers x locales, set_user_input on models of every language and a rotation of locales, evaluation of a sample in a child process under ulimit; all search streams a second time in an overflow-checked build. Non-trivial = distinct strings.",
        "samples": meta.get("samples", []),
        "disagreements": dis, "n_disagreements": ndis,
        "oracle_failures": failures,
        "exhaustive": False,
        "extra": {
            "model_vs_impl_cases": n, "model_vs_impl_disagreements": ndis,
            "lexer_outcomes": meta.get("lexer_outcomes", {}),
            "lexer_position_beyond_len": meta.get("lexer_position_beyond_len", 0),
            "search_only_counts_release": meta.get("search_counts", {}),
            "search_only_checked_build": checked,
            "eval_child": meta.get("eval_child", {}),
            "languages": meta.get("languages", []), "locales": meta.get("locales", []), "format_codes": meta.get("formats", 0),
            "oracle_checked": meta.get("oracle_checked", 0) + checked.get("oracle_checked", 0),
            "oracle_failures_per_class": per_class,
            "labels": {"proof": "consumer-level index safety (Props/C11.v)", "tie": "lexer tokens and cursors", "search": "everything else"},
        },
    }
