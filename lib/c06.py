"""C06 — computed values match reference spreadsheet semantics (core language)"""
from common import *
from evalcommon import run_model_with_casts

ASSUMPTIONS = [
  "NumOps is instantiated in ocaml/h_c06.ml with native IEEE doubles: + - * / are OCaml's, pow is C pow (glibc, the same routine Rust's powf calls), ROUND's kernel, f64::min/max (incl. their x86-64 tie behaviour on -0/0) and the 15-digit comparison are re-implemented from the Rust expressions; these few lines are trusted for the correspondence only, no theorem depends on them",
  "number -> text is Rust's Display for f64 re-implemented in OCaml (shortest round-trip digits via %.{p}e search, positional notation); text -> number checks Rust's f64 grammar in OCaml and converts with strtod (both correctly rounded); texts outside that grammar (currencies, percentages, dates: parse_formatted_number) are converted by the Rust side itself (typed into a scratch cell) and handed to the runner as a table (cases/c06.casts), extended on demand",
  "the parser and its static analysis (implicit-intersection insertion, scalar/dynamic classification) are outside the model: the harness hands the PARSED formula of every cell to the model, with references resolved to absolute coordinates",
  "str::to_uppercase/to_lowercase are modelled on ASCII and Latin-1 letters; the generated pool is ASCII",
  "error origin and message are not compared (only the error kind); full-column/full-row ranges (SUM's dimension shortcut) are not generated",
  "evaluation order of Model::evaluate = dynamic anchors (sorted) then all cells (sorted); the restart loop that may reorder anchors is not modelled (one anchor per C06 case)",
]

def run(cfg):
    rc, log, meta = run_harness(cfg, "c06")
    if rc != 0:
        return {"evaluations": 0, "distinct_nontrivial": 0, "disagreements": [{"input": "harness", "impl": "exit %d" % rc, "model": log[-500:]}], "oracle_failures": []}
    rc2, err, asked = run_model_with_casts(cfg, "c06")
    n, ndis, dis = diff_lines(cfg, "c06")
    if rc2 != 0:
        dis.append({"input": "runner", "impl": "", "model": err[-500:]})
    return {
        "evaluations": n,
        "distinct_nontrivial": meta.get("distinct_nontrivial", 0),
        "rule": "programs over the core language entered into a workbook whose cells hold a pool of 27 values of every type (numbers incl. -0 and 1E308, numeric-, boolean-, currency-, percent- and inf-looking strings, empty string, booleans, four errors, an empty cell): BOUNDED-EXHAUSTIVE at depth <= 2 — every binary operator and every 2-argument function x every ordered pair of pool cells; x every ordered pair of class representatives x every pair of operand shapes (reference, literal, column range, row range, 1x2 and 2x1 array literal); unary operators and 1-argument functions x every pool cell x every shape; IF with 3 arguments; wrong arities; empty arguments; implicit intersection; CSE form — plus random programs of depth 3-5. Observed: the 3x3 block of cells at the formula (value and spill). Non-trivial = distinct formulas whose anchor value is not an error",
        "samples": meta.get("samples", []),
        "disagreements": dis, "n_disagreements": ndis,
        "oracle_failures": meta.get("oracle_failures", []),
        "exhaustive": True,
        "extra": {"input_distribution": meta.get("distribution", {}), "skipped": meta.get("skipped", {}),
                  "exhaustive_cases": meta.get("exhaustive_cases"), "random_cases": meta.get("random_cases"),
                  "cast_table_requests": asked, "pool": meta.get("pool"), "panics": meta.get("panics"),
                  "model_vs_impl_cases": n, "model_vs_impl_disagreements": ndis},
    }
