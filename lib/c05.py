"""C05 — every formula value is consistent with its inputs"""
import os, json
from common import *
from evalcommon import run_model_with_casts
import c06

ASSUMPTIONS = c06.ASSUMPTIONS + [
  "workbooks containing a function outside the core language are not covered by the model; they are skipped and counted (not_covered_outside_core_language)",
  "dynamic arrays appear only in the multi-step scripts, read by plain formulas (no dynamic consumer of another spill: the restart loop of phase 1 is not modelled; see C07/C31)",
  "a full-column / full-row range is accepted only as a direct argument of an aggregate and is handed to the model clipped to the used area (+8 rows/columns) of the REFERENCED sheet, computed by the harness from sheet_data: grid-wide meaning, since every cell beyond is empty and aggregates skip empty cells (the implementation's own clipping in SUM is an optimisation that must not change the value)",
  "the model is started from the implementation's state BEFORE each evaluate (stored values, spill cells and array extents left by the previous evaluate included)",
  "the dependency graph used by the oracle classes is syntactic (every reference and range of the parsed formula), as in the theorems",
]

def run(cfg):
    rc, log, meta = run_harness(cfg, "c05")
    if rc != 0:
        return {"evaluations": 0, "distinct_nontrivial": 0, "disagreements": [{"input": "harness", "impl": "exit %d" % rc, "model": log[-500:]}], "oracle_failures": []}
    rc2, err, asked = run_model_with_casts(cfg, "c05")
    n, ndis, dis = diff_lines(cfg, "c05")
    if rc2 != 0:
        dis.append({"input": "runner", "impl": "", "model": err[-500:]})
    # (ii) the property statement on the implementation's own values
    cases = os.path.join(cfg["root"], "cases")
    oin, oout = os.path.join(cases, "c05o.in"), os.path.join(cases, "c05o.model")
    run_model(cfg, "c05", infile=oin, outfile=oout)
    res = open(oout, encoding="utf-8", errors="replace").read().split("\n")
    hints = open(os.path.join(cases, "c05o.hint"), encoding="utf-8", errors="replace").read().split("\n")
    failures = list(meta.get("oracle_failures", []))
    per_class = dict(meta.get("oracle_failures_per_class", {}))
    checked = 0; ncons = 0
    for i, line in enumerate(res):
        if not line: continue
        checked += 1
        if line == "consistent":
            ncons += 1; continue
        if not line.startswith("inconsistent"):
            if line.startswith("ask "):   # a text the cast table does not know: not a verdict
                continue
            dis.append({"input": "c05o line %d" % i, "impl": "", "model": line[:200]}); continue
        hint, inputs = (hints[i].split("\t") + ["[]"])[:2]
        flags = dict(h.split(":") for h in hint.split(" ") if ":" in h)
        for cell in line.split(" ")[1:]:
            f = (flags.get(cell, "0000") + "0000")[:4]
            # tight classes, decided by a predicate on (workbook, cell):
            #  cyc: the cell is on, or depends on, a dependency cycle            -> F10
            #  rz : a formula cell it reads directly stores the number 0         -> F30 (raw EmptyCell vs stored 0)
            #  rn : a formula cell it reads directly stores #NUM!                -> F31 (raw inf vs stored #NUM!)
            #  pl : it reads a non-anchor cell of a CSE array entered since the previous evaluate -> F40 (placeholder)
            cls = "absorbed_cycle" if f[0] == "1" else "cse_placeholder_first_evaluate" if f[3] == "1" else "raw_vs_stored_empty" if f[1] == "1" else "raw_vs_stored_nonfinite" if f[2] == "1" else "inconsistent_value"
            per_class[cls] = per_class.get(cls, 0) + 1
            if per_class[cls] <= 5:
                failures.append({"class": cls, "input": {"inputs": json.loads(inputs), "cell": cell},
                                 "detail": "cell %s does not hold what its formula produces over the stored values (model eval over the implementation's own values)" % cell})
    return {
        "evaluations": n + checked + meta.get("oracle_checked", 0),
        "distinct_nontrivial": meta.get("distinct_nontrivial", 0),
        "rule": "generated SCRIPTS over 3 sheets (6-40 cells; DAGs, chains of depth 200, cycles of length 1-5 with and without error-absorbing functions, cross-sheet references, formulas whose result is empty or overflows; full-column / full-row ranges A:A 1:1 A:B 2:3 as arguments of SUM COUNT COUNTA MIN MAX AVERAGE, same-sheet and cross-sheet, referenced sheet larger and smaller than the formula sheet; MULTI-STEP scripts: CSE and dynamic arrays over literals with readers of their non-anchor cells placed before and after them in sheet order — build, evaluate, change inputs, evaluate again, up to 3 evaluations) plus the design-phase witnesses; EVERY evaluate of a script gives: (i) stored values of every cell, implementation vs the extracted store evaluator run in the implementation's cell order; (ii) values_consistent_b — every formula cell re-evaluated by the model's expression semantics over the implementation's OWN stored values must equal its stored value; (iii) #CIRC! only on a cycle or when reading #CIRC!, and cells on a cycle show #CIRC!. Non-trivial = workbooks with at least one non-error, non-empty value",
        "samples": meta.get("samples", []),
        "disagreements": dis, "n_disagreements": ndis,
        "oracle_failures": failures,
        "exhaustive": False,
        "extra": {"input_distribution": meta.get("distribution", {}), "workbooks": meta.get("workbooks"), "evaluations_of_scripts": meta.get("evaluations"),
                  "not_covered_outside_core_language": meta.get("not_covered_outside_core_language"),
                  "consistency_workbooks_checked": checked, "consistency_workbooks_consistent": ncons,
                  "oracle_failures_per_class": per_class, "circ_cells_checked": meta.get("oracle_checked"),
                  "cast_table_requests": asked, "panics": meta.get("panics"),
                  "model_vs_impl_cases": n, "model_vs_impl_disagreements": ndis},
    }
