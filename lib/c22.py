"""C22 — cell-reference and sheet-name codecs"""
from common import *

ASSUMPTIONS = [
  "the harness is built in release mode: i32 arithmetic in column_to_number wraps (modelled by wrap32); an overflow-checked build panics instead (col_overflows, see C11)",
  "char::is_alphabetic/is_alphanumeric/is_whitespace are modelled exactly on ASCII and on the explicit non-ASCII code points the generators use; the table is compared with the Rust standard library on every run ('cls' cases)",
  "range and A1 lexing beyond the gate function parse_reference_a1 is tied by the print->lex oracle on the implementation, not by a model",
]

def run(cfg):
    rc, log, meta = run_harness(cfg, "c22")
    if rc != 0:
        return {"evaluations": 0, "distinct_nontrivial": 0, "disagreements": [{"input": "harness", "impl": "exit %d" % rc, "model": log[-500:]}], "oracle_failures": []}
    rc2, err = run_model(cfg, "c22")
    n, ndis, dis = diff_lines(cfg, "c22")
    if rc2 != 0:
        dis.append({"input": "runner", "impl": "", "model": err[-500:]})
    return {
        "evaluations": n + meta.get("oracle_checked", 0),
        "distinct_nontrivial": meta.get("distinct_nontrivial", 0),
        "rule": "all 16384 columns x rows (rotating subset, all rows for edge columns) x 4 flag pairs printed in A1 and R1C1 and read back; all letter strings up to length 3 (quick) / 4 (thorough); long letter strings incl. i32-aliasing candidates; grammar mutations of reference texts; sheet names: all strings up to length 2 (quick) / 3 (thorough) over a 36-symbol alphabet of tricky characters plus random ones up to 31 characters. Non-trivial = distinct reference round trips + names that need quoting + columns",
        "samples": meta.get("samples", []),
        "disagreements": dis, "n_disagreements": ndis,
        "oracle_failures": meta.get("oracle_failures", []),
        "exhaustive": True,
        "extra": {"input_distribution": meta.get("distribution", {}), "oracle_checked": meta.get("oracle_checked", 0),
                  "oracle_failures_per_class": meta.get("oracle_failures_per_class", {}),
                  "model_vs_impl_cases": n, "model_vs_impl_disagreements": ndis},
    }
