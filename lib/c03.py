"""C03 — replicas that apply the diff queue converge"""
from hist_common import *
ASSUMPTIONS = COMMON_ASSUMPTIONS + ["bitcode encode/decode of the queue is exercised by the real flush_send_queue/apply_external_diffs on every step; it is not modelled"]
def run(cfg):
    return run_hist(cfg, "c03", "seeded histories with undo/redo on a primary; three replicas loaded from the same bytes are fed the outgoing queue flushed after every step / at PRNG-chosen points / only at the end; snapshots (without view state) compared after every step and at the end; the extracted machine checks the schedule algebra (batches cut at the same points reproduce the primary's state). Non-trivial = successful events")
