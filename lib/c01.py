"""C01 — undo restores the exact state before the undone operation"""
from hist_common import *
ASSUMPTIONS = COMMON_ASSUMPTIONS
def run(cfg):
    return run_hist(cfg, "c01", "seeded histories (120 quick / 1200 thorough, 6-24 / 6-40 operations) over 46 kinds of UserModel calls, 85% valid / 10% boundary / 5% invalid arguments, from a 2-sheet workbook with formulas; every recording operation is undone at once (snapshot before = snapshot after undo), redone, and at the end the whole history is walked back to the initial snapshot; the extracted generic machine is run on the same event lists at snapshot identifiers. Non-trivial = successful operations")
