#!/bin/bash
# setup.sh — builds the Coq development, the extracted OCaml runner and the Rust harness,
# offline, from files on disk. Run once after a restore; checks rebuild incrementally.
set -e
cd "$(dirname "$0")"
export CARGO_NET_OFFLINE=true
mkdir -p cases replays evidence .locks
( cd coq && coq_makefile -f _CoqProject -o Makefile > /dev/null && timeout 3000 make -j16 )
./build_runner.sh
( cd harness && cargo build --release --offline 2>&1 | tail -3 )
echo setup-ok
