#!/bin/bash
# setup.sh — builds the Coq development, the extracted OCaml runners and the Rust harness,
# offline, from files on disk. Run once after a restore; checks rebuild incrementally.
set -e
cd "$(dirname "$0")"
export CARGO_NET_OFFLINE=true
mkdir -p cases replays evidence .locks
python3 - <<'PY'
import importlib.machinery, importlib.util
l = importlib.machinery.SourceFileLoader('check', './check'); s = importlib.util.spec_from_loader('check', l); m = importlib.util.module_from_spec(s); l.exec_module(m)
m.gen_coqproject()
PY
( cd coq && timeout 6000 make -j16 -k ) || echo "setup: some Coq files failed (their checks will report it)"
./build_runner.sh || echo "setup: some runner failed to build"
( cd harness && cargo build --release --offline 2>&1 | tail -3 ) || echo "setup: harness build failed"
echo setup-ok
