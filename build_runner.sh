#!/bin/bash
# extraction + ocamlopt of the model runner
set -e
cd "$(dirname "$0")/ocaml"
coqc -Q ../coq/theories IronCalc ../coq/theories/Extract/Extract.v > extract.log 2>&1 || { cat extract.log; exit 1; }
rm -f ../coq/theories/Extract/Extract.vo ../coq/theories/Extract/Extract.glob ../coq/theories/Extract/.Extract.aux ../coq/theories/Extract/Extract.vok ../coq/theories/Extract/Extract.vos
ocamlfind ocamlopt -O2 -w -a model.mli model.ml runner.ml -o runner 2>/dev/null || ocamlfind ocamlopt -w -a model.mli model.ml runner.ml -o runner
