#!/bin/bash
# build_runner.sh [cXX ...] — extraction + ocamlopt of the model runner of each property.
# ocaml/bin/runner_cXX = extracted model_cXX.ml + helpers.ml + h_cXX.ml + mainloop.ml
set -e
cd "$(dirname "$0")"
mkdir -p ocaml/gen ocaml/bin
props="$@"
if [ -z "$props" ]; then
  props=$(ls coq/theories/Extract/Extract_c*.v | sed 's#.*Extract_\(c[0-9]*\)\.v#\1#')
fi
rc=0
for p in $props; do
  (
    cd ocaml/gen
    coqc -Q ../../coq/theories IronCalc ../../coq/theories/Extract/Extract_$p.v > extract_$p.log 2>&1 || { cat extract_$p.log; exit 1; }
    rm -f ../../coq/theories/Extract/Extract_$p.vo ../../coq/theories/Extract/Extract_$p.glob ../../coq/theories/Extract/.Extract_$p.aux ../../coq/theories/Extract/Extract_$p.vok ../../coq/theories/Extract/Extract_$p.vos
    { echo "open Model_$p"; cat ../helpers.ml ../h_$p.ml ../mainloop.ml; } > run_$p.ml
    ocamlfind ocamlopt -O3 -w -a model_$p.mli model_$p.ml run_$p.ml -o ../bin/runner_$p 2> ocamlopt_$p.log || { cat ocamlopt_$p.log; exit 1; }
  ) || rc=1
done
exit $rc
