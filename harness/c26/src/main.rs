//! C26 — saving to and loading from the internal binary format is lossless.
//! Workbooks: every state of seeded user-model histories (vh_hist) plus a pool of formula-rich
//! workbooks. Per workbook: to_bytes / from_bytes, `==` on `Workbook` (the codec law the theorems
//! assume), parsed formulas before = after (C09 in the stored form, on the implementation),
//! evaluate both and compare snapshots, second save/load is the identity. Tie: for every stored
//! formula the real R1C1 lexer's tokens go to the extracted model parser (Persist.parse_stored),
//! which must return the tree the real parser returned on load.
#[path = "../../c09/src/nodeio.rs"]
mod nodeio;
mod treeutil;
mod fgen;
use fgen::*;
use nodeio::*;
use treeutil::*;
use vh_common::*;
use vh_hist::*;
use vh_hist::driver::fresh;

use ironcalc_base::expressions::parser::Node;
use ironcalc_base::language::get_language;
use ironcalc_base::locale::get_locale;
use ironcalc_base::types::{Cell, Workbook};
use ironcalc_base::{Model, UserModel};
use serde_json::json;
use std::collections::{BTreeMap, HashSet};
use std::panic::{catch_unwind, AssertUnwindSafe};

const VOLATILE: [&str; 4] = ["RAND", "RANDBETWEEN", "NOW", "TODAY"];

struct Run {
    cs: Cases,
    or: Oracle,
    fns: Fns,
    seen: HashSet<u64>,
    dist: BTreeMap<String, u64>,
    samples: Vec<String>,
    distinct_texts: HashSet<String>,
    states: u64,
    formulas: u64,
    tree_diffs: u64,
    snap_diffs_explained: u64,
    snap_diffs_volatile: u64,
}

fn hash64(s: &str) -> u64 {
    let mut h: u64 = 0xcbf29ce484222325;
    for b in s.bytes() { h ^= b as u64; h = h.wrapping_mul(0x100000001b3); }
    h
}

fn tables(cs: &mut Cases, fns: &Fns) {
    let g = get_language("en").unwrap();
    let en_loc = get_locale("en").unwrap();
    for (i, f) in fns.all.iter().enumerate() { cs.case(&format!("T fn en {i} {}", wire(&f.to_localized_name(g))), "ok"); }
    for (i, e) in ERRORS.iter().enumerate() {
        let toks = tokens(&format!("{e}"), true, en_loc, g);
        cs.case(&format!("T err en {i} {}", toks.join(" ")), "ok");
    }
    cs.case(&format!("T bool en {} {}", wire(&g.booleans.r#true.to_uppercase()), wire(&g.booleans.r#false.to_uppercase())), "ok");
    cs.case(&format!("T tf {} {}", fns.idx(&ironcalc_base::Function::True), fns.idx(&ironcalc_base::Function::False)), "ok");
}

/// the parser environment of a workbook, as a wire prefix: sheets, defined names, tables
fn env_wire(m: &Model) -> String {
    let wb = &m.workbook;
    let mut v = vec![format!("{}", wb.worksheets.len())];
    for ws in &wb.worksheets { v.push(wire(&ws.get_name())); }
    let dn = wb.get_defined_names_with_scope();
    v.push(format!("{}", dn.len()));
    for (n, sc, f) in dn { v.push(wire(&n)); v.push(match sc { Some(i) => format!("{i}"), None => "-1".into() }); v.push(wire(&f)); }
    let mut tb: Vec<&String> = wb.tables.keys().collect();
    tb.sort();
    v.push(format!("{}", tb.len()));
    for t in tb { v.push(wire(t)); }
    v.join(" ")
}

/// an identifier the R1C1 lexer reads as a reference: R / C with optional numbers or [offsets]
fn looks_r1c1(name: &str) -> bool {
    // R<row>C<column> with either part missing or in brackets: "R1C", "RC2", "R[1]C" — followed by a sign or a digit the
    // R1C1 lexer completes it to a reference ("R1C+1" is R1C1)
    let u = name.to_uppercase();
    if let Some(rest) = u.strip_prefix('R') {
        if let Some(ci) = rest.find('C') {
            let (a, b2) = (&rest[..ci], &rest[ci + 1..]);
            let part = |p: &str| p.is_empty() || p.chars().all(|c| c.is_ascii_digit()) || (p.starts_with('[') && p.ends_with(']'));
            if part(a) && part(b2) { return true; }
        }
    }
    let en = get_language("en").unwrap();
    let loc = get_locale("en").unwrap();
    let t = tokens(name, true, loc, en);
    t.len() == 1 && (t[0].starts_with("R:") || t[0].starts_with("G:"))
}

/// class of "the tree kept in memory is not the tree the stored text parses to", from the tree
fn classify(a: &Node, b: &Node) -> String {
    if has_long_number(a) { return "number_more_than_15_digits".into(); }
    if matches!(a, Node::ParseErrorKind { .. }) { return "unparsable_text_parses_in_r1c1_mode".into(); }
    if contains(a, &|n| match n {
        Node::NamedVariableKind { name, .. } | Node::TableNameKind(name) => looks_r1c1(name),
        Node::DefinedNameKind((name, _, _)) => looks_r1c1(name),
        Node::NamedFunctionKind { name, .. } => looks_r1c1(name),
        _ => false }) { return "identifier_is_r1c1_reference".into(); }
    let mut pairs = vec![];
    bad_pairs(a, &mut pairs);
    if !pairs.is_empty() && *b == reassoc(a) { return format!("reassociated:{}", pairs[0]); }
    if let Some(g) = glue_class(a, true) { return format!("lexer_glue:{g}"); }
    if contains(a, &|n| matches!(n, Node::ErrorKind(ironcalc_base::expressions::token::Error::NIMPL)) || array_has_error(n, true)) { return "error_nimpl_spelling".into(); }
    if contains(a, &|n| matches!(n, Node::NamedFunctionKind { name, .. } if name.to_lowercase() != *name)) { return "named_function_lowercased".into(); }
    if contains(a, &|n| matches!(n, Node::LambdaCallKind { lambda, .. } if matches!(&**lambda, Node::NamedVariableKind { name, .. } if name.to_lowercase() != *name))) { return "named_function_lowercased".into(); }
    "reparse_mismatch".into()
}

/// canonical text of a workbook: Debug of every component, maps in key order (f64 Debug is
/// exact and prints NaN as NaN, so this is a bit-level comparison that is reflexive on NaN).
/// `values = false` leaves out the computed values (what `view` does not show).
fn wb_canon(w: &Workbook, values: bool) -> Vec<String> {
    let mut out = vec![];
    out.push(format!("shared_strings {:?}", w.shared_strings));
    out.push(format!("defined_names {:?}", w.defined_names));
    out.push(format!("styles {:?}", w.styles));
    out.push(format!("name {:?} settings {:?} metadata {:?}", w.name, w.settings, w.metadata));
    out.push(format!("theme {:?}", w.theme));
    let mut t: Vec<String> = w.tables.iter().map(|(k, v)| format!("table {k:?} {v:?}")).collect(); t.sort(); out.extend(t);
    let mut t: Vec<String> = w.views.iter().map(|(k, v)| format!("view {k:?} {v:?}")).collect(); t.sort(); out.extend(t);
    for (i, p) in w.worksheets.iter().enumerate() {
        out.push(format!("s{i} dim {:?} name {:?} id {} state {:?} color {:?} merge {:?} comments {:?} frozen {} {} grid {}", p.dimension, p.name, p.sheet_id, p.state, p.color, p.merge_cells, p.comments, p.frozen_rows, p.frozen_columns, p.show_grid_lines));
        out.push(format!("s{i} cols {:?}", p.cols));
        out.push(format!("s{i} rows {:?}", p.rows));
        out.push(format!("s{i} shared_formulas {:?}", p.shared_formulas));
        out.push(format!("s{i} cf {:?}", p.conditional_formatting));
        let mut t: Vec<String> = p.views.iter().map(|(k, v)| format!("s{i} view {k:?} {v:?}")).collect(); t.sort(); out.extend(t);
        let mut t: Vec<String> = p.links.iter().map(|(k, v)| format!("s{i} link {k:?} {v:?}")).collect(); t.sort(); out.extend(t);
        let mut cells: Vec<(i32, i32, String)> = vec![];
        for (r, row) in &p.sheet_data { for (c, cell) in row {
            let txt = if values { format!("{cell:?}") } else {
                match cell {
                    Cell::CellFormula { f, s, .. } => format!("formula f={f} s={s}"),
                    Cell::ArrayFormula { f, s, kind, .. } => format!("array f={f} s={s} {kind:?}"),
                    Cell::SpillCell { s, .. } => format!("spill-or-empty s={s}"),
                    Cell::EmptyCell { s } => format!("spill-or-empty s={s}"),
                    other => format!("{other:?}"),
                }
            };
            cells.push((*r, *c, txt));
        } }
        cells.sort();
        for (r, c, t) in cells { out.push(format!("s{i} R{r}C{c} {t}")); }
    }
    out
}
fn wb_same(a: &Workbook, b2: &Workbook, values: bool) -> bool { (values && a == b2) || wb_canon(a, values) == wb_canon(b2, values) }
fn wb_diff(a: &Workbook, b2: &Workbook) -> String {
    let (x, y) = (wb_canon(a, true), wb_canon(b2, true));
    let sx: HashSet<&String> = x.iter().collect();
    let sy: HashSet<&String> = y.iter().collect();
    let mut out: Vec<String> = vec![];
    for l in x.iter().filter(|l| !sy.contains(l)).take(3) { out.push(format!("- {}", l.chars().take(200).collect::<String>())); }
    for l in y.iter().filter(|l| !sx.contains(l)).take(3) { out.push(format!("+ {}", l.chars().take(200).collect::<String>())); }
    out.join(" | ")
}
fn holds_spill_error(w: &Workbook) -> bool { wb_canon(w, true).iter().any(|l| l.contains("ei: SPILL") || l.contains("Error(SPILL)")) }

fn has_volatile(m: &Model) -> bool {
    m.workbook.worksheets.iter().any(|ws| ws.shared_formulas.iter().any(|f| { let u = f.to_uppercase(); VOLATILE.iter().any(|v| u.contains(&format!("{v}("))) }))
}

impl Run {
    /// all checks on one workbook state; false = an oracle failure was reported
    fn check_state(&mut self, um: &mut UserModel, origin: &str, replay: &serde_json::Value) -> bool {
        self.states += 1;
        *self.dist.entry(origin.to_string()).or_insert(0) += 1;
        um.evaluate();
        let bytes = um.to_bytes();
        self.or.checked += 1;
        // (1) the codec law, on the codec itself: the decoded workbook is the encoded one
        let decoded: Workbook = match bitcode::decode(&bytes) {
            Ok(w) => w,
            Err(e) => { self.or.fail("codec_decode_fails", replay.clone(), format!("bitcode::decode(bitcode::encode(workbook)) = Err({e})")); return false; }
        };
        if !wb_same(&decoded, &um.get_model().workbook, true) {
            self.or.fail("codec_workbook_differs", replay.clone(), format!("decode(encode(workbook)) != workbook: {}", wb_diff(&um.get_model().workbook, &decoded)));
            return false;
        }
        #[allow(clippy::eq_op)]
        if decoded != decoded { *self.dist.entry("workbook_holds_nan".to_string()).or_insert(0) += 1; }
        // the language is not part of the stored workbook: load with the live model's
        let lang: &'static str = ["en", "de", "es", "fr", "it"].iter().copied().find(|l| *l == um.get_model().get_language()).unwrap_or("en");
        let loaded = catch_unwind(AssertUnwindSafe(|| Model::from_bytes(&bytes, lang)));
        let mut m2 = match loaded {
            Ok(Ok(m)) => m,
            Ok(Err(e)) => { self.or.fail("load_fails", replay.clone(), format!("from_bytes(to_bytes) = Err({e})")); return false; }
            Err(_) => { self.or.fail("load_panics", replay.clone(), "from_bytes(to_bytes) panics".into()); return false; }
        };
        // (1b) from_workbook keeps the workbook; evaluate_conditional_formatting may rewrite values (cf_law)
        self.or.checked += 1;
        if !wb_same(&m2.workbook, &decoded, true) {
            let has_cf = decoded.worksheets.iter().any(|w| !w.conditional_formatting.is_empty());
            if !has_cf {
                self.or.fail("from_workbook_changes_workbook", replay.clone(), format!("no conditional format, yet from_workbook changed the workbook: {}", wb_diff(&decoded, &m2.workbook)));
                return false;
            }
            if !wb_same(&m2.workbook, &decoded, false) {
                self.or.fail("cf_eval_changes_more_than_values", replay.clone(), format!("evaluate_conditional_formatting changed stored data: {}", wb_diff(&decoded, &m2.workbook)));
                return false;
            }
            *self.dist.entry("cf_eval_rewrote_values".to_string()).or_insert(0) += 1;
            // the workbook was evaluated just before saving: a rewritten value means evaluation is not a
            // function of the inputs here — competing dynamic arrays (C07 / C31, spill ordering)
            let class = if holds_spill_error(&decoded) || holds_spill_error(&m2.workbook) { "spill_conflict_evaluation_order" } else { "cf_eval_changes_values" };
            self.or.fail(class, replay.clone(), format!("values after load differ from the saved ones: {}", wb_diff(&decoded, &m2.workbook)));
            return false;
        }
        let mut ok = true;
        // (2) tie + (3) trees before / after
        let envw = env_wire(&m2);
        let en = get_language("en").unwrap();
        let loc = get_locale("en").unwrap();
        let m1 = um.get_model();
        let mut classes: Vec<String> = vec![];
        for (si, ws) in m2.workbook.worksheets.iter().enumerate() {
            let sname = ws.get_name();
            for (fi, text) in ws.shared_formulas.iter().enumerate() {
                self.formulas += 1;
                let after = &m2.parsed_formulas[si][fi].0;
                let toks = tokens(text, true, loc, en);
                // tokens the model has no constructor for: structured references
                if !toks.iter().any(|t| t == "X") {
                    let line = format!("P {} {} | {}", wire(&sname), envw, toks.join(" "));
                    if self.seen.insert(hash64(&line)) {
                        self.cs.case(&line, &dump_s(after, &self.fns));
                        if self.distinct_texts.len() < 1_000_000 { self.distinct_texts.insert(text.clone()); }
                        if self.samples.len() < 12 && self.cs.n % 211 == 7 { self.samples.push(format!("{origin}: sheet {sname:?} stored {text:?} => {}", dump_s(after, &self.fns))); }
                    }
                }
                self.or.checked += 1;
                match m1.parsed_formulas.get(si).and_then(|v| v.get(fi)) {
                    Some((before, _)) => {
                        // ParseErrorKind carries a message and a position: compared modulo that payload
                        let same = before == after || (!has_long_number(before) && dump_s(before, &self.fns) == dump_s(after, &self.fns));
                        if !same {
                            self.tree_diffs += 1;
                            let c = classify(before, after);
                            if !classes.contains(&c) {
                                classes.push(c.clone());
                                let mut r = replay.clone();
                                r["sheet"] = json!(si); r["stored_text"] = json!(text);
                                self.or.fail(&c, r, format!("stored text {text:?}: tree in memory [{}], tree after load [{}]", dump_s(before, &self.fns), dump_s(after, &self.fns)));
                            }
                        }
                    }
                    None => {
                        if !classes.contains(&"parsed_formulas_misaligned".to_string()) {
                            classes.push("parsed_formulas_misaligned".into());
                            self.or.fail("parsed_formulas_misaligned", replay.clone(), format!("sheet {si}: shared formula {fi} has no parsed tree in the live model"));
                        }
                    }
                }
            }
        }
        if !classes.is_empty() { ok = false; }
        // (4) evaluate both, compare the observable snapshots (contents, formula texts, values)
        let ev = catch_unwind(AssertUnwindSafe(|| { m2.evaluate(); }));
        if ev.is_err() { self.or.fail("evaluate_after_load_panics", replay.clone(), "evaluate() on the loaded model panics".into()); return false; }
        let s1 = snapshot(um.get_model(), &SnapOpts::default());
        let s2 = snapshot(&m2, &SnapOpts::default());
        self.or.checked += 1;
        if s1 != s2 {
            if !classes.is_empty() { self.snap_diffs_explained += 1; }
            else if has_volatile(&m2) { self.snap_diffs_volatile += 1; }
            else if holds_spill_error(&m2.workbook) || holds_spill_error(&um.get_model().workbook) {
                self.or.fail("spill_conflict_evaluation_order", replay.clone(), format!("competing dynamic arrays: {}", snap_diff(&s1, &s2, 3).join(" | ")));
                ok = false;
            }
            else {
                let d = snap_diff(&s1, &s2, 4);
                self.or.fail("snapshot_differs_after_reload", replay.clone(), format!("same workbook, same trees, other observables: {}", d.join(" | ")));
                ok = false;
            }
        }
        // (4b) what the live model displays for a formula cell = what the reloaded model displays (same language / locale)
        if classes.is_empty() {
            let m1 = um.get_model();
            'outer: for (si, ws) in m1.workbook.worksheets.iter().enumerate() {
                for (r, row) in &ws.sheet_data { for (c, cell) in row {
                    if cell.get_formula().is_none() { continue; }
                    self.or.checked += 1;
                    let (d1, d2) = (m1.get_localized_cell_content(si as u32, *r, *c), m2.get_localized_cell_content(si as u32, *r, *c));
                    if d1 != d2 {
                        self.or.fail("display_differs_after_reload", replay.clone(), format!("sheet {si} R{r}C{c}: live model shows {d1:?}, reloaded model shows {d2:?}"));
                        ok = false;
                        break 'outer;
                    }
                } }
            }
        }
        // (5) a second save / load is the identity
        self.or.checked += 1;
        match Model::from_bytes(&m2.to_bytes(), lang) {
            Ok(m3) => {
                let same_trees = m3.parsed_formulas.len() == m2.parsed_formulas.len()
                    && m3.parsed_formulas.iter().zip(m2.parsed_formulas.iter()).all(|(a, b2)| a.len() == b2.len() && a.iter().zip(b2.iter()).all(|(x, y)| x.0 == y.0));
                if !wb_same(&m2.workbook, &m3.workbook, true) || !same_trees {
                    self.or.fail("second_load_differs", replay.clone(), "load(save(load(save m))) differs from load(save m)".into());
                    ok = false;
                }
            }
            Err(e) => { self.or.fail("load_fails", replay.clone(), format!("second from_bytes: {e}")); ok = false; }
        }
        ok
    }
}

/// a formula-rich workbook: three sheets, names, random formulas
fn pool_workbook(rng: &mut Rng, k: u64) -> (UserModel<'static>, Vec<String>) {
    let mut um = UserModel::new_empty("pool", "en", "UTC", "en").unwrap();
    let mut log = vec![];
    let _ = um.new_sheet();
    let _ = um.new_sheet();
    let second = *rng.pick(&["Sheet 2", "Data", "it's", "a&b", "R1C1", "Ünï", "Sheet2"]);
    let _ = um.rename_sheet(1, second);
    log.push(format!("rename_sheet(1,{second:?})"));
    let q = |s: &str| if s.chars().all(|c| c.is_ascii_alphanumeric()) && !s.chars().next().unwrap().is_ascii_digit() && s != "R1C1" { s.to_string() } else { format!("'{}'", s.replace('\'', "''")) };
    let sheets = vec!["Sheet1".to_string(), q(second), "Sheet3".to_string()];
    // ... among them names that start like an R1C1 reference (global and sheet-local) and an A1 twin
    for (n, sc, f) in [("Name1", None, "Sheet1!$A$1"), ("rate", None, "Sheet1!$B$2:$B$4"), ("local_n", Some(0u32), "Sheet1!$C$3"), ("inc", None, "=LAMBDA(x,x+1)"),
                       ("R2C2_total", None, "Sheet1!$B$2"), ("rc_local", Some(0u32), "Sheet1!$A$2"), ("R1C1.rate", Some(1u32), "Sheet1!$C$1"), ("A1_x", None, "Sheet1!$A$3"), ("r5c5fn", None, "=LAMBDA(R1C1x,R1C1x*2)")] {
        let _ = um.new_defined_name(n, sc, f);
    }
    // plain data
    for r in 1..=6 { for c in 1..=3 { let _ = um.set_user_input(0, r, c, &format!("{}", (r * 7 + c * 3) % 11)); } }
    let _ = um.set_user_input(1, 1, 1, "5");
    let _ = um.set_user_input(1, 2, 1, "text");
    let g = FGen { sheets: sheets.clone(), names: vec!["Name1".into(), "rate".into(), "local_n".into(), "inc(2)".into(), "R2C2_total".into(), "rc_local".into(), "R1C1.rate".into(), "A1_x".into(), "r5c5fn(3)".into(), "r2c2_TOTAL".into()], max_row: 12, max_col: 6,
                   long_numbers: k % 3 == 0, errors: true, arrays: true, spills: k % 4 == 1, upper_user_fn: k % 5 == 2 };
    let n = 12 + rng.below(20);
    for _ in 0..n {
        let f = if rng.chance(1, 6) { rng.pick(FIXED_POOL).to_string() } else { g.formula(rng) };
        let sheet = rng.below(3) as u32;
        let (row, col) = (rng.range(7, 14) as i32, rng.range(1, 7) as i32);
        let res = catch_unwind(AssertUnwindSafe(|| um.set_user_input(sheet, row, col, &f)));
        log.push(format!("input({sheet},{row},{col},{f:?})"));
        if res.is_err() { break; }
    }
    (um, log)
}

fn probe(args: &[String]) {
    let fns = Fns::new();
    for f in args {
        let mut um = fresh();
        let _ = um.new_defined_name("Name1", None, "Sheet1!$A$1");
        let r = um.set_user_input(0, 3, 3, f);
        um.evaluate();
        let m1 = um.get_model();
        let n = m1.workbook.worksheets[0].shared_formulas.len();
        println!("input {f:?} -> {r:?}; content {:?} value {:?}", um.get_cell_content(0, 3, 3), m1.get_cell_value_by_index(0, 3, 3));
        if n == 0 { continue; }
        let text = &m1.workbook.worksheets[0].shared_formulas[n - 1];
        println!("  stored {text:?}\n  tree   {}", dump_s(&m1.parsed_formulas[0][n - 1].0, &fns));
        let mut m2 = Model::from_bytes(&um.to_bytes(), "en").unwrap();
        println!("  after  {}   same={}", dump_s(&m2.parsed_formulas[0][n - 1].0, &fns), m2.parsed_formulas[0][n - 1].0 == m1.parsed_formulas[0][n - 1].0);
        if m2.parsed_formulas[0][n - 1].0 != m1.parsed_formulas[0][n - 1].0 { println!("  class  {}", classify(&m1.parsed_formulas[0][n - 1].0, &m2.parsed_formulas[0][n - 1].0)); }
        m2.evaluate();
        println!("  value after load+evaluate {:?}; tokens {:?}", m2.get_cell_value_by_index(0, 3, 3), tokens(text, true, get_locale("en").unwrap(), get_language("en").unwrap()));
    }
}

fn main() {
    let raw: Vec<String> = std::env::args().collect();
    if raw.len() >= 2 && raw[1] == "probe" { probe(&raw[2..]); return; }
    let a = Args::parse();
    let mut run = Run { cs: Cases::new(&a.out, "c26"), or: Oracle::default(), fns: Fns::new(), seen: HashSet::new(), dist: BTreeMap::new(), samples: vec![],
        distinct_texts: HashSet::new(), states: 0, formulas: 0, tree_diffs: 0, snap_diffs_explained: 0, snap_diffs_volatile: 0 };
    let fns = Fns::new();
    tables(&mut run.cs, &fns);
    let mut rng = Rng::new(a.seed);

    // (a) number literals: the stored integer literal against Persist.store_int
    let mut lits: Vec<u64> = vec![1, 999_999_999_999_999, 1_000_000_000_000_000, 1_000_000_000_000_001, 1_000_000_000_000_005, 1_000_000_000_000_015,
        1_000_000_000_000_025, 9_007_199_254_740_991, 9_007_199_254_740_985, 9_007_199_254_740_975, 1_234_567_890_123_456, 9_999_999_999_999_995, 9_999_999_999_999_994];
    for _ in 0..(if a.thorough { 3000 } else { 300 }) {
        lits.push(match rng.below(4) { 0 => rng.below(1u64 << 53).max(1), 1 => 1_000_000_000_000_000 + rng.below(8_007_199_254_740_991), 2 => (100_000_000_000_000 + rng.below(800_000_000_000_000)) * 10 + 5, _ => rng.below(2_000_000_000_000_000).max(1) });
    }
    for n in lits {
        if n >= (1u64 << 53) { continue; }
        let mut m = Model::new_empty("lit", "en", "UTC", "en").unwrap();
        let _ = m.set_user_input(0, 1, 1, format!("={n}+0"));
        let m2 = Model::from_bytes(&m.to_bytes(), "en").unwrap();
        let obs = match m2.parsed_formulas[0].first().map(|p| &p.0) {
            Some(Node::OpSumKind { left, .. }) => match &**left { Node::NumberKind(x) => format!("{}", *x as i64), _ => "?".into() },
            _ => "?".into(),
        };
        run.cs.case(&format!("L {n}"), &obs);
        run.or.checked += 1;
        if obs != format!("{n}") && !long_number(n as f64) {
            run.or.fail("short_literal_changed", json!({"literal": n}), format!("={n}+0 is stored as {obs}"));
        }
    }
    // F03 as the oracle sees it: value after reload
    for f in ["=1.0000000000000002+0", "=0.30000000000000004", "=1000000000000001+0"] {
        let mut um = UserModel::new_empty("f03", "en", "UTC", "en").unwrap();
        let _ = um.set_user_input(0, 1, 1, f);
        let ok = run.check_state(&mut um, "fixed", &json!({"formula": f}));
        let _ = ok;
    }
    // the associative pairs: the value can change in the last bit
    {
        let mut um = UserModel::new_empty("assoc", "en", "UTC", "en").unwrap();
        let _ = um.set_user_input(0, 1, 1, "=0.1+(0.2+0.3)");
        um.evaluate();
        let v1 = um.get_model().get_cell_value_by_index(0, 1, 1);
        let mut m2 = Model::from_bytes(&um.to_bytes(), "en").unwrap();
        m2.evaluate();
        let v2 = m2.get_cell_value_by_index(0, 1, 1);
        run.or.checked += 1;
        if format!("{v1:?}") != format!("{v2:?}") {
            run.or.fail("assoc_sum_value", json!({"formula": "=0.1+(0.2+0.3)"}), format!("value {v1:?} before save, {v2:?} after load: 0.1+(0.2+0.3) is stored as 0.1+0.2+0.3"));
        }
    }

    // a conditional-format formula that reads a cell behind a blocked dynamic array: from_workbook's
    // evaluate_conditional_formatting recomputes it without the spill check
    {
        let mut um = fresh();
        let _ = um.set_user_input(0, 2, 1, "=SEQUENCE(2,2)");
        let r: ironcalc_base::cf_types::CfRuleInput = serde_json::from_str("{\"type\":\"Formula\",\"formula\":\"A1>2\",\"format\":{\"font\":null,\"fill\":null,\"border\":null,\"num_fmt\":null,\"alignment\":null},\"stop_if_true\":true}").unwrap();
        let _ = um.add_conditional_formatting(1, "A1:A6", r);
        run.check_state(&mut um, "fixed", &json!({"ops": ["seed workbook (A3 = A1+A2, Sheet2!A1 = Sheet1!A3*2)", "Sheet1!A2 := =SEQUENCE(2,2)", "conditional format on Sheet2!A1:A6 with formula A1>2"]}));
    }
    // (b0) inputs that set_user_input NORMALISES before storing: missing closing parentheses (one is repaired),
    // leading '+' / '-', lower-case function names, and — in a comma-decimal locale / other language —
    // localized names and separators. What the live model computes and displays must be what the reloaded one does.
    let normalised_en: [&str; 34] = [
        "=SUM(B1:B4", "=SUM(A1:A3", "=SUM(A1,MAX(B1,2)", "=SUM(A1,MAX(B1,2", "=(1+2", "=((1+2)*3", "=((1+2", "=IF(A1>1,SUM(A1:A2,ABS(-1))", "=IF(A1>1,SUM(A1:A2,ABS(-1)",
        "=IF(A1>1,SUM(A1:A2,ABS(-1", "=1+SUM(A1:A3", "=2*(A1+SUM(A1:A2", "=2*(A1+SUM(A1:A2)", "=ROUND(A1/3,2", "=\"a\"&LEFT(\"bcd\",2", "=-(A1+1", "=LAMBDA(x,x+1)(2", "=LET(a,1,a+SUM(A1:A2",
        "=SUM({1,2;3,4}", "=SUM(A1:A2)%+ABS(-2", "+A1+1", "-A1", "+SUM(A1:A2)", "-SUM(A1:A2", "+1", "-1", "+\"a\"", "=sum(a1:a2)", "=if(a1>1,\"y\",\"n\")", "=Sum(A1,max(b1,2", "=true", "=sheet1!a1+1", "-sum(a1", "=SUM(A1:A2))",
    ];
    for f in normalised_en.iter() {
        let mut um = fresh();
        if catch_unwind(AssertUnwindSafe(|| um.set_user_input(0, 3, 3, f))).is_err() { continue; }
        run.check_state(&mut um, "normalised", &json!({"input": f, "language": "en", "locale": "en"}));
    }
    let normalised_loc: [(&str, &str, &str); 16] = [
        ("de", "de", "=SUMME(1,5;A1)"), ("de", "de", "=SUMME(A1;2,5"), ("de", "de", "=1,5*2"), ("de", "de", "=WENN(A1>1;\"a\";\"b\""), ("de", "de", "=summe(a1:a2"), ("de", "de", "+A1+0,5"),
        ("de", "en", "=SUMME(1.5,A1"), ("en", "de", "=SUM(1,5;A1"), ("fr", "fr", "=SOMME(A1;2,5"), ("fr", "fr", "=SI(A1>1;\"a\";\"b\")"), ("es", "es", "=SUMA(A1;0,5"), ("it", "it", "=SOMMA(A1;MAX(A2;0,5"),
        ("de", "de", "=SUM(A1,2)"), ("fr", "en", "=TRIM(\" x \""), ("fr", "fr", "=SUPPRESPACE(\" x \""), ("es", "de", "=SI(A1>1;VERDADERO;FALSO"),
    ];
    for (lang, loc, f) in normalised_loc.iter() {
        let mut um = match UserModel::new_empty("norm", loc, "UTC", lang) { Ok(m) => m, Err(_) => continue };
        let _ = um.set_user_input(0, 1, 1, "10");
        let _ = um.set_user_input(0, 2, 1, "20");
        if catch_unwind(AssertUnwindSafe(|| um.set_user_input(0, 3, 3, f))).is_err() { continue; }
        run.check_state(&mut um, "normalised", &json!({"input": f, "language": lang, "locale": loc}));
    }
    // ... and inside random histories of such inputs on one workbook
    for k in 0..(if a.thorough { 200u64 } else { 20u64 }) {
        let mut r = Rng::new(a.seed.wrapping_mul(7_000_003).wrapping_add(k));
        let mut um = fresh();
        let mut log = vec![];
        let g = FGen { sheets: vec!["Sheet1".into(), "Sheet2".into()], names: vec![], max_row: 6, max_col: 3, long_numbers: false, errors: false, arrays: k % 2 == 0, spills: false, upper_user_fn: false };
        for _ in 0..8 {
            // a generated formula with 1 - 3 closing parentheses dropped from its end, a leading sign instead of '=', or lower-cased
            let full = g.formula(&mut r);
            let f = match r.below(5) {
                0 | 1 => { let mut t = full.clone(); let mut n = 1 + r.below(3); while n > 0 && t.ends_with(')') { t.pop(); n -= 1; } t }
                2 => format!("{}{}", r.pick(&["+", "-"]), &full[1..]),
                3 => full.to_lowercase(),
                _ => full.clone(),
            };
            let (row, col) = (r.range(7, 12) as i32, r.range(1, 5) as i32);
            log.push(format!("input(0,{row},{col},{f:?})"));
            if catch_unwind(AssertUnwindSafe(|| um.set_user_input(0, row, col, &f))).is_err() { break; }
            if !run.check_state(&mut um, "normalised_history", &json!({"history": k, "ops": log})) { break; }
        }
    }
    // (b) fixed pool, one formula per fresh workbook
    for f in FIXED_POOL {
        let mut um = fresh();
        let _ = um.new_defined_name("Name1", None, "Sheet1!$A$1");
        let _ = um.new_defined_name("R2C2_total", None, "Sheet1!$A$2");
        let _ = um.new_defined_name("rc_local", Some(0), "Sheet1!$A$1");
        let _ = um.rename_sheet(1, "Sheet 2");
        if catch_unwind(AssertUnwindSafe(|| um.set_user_input(0, 3, 3, f))).is_err() { continue; }
        run.check_state(&mut um, "fixed", &json!({"formula": f}));
    }
    // (c) formula-rich pool
    let npool = if a.thorough { 700 } else { 60 };
    for k in 0..npool {
        let (mut um, log) = pool_workbook(&mut rng, k);
        run.check_state(&mut um, "pool", &json!({"pool": k, "ops": log}));
    }
    // (d) user-model histories
    let (nh, len) = if a.thorough { (500u64, 60u64) } else { (50u64, 40u64) };
    let mut kinds: BTreeMap<String, u64> = BTreeMap::new();
    let only_history: Option<u64> = if a.extra.len() >= 2 && a.extra[0] == "history" { a.extra[1].parse().ok() } else { None };
    for h in 0..nh {
        let mut um = fresh();
        let mut ops: Vec<Op> = vec![];
        // every history has its own stream: it can be replayed alone (vh_c26 <seed> <tier> <out> history <h>)
        let mut rng = Rng::new(a.seed.wrapping_mul(1_000_003).wrapping_add(h));
        if let Some(only) = only_history { if h != only { continue; } }
        for _ in 0..len {
            let op = gen_op(&mut rng, &ctx_of(&um), true);
            let res = catch_unwind(AssertUnwindSafe(|| apply_op(&mut um, &op)));
            ops.push(op.clone());
            match res {
                Err(_) => break,                 // a panic inside an operation: C04's business; the model is poisoned
                Ok(Err(_)) => continue,
                Ok(Ok(())) => {}
            }
            *kinds.entry(kind(&op).to_string()).or_insert(0) += 1;
            let lang_ok = um.get_model().workbook.settings.locale.len() > 0;
            let _ = lang_ok;
            if !run.check_state(&mut um, "history", &json!({"history": h, "ops": ops_json(&ops)})) { break; }
        }
    }

    let Run { cs, or, dist, samples, distinct_texts, states, formulas, tree_diffs, snap_diffs_explained, snap_diffs_volatile, .. } = run;
    cs.finish(json!({
        "oracle_checked": or.checked,
        "oracle_failures": or.failures,
        "oracle_failures_per_class": or.per_class,
        "distinct_nontrivial": distinct_texts.len(),
        "distribution": dist,
        "op_kinds": kinds,
        "samples": samples,
        "states": states, "formulas": formulas, "tree_diffs": tree_diffs,
        "snapshot_diffs_explained_by_tree_diffs": snap_diffs_explained, "snapshot_diffs_volatile": snap_diffs_volatile,
    }));
}
