//! Tree-level predicates the oracle classes are computed from (shared by c26, c10, c32):
//! an independent transcription of Syntax/Shape.v's `bad_pair` table (three associative pairs
//! since commit 1fc9128), the re-association the parser performs on their bare print, and the
//! lexer-glue predicate around ':'.
#![allow(dead_code)]
use ironcalc_base::expressions::parser::{ArrayNode, Node};
use ironcalc_base::expressions::token::{Error, OpSum, OpUnary};
use ironcalc_base::number_format::to_excel_precision_str;

pub fn kind_name(n: &Node) -> &'static str {
    use Node::*;
    match n {
        BooleanKind(_) => "Bool", NumberKind(_) => "Num", StringKind(_) => "Str",
        ReferenceKind { .. } | WrongReferenceKind { .. } => "Ref", RangeKind { .. } | WrongRangeKind { .. } => "RangeLit",
        OpRangeKind { .. } => "Range", OpConcatenateKind { .. } => "Concat",
        OpSumKind { kind: OpSum::Add, .. } => "Add", OpSumKind { kind: OpSum::Minus, .. } => "Sub",
        OpProductKind { .. } => "Prod", OpPowerKind { .. } => "Pow", FunctionKind { .. } => "Fun",
        LambdaDefKind { .. } => "Lambda", LambdaCallKind { .. } => "LambdaCall", NamedFunctionKind { .. } => "NamedFun",
        ArrayKind(_) => "Array", DefinedNameKind(_) => "DefName", TableNameKind(_) => "Table", NamedVariableKind { .. } => "Var",
        ImplicitIntersection { .. } => "At", SpillRangeOperator { .. } => "Spill", CompareKind { .. } => "Cmp",
        UnaryKind { kind: OpUnary::Minus, .. } => "Neg", UnaryKind { kind: OpUnary::Percentage, .. } => "Pct",
        ErrorKind(_) => "Err", ParseErrorKind { .. } => "ParseError", EmptyArgKind => "Empty",
    }
}

pub fn is_bad(p: &str, pos: &str, c: &str) -> bool {
    match (p, pos) {
        ("Concat", "right") => c == "Concat",
        ("Add", "right") => c == "Add" || c == "Sub",
        _ => false,
    }
}

/// a+(b+c) -> (a+b)+c, a+(b-c) -> (a+b)-c, a&(b&c) -> (a&b)&c, everywhere
pub fn reassoc(n: &Node) -> Node {
    use Node::*;
    let bx = |x: Node| Box::new(x);
    match n {
        OpSumKind { kind: OpSum::Add, left, right } => {
            let l = reassoc(left);
            match reassoc(right) {
                OpSumKind { kind, left: b, right: c } => OpSumKind { kind, left: bx(reassoc(&OpSumKind { kind: OpSum::Add, left: bx(l), right: b })), right: c },
                r => OpSumKind { kind: OpSum::Add, left: bx(l), right: bx(r) },
            }
        }
        OpConcatenateKind { left, right } => {
            let l = reassoc(left);
            match reassoc(right) {
                OpConcatenateKind { left: b, right: c } => OpConcatenateKind { left: bx(reassoc(&OpConcatenateKind { left: bx(l), right: b })), right: c },
                r => OpConcatenateKind { left: bx(l), right: bx(r) },
            }
        }
        OpSumKind { kind, left, right } => OpSumKind { kind: kind.clone(), left: bx(reassoc(left)), right: bx(reassoc(right)) },
        OpRangeKind { left, right } => OpRangeKind { left: bx(reassoc(left)), right: bx(reassoc(right)) },
        OpProductKind { kind, left, right } => OpProductKind { kind: kind.clone(), left: bx(reassoc(left)), right: bx(reassoc(right)) },
        OpPowerKind { left, right } => OpPowerKind { left: bx(reassoc(left)), right: bx(reassoc(right)) },
        CompareKind { kind, left, right } => CompareKind { kind: kind.clone(), left: bx(reassoc(left)), right: bx(reassoc(right)) },
        UnaryKind { kind, right } => UnaryKind { kind: kind.clone(), right: bx(reassoc(right)) },
        ImplicitIntersection { automatic, child } => ImplicitIntersection { automatic: *automatic, child: bx(reassoc(child)) },
        SpillRangeOperator { child } => SpillRangeOperator { child: bx(reassoc(child)) },
        FunctionKind { kind, args } => FunctionKind { kind: kind.clone(), args: args.iter().map(reassoc).collect() },
        NamedFunctionKind { id, name, args } => NamedFunctionKind { id: *id, name: name.clone(), args: args.iter().map(reassoc).collect() },
        LambdaDefKind { parameters, body } => LambdaDefKind { parameters: parameters.clone(), body: bx(reassoc(body)) },
        LambdaCallKind { lambda, args } => LambdaCallKind { lambda: bx(reassoc(lambda)), args: args.iter().map(reassoc).collect() },
        leaf => leaf.clone(),
    }
}

pub fn children(n: &Node) -> Vec<(&'static str, &Node)> {
    use Node::*;
    match n {
        OpRangeKind { left, right } | OpConcatenateKind { left, right } | OpSumKind { left, right, .. }
        | OpProductKind { left, right, .. } | OpPowerKind { left, right } | CompareKind { left, right, .. } => vec![("left", left), ("right", right)],
        UnaryKind { right, .. } => vec![("only", right)],
        ImplicitIntersection { child, .. } | SpillRangeOperator { child } => vec![("only", child)],
        FunctionKind { args, .. } | NamedFunctionKind { args, .. } => args.iter().map(|a| ("arg", a)).collect(),
        LambdaDefKind { body, .. } => vec![("arg", body)],
        LambdaCallKind { lambda, args } => { let mut v: Vec<(&'static str, &Node)> = vec![("arg", lambda)]; v.extend(args.iter().map(|a| ("arg", a))); v }
        _ => vec![],
    }
}
pub fn bad_pairs(n: &Node, out: &mut Vec<String>) {
    let ch = children(n);
    for (pos, c) in &ch {
        if is_bad(kind_name(n), pos, kind_name(c)) { out.push(format!("{}<-{}:{}", kind_name(n), kind_name(c), pos)); }
    }
    for (_, c) in &ch { bad_pairs(c, out); }
}
pub fn contains(n: &Node, p: &dyn Fn(&Node) -> bool) -> bool { p(n) || children(n).iter().any(|(_, c)| contains(c, p)) }
pub fn array_has_error(n: &Node, nimpl_only: bool) -> bool {
    if let Node::ArrayKind(rows) = n {
        rows.iter().flatten().any(|e| match e { ArrayNode::Error(k) => !nimpl_only || *k == Error::NIMPL, _ => false })
    } else { false }
}
/// a number the stored form does not keep: more than 15 significant digits (finding F03)
pub fn long_number(x: f64) -> bool { to_excel_precision_str(x).parse::<f64>().map(|y| y.to_bits() != x.to_bits()).unwrap_or(true) }
pub fn has_long_number(n: &Node) -> bool {
    contains(n, &|k| match k {
        Node::NumberKind(x) => long_number(*x),
        Node::ArrayKind(rows) => rows.iter().flatten().any(|e| matches!(e, ArrayNode::Number(x) if long_number(*x))),
        _ => false,
    })
}

pub fn rightmost(n: &Node) -> &Node {
    use Node::*;
    match n {
        OpRangeKind { right, .. } | OpConcatenateKind { right, .. } | OpSumKind { right, .. } | OpProductKind { right, .. }
        | CompareKind { right, .. } => rightmost(right),
        UnaryKind { kind: OpUnary::Minus, right } => rightmost(right),
        ImplicitIntersection { child, .. } => rightmost(child),
        _ => n,
    }
}
pub fn leftmost(n: &Node) -> &Node {
    use Node::*;
    match n {
        OpRangeKind { left, .. } | OpConcatenateKind { left, .. } | CompareKind { left, .. } => leftmost(left),
        UnaryKind { kind: OpUnary::Percentage, right } => leftmost(right),
        SpillRangeOperator { child } => leftmost(child),
        _ => n,
    }
}
/// the colon of an OpRangeKind glued to its neighbours by the lexer (Syntax/Shape.v `glue`)
pub fn glue_class(n: &Node, rc: bool) -> Option<&'static str> {
    if let Node::OpRangeKind { left, right } = n {
        match &**left {
            Node::NumberKind(_) if !rc => return Some("number_colon"),
            Node::ReferenceKind { sheet_name, absolute_row, absolute_column, .. } | Node::WrongReferenceKind { sheet_name, absolute_row, absolute_column, .. } => {
                if matches!(&**right, Node::ReferenceKind { sheet_name: None, .. } | Node::RangeKind { sheet_name: None, .. }) { return Some("ref_colon_ref"); }
                if sheet_name.is_some() || (!rc && (*absolute_row || *absolute_column)) { return Some("ref_colon_F04"); }
            }
            _ => {}
        }
    }
    children(n).iter().find_map(|(_, c)| glue_class(c, rc))
}
