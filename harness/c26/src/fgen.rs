//! Seeded generator of formula TEXTS (English, A1 notation, ',' as argument separator) that
//! covers every node kind of the parser, with random explicit parentheses so that every tree
//! shape occurs (bare operands rely on precedence, parenthesised ones give the other nesting).
//! Shared by c26, c10, c32. No volatile functions (RAND, NOW, TODAY, RANDBETWEEN).
#![allow(dead_code)]
use vh_common::Rng;

pub struct FGen {
    pub sheets: Vec<String>,      // as they must be written in a formula (quoted if needed)
    pub names: Vec<String>,       // defined names that exist
    pub max_row: i64,
    pub max_col: i64,
    pub long_numbers: bool,       // literals with more than 15 significant digits (finding F03)
    pub errors: bool,
    pub arrays: bool,
    pub spills: bool,
    pub upper_user_fn: bool,      // LET-bound lambdas with upper-case names (finding F62)
}

/// names for LET variables and LAMBDA parameters: plain ones, identifiers that START like an R1C1
/// reference (the stored form is re-read in R1C1 mode) and their A1 twins (the display form is read
/// in A1 mode), a boolean followed by more characters
pub const VAR_NAMES: &[&str] = &["x", "a", "val", "R2C2_total", "R1C1.rate", "RC_x", "R1C1x", "r3c4z", "R12C3_", "A1_x", "XFD1x", "a1b", "TRUE1", "FALSE_x", "C1R1", "R_", "C.x"];

pub const FUNS: &[(&str, usize, usize)] = &[
    ("SUM", 1, 4), ("IF", 2, 3), ("AND", 1, 3), ("OR", 1, 3), ("NOT", 1, 1), ("MAX", 1, 3), ("MIN", 1, 3), ("ABS", 1, 1),
    ("ROUND", 2, 2), ("LEN", 1, 1), ("CONCATENATE", 1, 3), ("AVERAGE", 1, 3), ("COUNT", 1, 3), ("ISNUMBER", 1, 1),
    ("IFERROR", 2, 2), ("MOD", 2, 2), ("POWER", 2, 2), ("SQRT", 1, 1), ("INT", 1, 1), ("LEFT", 1, 2), ("UPPER", 1, 1),
    ("TRUE", 0, 0), ("FALSE", 0, 0), ("PI", 0, 0), ("ROW", 0, 1), ("COLUMN", 0, 1), ("SUMIF", 2, 3), ("COUNTA", 1, 2),
    ("ISBLANK", 1, 1), ("ISERROR", 1, 1), ("MID", 3, 3), ("TRIM", 1, 1), ("EXACT", 2, 2), ("SIGN", 1, 1), ("PRODUCT", 1, 3),
    ("CHOOSE", 2, 4), ("XOR", 1, 2), ("IFS", 2, 4), ("SWITCH", 3, 4), ("N", 1, 1), ("T", 1, 1), ("TYPE", 1, 1),
];

impl FGen {
    pub fn new(sheets: &[&str], names: &[&str]) -> FGen {
        FGen { sheets: sheets.iter().map(|s| s.to_string()).collect(), names: names.iter().map(|s| s.to_string()).collect(),
               max_row: 12, max_col: 6, long_numbers: true, errors: true, arrays: true, spills: true, upper_user_fn: true }
    }
    fn col(c: i64) -> String { ((b'A' + (c - 1) as u8) as char).to_string() }
    pub fn cell(&self, r: &mut Rng) -> String {
        let row = r.range(1, self.max_row);
        let col = r.range(1, self.max_col);
        let (ac, ar) = match r.below(6) { 0 => ("$", "$"), 1 => ("$", ""), 2 => ("", "$"), _ => ("", "") };
        format!("{ac}{}{ar}{row}", Self::col(col))
    }
    fn sheet_prefix(&self, r: &mut Rng) -> String {
        if !self.sheets.is_empty() && r.chance(1, 4) { format!("{}!", r.pick(&self.sheets)) } else { String::new() }
    }
    pub fn reference(&self, r: &mut Rng) -> String { format!("{}{}", self.sheet_prefix(r), self.cell(r)) }
    pub fn range(&self, r: &mut Rng) -> String {
        let r1 = r.range(1, self.max_row - 1); let r2 = r.range(r1, (r1 + 3).min(self.max_row));
        let c1 = r.range(1, self.max_col - 1); let c2 = r.range(c1, (c1 + 2).min(self.max_col));
        let d = if r.chance(1, 5) { "$" } else { "" };
        format!("{}{d}{}{d}{r1}:{d}{}{d}{r2}", self.sheet_prefix(r), Self::col(c1), Self::col(c2))
    }
    pub fn number(&self, r: &mut Rng) -> String {
        if self.long_numbers && r.chance(1, 25) {
            return r.pick(&["1.0000000000000002", "0.30000000000000004", "1234567890123456789", "0.1234567890123456789", "9007199254740993", "1000000000000001"]).to_string();
        }
        match r.below(8) {
            0 => "0".into(), 1 => "1".into(), 2 => format!("{}", r.range(2, 99)), 3 => format!("{}.{}", r.range(0, 20), r.range(1, 99)),
            4 => "0.1".into(), 5 => "1E3".into(), 6 => "2.5E-2".into(), _ => format!("{}", r.range(100, 100000)),
        }
    }
    pub fn string(&self, r: &mut Rng) -> String {
        r.pick(&["\"a\"", "\"\"", "\"a\"\"b\"", "\"x y\"", "\"1\"", "\"TRUE\"", "\"it's\"", "\"a,b;c\"", "\"Ünï\"", "\"=1+1\""]).to_string()
    }
    pub fn atom(&self, r: &mut Rng) -> String {
        match r.below(24) {
            0..=5 => self.number(r),
            6..=10 => self.reference(r),
            11 => self.string(r),
            12 => r.pick(&["TRUE", "FALSE", "true"]).to_string(),
            13..=14 => self.range(r),
            15 => if !self.names.is_empty() { r.pick(&self.names).clone() } else { self.number(r) },
            16 => if self.errors { r.pick(&["#N/A", "#DIV/0!", "#REF!", "#VALUE!", "#NAME?", "#NUM!", "#NULL!"]).to_string() } else { self.number(r) },
            17 => if self.arrays { r.pick(&["{1,2;3,4}", "{1,\"a\",TRUE}", "{1;2;3}", "{-1,2.5}", "{#N/A,1}"]).to_string() } else { self.number(r) },
            18 => r.pick(&["undefined_name", "foo", "x1y"]).to_string(),
            _ => self.number(r),
        }
    }
    fn operand(&self, r: &mut Rng, depth: u32) -> String {
        let e = self.expr(r, depth);
        // explicit parentheses with probability 1/2 around anything that is not an atom
        if e.chars().any(|c| "+-*/^&=<>%:@#".contains(c)) && r.chance(1, 2) { format!("({e})") } else { e }
    }
    pub fn call(&self, r: &mut Rng, depth: u32) -> String {
        let (name, lo, hi) = *r.pick(FUNS);
        let n = r.range(lo as i64, hi as i64) as usize;
        let mut args = vec![];
        for i in 0..n {
            // empty arguments (never a single one: "F()" has no arguments)
            if n > 1 && i > 0 && r.chance(1, 15) { args.push(String::new()); } else { args.push(self.expr(r, depth.saturating_sub(1))); }
        }
        let name = if r.chance(1, 10) { name.to_lowercase() } else { name.to_string() };
        format!("{name}({})", args.join(","))
    }
    pub fn expr(&self, r: &mut Rng, depth: u32) -> String {
        if depth == 0 { return self.atom(r); }
        let d = depth - 1;
        match r.below(40) {
            0..=2 => format!("{}+{}", self.operand(r, d), self.operand(r, d)),
            3..=4 => format!("{}-{}", self.operand(r, d), self.operand(r, d)),
            5..=6 => format!("{}*{}", self.operand(r, d), self.operand(r, d)),
            7 => format!("{}/{}", self.operand(r, d), self.operand(r, d)),
            8 => format!("{}^{}", self.operand(r, d), self.operand(r, d)),
            9..=10 => format!("{}&{}", self.operand(r, d), self.operand(r, d)),
            11..=12 => format!("{}{}{}", self.operand(r, d), r.pick(&["=", "<", ">", "<=", ">=", "<>"]), self.operand(r, d)),
            13..=14 => format!("-{}", self.operand(r, d)),
            15 => format!("{}%", self.operand(r, d)),
            16 => format!("+{}", self.operand(r, d)),
            17..=24 => self.call(r, depth),
            25 => format!("({})", self.expr(r, d)),
            26 => if self.spills { format!("@{}", self.range(r)) } else { self.atom(r) },
            27 => if self.spills { format!("{}#", self.cell(r)) } else { self.atom(r) },
            28 => { let v = *r.pick(VAR_NAMES); format!("LAMBDA({v},{})({})", self.lambda_body(r, d).replace('x', "\u{1}").replace('\u{1}', v), self.expr(r, d)) }
            37 => { let (v, w) = (*r.pick(VAR_NAMES), *r.pick(&["y", "R1C2_b", "B2_b", "k"])); format!("LAMBDA({v},{w},{v}+{w}*2)({},{})", self.expr(r, d), self.atom(r)) }
            38 => { let v = *r.pick(VAR_NAMES); format!("LET({v},{},{v}*2+{})", self.expr(r, d), self.atom(r)) }
            29 => format!("LAMBDA(x,[y],x+IF(ISOMITTED(y),1,y))({})", self.expr(r, d)),
            30 => { let v = *r.pick(VAR_NAMES); format!("LET({v},{},{v}+{})", self.expr(r, d), self.atom(r)) }
            31 => if self.upper_user_fn && r.chance(1, 3) { format!("LET(Fn,LAMBDA(x,x+1),Fn({}))", self.atom(r)) } else { format!("LET(f,LAMBDA(x,x*2),f({}))", self.atom(r)) },
            32 => format!("SUM({})", self.range(r)),
            33 => format!("INDEX({},1,1):{}", self.range(r), self.cell(r)),
            34 => format!("{}:INDEX({},1,1)", self.cell(r), self.range(r)),
            35 => format!("SUM(SEQUENCE({}))", r.range(1, 4)),
            36 => format!("unknownfn({})", self.expr(r, d)),
            _ => self.atom(r),
        }
    }
    fn lambda_body(&self, r: &mut Rng, depth: u32) -> String {
        // 'x' occurs in a body only as the parameter (the operand of case 1 is appended after the substitution in `expr`)
        match r.below(3) { 0 => "x+1".into(), 1 => "IF(x>1,x,-x)".into(), _ => "x&1".into() }
    }
    pub fn formula(&self, r: &mut Rng) -> String {
        let depth = 1 + r.below(4) as u32;
        format!("={}", self.expr(r, depth))
    }
}

/// fixed formulas that pin known findings and the tricky corners
pub const FIXED_POOL: &[&str] = &[
    "=0.1+(0.2+0.3)", "=1+(2+3)", "=1+(2-3)", "=\"a\"&(\"b\"&\"c\")", "=1-(2-3)", "=(1&2)+3", "=-(2*3)", "=(1+2)%", "=1<(2<3)",
    "=1.0000000000000002+0", "=0.30000000000000004", "=1000000000000001+0", "=LET(F,LAMBDA(x,x),F(1))", "=N(#N/IMPL!)",
    "=Sheet1!A1:INDEX(B1:B3,2)", "=$A$1:INDEX(B1:B3,2)", "=SUM(A1:A3)", "=SUM(A:A)", "=SUM(1:1)", "={1,2;3,4}", "=@A1:A3", "=A1#",
    "=IF(A1>1,\"y\",\"n\")", "=SUM(,1)", "=SUM(1,)", "=TRUE()", "=true", "=LAMBDA(x,x+1)(2)", "=1+", "=)", "=R[1]C[1]", "=R1C1", "=RC",
    "=r1c1+1", "=R2C2:R3C3", "=SUM(R1C1)", "=A1:B2 B1:C3", "=1 2", "=2^-1", "=--1", "=-1%", "=1%%", "=-A1^2", "=(A1:A2):A3",
    "=1/3", "=1E+300*10", "=\"a\"\"b\"", "=Name1", "=name1+1", "=Ghost!A1", "=SUM(Ghost!A1:A2)", "='Sheet 2'!A1", "=#REF!+1",
    "=R2C2_total*2", "=LET(R1C1.rate,2,R1C1.rate*3)", "=LAMBDA(RC_x,RC_x+1)(2)", "=LET(R1C1x,1,R1C1x+1)", "=LAMBDA(r3c4z,R12C3_,r3c4z*R12C3_)(2,3)",
    "=A1_x+1", "=LET(XFD1x,1,XFD1x+1)", "=TRUE1", "=LAMBDA(a1b,a1b&\"z\")(1)", "=rc_local+R2C2_total", "=LET(R1C,2,R1C+1)", "=LET(RC,2,RC+1)", "=LET(R1C,2,R1C*2)",
    "=(A1):B2", "=A1:(A1:B2)", "=(Sheet1!A1):B2", "=(Sheet1!A1):INDEX(B1:B3,2)", "=SUM((A1):INDEX(B1:B3,2))",
];
