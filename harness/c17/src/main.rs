//! C17 probe (temporary)
mod nodeio;
use ironcalc_base::Model;
use ironcalc_base::UserModel;

fn show(m: &Model, tag: &str) {
    println!("--- {tag}");
    for (i, ws) in m.workbook.worksheets.iter().enumerate() {
        println!(" sheet {i} {:?} shared={:?}", ws.name, ws.shared_formulas);
        for r in 1..=4 { for c in 1..=6 {
            if let Ok(Some(f)) = m.get_cell_formula(i as u32, r, c) {
                println!("   ({r},{c}) {f}  = {:?}", m.get_cell_value_by_index(i as u32, r, c));
            }
        } }
    }
    println!(" names {:?}", m.get_defined_name_list());
}

fn main() {
    let lang = std::env::args().nth(1).unwrap_or("en".into());
    let loc = std::env::args().nth(2).unwrap_or("en".into());
    let mut m = Model::new_empty("b", &loc, "UTC", &lang).unwrap();
    m.add_sheet("Second").unwrap();
    m.add_sheet("Third").unwrap();
    for s in 0..3 { for r in 1..=3 { for c in 1..=2 { m.set_user_input(s, r, c, format!("{}", (s + 1) * 100 + (r as u32) * 10 + c as u32)).unwrap(); } } }
    let sep = if loc == "en" { "," } else { ";" };
    let sum = match lang.as_str() { "es" => "SUMA", "de" => "SUMME", "fr" => "SOMME", _ => "SUM" };
    m.set_user_input(0, 1, 4, format!("={sum}(Ghost!A1:A2)")).unwrap();
    m.set_user_input(0, 2, 4, "=Ghost!A1".to_string()).unwrap();
    m.set_user_input(0, 3, 4, format!("={sum}(Second!A1:A2{sep}Third!A1)")).unwrap();
    m.set_user_input(0, 4, 4, "=Sheet1!A1+'Second'!B2".to_string()).unwrap();
    println!("{:?}", m.new_defined_name("gname", None, "=Second!$A$1"));
    println!("{:?}", m.new_defined_name("gname2", None, "Second!$A$1:$A$2"));
    println!("{:?}", m.new_defined_name("lname", Some(1), "=Third!$B$1"));
    m.set_user_input(0, 1, 5, "=gname+1".to_string()).unwrap();
    m.set_user_input(0, 2, 5, format!("={sum}(gname2)")).unwrap();
    m.set_user_input(1, 1, 5, "=lname".to_string()).unwrap();
    m.evaluate();
    show(&m, "before");
    let mut a = Model::from_bytes(&m.to_bytes(), &lang).unwrap();
    a.evaluate();
    println!("rename Third -> Renamed: {:?}", a.rename_sheet_by_index(2, "Renamed"));
    show(&a, "after rename of Third");
    let mut a = Model::from_bytes(&m.to_bytes(), &lang).unwrap();
    println!("rename Second -> It's !A1: {:?}", a.rename_sheet_by_index(1, "It's !A1"));
    show(&a, "after rename of Second");
    let mut a = Model::from_bytes(&m.to_bytes(), &lang).unwrap();
    println!("move 0 -> 2: {:?}", a.move_sheet(0, 2));
    show(&a, "after move");
    let mut a = Model::from_bytes(&m.to_bytes(), &lang).unwrap();
    println!("dup 0: {:?}", a.duplicate_sheet(0));
    show(&a, "after dup 0");
    let mut a = Model::from_bytes(&m.to_bytes(), &lang).unwrap();
    println!("dup 1: {:?}", a.duplicate_sheet(1));
    show(&a, "after dup 1");
    // undo of rename
    let mut u = UserModel::from_model(Model::from_bytes(&m.to_bytes(), &lang).unwrap());
    u.rename_sheet(2, "Renamed").unwrap();
    u.undo().unwrap();
    show(u.get_model(), "rename + undo");
}
