//! C17 — sheet rename, move and duplicate: implementation side of the correspondence (the node
//! pass + stored-form printer + re-parse, the sheet-list surgery, the validation) and the property
//! oracle (trees and values before / after the real operation on generated workbooks).
mod nodeio;
use nodeio::*;
use vh_common::*;

use ironcalc_base::expressions::lexer::LexerMode;
use ironcalc_base::expressions::parser::{Node, Parser};
use ironcalc_base::expressions::types::CellReferenceRC;
use ironcalc_base::language::get_language;
use ironcalc_base::locale::get_locale;
use ironcalc_base::{Function, Model, UserModel};
use serde_json::json;
use std::collections::{BTreeMap, BTreeSet, HashMap};

const LANGS: [&str; 5] = ["en", "es", "fr", "de", "it"];
const ROWS: i32 = 8;
const COLS: i32 = 8;

/// the pool of new names: valid tricky ones, look-alikes, non-ASCII, and invalid ones
fn name_pool() -> Vec<String> {
    let mut v: Vec<String> = [
        "Renamed", "renamed sheet", "It's", "'quoted'", "a!b", "A1", "R1C1", "TRUE", "false", "Sum", "1", "1a", "_x", "x.y",
        "a b  c", "Ünïcödé", "日本語", "данные", "Σheet", "a&b", "a=b", "a<b>", "a^b", "a%", "a\"b", "#REF!", "@home", "a~b", "a|b",
        ".lead", "٣", "x,y", "x;y", "a(b)", "{a}", "a+b", "a-b", " lead", "trail ", "ABCDEFGHIJKLMNOPQRSTUVWXYZ12345",
        "XFD1048576", "RC", "E5", "1E5", "$A$1", "R[1]C", "Ghost", "No Such", "''", "'",
        // invalid
        "", "a/b", "a\\b", "a*b", "a?b", "A1:B2", "[x]", "ABCDEFGHIJKLMNOPQRSTUVWXYZ123456",
    ].iter().map(|s| s.to_string()).collect();
    v.dedup();
    v
}

fn quote(name: &str) -> String { format!("'{}'", name.replace('\'', "''")) }

#[derive(Clone)]
struct Book {
    lang: &'static str,
    locale: &'static str,
    sheets: Vec<String>,
    cells: Vec<(u32, i32, i32, String)>,
    names: Vec<(String, Option<u32>, String)>,
}

fn build(bk: &Book) -> Result<Model<'static>, String> {
    let mut m = Model::new_empty("b", bk.locale, "UTC", bk.lang)?;
    m.rename_sheet_by_index(0, &bk.sheets[0])?;
    for s in &bk.sheets[1..] { m.add_sheet(s)?; }
    for (s, r, c, t) in &bk.cells {
        if !t.starts_with('=') { m.set_user_input(*s, *r, *c, t.clone())?; }
    }
    for (n, sc, f) in &bk.names { m.new_defined_name(n, *sc, f)?; }
    for (s, r, c, t) in &bk.cells {
        if t.starts_with('=') { m.set_user_input(*s, *r, *c, t.clone())?; }
    }
    m.evaluate();
    Ok(m)
}

fn gen_book(rng: &mut Rng, lang: &'static str, locale: &'static str, idx: usize) -> Book {
    let first_pool = ["Sheet1", "Data", "D'Angelo", "My Sheet", "Año"];
    let other_pool = ["Second", "Third Sheet", "Q1!", "B2", "Übersicht", "x'y", "Hoja 2", "S.4"];
    let ns = 2 + rng.below(3) as usize;
    let mut sheets = vec![first_pool[idx % first_pool.len()].to_string()];
    while sheets.len() < ns {
        let c = rng.pick(&other_pool).to_string();
        if !sheets.contains(&c) { sheets.push(c); }
    }
    let lg = get_language(lang).unwrap();
    let lc = get_locale(locale).unwrap();
    let sep = if lc.numbers.symbols.decimal == "," { ";" } else { "," };
    let dec = &lc.numbers.symbols.decimal;
    let sum = Function::Sum.to_localized_name(lg);
    let ghosts = ["Ghost", "No Such", "Renamed", "a!b"];
    let mut cells = vec![];
    let mut names = vec![];
    for s in 0..ns as u32 {
        for r in 1..=3 { for c in 1..=3 { cells.push((s, r, c, format!("{}", (s + 1) * 100 + r as u32 * 10 + c as u32))); } }
    }
    // defined names (stored in English; only references and ranges are accepted)
    let o = rng.below(ns as u64) as usize;
    names.push(("gname".to_string(), None, format!("{}!$A$1", quote(&sheets[o]))));
    let o2 = rng.below(ns as u64) as usize;
    names.push(("grange".to_string(), None, format!("{}!$A$1:$B$2", quote(&sheets[o2]))));
    let ls = rng.below(ns as u64) as u32;
    let o3 = rng.below(ns as u64) as usize;
    names.push(("lname".to_string(), Some(ls), format!("{}!$B$1", quote(&sheets[o3]))));
    let o4 = rng.below(ns as u64) as usize;
    names.push(("lamname".to_string(), None, format!("LAMBDA(x,x+{}!$A$1)", quote(&sheets[o4]))));
    for s in 0..ns {
        let q = |k: usize| quote(&sheets[k]);
        let o = (s + 1 + rng.below(ns as u64 - 1) as usize) % ns;
        let t = rng.below(ns as u64) as usize;
        let g = rng.pick(&ghosts).to_string();
        let g2 = rng.pick(&ghosts).to_string();
        let mut forms: Vec<String> = vec![
            format!("={}!A1+1", q(o)),
            format!("={}({}!A1:B2)", sum, q(o)),
            format!("={}!A1*2", q(s)),
            "=A1+B2".to_string(),
            format!("={}!A1", quote(&g)),
            format!("={}({}!A1:A2)", sum, quote(&g2)),
            format!("={}({}!A1{}{}!B2)", sum, q(o), sep, q(t)),
            "=gname+1".to_string(),
            format!("={}(grange)", sum),
            "=lname".to_string(),
            format!("=1{}5*{}!A1", dec, q(o)),
            format!("={}!A1&\"!\"&\"'q'!A1\"", q(o)),
            format!("=-({}!A1+{}!A1)^2", q(o), q(t)),
            format!("={}!$A$1-{}!A$2+{}!$B3", q(o), q(s), q(t)),
            format!("={}({}!A1:A2{}{}!A1:A2)", sum, quote(&g), sep, q(o)),
            format!("={}!A1:A2", quote(&g)),
            format!("=1+({}!A1+{}!A2)", q(o), q(t)),
        ];
        // a random subset, at least 8
        let mut chosen = vec![];
        while !forms.is_empty() && chosen.len() < 12 {
            let k = rng.below(forms.len() as u64) as usize;
            chosen.push(forms.remove(k));
        }
        let mut pos = vec![];
        for c in 4..=5 { for r in 1..=6 { pos.push((r, c)); } }
        for (k, f) in chosen.into_iter().enumerate() {
            let (r, c) = pos[k];
            cells.push((s as u32, r, c, f));
        }
        // second layer: reads formula cells of this and another sheet
        cells.push((s as u32, 5, 6, format!("=D1+{}!D2", q(o))));
        cells.push((s as u32, 6, 6, format!("={}(D1:E3)", sum)));
        // EVERY node kind that has children, with a sheet-qualified reference beneath it (deterministic, every sheet of every book):
        // LambdaDef body, LambdaCall lambda / args, Function / NamedFunction args, OpRange, OpConcatenate, OpSum, OpProduct, OpPower,
        // Compare, Unary minus / percent, ImplicitIntersection, SpillRange; references to another sheet and to the sheet itself
        let map = Function::Map.to_localized_name(lg);
        let index = Function::Index.to_localized_name(lg);
        let iff = Function::If.to_localized_name(lg);
        let parents: Vec<String> = vec![
            format!("=LAMBDA(x{sep}x+{}!A1)(5)", q(o)),
            format!("=LAMBDA(x{sep}x+{}!A1*{}!B2)(5)", q(s), q(o)),
            format!("=LAMBDA(x{sep}x*2)({}!A1)", q(o)),
            format!("={sum}({map}({}!A1:A2{sep}LAMBDA(v{sep}v*{}!A2)))", q(o), q(o)),
            format!("=LAMBDA(x{sep}LAMBDA(y{sep}y+{}!B1)(x))({}!A1)", q(o), q(s)),
            "=lamname(2)".to_string(),
            format!("=@{}!A1:A2", q(o)),
            format!("={}!A1#", q(o)),
            format!("={}!A1%", q(o)),
            format!("=-{}!A1", q(o)),
            format!("={}!A1^2+2^{}!A2", q(o), q(o)),
            format!("={}!A1&\"x\"&{}!A2", q(o), q(s)),
            format!("=({}!A1>{}!A2)+0", q(o), q(o)),
            format!("={}!A1/{}!A2-{}!B1*3", q(o), q(o), q(s)),
            format!("={sum}(A1:{index}({}!A1:B2{sep}2{sep}2))", q(o)),
            format!("=foo({}!A1{sep}{}!A2)", q(o), q(s)),
            format!("={iff}({}!A1>0{sep}{}!A2{sep}{}!B1)", q(o), q(o), q(s)),
        ];
        let mut ppos = vec![];
        for r in [1, 2, 3, 4, 7, 8] { ppos.push((r, 6)); }
        for c in 7..=COLS { for r in 1..=ROWS { ppos.push((r, c)); } }
        for (k, f) in parents.into_iter().enumerate() { let (r, c) = ppos[k]; cells.push((s as u32, r, c, f)); }
    }
    Book { lang, locale, sheets, cells, names }
}

// ---------------------------------------------------------------------------------------------------
#[derive(Clone, PartialEq)]
struct CellSnap { node: Option<Node>, value: String, stored: Option<String> }
#[derive(Clone)]
struct Snap { names: Vec<String>, cells: Vec<BTreeMap<(i32, i32), CellSnap>>, shared: Vec<Vec<String>>, defs: Vec<(String, Option<u32>, String)> }

fn snap(m: &Model) -> Snap {
    let mut cells = vec![];
    let mut shared = vec![];
    let mut names = vec![];
    for (i, ws) in m.workbook.worksheets.iter().enumerate() {
        names.push(ws.name.clone());
        shared.push(ws.shared_formulas.clone());
        let mut mp = BTreeMap::new();
        for r in 1..=ROWS { for c in 1..=COLS {
            if let Some(cell) = ws.cell(r, c) {
                let (node, stored) = match cell.get_formula() {
                    Some(f) => (m.parsed_formulas.get(i).and_then(|v| v.get(f as usize)).map(|x| x.0.clone()), ws.shared_formulas.get(f as usize).cloned()),
                    None => (None, None),
                };
                let value = format!("{:?}", m.get_cell_value_by_index(i as u32, r, c));
                mp.insert((r, c), CellSnap { node, value, stored });
            }
        } }
        cells.push(mp);
    }
    Snap { names, cells, shared, defs: m.workbook.get_defined_names_with_scope() }
}

fn map_node(n: &Node, f: &dyn Fn(&Node) -> Option<Node>) -> Node {
    if let Some(x) = f(n) { return x; }
    use Node::*;
    let bx = |x: &Box<Node>| Box::new(map_node(x, f));
    let vs = |v: &Vec<Node>| v.iter().map(|x| map_node(x, f)).collect::<Vec<_>>();
    match n {
        OpRangeKind { left, right } => OpRangeKind { left: bx(left), right: bx(right) },
        OpConcatenateKind { left, right } => OpConcatenateKind { left: bx(left), right: bx(right) },
        OpSumKind { kind, left, right } => OpSumKind { kind: kind.clone(), left: bx(left), right: bx(right) },
        OpProductKind { kind, left, right } => OpProductKind { kind: kind.clone(), left: bx(left), right: bx(right) },
        OpPowerKind { left, right } => OpPowerKind { left: bx(left), right: bx(right) },
        CompareKind { kind, left, right } => CompareKind { kind: kind.clone(), left: bx(left), right: bx(right) },
        FunctionKind { kind, args } => FunctionKind { kind: kind.clone(), args: vs(args) },
        NamedFunctionKind { id, name, args } => NamedFunctionKind { id: *id, name: name.clone(), args: vs(args) },
        LambdaDefKind { parameters, body } => LambdaDefKind { parameters: parameters.clone(), body: bx(body) },
        LambdaCallKind { lambda, args } => LambdaCallKind { lambda: bx(lambda), args: vs(args) },
        UnaryKind { kind, right } => UnaryKind { kind: kind.clone(), right: bx(right) },
        ImplicitIntersection { automatic, child } => ImplicitIntersection { automatic: *automatic, child: bx(child) },
        SpillRangeOperator { child } => SpillRangeOperator { child: bx(child) },
        other => other.clone(),
    }
}
fn any_node(n: &Node, p: &dyn Fn(&Node) -> bool) -> bool {
    let found = std::cell::Cell::new(false);
    map_node(n, &|x| { if p(x) { found.set(true); } None });
    found.get()
}

/// the pass as the property states it: only references / ranges that resolve to sheet `i` and
/// carry a name get the new name
fn spec_pass(n: &Node, i: u32, new: &str) -> Node {
    map_node(n, &|x| match x {
        Node::ReferenceKind { sheet_name: Some(_), sheet_index, absolute_row, absolute_column, row, column } if *sheet_index == i =>
            Some(Node::ReferenceKind { sheet_name: Some(new.to_string()), sheet_index: *sheet_index, absolute_row: *absolute_row, absolute_column: *absolute_column, row: *row, column: *column }),
        Node::RangeKind { sheet_name: Some(_), sheet_index, absolute_row1, absolute_column1, row1, column1, absolute_row2, absolute_column2, row2, column2 } if *sheet_index == i =>
            Some(Node::RangeKind { sheet_name: Some(new.to_string()), sheet_index: *sheet_index, absolute_row1: *absolute_row1, absolute_column1: *absolute_column1, row1: *row1, column1: *column1,
                absolute_row2: *absolute_row2, absolute_column2: *absolute_column2, row2: *row2, column2: *column2 }),
        _ => None,
    })
}
/// references are by name: what the tree is once every name is looked up in `sheets` (formula on sheet `ctx`)
fn resolve(n: &Node, sheets: &[String], ctx: u32) -> Node {
    let find = |s: &Option<String>| -> Option<u32> { match s { Some(nm) => sheets.iter().position(|x| x == nm).map(|x| x as u32), None => Some(ctx) } };
    map_node(n, &|x| match x {
        Node::ReferenceKind { sheet_name, absolute_row, absolute_column, row, column, .. } | Node::WrongReferenceKind { sheet_name, absolute_row, absolute_column, row, column } =>
            Some(match find(sheet_name) {
                Some(k) => Node::ReferenceKind { sheet_name: sheet_name.clone(), sheet_index: k, absolute_row: *absolute_row, absolute_column: *absolute_column, row: *row, column: *column },
                None => Node::WrongReferenceKind { sheet_name: sheet_name.clone(), absolute_row: *absolute_row, absolute_column: *absolute_column, row: *row, column: *column },
            }),
        Node::RangeKind { sheet_name, absolute_row1, absolute_column1, row1, column1, absolute_row2, absolute_column2, row2, column2, .. }
        | Node::WrongRangeKind { sheet_name, absolute_row1, absolute_column1, row1, column1, absolute_row2, absolute_column2, row2, column2 } =>
            Some(match find(sheet_name) {
                Some(k) => Node::RangeKind { sheet_name: sheet_name.clone(), sheet_index: k, absolute_row1: *absolute_row1, absolute_column1: *absolute_column1, row1: *row1, column1: *column1,
                    absolute_row2: *absolute_row2, absolute_column2: *absolute_column2, row2: *row2, column2: *column2 },
                None => Node::WrongRangeKind { sheet_name: sheet_name.clone(), absolute_row1: *absolute_row1, absolute_column1: *absolute_column1, row1: *row1, column1: *column1,
                    absolute_row2: *absolute_row2, absolute_column2: *absolute_column2, row2: *row2, column2: *column2 },
            }),
        // the formula text carried by a defined-name node follows the defined name: not compared
        Node::DefinedNameKind((a, _, _)) => Some(Node::DefinedNameKind((a.clone(), None, String::new()))),
        _ => None,
    })
}
fn strip_defs(n: &Node) -> Node {
    map_node(n, &|x| match x { Node::DefinedNameKind((a, _, _)) => Some(Node::DefinedNameKind((a.clone(), None, String::new()))), _ => None })
}
fn has_ghost_named(n: &Node, name: &str) -> bool {
    any_node(n, &|x| matches!(x, Node::WrongRangeKind { sheet_name: Some(s), .. } | Node::WrongReferenceKind { sheet_name: Some(s), .. } if s == name))
}
fn reads_sheet_text(n: &Node) -> bool {
    any_node(n, &|x| matches!(x, Node::FunctionKind { kind, .. } if matches!(kind, Function::Sheet | Function::Sheets | Function::Formulatext | Function::Cell)))
}

/// cells a formula reads (clipped to the generated block), through defined names
fn reads(n: &Node, home: (u32, i32, i32), defs: &HashMap<String, Vec<(Option<u32>, Node)>>, out: &std::cell::RefCell<BTreeSet<(u32, i32, i32)>>, depth: u32) {
    map_node(n, &|x| {
        match x {
            Node::ReferenceKind { sheet_index, absolute_row, absolute_column, row, column, .. } => {
                let r = if *absolute_row { *row } else { *row + home.1 };
                let c = if *absolute_column { *column } else { *column + home.2 };
                out.borrow_mut().insert((*sheet_index, r, c));
            }
            Node::RangeKind { sheet_index, absolute_row1, absolute_column1, row1, column1, absolute_row2, absolute_column2, row2, column2, .. } => {
                let r1 = if *absolute_row1 { *row1 } else { *row1 + home.1 };
                let c1 = if *absolute_column1 { *column1 } else { *column1 + home.2 };
                let r2 = if *absolute_row2 { *row2 } else { *row2 + home.1 };
                let c2 = if *absolute_column2 { *column2 } else { *column2 + home.2 };
                for r in r1.min(r2).max(1)..=r1.max(r2).min(ROWS + 2) { for c in c1.min(c2).max(1)..=c1.max(c2).min(COLS + 2) { out.borrow_mut().insert((*sheet_index, r, c)); } }
            }
            Node::DefinedNameKind((name, scope, _)) if depth < 3 => {
                if let Some(v) = defs.get(&name.to_lowercase()) {
                    for (sc, node) in v { if sc == scope { reads(node, (home.0, 1, 1), defs, out, depth + 1); } }
                }
            }
            _ => {}
        }
        None
    });
}

fn parse_defs(s: &Snap) -> HashMap<String, Vec<(Option<u32>, Node)>> {
    let mut out: HashMap<String, Vec<(Option<u32>, Node)>> = HashMap::new();
    let mut p = Parser::new(s.names.clone(), s.defs.clone(), HashMap::new(), get_locale("en").unwrap(), get_language("en").unwrap());
    for (n, sc, f) in &s.defs {
        let node = p.parse(f, &CellReferenceRC { sheet: s.names[0].clone(), row: 1, column: 1 });
        out.entry(n.to_lowercase()).or_default().push((*sc, node));
    }
    out
}

struct Run<'a> { cs: Cases, or: Oracle, fns: &'a Fns, dist: BTreeMap<String, u64>, samples: Vec<String>, distinct: std::collections::HashSet<String> }

impl<'a> Run<'a> {
    fn bump(&mut self, k: &str) { *self.dist.entry(k.to_string()).or_insert(0) += 1; }
    fn env_lines(&mut self, tag: &str, s: &Snap) {
        self.cs.case(&format!("{tag} clear"), "ok");
        for n in &s.names { self.cs.case(&format!("{tag} sheet {}", wire(n)), "ok"); }
        for (n, sc, f) in &s.defs {
            self.cs.case(&format!("{tag} def {} {} {}", wire(n), match sc { Some(i) => format!("{i}"), None => "-1".into() }, wire(f)), "ok");
        }
    }

    /// compare trees and values of the cells that exist before with the cells `place` maps them to
    #[allow(clippy::too_many_arguments)]
    fn oracle(&mut self, op: &str, bk: &Book, before: &Snap, after: &Snap, place: &dyn Fn(u32) -> u32, pass: &dyn Fn(&Node, u32) -> Node,
              captured: &str, input: &serde_json::Value, only_sheet: Option<(u32, u32)>) {
        let defs = parse_defs(before);
        // roots of legitimate / known value changes, by class
        let mut taint: BTreeMap<(u32, i32, i32), String> = BTreeMap::new();
        let mut readmap: BTreeMap<(u32, i32, i32), BTreeSet<(u32, i32, i32)>> = BTreeMap::new();
        let sheets_iter: Vec<(u32, u32)> = match only_sheet { Some((s, t)) => vec![(s, t)], None => (0..before.names.len() as u32).map(|s| (s, place(s))).collect() };
        for (s, s_after) in &sheets_iter {
            for ((r, c), cell) in &before.cells[*s as usize] {
                let Some(node) = &cell.node else { continue };
                let rd = std::cell::RefCell::new(BTreeSet::new());
                reads(node, (*s, *r, *c), &defs, &rd, 0);
                readmap.insert((*s, *r, *c), rd.into_inner());
                self.or.checked += 1;
                let expected = resolve(&pass(node, *s), &after.names, *s_after);
                let got = after.cells[*s_after as usize].get(&(*r, *c)).and_then(|x| x.node.clone());
                let same = got.as_ref().map(|g| strip_defs(g) == expected).unwrap_or(false);
                if reads_sheet_text(node) { taint.insert((*s, *r, *c), "skip".into()); }
                if !captured.is_empty() && has_ghost_named(node, captured) { taint.insert((*s, *r, *c), "skip".into()); }
                if !same {
                    let stored = cell.stored.clone().unwrap_or_default();
                    // F12 (ghost ranges renamed) and F65 (stored formulas parsed in the user's locale) are repaired
                    // (059fa54, 9f60d5e): a recurrence is an ordinary violation
                    let class = if op == "rename_undo" && !captured.is_empty() && has_ghost_named(node, captured) { "dangling_reference_captured_by_new_name" }
                    else { "tree_changed_beyond_target" };
                    taint.insert((*s, *r, *c), class.to_string());
                    let d = format!("{op}: sheet {s} cell ({r},{c}) stored {:?}: expected [{}] got [{}]", stored, dump_s(&expected, self.fns),
                        got.as_ref().map(|g| dump_s(g, self.fns)).unwrap_or("none".into()));
                    self.or.fail(&format!("{class}:{op}"), json!({"op": input, "sheet": s, "cell": [r, c], "stored": stored, "lang": bk.lang, "locale": bk.locale}), d);
                }
            }
        }
        // defined names whose tree is wrong taint their readers: handled by value propagation below through `defs_bad`
        // propagate
        loop {
            let mut changed = false;
            for (k, rd) in &readmap {
                if taint.contains_key(k) { continue; }
                if let Some(c) = rd.iter().find_map(|x| taint.get(x)) { let c = c.clone(); taint.insert(*k, c); changed = true; }
            }
            if !changed { break; }
        }
        for (s, s_after) in &sheets_iter {
            for ((r, c), cell) in &before.cells[*s as usize] {
                self.or.checked += 1;
                let got = after.cells[*s_after as usize].get(&(*r, *c)).map(|x| x.value.clone()).unwrap_or("absent".into());
                if got != cell.value {
                    match taint.get(&(*s, *r, *c)).map(|x| x.as_str()) {
                        Some("skip") => { self.bump("value_change_excluded"); }
                        Some(class) => {
                            let cl = format!("value_changed_by_{class}:{op}");
                            self.or.fail(&cl, json!({"op": input, "sheet": s, "cell": [r, c], "before": cell.value, "after": got, "stored": cell.stored}),
                                format!("{op}: value of sheet {s} ({r},{c}) {:?} changed {} -> {}", cell.stored, cell.value, got));
                        }
                        None => {
                            self.or.fail(&format!("value_changed:{op}"), json!({"op": input, "sheet": s, "cell": [r, c], "before": cell.value, "after": got, "stored": cell.stored, "lang": bk.lang, "locale": bk.locale}),
                                format!("{op}: value of sheet {s} ({r},{c}) {:?} changed {} -> {}", cell.stored, cell.value, got));
                        }
                    }
                }
            }
        }
    }

    fn tie_formulas(&mut self, kind: &str, bk: &Book, before: &Snap, after: &Snap, src_sheets: &[(u32, u32)], i: u32, new: &str) {
        let lc = get_locale(bk.locale).unwrap();
        let lg = get_language(bk.lang).unwrap();
        let en_lc = get_locale("en").unwrap();
        let en_lg = get_language("en").unwrap();
        let dot = lc.numbers.symbols.decimal == ".";
        let mut en = Parser::new(after.names.clone(), after.defs.clone(), HashMap::new(), en_lc, en_lg);
        en.set_lexer_mode(LexerMode::R1C1);
        for (s, s_after) in src_sheets {
            for (k, text) in before.shared[*s as usize].iter().enumerate() {
                // tokens as the parser of rename_sheet_by_index / duplicate_sheet sees them: English since 9f60d5e
                let _ = (lc, lg);
                let toks = tokens(text, true, en_lc, en_lg);
                if toks.iter().any(|t| t == "X") { continue; }
                // booleans are spelled differently per language and lex differently; not generated
                let Some(text_after) = after.shared[*s_after as usize].get(k) else { continue };
                let toks_after = tokens(text_after, true, en_lc, en_lg);
                // a formula the (English) parser rejects keeps its text
                let mut up = Parser::new(before.names.clone(), before.defs.clone(), HashMap::new(), en_lc, en_lg);
                up.set_lexer_mode(LexerMode::R1C1);
                let failed = matches!(up.parse(text, &CellReferenceRC { sheet: before.names[*s as usize].clone(), row: 1, column: 1 }), Node::ParseErrorKind { .. });
                if failed && text_after != text {
                    self.or.fail("unparsed_formula_rewritten", json!({"text": text, "after": text_after}), format!("{text} -> {text_after}"));
                }
                let node_after = en.parse(text_after, &CellReferenceRC { sheet: after.names[*s_after as usize].clone(), row: 1, column: 1 });
                self.cs.case(
                    &format!("{kind} {} {} {} {} {} {}", bk.lang, b(dot), s, i, wire(new), toks.join(" ")),
                    &if failed { "unchanged | -".to_string() } else { format!("{} | {}", toks_after.join(" "), dump_s(&node_after, self.fns)) });
                self.distinct.insert(format!("{kind} {} {}", text, text_after));
                if self.samples.len() < 12 && self.cs.n % 211 == 7 { self.samples.push(format!("{kind} {}/{} sheet {s} rename {i}->{new:?}: {text} => {text_after}", bk.lang, bk.locale)); }
            }
        }
    }
}

fn tables(cs: &mut Cases, fns: &Fns) {
    for lang in LANGS {
        let g = get_language(lang).unwrap();
        let en_loc = get_locale("en").unwrap();
        for (i, f) in fns.all.iter().enumerate() { cs.case(&format!("T fn {lang} {i} {}", wire(&f.to_localized_name(g))), "ok"); }
        for (i, e) in ERRORS.iter().enumerate() {
            let toks = tokens(&format!("{e}"), false, en_loc, g);
            cs.case(&format!("T err {lang} {i} {}", toks.join(" ")), "ok");
        }
        cs.case(&format!("T bool {lang} {} {}", wire(&g.booleans.r#true.to_uppercase()), wire(&g.booleans.r#false.to_uppercase())), "ok");
    }
    cs.case(&format!("T tf {} {}", fns.idx(&Function::True), fns.idx(&Function::False)), "ok");
}

fn main() {
    let a = Args::parse();
    let fns = Fns::new();
    let mut run = Run { cs: Cases::new(&a.out, "c17"), or: Oracle::default(), fns: &fns, dist: BTreeMap::new(), samples: vec![], distinct: Default::default() };
    tables(&mut run.cs, &fns);
    let mut rng = Rng::new(a.seed);
    let pool = name_pool();
    let configs: Vec<(&'static str, &'static str)> = if a.thorough {
        let mut v = vec![];
        for l in LANGS { for lc in ["en", "en-GB", "de", "es", "fr", "it"] { v.push((l, lc)); } }
        v
    } else {
        vec![("en", "en"), ("en", "en"), ("en", "en"), ("es", "es"), ("de", "de"), ("en", "fr"), ("fr", "en"), ("it", "it")]
    };
    let nbooks = if a.thorough { 60 } else { configs.len() };
    for bi in 0..nbooks {
        let (lang, locale) = configs[bi % configs.len()];
        let bk = gen_book(&mut rng, lang, locale, bi);
        let base = match build(&bk) { Ok(m) => m, Err(e) => { run.or.fail("harness_book_rejected", json!({"sheets": bk.sheets, "err": e}), e.clone()); continue; } };
        let bytes = base.to_bytes();
        // the state every operation starts from is the RELOADED workbook (what reloading changes is C09's)
        let before = { let mut m0 = Model::from_bytes(&bytes, lang).unwrap(); m0.evaluate(); snap(&m0) };
        drop(base);
        run.bump(&format!("books/{lang}/{locale}"));
        run.env_lines("E0", &before);
        let ns = before.names.len() as u32;
        let fresh = |lang: &'static str| -> Model<'static> { let mut m = Model::from_bytes(&bytes, lang).unwrap(); m.evaluate(); m };
        // the reload itself must not change anything (C09 owns that; guard for the oracle)
        {
            let m = fresh(lang);
            let s2 = snap(&m);
            for s in 0..ns as usize { for (k, c) in &before.cells[s] { if s2.cells[s].get(k).map(|x| &x.value) != Some(&c.value) { run.bump("reload_changes_value"); } } }
        }

        // ---- rename: every sheet x pool (quick: a rotating third of the pool per sheet, all tricky ones over the run)
        for i in 0..ns {
            for (pi, new) in pool.iter().enumerate() {
                if !a.thorough && (pi + i as usize + bi) % 3 != 0 && bi >= 3 { continue; }
                let mut m = fresh(lang);
                let res = m.rename_sheet_by_index(i, new);
                let input = json!({"op": "rename", "sheets": before.names, "index": i, "new": new, "lang": lang, "locale": locale});
                run.cs.case(&format!("V {} {}", i, wire(new)), if res.is_ok() { "ok" } else { "err" });
                run.bump(if res.is_ok() { "rename_ok" } else { "rename_err" });
                let after = snap(&m);
                if res.is_err() {
                    run.or.checked += 1;
                    if after.names != before.names || after.shared != before.shared || after.defs != before.defs {
                        run.or.fail("failed_rename_changes_workbook", input.clone(), format!("rename {i} -> {new:?} failed but changed the workbook"));
                    }
                    continue;
                }
                run.or.checked += 1;
                if after.names[i as usize] != *new { run.or.fail("rename_name_not_set", input.clone(), format!("sheet {i} is called {:?}", after.names[i as usize])); }
                run.oracle("rename", &bk, &before, &after, &|s| s, &|n, _| spec_pass(n, i, new), new, &input, None);
                // defined names: trees by the same rule
                let mut pa = Parser::new(after.names.clone(), after.defs.clone(), HashMap::new(), get_locale("en").unwrap(), get_language("en").unwrap());
                let mut pb = Parser::new(before.names.clone(), before.defs.clone(), HashMap::new(), get_locale("en").unwrap(), get_language("en").unwrap());
                for (k, (n0, sc0, f0)) in before.defs.iter().enumerate() {
                    run.or.checked += 1;
                    let nb = pb.parse(f0, &CellReferenceRC { sheet: before.names[0].clone(), row: 1, column: 1 });
                    let exp = resolve(&spec_pass(&nb, i, new), &after.names, 0);
                    let ok = after.defs.get(k).map(|(n1, sc1, f1)| n1 == n0 && sc1 == sc0 && strip_defs(&pa.parse(f1, &CellReferenceRC { sheet: after.names[0].clone(), row: 1, column: 1 })) == exp).unwrap_or(false);
                    if !ok { run.or.fail("defined_name_not_renamed", json!({"op": input, "name": n0, "before": f0, "after": after.defs.get(k)}), format!("defined name {n0}: {f0} -> {:?}", after.defs.get(k))); }
                }
                run.env_lines("E1", &after);
                let all: Vec<(u32, u32)> = (0..ns).map(|s| (s, s)).collect();
                run.tie_formulas("R", &bk, &before, &after, &all, i, new);
                // undo restores (UserModel), redo re-applies
                if (pi + bi) % 7 == 0 {
                    let mut u = UserModel::from_model(fresh(lang));
                    if u.rename_sheet(i, new).is_ok() && after.names[i as usize] != before.names[i as usize] {
                        let _ = u.undo();
                        let back = snap(u.get_model());
                        run.or.checked += 1;
                        if back.names != before.names { run.or.fail("undo_rename_name", input.clone(), format!("names after undo {:?}", back.names)); }
                        run.oracle("rename_undo", &bk, &before, &back, &|s| s, &|n, _| n.clone(), new, &input, None);
                    }
                }
            }
        }
        // ---- move: all (i, j) incl. out of range
        for i in 0..=ns { for j in 0..=ns {
            let mut m = fresh(lang);
            let res = m.move_sheet(i, j);
            let after = snap(&m);
            let input = json!({"op": "move", "sheets": before.names, "from": i, "to": j, "lang": lang, "locale": locale});
            run.cs.case(&format!("M {} {}", i, j), &if res.is_ok() { format!("ok {}", after.names.iter().map(|x| wire(x)).collect::<Vec<_>>().join(" ")) } else { "err".to_string() });
            run.bump(if res.is_ok() { "move_ok" } else { "move_err" });
            if res.is_err() {
                run.or.checked += 1;
                if after.names != before.names { run.or.fail("failed_move_changes_workbook", input.clone(), "failed move changed the order".into()); }
                continue;
            }
            let place = |s: u32| after.names.iter().position(|x| *x == before.names[s as usize]).unwrap() as u32;
            run.oracle("move", &bk, &before, &after, &place, &|n, _| n.clone(), "", &input, None);
        } }
        // ---- duplicate: every sheet
        for s in 0..ns {
            let mut m = fresh(lang);
            let res = m.duplicate_sheet(s);
            let after = snap(&m);
            let input = json!({"op": "duplicate", "sheets": before.names, "source": s, "lang": lang, "locale": locale});
            run.bump("duplicate");
            let Ok((new_name, new_index)) = res else { run.or.fail("duplicate_failed", input.clone(), "duplicate_sheet failed".into()); continue; };
            run.or.checked += 1;
            if new_index != s + 1 || after.names.get(new_index as usize) != Some(&new_name) || before.names.contains(&new_name) {
                run.or.fail("duplicate_placement", input.clone(), format!("copy {new_name:?} at {new_index}, names {:?}", after.names));
            }
            // the existing sheets keep trees and values
            let place = |k: u32| if k <= s { k } else { k + 1 };
            run.oracle("duplicate_others", &bk, &before, &after, &place, &|n, _| n.clone(), "", &input, None);
            // the copy: the source's trees with references to the source retargeted; values of formulas
            // that do not depend on the sheet they are on are the same
            run.oracle("duplicate_copy", &bk, &before, &after, &|k| k, &|n, _| spec_pass(n, s, &new_name), "", &input, Some((s, new_index)));
            run.env_lines("E1", &after);
            run.tie_formulas("D", &bk, &before, &after, &[(s, new_index)], s, &new_name);
        }
    }
    let Run { cs, or, dist, samples, distinct, .. } = run;
    cs.finish(json!({
        "oracle_checked": or.checked,
        "oracle_failures": or.failures,
        "oracle_failures_per_class": or.per_class,
        "distinct_nontrivial": distinct.len(),
        "distribution": dist,
        "samples": samples,
    }));
}
