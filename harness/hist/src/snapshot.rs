//! Canonical snapshot of every observable the history properties list: cell contents and
//! values, styles BY VALUE (pool indices legitimately differ after undo / on a replica), row
//! and column descriptors, sheet properties, defined names, named styles, links, conditional
//! formats, theme, workbook name/locale/timezone. Maps are sorted; unreferenced pool entries
//! (shared strings, shared formulas, style pools) are not part of the snapshot.
use ironcalc_base::types::*;
use ironcalc_base::Model;
use std::fmt::Write;

pub fn style_str(styles: &Styles, idx: i32) -> String {
    let xf = match styles.cell_xfs.get(idx as usize) {
        Some(x) => x,
        None => return format!("BAD-STYLE-INDEX({idx})"),
    };
    let numfmt = styles
        .num_fmts
        .iter()
        .find(|f| f.num_fmt_id == xf.num_fmt_id)
        .map(|f| format!("custom:{}", f.format_code))
        .unwrap_or_else(|| format!("builtin:{}", xf.num_fmt_id));
    let named = styles
        .cell_styles
        .iter()
        .find(|c| c.xf_id == xf.xf_id)
        .map(|c| c.name.clone())
        .unwrap_or_else(|| format!("xf#{}", xf.xf_id));
    format!(
        "{{fmt={} font={:?} fill={:?} border={:?} align={:?} qp={} named={}}}",
        numfmt,
        styles.fonts.get(xf.font_id as usize),
        styles.fills.get(xf.fill_id as usize),
        styles.borders.get(xf.border_id as usize),
        xf.alignment,
        xf.quote_prefix,
        named
    )
}

fn fv(v: &FormulaValue) -> String {
    match v {
        FormulaValue::Unevaluated => "unevaluated".to_string(),
        FormulaValue::Boolean(b) => format!("b:{b}"),
        FormulaValue::Number(n) => format!("n:{:016x}", n.to_bits()),
        FormulaValue::Text(t) => format!("t:{t:?}"),
        // origin and message are diagnostics, not observables of the properties
        FormulaValue::Error { ei, .. } => format!("e:{ei:?}"),
    }
}

pub struct SnapOpts {
    pub values: bool,   // include computed values
    pub views: bool,    // include selection / view state
    pub styles: bool,
}
impl Default for SnapOpts {
    fn default() -> Self { SnapOpts { values: true, views: false, styles: true } }
}

pub fn cell_str(wb: &Workbook, ws: &Worksheet, cell: &Cell, o: &SnapOpts) -> String {
    let st = |s: &i32| if o.styles { style_str(&wb.styles, *s) } else { String::new() };
    match cell {
        Cell::EmptyCell { s } => format!("empty {}", st(s)),
        Cell::BooleanCell { v, s } => format!("bool {v} {}", st(s)),
        Cell::NumberCell { v, s } => format!("num {:016x} {}", v.to_bits(), st(s)),
        Cell::ErrorCell { ei, s } => format!("err {ei:?} {}", st(s)),
        Cell::SharedString { si, s } => format!("str {:?} {}", wb.shared_strings.get(*si as usize), st(s)),
        Cell::CellFormula { f, s, v } => format!(
            "formula {:?} {} {}", ws.shared_formulas.get(*f as usize), if o.values { fv(v) } else { String::new() }, st(s)),
        Cell::ArrayFormula { f, s, r, kind, v } => format!(
            "array {:?} {:?} {:?} {} {}", ws.shared_formulas.get(*f as usize), kind,
            if o.values { format!("{r:?}") } else { String::new() }, if o.values { fv(v) } else { String::new() }, st(s)),
        Cell::SpillCell { s, a, v } => {
            if o.values { format!("spill {a:?} {} {}", match v {
                SpillValue::Boolean(b) => format!("b:{b}"),
                SpillValue::Number(n) => format!("n:{:016x}", n.to_bits()),
                SpillValue::Text(t) => format!("t:{t:?}"),
                SpillValue::Error(e) => format!("e:{e:?}"),
            }, st(s)) } else { format!("spill-or-empty {}", st(s)) }
        }
    }
}

/// one line per observable; lines of a sheet are prefixed with its position
pub fn snapshot_lines(model: &Model, o: &SnapOpts) -> Vec<String> {
    let wb = &model.workbook;
    let mut out = vec![];
    out.push(format!("workbook name={:?} tz={:?} locale={:?}", wb.name, wb.settings.tz, wb.settings.locale));
    out.push(format!("theme {:?}", wb.theme));
    let mut names: Vec<String> = wb.defined_names.iter().map(|d| format!("name {:?} scope={:?} formula={:?}", d.name, d.sheet_id, d.formula)).collect();
    names.sort();
    out.extend(names);
    // named styles by value
    let mut ns: Vec<String> = wb.styles.cell_styles.iter().map(|c| {
        let xf = wb.styles.cell_style_xfs.get(c.xf_id as usize);
        match xf {
            Some(x) => format!("namedstyle {:?} builtin={} numfmt={} font={:?} fill={:?} border={:?} apply=({},{},{},{},{},{})", c.name, c.builtin_id,
                wb.styles.num_fmts.iter().find(|f| f.num_fmt_id == x.num_fmt_id).map(|f| f.format_code.clone()).unwrap_or_else(|| format!("#{}", x.num_fmt_id)),
                wb.styles.fonts.get(x.font_id as usize), wb.styles.fills.get(x.fill_id as usize), wb.styles.borders.get(x.border_id as usize),
                x.apply_number_format, x.apply_border, x.apply_alignment, x.apply_protection, x.apply_font, x.apply_fill),
            None => format!("namedstyle {:?} BAD-XF({})", c.name, c.xf_id),
        }
    }).collect();
    ns.sort();
    out.extend(ns);
    let mut tables: Vec<String> = wb.tables.iter().map(|(k, t)| format!("table {k:?} {t:?}")).collect();
    tables.sort();
    out.extend(tables);
    if o.views {
        let mut v: Vec<String> = wb.views.iter().map(|(k, w)| format!("wbview {k} {w:?}")).collect();
        v.sort();
        out.extend(v);
    }
    for (i, ws) in wb.worksheets.iter().enumerate() {
        out.push(format!("s{i} sheet name={:?} id={} state={} color={:?} frozen=({},{}) grid={} merge={:?} comments={:?}",
            ws.name, ws.sheet_id, ws.state, ws.color, ws.frozen_rows, ws.frozen_columns, ws.show_grid_lines, ws.merge_cells, ws.comments));
        // columns: canonical run-length list of OBSERVABLE attributes (a descriptor that says
        // nothing — default width, visible, no style — is the same as no descriptor; adjacent
        // descriptors with equal attributes are the same as one wider descriptor)
        let mut cols: Vec<&Col> = ws.cols.iter().collect();
        cols.sort_by_key(|c| c.min);
        let mut runs: Vec<(i32, i32, String)> = vec![];
        for c in cols {
            let attr = format!("w={} hidden={} style={}",
                if c.custom_width { format!("{:016x}", c.width.to_bits()) } else { "default".to_string() }, c.hidden,
                match c.style { Some(s) => if o.styles { style_str(&wb.styles, s) } else { "some".into() }, None => "none".into() });
            if !c.custom_width && !c.hidden && c.style.is_none() { continue; }
            match runs.last_mut() {
                Some(last) if last.1 + 1 == c.min && last.2 == attr => last.1 = c.max,
                _ => runs.push((c.min, c.max, attr)),
            }
        }
        for (a, b2, attr) in runs { out.push(format!("s{i} col {a}..{b2} {attr}")); }
        let mut rows: Vec<&Row> = ws.rows.iter().collect();
        rows.sort_by_key(|r| r.r);
        for r in rows {
            // DEFAULT_ROW_HEIGHT / ROW_HEIGHT_FACTOR: a record with that height is "default"
            let h_default = (r.height * ironcalc_base::ROW_HEIGHT_FACTOR - 25.0).abs() < 1e-9;
            if h_default && !r.hidden && !r.custom_format { continue; }
            out.push(format!("s{i} row {} h={} hidden={} style={}", r.r,
                if h_default { "default".to_string() } else { format!("{:016x}", r.height.to_bits()) }, r.hidden,
                if r.custom_format { if o.styles { style_str(&wb.styles, r.s) } else { "some".into() } } else { "none".into() }));
        }
        let mut rks: Vec<&i32> = ws.sheet_data.keys().collect();
        rks.sort();
        for rk in rks {
            let rowm = &ws.sheet_data[rk];
            let mut cks: Vec<&i32> = rowm.keys().collect();
            cks.sort();
            for ck in cks {
                let cell = &rowm[ck];
                if let Cell::EmptyCell { s } = cell {
                    // an empty cell whose style is what an absent cell would show is not observable
                    let inherited = ws.rows.iter().find(|r| r.r == *rk && r.custom_format).map(|r| r.s)
                        .or_else(|| ws.cols.iter().find(|c| c.min <= *ck && *ck <= c.max).map(|c| c.style.unwrap_or(0)))
                        .unwrap_or(0);
                    if style_str(&wb.styles, *s) == style_str(&wb.styles, inherited) { continue; }
                }
                out.push(format!("s{i} cell R{rk}C{ck} {}", cell_str(wb, ws, cell, o)));
            }
        }
        let mut links: Vec<String> = ws.links.iter().map(|(k, l)| format!("s{i} link R{}C{} {l:?}", k.0, k.1)).collect();
        links.sort();
        out.extend(links);
        for (k, cf) in ws.conditional_formatting.iter().enumerate() {
            out.push(format!("s{i} cf#{k} {cf:?}"));
        }
        if o.views {
            let mut v: Vec<String> = ws.views.iter().map(|(k, w)| format!("s{i} view {k} {w:?}")).collect();
            v.sort();
            out.extend(v);
        }
    }
    out
}

pub fn snapshot(model: &Model, o: &SnapOpts) -> String {
    let mut s = String::new();
    for l in snapshot_lines(model, o) { let _ = writeln!(s, "{l}"); }
    s
}

/// first few differing lines, for replays
pub fn snap_diff(a: &str, b: &str, limit: usize) -> Vec<String> {
    let la: std::collections::BTreeSet<&str> = a.lines().collect();
    let lb: std::collections::BTreeSet<&str> = b.lines().collect();
    let mut out = vec![];
    for l in la.difference(&lb).take(limit) { out.push(format!("- {}", l.chars().take(300).collect::<String>())); }
    for l in lb.difference(&la).take(limit) { out.push(format!("+ {}", l.chars().take(300).collect::<String>())); }
    out
}
