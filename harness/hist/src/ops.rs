//! The operation language over `UserModel`'s public API, its seeded generator and applier.
use ironcalc_base::cf_types::CfRuleInput;
use ironcalc_base::expressions::types::Area;
use ironcalc_base::types::{Color, Link, Style, StyleIncludes};
use ironcalc_base::{BorderArea, UserModel};
use vh_common::Rng;

#[derive(Clone, Debug)]
pub enum Op {
    Input { sheet: u32, row: i32, col: i32, text: String },
    ArrayFormula { sheet: u32, row: i32, col: i32, w: i32, h: i32, text: String },
    ClearAll(AreaS),
    ClearContents(AreaS),
    ClearFormatting(AreaS),
    InsertRows { sheet: u32, at: i32, n: i32 },
    InsertCols { sheet: u32, at: i32, n: i32 },
    DeleteRows { sheet: u32, at: i32, n: i32 },
    DeleteCols { sheet: u32, at: i32, n: i32 },
    MoveRows { sheet: u32, at: i32, n: i32, delta: i32 },
    MoveCols { sheet: u32, at: i32, n: i32, delta: i32 },
    ColsWidth { sheet: u32, a: i32, b: i32, w: f64 },
    ColsHidden { sheet: u32, a: i32, b: i32, hidden: bool },
    RowsHeight { sheet: u32, a: i32, b: i32, h: f64 },
    RowsHidden { sheet: u32, a: i32, b: i32, hidden: bool },
    FrozenRows { sheet: u32, n: i32 },
    FrozenCols { sheet: u32, n: i32 },
    RangeStyle { area: AreaS, path: String, value: String },
    Border { area: AreaS, json: String },
    NewSheet,
    DuplicateSheet(u32),
    DeleteSheet(u32),
    RenameSheet(u32, String),
    MoveSheet(u32, u32),
    HideSheet(u32),
    UnhideSheet(u32),
    SheetColor(u32, String),
    GridLines(u32, bool),
    NewName { name: String, scope: Option<u32>, formula: String },
    DeleteName { name: String, scope: Option<u32> },
    UpdateName { name: String, scope: Option<u32>, new_name: String, new_scope: Option<u32>, formula: String },
    Timezone(String),
    Locale(String),
    WorkbookName(String),
    SetLink { sheet: u32, row: i32, col: i32, target: String, label: Option<String> },
    DeleteLink { sheet: u32, row: i32, col: i32 },
    CreateNamedStyle { name: String, bold: bool, fmt: String },
    DeleteNamedStyle(String),
    UpdateNamedStyle { name: String, new_name: String, bold: bool, fmt: String },
    ApplyNamedStyle { area: AreaS, name: String },
    AddCf { sheet: u32, range: String, json: String },
    DeleteCf { sheet: u32, index: u32 },
    UpdateCf { sheet: u32, index: u32, range: String, json: String },
    CfPriority { sheet: u32, index: u32, raise: bool },
    Theme(usize),
    AutoFillRows { area: AreaS, to: i32 },
    AutoFillCols { area: AreaS, to: i32 },
    CopyPaste { src: AreaS, dst_sheet: u32, dst_row: i32, dst_col: i32, cut: bool },
    PasteCsv { area: AreaS, csv: String },
    Undo,
    Redo,
}

#[derive(Clone, Debug, Copy)]
pub struct AreaS { pub sheet: u32, pub row: i32, pub col: i32, pub w: i32, pub h: i32 }
impl AreaS {
    pub fn area(&self) -> Area { Area { sheet: self.sheet, row: self.row, column: self.col, width: self.w, height: self.h } }
}

pub fn kind(op: &Op) -> &'static str {
    match op {
        Op::Input { .. } => "input", Op::ArrayFormula { .. } => "array_formula", Op::ClearAll(_) => "clear_all",
        Op::ClearContents(_) => "clear_contents", Op::ClearFormatting(_) => "clear_formatting",
        Op::InsertRows { .. } => "insert_rows", Op::InsertCols { .. } => "insert_columns",
        Op::DeleteRows { .. } => "delete_rows", Op::DeleteCols { .. } => "delete_columns",
        Op::MoveRows { .. } => "move_rows", Op::MoveCols { .. } => "move_columns",
        Op::ColsWidth { .. } => "columns_width", Op::ColsHidden { .. } => "columns_hidden",
        Op::RowsHeight { .. } => "rows_height", Op::RowsHidden { .. } => "rows_hidden",
        Op::FrozenRows { .. } => "frozen_rows", Op::FrozenCols { .. } => "frozen_columns",
        Op::RangeStyle { .. } => "range_style", Op::Border { .. } => "border", Op::NewSheet => "new_sheet",
        Op::DuplicateSheet(_) => "duplicate_sheet", Op::DeleteSheet(_) => "delete_sheet", Op::RenameSheet(..) => "rename_sheet",
        Op::MoveSheet(..) => "move_sheet", Op::HideSheet(_) => "hide_sheet", Op::UnhideSheet(_) => "unhide_sheet",
        Op::SheetColor(..) => "sheet_color", Op::GridLines(..) => "grid_lines", Op::NewName { .. } => "new_defined_name",
        Op::DeleteName { .. } => "delete_defined_name", Op::UpdateName { .. } => "update_defined_name",
        Op::Timezone(_) => "set_timezone", Op::Locale(_) => "set_locale", Op::WorkbookName(_) => "set_name",
        Op::SetLink { .. } => "set_cell_link", Op::DeleteLink { .. } => "delete_cell_link",
        Op::CreateNamedStyle { .. } => "create_named_style", Op::DeleteNamedStyle(_) => "delete_named_style", Op::UpdateNamedStyle { .. } => "update_named_style",
        Op::ApplyNamedStyle { .. } => "apply_named_style", Op::AddCf { .. } => "add_conditional_formatting",
        Op::DeleteCf { .. } => "delete_conditional_formatting", Op::UpdateCf { .. } => "update_conditional_formatting",
        Op::CfPriority { .. } => "conditional_formatting_priority", Op::Theme(_) => "set_theme", Op::AutoFillRows { .. } => "auto_fill_rows",
        Op::AutoFillCols { .. } => "auto_fill_columns", Op::CopyPaste { cut: false, .. } => "copy_paste",
        Op::CopyPaste { cut: true, .. } => "cut_paste", Op::PasteCsv { .. } => "paste_csv", Op::Undo => "undo", Op::Redo => "redo",
    }
}

/// applies one operation through the public API; Err = the call returned an error
pub fn apply_op(m: &mut UserModel, op: &Op) -> Result<(), String> {
    match op {
        Op::Input { sheet, row, col, text } => m.set_user_input(*sheet, *row, *col, text),
        Op::ArrayFormula { sheet, row, col, w, h, text } => m.set_user_array_formula(*sheet, *row, *col, *w, *h, text),
        Op::ClearAll(a) => m.range_clear_all(&a.area()),
        Op::ClearContents(a) => m.range_clear_contents(&a.area()),
        Op::ClearFormatting(a) => m.range_clear_formatting(&a.area()),
        Op::InsertRows { sheet, at, n } => m.insert_rows(*sheet, *at, *n),
        Op::InsertCols { sheet, at, n } => m.insert_columns(*sheet, *at, *n),
        Op::DeleteRows { sheet, at, n } => m.delete_rows(*sheet, *at, *n),
        Op::DeleteCols { sheet, at, n } => m.delete_columns(*sheet, *at, *n),
        Op::MoveRows { sheet, at, n, delta } => m.move_rows_action(*sheet, *at, *n, *delta),
        Op::MoveCols { sheet, at, n, delta } => m.move_columns_action(*sheet, *at, *n, *delta),
        Op::ColsWidth { sheet, a, b, w } => m.set_columns_width(*sheet, *a, *b, *w),
        Op::ColsHidden { sheet, a, b, hidden } => m.set_columns_hidden(*sheet, *a, *b, *hidden),
        Op::RowsHeight { sheet, a, b, h } => m.set_rows_height(*sheet, *a, *b, *h),
        Op::RowsHidden { sheet, a, b, hidden } => m.set_rows_hidden(*sheet, *a, *b, *hidden),
        Op::FrozenRows { sheet, n } => m.set_frozen_rows_count(*sheet, *n),
        Op::FrozenCols { sheet, n } => m.set_frozen_columns_count(*sheet, *n),
        Op::RangeStyle { area, path, value } => m.update_range_style(&area.area(), path, value),
        Op::Border { area, json } => {
            let b: BorderArea = serde_json::from_str(json).map_err(|e| e.to_string())?;
            m.set_area_with_border(&area.area(), &b)
        }
        Op::NewSheet => m.new_sheet(),
        Op::DuplicateSheet(s) => m.duplicate_sheet(*s),
        Op::DeleteSheet(s) => m.delete_sheet(*s),
        Op::RenameSheet(s, n) => m.rename_sheet(*s, n),
        Op::MoveSheet(a, b) => m.move_sheet(*a, *b),
        Op::HideSheet(s) => m.hide_sheet(*s),
        Op::UnhideSheet(s) => m.unhide_sheet(*s),
        Op::SheetColor(s, c) => {
            let color = if c.is_empty() { Color::None } else { Color::Rgb(c.clone()) };
            m.set_sheet_color(*s, &color)
        }
        Op::GridLines(s, b) => m.set_show_grid_lines(*s, *b),
        Op::NewName { name, scope, formula } => m.new_defined_name(name, *scope, formula),
        Op::DeleteName { name, scope } => m.delete_defined_name(name, *scope),
        Op::UpdateName { name, scope, new_name, new_scope, formula } => m.update_defined_name(name, *scope, new_name, *new_scope, formula),
        Op::Timezone(t) => m.set_timezone(t),
        Op::Locale(l) => m.set_locale(l),
        Op::WorkbookName(n) => { m.set_name(n); Ok(()) }
        Op::SetLink { sheet, row, col, target, label } => m.set_cell_link(*sheet, *row, *col, Link::External { target: target.clone(), tooltip: None }, label.as_deref()),
        Op::DeleteLink { sheet, row, col } => m.delete_cell_link(*sheet, *row, *col),
        Op::CreateNamedStyle { name, bold, fmt } => {
            let mut st = Style::default();
            st.font.b = *bold;
            st.num_fmt = fmt.clone();
            m.create_named_style(name, &st, StyleIncludes::default())
        }
        Op::DeleteNamedStyle(n) => m.delete_named_style(n),
        Op::UpdateNamedStyle { name, new_name, bold, fmt } => {
            let mut st = Style::default();
            st.font.b = *bold;
            st.font.i = !*bold;
            st.num_fmt = fmt.clone();
            m.update_named_style(name, new_name, &st, StyleIncludes::default())
        }
        Op::ApplyNamedStyle { area, name } => {
            m.set_selected_sheet(area.sheet)?;
            m.set_selected_cell(area.row, area.col)?;
            m.set_selected_range(area.row, area.col, area.row + area.h - 1, area.col + area.w - 1)?;
            m.on_apply_named_style(name)
        }
        Op::AddCf { sheet, range, json } => {
            let r: CfRuleInput = serde_json::from_str(json).map_err(|e| e.to_string())?;
            m.add_conditional_formatting(*sheet, range, r)
        }
        Op::DeleteCf { sheet, index } => m.delete_conditional_formatting(*sheet, *index),
        Op::UpdateCf { sheet, index, range, json } => {
            let r: CfRuleInput = serde_json::from_str(json).map_err(|e| e.to_string())?;
            m.update_conditional_formatting(*sheet, *index, range, r)
        }
        Op::CfPriority { sheet, index, raise } => if *raise { m.raise_conditional_formatting_priority(*sheet, *index) } else { m.lower_conditional_formatting_priority(*sheet, *index) },
        Op::Theme(i) => {
            let themes = ironcalc_base::themes::builtin_themes();
            m.set_theme(themes[*i % themes.len()].clone());
            Ok(())
        }
        Op::AutoFillRows { area, to } => m.auto_fill_rows(&area.area(), *to),
        Op::AutoFillCols { area, to } => m.auto_fill_columns(&area.area(), *to),
        Op::CopyPaste { src, dst_sheet, dst_row, dst_col, cut } => {
            m.set_selected_sheet(src.sheet)?;
            m.set_selected_cell(src.row, src.col)?;
            m.set_selected_range(src.row, src.col, src.row + src.h - 1, src.col + src.w - 1)?;
            let cb = m.copy_to_clipboard()?;
            let v = serde_json::to_value(&cb).map_err(|e| e.to_string())?;
            let data = serde_json::from_value(v["data"].clone()).map_err(|e| e.to_string())?;
            m.set_selected_sheet(*dst_sheet)?;
            m.set_selected_cell(*dst_row, *dst_col)?;
            m.set_selected_range(*dst_row, *dst_col, *dst_row, *dst_col)?;
            m.paste_from_clipboard(src.sheet, (src.row, src.col, src.row + src.h - 1, src.col + src.w - 1), &data, *cut)
        }
        Op::PasteCsv { area, csv } => m.paste_csv_string(&area.area(), csv),
        Op::Undo => m.undo(),
        Op::Redo => m.redo(),
    }
}

pub const INPUT_POOL: &[&str] = &[
    "1", "2.5", "-3", "0", "100", "1e3", "1,234", "10%", "$5", "2024-03-15", "TRUE", "false", "hello", "", " x ", "it's",
    "'123", "'=1+1", "'TRUE", "#N/A", "#DIV/0!", "http://a.b", "0.30000000000000004", "12345678901234567890", "a,b",
    "=A1+1", "=B2*2", "=SUM(A1:B3)", "=$A$1+B$2", "=A1&\"x\"", "=IF(A1>1,\"y\",\"n\")", "=1/0", "=C3", "=Sheet1!A1",
    "=SUM(A:A)", "=A1:B2", "=-(1+2)", "=(1+2)*3", "=1-(2-3)", "=SEQUENCE(2)", "=SEQUENCE(2,2)", "=A1:A3*2", "=Name1+1",
    "=ROW()", "=COLUMN()", "=Ghost!A1", "=SUM(Ghost!A1:A2)", "=\"a\"\"b\"", "={1,2;3,4}", "=AVERAGE(A1:C3)", "=MAX(A1:A5)-MIN(B1:B5)",
];
pub const SHEET_NAMES: &[&str] = &["Data", "Sheet 2", "it's", "a&b", "R1C1", "A1", "Ünï", "x.y", "Sheet1", "sheet1", "", "bad:name", "0123456789012345678901234567890123"];
pub const STYLE_PATHS: &[(&str, &[&str])] = &[
    ("font.b", &["true", "false"]), ("font.i", &["true", "false"]), ("font.color", &["#FF0000", "#00FF00", "bad"]),
    ("fill.bg_color", &["#112233", "#FFFFFF"]), ("num_fmt", &["0.00", "#,##0", "general", "yyyy-mm-dd", "0%"]),
    ("alignment.horizontal", &["center", "left", "bogus"]), ("font.size_delta", &["1", "-1"]), ("nonexistent.path", &["1"]),
];

pub struct GenCtx { pub nsheets: u32, pub names: Vec<(String, Option<u32>)>, pub named_styles: Vec<String>, pub ncf: Vec<u32> }

/// window of the grid the generator works in (small, so that operations interact)
fn rc(rng: &mut Rng) -> (i32, i32) {
    if rng.chance(1, 40) { return (*rng.pick(&[1, 1_048_576]), *rng.pick(&[1, 16384])); }
    (rng.range(1, 10) as i32, rng.range(1, 6) as i32)
}
fn area(rng: &mut Rng, sheet: u32) -> AreaS {
    let (r, c) = rc(rng);
    AreaS { sheet, row: r.min(12), col: c.min(8), w: rng.range(1, 3) as i32, h: rng.range(1, 3) as i32 }
}

/// Scripted history prefixes: every (state modifier, structural operation) pair, and the
/// defined-name scope changes. History number `h` of every driver starts with `scenario(h)`
/// (empty beyond the list) and continues with generated operations, so the scripted operations
/// go through exactly the same checks as generated ones. The list enumerates small discrete
/// dimensions that random generation reaches only rarely (a move that lands on hidden rows,
/// a descriptor exactly at the insertion point, a name that changes scope).
pub fn scenarios() -> Vec<Vec<Op>> {
    let mut v: Vec<Vec<Op>> = vec![];
    let mods: Vec<Op> = vec![
        Op::RowsHidden { sheet: 0, a: 2, b: 3, hidden: true },
        Op::RowsHidden { sheet: 0, a: 4, b: 5, hidden: true },
        Op::ColsHidden { sheet: 0, a: 2, b: 3, hidden: true },
        Op::ColsHidden { sheet: 0, a: 4, b: 5, hidden: true },
        Op::RowsHeight { sheet: 0, a: 2, b: 2, h: 42.0 },
        Op::RowsHeight { sheet: 0, a: 6, b: 7, h: 42.0 },
        Op::ColsWidth { sheet: 0, a: 2, b: 2, w: 120.0 },
        Op::ColsWidth { sheet: 0, a: 6, b: 7, w: 120.0 },
    ];
    let mut targets: Vec<Op> = vec![];
    for (at, delta) in [(1, 1), (1, 2), (2, 1), (6, -1), (6, -2), (7, -3), (3, 3)] {
        targets.push(Op::MoveRows { sheet: 0, at, n: 1, delta });
        targets.push(Op::MoveCols { sheet: 0, at, n: 1, delta: delta.clamp(-2, 2) });
    }
    targets.push(Op::MoveRows { sheet: 0, at: 1, n: 2, delta: 2 });
    for at in [2, 3, 6] {
        targets.push(Op::InsertRows { sheet: 0, at, n: 1 });
        targets.push(Op::InsertCols { sheet: 0, at, n: 1 });
        targets.push(Op::DeleteRows { sheet: 0, at, n: 1 });
        targets.push(Op::DeleteCols { sheet: 0, at, n: 1 });
    }
    for m in &mods { for t in &targets { v.push(vec![m.clone(), t.clone()]); } }
    let scopes = [None, Some(0u32), Some(1u32)];
    for s in scopes { for ns in scopes {
        if s == ns { continue; }
        for (nn, f) in [("Name1", "Sheet1!$B$2"), ("Renamed", "Sheet1!$A$1")] {
            let upd = Op::UpdateName { name: "Name1".into(), scope: s, new_name: nn.into(), new_scope: ns, formula: f.into() };
            v.push(vec![Op::NewName { name: "Name1".into(), scope: s, formula: "Sheet1!$A$1".into() }, upd.clone()]);
            v.push(vec![
                Op::NewName { name: "Name1".into(), scope: s, formula: "Sheet1!$A$1".into() },
                Op::Input { sheet: 0, row: 9, col: 2, text: "=Name1+1".into() },
                upd,
            ]);
        }
    } }
    // a formula chain over a block of numbers, then one content-changing operation inside the
    // block: undo, redo and replay must leave the dependants re-evaluated (a forward/backward
    // arm that forgets to request evaluation shows only when a formula reads the changed cells)
    let deps: Vec<Op> = vec![
        Op::Input { sheet: 0, row: 12, col: 1, text: "=SUM(A1:C3)+B2*2".into() },
        Op::Input { sheet: 0, row: 12, col: 2, text: "=A12+A1".into() },
    ];
    let blk = |row, col, w, h| AreaS { sheet: 0, row, col, w, h };
    for t in [
        Op::ClearContents(blk(1, 1, 2, 2)), Op::ClearContents(blk(2, 2, 1, 1)), Op::ClearAll(blk(2, 2, 2, 2)),
        Op::Input { sheet: 0, row: 2, col: 2, text: "5".into() },
        Op::Input { sheet: 0, row: 2, col: 2, text: "".into() },
        Op::Input { sheet: 0, row: 1, col: 1, text: "=C3*2".into() },
        Op::AutoFillRows { area: blk(1, 1, 2, 1), to: 3 },
        Op::AutoFillCols { area: blk(1, 1, 1, 2), to: 3 },
        Op::CopyPaste { src: blk(5, 5, 2, 2), dst_sheet: 0, dst_row: 1, dst_col: 1, cut: false },
    ] {
        let mut sc = deps.clone(); sc.push(t); v.push(sc);
    }
    // typed input that does not fit the row (large font / several lines): the automatic row
    // height must be part of the recorded diff, or undo and the replicas miss it
    for (size, text) in [("40", "Hello"), ("40", "12"), ("22", "a\nb\nc"), ("40", "=A1+1")] {
        v.push(vec![
            Op::RangeStyle { area: blk(3, 2, 1, 1), path: "font.size".into(), value: size.into() },
            Op::Input { sheet: 0, row: 3, col: 2, text: text.into() },
        ]);
    }
    v
}

/// a mostly-valid operation (≈ 85 % valid, 10 % boundary, 5 % invalid arguments)
pub fn gen_op(rng: &mut Rng, ctx: &GenCtx, allow_undo_redo: bool) -> Op {
    let ns = ctx.nsheets.max(1);
    let invalid = rng.chance(1, 20);
    let sheet = if invalid && rng.chance(1, 2) { ns + rng.below(2) as u32 } else { rng.below(ns as u64) as u32 };
    let (row, col) = if invalid && rng.chance(1, 2) { (*rng.pick(&[0, -1, 1_048_577]), *rng.pick(&[0, -2, 16385])) } else { rc(rng) };
    let k = rng.below(if allow_undo_redo { 118 } else { 100 });
    match k {
        0..=27 => Op::Input { sheet, row, col, text: rng.pick(INPUT_POOL).to_string() },
        28 => Op::ArrayFormula { sheet, row, col, w: rng.range(1, 2) as i32, h: rng.range(1, 3) as i32, text: rng.pick(&["=A1:A3*2", "=SUM(A1:B2)", "={1,2;3,4}", "=B1:B2"]).to_string() },
        29..=30 => Op::ClearAll(area(rng, sheet)),
        31..=33 => Op::ClearContents(area(rng, sheet)),
        34 => Op::ClearFormatting(area(rng, sheet)),
        35..=38 => Op::InsertRows { sheet, at: row, n: if invalid { *rng.pick(&[0, -1, 1_048_576]) } else { rng.range(1, 3) as i32 } },
        39..=41 => Op::InsertCols { sheet, at: col, n: if invalid { *rng.pick(&[0, -1, 16384]) } else { rng.range(1, 2) as i32 } },
        42..=45 => Op::DeleteRows { sheet, at: row, n: if invalid { *rng.pick(&[0, -1]) } else { rng.range(1, 3) as i32 } },
        46..=48 => Op::DeleteCols { sheet, at: col, n: if invalid { *rng.pick(&[0, -1]) } else { rng.range(1, 2) as i32 } },
        49..=51 => Op::MoveRows { sheet, at: row, n: rng.range(1, 2) as i32, delta: rng.range(-3, 3) as i32 },
        52..=53 => Op::MoveCols { sheet, at: col, n: rng.range(1, 2) as i32, delta: rng.range(-2, 2) as i32 },
        54..=56 => { let b = col + rng.range(0, 2) as i32; Op::ColsWidth { sheet, a: col, b: if invalid { 16385 } else { b }, w: if invalid && rng.chance(1, 2) { -5.0 } else { *rng.pick(&[50.0, 120.0, 125.0]) } } }
        57..=58 => Op::ColsHidden { sheet, a: col, b: col + rng.range(0, 1) as i32, hidden: rng.chance(1, 2) },
        59..=60 => { let b = row + rng.range(0, 2) as i32; Op::RowsHeight { sheet, a: row, b, h: if invalid { -1.0 } else { *rng.pick(&[20.0, 35.0, 28.0]) } } }
        61..=62 => Op::RowsHidden { sheet, a: row, b: row + rng.range(0, 1) as i32, hidden: rng.chance(1, 2) },
        63 => Op::FrozenRows { sheet, n: if invalid { -1 } else { rng.range(0, 3) as i32 } },
        64 => Op::FrozenCols { sheet, n: if invalid { -1 } else { rng.range(0, 3) as i32 } },
        65..=70 => { let (p, vs) = *rng.pick(STYLE_PATHS); Op::RangeStyle { area: area(rng, sheet), path: p.to_string(), value: rng.pick(vs).to_string() } }
        71 => Op::Border { area: area(rng, sheet), json: format!("{{\"item\":{{\"style\":\"thin\",\"color\":\"#FF0000\"}},\"type\":\"{}\"}}", rng.pick(&["All", "Outer", "Top", "None", "Inner"])) },
        72..=73 => Op::NewSheet,
        74 => Op::DuplicateSheet(sheet),
        75..=76 => Op::DeleteSheet(sheet),
        77..=79 => Op::RenameSheet(sheet, rng.pick(SHEET_NAMES).to_string()),
        80..=81 => Op::MoveSheet(sheet, if invalid { ns + 1 } else { rng.below(ns as u64) as u32 }),
        82 => Op::HideSheet(sheet),
        83 => Op::UnhideSheet(sheet),
        84 => Op::SheetColor(sheet, rng.pick(&["#FF0000", "#00AA11", "", "red", "#12"]).to_string()),
        85 => Op::GridLines(sheet, rng.chance(1, 2)),
        86..=87 => Op::NewName { name: rng.pick(&["Name1", "Name2", "rate", "A1", "bad name", "Name1"]).to_string(), scope: if rng.chance(1, 3) { Some(sheet) } else { None }, formula: rng.pick(&["Sheet1!$A$1", "Sheet1!$A$1:$B$2", "42", "=Sheet1!$C$3", "LAMBDA(x,x+1)"]).to_string() },
        88 => match ctx.names.first() { Some((n, s)) => Op::DeleteName { name: n.clone(), scope: *s }, None => Op::DeleteName { name: "nope".into(), scope: None } },
        89 => match ctx.names.last() { Some((n, s)) => Op::UpdateName { name: n.clone(), scope: *s, new_name: rng.pick(&["Renamed", "Name2", "rate2"]).to_string(), new_scope: if rng.chance(1, 3) { *rng.pick(&[None, Some(0u32), Some(1u32)]) } else { *s }, formula: rng.pick(&["Sheet1!$B$2", "7"]).to_string() }, None => Op::UpdateName { name: "nope".into(), scope: None, new_name: "x".into(), new_scope: None, formula: "1".into() } },
        90 => Op::Timezone(rng.pick(&["UTC", "Europe/Berlin", "Mars/Olympus"]).to_string()),
        91 => Op::Locale(rng.pick(&["en", "de", "fr", "es", "en-GB", "xx"]).to_string()),
        92 => Op::WorkbookName(rng.pick(&["book", "other", ""]).to_string()),
        93 => Op::SetLink { sheet, row, col, target: rng.pick(&["https://example.com", "mailto:a@b.c"]).to_string(), label: if rng.chance(1, 2) { Some("label".into()) } else { None } },
        94 => Op::DeleteLink { sheet, row, col },
        95 => Op::CreateNamedStyle { name: rng.pick(&["MyStyle", "Other", "Normal"]).to_string(), bold: rng.chance(1, 2), fmt: rng.pick(&["general", "0.00"]).to_string() },
        96 => match ctx.named_styles.last() { Some(n) => match rng.below(3) { 0 => Op::DeleteNamedStyle(n.clone()), 1 => Op::UpdateNamedStyle { name: n.clone(), new_name: rng.pick(&["MyStyle", "Other", "Third"]).to_string(), bold: rng.chance(1, 2), fmt: rng.pick(&["general", "0.0"]).to_string() }, _ => Op::ApplyNamedStyle { area: area(rng, sheet), name: n.clone() } }, None => Op::ApplyNamedStyle { area: area(rng, sheet), name: "Normal".into() } },
        97 => if rng.chance(2, 3) { Op::AddCf { sheet, range: rng.pick(&["A1:A6", "B2:C4", "A3", "1:2"]).to_string(), json: rng.pick(&[
                "{\"type\":\"CellIs\",\"operator\":\"GreaterThan\",\"formula\":\"1\",\"formula2\":null,\"format\":{\"font\":null,\"fill\":null,\"border\":null,\"num_fmt\":null,\"alignment\":null},\"stop_if_true\":false}",
                "{\"type\":\"Formula\",\"formula\":\"A1>2\",\"format\":{\"font\":null,\"fill\":null,\"border\":null,\"num_fmt\":null,\"alignment\":null},\"stop_if_true\":true}",
                "{\"type\":\"Blanks\",\"format\":{\"font\":null,\"fill\":null,\"border\":null,\"num_fmt\":null,\"alignment\":null},\"stop_if_true\":false}"]).to_string() } }
              else { match rng.below(4) { 0 => Op::DeleteCf { sheet, index: 0 },
                  1 => Op::UpdateCf { sheet, index: 0, range: rng.pick(&["A2:A7", "B1:C3"]).to_string(), json: "{\"type\":\"Blanks\",\"format\":{\"font\":null,\"fill\":null,\"border\":null,\"num_fmt\":null,\"alignment\":null},\"stop_if_true\":true}".to_string() },
                  2 => Op::CfPriority { sheet, index: rng.below(2) as u32, raise: rng.chance(1, 2) },
                  _ => Op::Theme(rng.below(5) as usize) } },
        98 => if rng.chance(1, 2) { Op::AutoFillRows { area: area(rng, sheet), to: rng.range(2, 14) as i32 } } else { Op::AutoFillCols { area: area(rng, sheet), to: rng.range(2, 9) as i32 } },
        99 => if rng.chance(2, 3) { let (r, c) = rc(rng); Op::CopyPaste { src: area(rng, sheet), dst_sheet: rng.below(ns as u64) as u32, dst_row: r.min(14), dst_col: c.min(9), cut: rng.chance(1, 2) } }
              else { Op::PasteCsv { area: area(rng, sheet), csv: "1,2\n3,x\n".into() } },
        100..=110 => Op::Undo,
        _ => Op::Redo,
    }
}

pub fn ctx_of(m: &UserModel) -> GenCtx {
    let model = m.get_model();
    let names = m.get_defined_name_list().into_iter().map(|(n, s, _)| (n, s)).collect();
    let named_styles = m.get_named_style_list().into_iter().filter(|n| n == "MyStyle" || n == "Other").collect();
    GenCtx {
        nsheets: model.workbook.worksheets.len() as u32,
        names,
        named_styles,
        ncf: model.workbook.worksheets.iter().map(|w| w.conditional_formatting.len() as u32).collect(),
    }
}

/// a small non-trivial workbook every history starts from
pub fn seed_workbook<'a>() -> UserModel<'a> {
    let mut m = UserModel::new_empty("book", "en", "UTC", "en").unwrap();
    let _ = m.set_user_input(0, 1, 1, "10");
    let _ = m.set_user_input(0, 2, 1, "20");
    let _ = m.set_user_input(0, 3, 1, "=A1+A2");
    let _ = m.set_user_input(0, 1, 2, "text");
    let _ = m.set_user_input(0, 2, 2, "=SUM(A1:A3)");
    let _ = m.new_sheet();
    let _ = m.set_user_input(1, 1, 1, "=Sheet1!A3*2");
    let _ = m.set_columns_width(0, 2, 2, 130.0);
    m
}

/// numbers only, two sheets: the workbook of the scripted histories (see `scenarios`)
pub fn plain_workbook<'a>() -> UserModel<'a> {
    let mut m = UserModel::new_empty("book", "en", "UTC", "en").unwrap();
    for r in 1..=9 { for c in 1..=7 { let _ = m.set_user_input(0, r, c, &format!("{}", r * 100 + c)); } }
    let _ = m.new_sheet();
    let _ = m.set_user_input(1, 1, 1, "7");
    m
}

/// replay form of a history
pub fn ops_json(ops: &[Op]) -> Vec<String> { ops.iter().map(|o| format!("{:?}", o)).collect() }
