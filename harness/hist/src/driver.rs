//! History drivers of C01 (undo), C02 (redo / cursor), C03 (replication), C04 (failure atomicity).
//! Each driver runs seeded histories on the real `UserModel`, evaluates the property's own
//! statement on the snapshots (the oracle), and writes one case line per history for the
//! extracted generic machine (UserModel/History.v instantiated at snapshot identifiers).
use crate::ops::*;
use crate::snapshot::*;
use ironcalc_base::UserModel;
use serde_json::json;
use std::collections::{BTreeMap, BTreeSet, HashMap};
use std::panic::{catch_unwind, AssertUnwindSafe};
use vh_common::*;

pub fn fresh() -> UserModel<'static> {
    let m = if plain() { plain_workbook() } else { seed_workbook() };
    let bytes = m.to_bytes();
    UserModel::from_bytes(&bytes, "en").unwrap()
}

/// Scripted histories (`scenarios()`) run on the plain workbook (numbers only: none of the known
/// defects of structural operations — re-typed cells, references into a deleted band, links,
/// conditional formats — can fire there), so their structural operations get their own tight
/// classes (`move_rows/plain`, …) instead of the coarse `structural` one.
static PLAIN: std::sync::atomic::AtomicBool = std::sync::atomic::AtomicBool::new(false);
pub fn plain() -> bool { PLAIN.load(std::sync::atomic::Ordering::Relaxed) }
fn set_plain(b: bool) { PLAIN.store(b, std::sync::atomic::Ordering::Relaxed) }
fn plain_kind(k: &str) -> String { if plain() && coarse(group(k)) { format!("{k}/plain") } else { k.to_string() } }

pub struct Interner { map: HashMap<String, i64> }
impl Interner {
    pub fn new() -> Self { Interner { map: HashMap::new() } }
    pub fn id(&mut self, s: &str) -> i64 {
        let n = self.map.len() as i64;
        *self.map.entry(s.to_string()).or_insert(n)
    }
}

fn snap(m: &UserModel) -> String { snapshot(m.get_model(), &SnapOpts::default()) }

/// Root-cause-like tags describing how two snapshots differ. One tag per kind of difference:
/// `retyped` (same cell, content re-interpreted: text -> bool/number/formula, number bits
/// changed, CSE -> dynamic), `value-only` (same formula, other value), `style-only`,
/// `ref-error` (a formula now contains #REF!), `empty-styled+` (an empty cell with a
/// non-inherited style appeared), `<linekind>+` / `<linekind>-` (a line appeared / vanished),
/// `<linekind>~` (a line of that kind changed otherwise).
pub fn diff_tags(a: &str, b: &str) -> Vec<String> {
    let la: BTreeSet<&str> = a.lines().collect();
    let lb: BTreeSet<&str> = b.lines().collect();
    fn key_of(l: &str) -> (String, String) {
        let mut it = l.split(' ');
        let first = it.next().unwrap_or("");
        if first.len() > 1 && first.starts_with('s') && first[1..].chars().all(|c| c.is_ascii_digit()) {
            let k = it.next().unwrap_or("");
            let id = it.next().unwrap_or("");
            (k.to_string(), format!("{first} {k} {id}"))
        } else { (first.to_string(), l.split('=').next().unwrap_or(first).to_string()) }
    }
    let mut removed: BTreeMap<String, &str> = BTreeMap::new();
    for l in la.difference(&lb) { removed.insert(key_of(l).1, l); }
    let mut tags: BTreeSet<String> = BTreeSet::new();
    let strip_style = |s: &str| s.split(" {fmt=").next().unwrap_or("").to_string();
    for l in lb.difference(&la) {
        let (k, key) = key_of(l);
        match removed.remove(&key) {
            Some(old) => {
                if k == "cell" {
                    let (o, n) = (strip_style(old), strip_style(l));
                    let ow: Vec<&str> = o.split(' ').collect();
                    let nw: Vec<&str> = n.split(' ').collect();
                    let (ok, nk) = (ow.get(3).copied().unwrap_or(""), nw.get(3).copied().unwrap_or(""));
                    if o == n { tags.insert("style-only".into()); }
                    else if n.contains("#REF!") && !o.contains("#REF!") { tags.insert("ref-error".into()); }
                    else if ok != nk || ok == "num" || ok == "str" || ok == "bool" || (ok == "array" && ow.get(5) != nw.get(5)) { tags.insert("retyped".into()); }
                    else if (ok == "formula" || ok == "array") && ow.get(4) == nw.get(4) { tags.insert("value-only".into()); }
                    else if ok == "spill" { tags.insert("value-only".into()); }
                    else { tags.insert("cell~".into()); }
                } else { tags.insert(format!("{k}~")); }
            }
            None => {
                if k == "cell" && l.contains(" empty {fmt=") { tags.insert("empty-styled+".into()); }
                else if k == "cell" && l.contains(" spill ") { tags.insert("spill+".into()); }
                else { tags.insert(format!("{k}+")); }
            }
        }
    }
    for (_, l) in removed {
        let (k, _) = key_of(l);
        if k == "cell" && l.contains(" spill ") { tags.insert("spill-".into()); } else { tags.insert(format!("{k}-")); }
    }
    tags.into_iter().collect()
}
pub fn diff_shape(a: &str, b: &str) -> String { diff_tags(a, b).join("+") }

/// operations that relocate cells by re-typing them / re-parse every stored formula share causes
pub fn group(kind: &str) -> &str {
    if kind.ends_with("/plain") { return kind; }
    if kind.starts_with("input@array") || kind.starts_with("input@spill") { return "input-array"; }
    match kind.split(|c| c == '@' || c == '/').next().unwrap_or(kind) {
        "insert_rows" | "insert_columns" | "delete_rows" | "delete_columns" | "move_rows" | "move_columns" => "structural",
        "input-array" => "input-array",
        "array_formula" => "array_formula",
        "rename_sheet" => "rename_sheet",
        _ => kind,
    }
}

/// Operations whose undo/redo/replication is known to be unfaithful in many interacting ways on
/// the pinned tree (cells are relocated by re-typing their text, references into a deleted
/// band are not restored, links / conditional formats / spills are displaced twice or not at
/// all, a deleted sheet comes back without its links): one coarse class per group. Their own
/// properties (C12-C16, C31, C33) examine them in detail.
fn coarse(group: &str) -> bool {
    let group = group.strip_prefix("undo-of-").or_else(|| group.strip_prefix("redo-of-")).unwrap_or(group);
    matches!(group, "structural" | "delete_sheet" | "copy_paste" | "cut_paste" | "paste_csv" | "auto_fill_rows" | "auto_fill_columns"
        | "rename_sheet" | "array_formula" | "input-array")
}

/// report one failure per tag, so that classes name causes rather than combinations
fn fail_tags(or: &mut Oracle, classes: &mut Vec<String>, prefix: &str, kind: &str, a: &str, b2: &str, input: serde_json::Value, detail: String) {
    let g = group(kind);
    if coarse(g) {
        let c = format!("{prefix}:{g}");
        or.fail(&c, input, format!("{detail} [{}]", diff_shape(a, b2)));
        classes.push(c);
        return;
    }
    for t in diff_tags(a, b2) {
        let c = format!("{prefix}:{g}:{t}");
        or.fail(&c, input.clone(), detail.clone());
        classes.push(c);
    }
}

fn depths(m: &UserModel) -> (usize, usize, usize) { m.verif_history_depths() }

/// operation kind refined by what the target cell held (only for typed input): the undo of
/// typing into an absent cell is a different code path from typing over a spill or an array
/// after the call: typed input that produced a (dynamic) array anchor goes through another undo path
fn kind_ctx_after(m: &UserModel, op: &Op, kc: &str) -> String {
    use ironcalc_base::types::Cell;
    if let Op::Input { sheet, row, col, .. } = op {
        let c = m.get_model().workbook.worksheets.get(*sheet as usize).and_then(|w| w.sheet_data.get(row)).and_then(|r| r.get(col));
        if matches!(c, Some(Cell::ArrayFormula { .. })) { return kc.replacen("input@", "input-array@", 1); }
    }
    kc.to_string()
}

fn kind_ctx(m: &UserModel, op: &Op) -> String {
    use ironcalc_base::types::Cell;
    match op {
        Op::Input { sheet, row, col, .. } => {
            let c = m.get_model().workbook.worksheets.get(*sheet as usize).and_then(|w| w.sheet_data.get(row)).and_then(|r| r.get(col));
            let what = match c {
                None => "absent", Some(Cell::EmptyCell { .. }) => "empty", Some(Cell::SpillCell { .. }) => "spill",
                Some(Cell::ArrayFormula { .. }) => "array", Some(Cell::CellFormula { .. }) => "formula", Some(_) => "value",
            };
            let hidden = m.get_model().workbook.worksheets.get(*sheet as usize).map(|w| w.is_row_hidden(*row).unwrap_or(false)).unwrap_or(false);
            format!("input@{what}{}", if hidden { "/hidden" } else { "" })
        }
        Op::ColsWidth { sheet, a, b: b2, .. } | Op::ColsHidden { sheet, a, b: b2, .. } => {
            let hidden = m.get_model().workbook.worksheets.get(*sheet as usize)
                .map(|w| (*a..=*b2).any(|c| w.is_column_hidden(c).unwrap_or(false))).unwrap_or(false);
            format!("{}{}", kind(op), if hidden { "/hidden" } else { "" })
        }
        Op::RowsHeight { sheet, a, b: b2, .. } | Op::RowsHidden { sheet, a, b: b2, .. } => {
            let hidden = m.get_model().workbook.worksheets.get(*sheet as usize)
                .map(|w| (*a..=*b2).any(|r| w.is_row_hidden(r).unwrap_or(false))).unwrap_or(false);
            format!("{}{}", kind(op), if hidden { "/hidden" } else { "" })
        }
        Op::UpdateName { scope, new_scope, .. } => format!("{}{}", kind(op), if scope != new_scope { "/rescope" } else { "" }),
        o => plain_kind(kind(o)),
    }
}

fn guarded<F: FnOnce() -> Result<(), String>>(f: F) -> Result<Result<(), String>, ()> {
    catch_unwind(AssertUnwindSafe(f)).map_err(|_| ())
}

pub struct Stats { pub kinds: BTreeMap<String, u64>, pub ok: u64, pub err: u64, pub nopush: u64, pub histories: u64, pub samples: Vec<String> }
impl Stats { pub fn new() -> Self { Stats { kinds: BTreeMap::new(), ok: 0, err: 0, nopush: 0, histories: 0, samples: vec![] } } }

/// history `h` starts with the scripted prefix `scenarios()[h]` (if any) and is then kept short
fn plan(h: u64, scen: &[Vec<Op>], rng: &mut Rng, lo: i64, hi: i64, tail: &[Op]) -> (std::collections::VecDeque<Op>, i64) {
    match scen.get(h as usize) {
        Some(sc) => { set_plain(true); (sc.iter().chain(tail.iter()).cloned().collect(), (sc.len() + tail.len()) as i64) }
        None => { set_plain(false); (Default::default(), rng.range(lo, hi)) }
    }
}

fn lens(a: &Args) -> (u64, u64) {
    // (histories, max length)
    if a.thorough { (1200, 40) } else { (120, 24) }
}

/// C01: every successful recording operation is undone at once and compared with the snapshot
/// taken before it; then redone so that the history continues; finally walked back to the start.
pub fn run_c01(a: &Args) {
    let mut rng = Rng::new(a.seed);
    let mut cs = Cases::new(&a.out, "c01");
    let mut or = Oracle::default();
    let mut st = Stats::new();
    let mut tags: BTreeMap<String, Vec<String>> = BTreeMap::new();
    let (nh, maxl) = lens(a);
    let scen = scenarios();
    for h in 0..(nh + scen.len() as u64) {
        let (mut script, len) = plan(h, &scen, &mut rng, 6, maxl as i64, &[]);
        let mut m = fresh();
        let mut it = Interner::new();
        let s_init = snap(&m);
        it.id(&s_init);
        let mut ev_in: Vec<String> = vec![];
        let mut ev_out: Vec<String> = vec![];
        let mut ops_done: Vec<Op> = vec![];
        let mut failed_classes: Vec<String> = vec![];
        let mut redo_unfaithful = false;
        let mut fwd: Vec<(String, String)> = vec![]; // (snapshot before the operation, its class context), one per recorded operation
        st.histories += 1;
        for _ in 0..len {
            let op = script.pop_front().unwrap_or_else(|| gen_op(&mut rng, &ctx_of(&m), false));
            let k = kind(&op);
            let kc = kind_ctx(&m, &op);
            *st.kinds.entry(k.to_string()).or_insert(0) += 1;
            m.evaluate(); // a stale value left by an earlier call (paste_csv does not evaluate) is not this step's business
            let s0 = snap(&m);
            let d0 = depths(&m);
            ops_done.push(op.clone());
            match guarded(|| apply_op(&mut m, &op)) {
                Err(()) => { or.fail(&format!("panic:{k}"), json!({"history": ops_json(&ops_done)}), format!("{k} panicked")); failed_classes.push(format!("panic:{k}")); break; }
                Ok(Err(_)) => {
                    st.err += 1;
                    // a failed call that nevertheless changed something is property C04's finding;
                    // the rest of this history would only echo it
                    if snap(&m) != s0 || depths(&m) != d0 {
                        let c = format!("c04-leak:{}", kind(&op));
                        or.fail(&c, json!({"history": ops_json(&ops_done)}), format!("{k} returned Err but changed the workbook or the history (see C04)"));
                        failed_classes.push(c);
                        break;
                    }
                    continue;
                }
                Ok(Ok(())) => {}
            }
            st.ok += 1;
            let d1 = depths(&m);
            if d1.0 != d0.0 + 1 { st.nopush += 1; continue; } // succeeded without recording (e.g. rename to same name)
            m.evaluate();
            let kc = kind_ctx_after(&m, &op, &kc);
            let s1 = snap(&m);
            ev_in.push(format!("d{}", it.id(&s1)));
            ev_out.push(format!("{}:1:0", it.id(&s1)));
            or.checked += 1;
            // undo
            match guarded(|| m.undo()) {
                Err(()) => { or.fail(&format!("panic:undo:{k}"), json!({"history": ops_json(&ops_done)}), "undo panicked".into()); failed_classes.push(format!("panic:undo:{k}")); break; }
                Ok(Err(e)) => { let c = format!("undo-error:{k}"); or.fail(&c, json!({"history": ops_json(&ops_done)}), format!("undo of {k} returned Err({e})")); failed_classes.push(c); }
                Ok(Ok(())) => {}
            }
            let s0b = snap(&m);
            ev_in.push("u".into());
            ev_out.push(format!("{}:{}:{}", it.id(&s0b), b(m.can_undo()), b(m.can_redo())));
            if s0b != s0 {
                fail_tags(&mut or, &mut failed_classes, "undo", &kc, &s0, &s0b, json!({"history": ops_json(&ops_done), "diff": snap_diff(&s0, &s0b, 4)}), format!("undo of {k} did not restore the snapshot taken before it"));
                break; // what follows a broken undo would only echo it
            }
            // redo, so that the history goes on from the state after the operation
            let _ = guarded(|| m.redo());
            let s1b = snap(&m);
            if s1b != s1 {
                // an unfaithful redo is property C02's finding (its own check reports it); for C01 the
                // hypothesis of the machine theorems no longer holds from here on, so the history ends
                // before this event and is not walked back
                redo_unfaithful = true;
                *st.kinds.entry(format!("(history ended: redo of {kc} unfaithful, see C02)")).or_insert(0) += 1;
                break;
            }
            ev_in.push("r".into());
            ev_out.push(format!("{}:{}:{}", it.id(&s1b), b(m.can_undo()), b(m.can_redo())));
            fwd.push((s0.clone(), kc.clone()));
        }
        // walk back to the beginning; every single undo must give the state before its operation
        if failed_classes.is_empty() && !redo_unfaithful {
            let mut guard = 0;
            while m.can_undo() && guard < 500 {
                if guarded(|| m.undo()).is_err() { break; }
                guard += 1;
                let sw = snap(&m);
                or.checked += 1;
                if let Some((s_exp, kc_exp)) = fwd.pop() {
                    if sw != s_exp {
                        // a history with operations of the coarse groups is known to walk back unfaithfully
                        // (same class as the end-of-walk comparison); anything else gets a tight class
                        let any_coarse = ops_done.iter().any(|o| coarse(group(kind(o)))) && !plain();
                        let (pre, kk) = if any_coarse { ("walkback", "structural".to_string()) } else { ("walkback-step", kc_exp.clone()) };
                        fail_tags(&mut or, &mut failed_classes, pre, &kk, &s_exp, &sw, json!({"history": ops_json(&ops_done), "undone_steps": guard, "diff": snap_diff(&s_exp, &sw, 4)}), format!("while walking back, the undo of {kc_exp} did not give the state before it"));
                        break;
                    }
                }
                ev_in.push("u".into());
                ev_out.push(format!("{}:{}:{}", it.id(&sw), b(m.can_undo()), b(m.can_redo())));
            }
            or.checked += 1;
            let sb = snap(&m);
            if failed_classes.is_empty() && sb != s_init {
                let any_coarse = ops_done.iter().any(|o| coarse(group(kind(o))));
                fail_tags(&mut or, &mut failed_classes, "walkback", if any_coarse { "structural" } else { "plain" }, &s_init, &sb, json!({"history": ops_json(&ops_done), "diff": snap_diff(&s_init, &sb, 4)}), "undoing the whole history did not restore the initial snapshot".into());
            }
        }
        if !failed_classes.is_empty() { tags.insert(cs.n.to_string(), failed_classes); }
        if h < 2 { st.samples.push(format!("{:?}", ops_done.iter().take(6).collect::<Vec<_>>())); }
        cs.case(&format!("hist {}", ev_in.join(" ")), &ev_out.join(" "));
    }
    finish(cs, or, st, tags);
}

fn finish(cs: Cases, or: Oracle, st: Stats, tags: BTreeMap<String, Vec<String>>) {
    cs.finish(json!({
        "oracle_failures": or.failures, "oracle_checked": or.checked, "oracle_failures_per_class": or.per_class,
        "distribution": {"op_kinds": st.kinds, "ok": st.ok, "err": st.err, "ok_without_history_entry": st.nopush, "histories": st.histories},
        "samples": st.samples, "distinct_nontrivial": st.ok, "case_tags": tags,
    }));
}

/// C02, first phase: every recording operation is undone and redone at once; the snapshot after
/// the redo must be the snapshot after the operation (redo re-runs the high-level call for most
/// diff kinds, so this is where a wrong forward arm shows).
fn c02_triples(a: &Args, rng: &mut Rng, cs: &mut Cases, or: &mut Oracle, st: &mut Stats, tags: &mut BTreeMap<String, Vec<String>>) {
    let (nh, maxl) = lens(a);
    let scen = scenarios();
    for h in 0..(nh / 2 + scen.len() as u64) {
        let (mut script, len) = plan(h, &scen, rng, 6, maxl as i64, &[]);
        let mut m = fresh();
        let mut it = Interner::new();
        it.id(&snap(&m));
        let mut ev_in: Vec<String> = vec![];
        let mut ev_out: Vec<String> = vec![];
        let mut ops_done: Vec<Op> = vec![];
        let mut failed_classes: Vec<String> = vec![];
        st.histories += 1;
        for _ in 0..len {
            let op = script.pop_front().unwrap_or_else(|| gen_op(rng, &ctx_of(&m), false));
            let k = kind(&op);
            let kc = kind_ctx(&m, &op);
            *st.kinds.entry(k.to_string()).or_insert(0) += 1;
            m.evaluate();
            let s0 = snap(&m);
            let d0 = depths(&m);
            ops_done.push(op.clone());
            match guarded(|| apply_op(&mut m, &op)) {
                Err(()) => { let c = format!("panic:{k}"); or.fail(&c, json!({"history": ops_json(&ops_done)}), format!("{k} panicked")); failed_classes.push(c); break; }
                Ok(Err(_)) => { st.err += 1; if snap(&m) != s0 || depths(&m) != d0 { let c = format!("c04-leak:{}", kind(&op)); or.fail(&c, json!({"history": ops_json(&ops_done)}), format!("{k} returned Err but changed the workbook or the history (see C04)")); failed_classes.push(c); break; } continue; }
                Ok(Ok(())) => {}
            }
            st.ok += 1;
            if depths(&m).0 != d0.0 + 1 { st.nopush += 1; continue; }
            m.evaluate();
            let kc = kind_ctx_after(&m, &op, &kc);
            let s1 = snap(&m);
            ev_in.push(format!("d{}", it.id(&s1)));
            ev_out.push(format!("{}:1:0", it.id(&s1)));
            if !matches!(guarded(|| m.undo()), Ok(Ok(()))) { break; }
            let s0b = snap(&m);
            ev_in.push("u".into());
            ev_out.push(format!("{}:{}:{}", it.id(&s0b), b(m.can_undo()), b(m.can_redo())));
            if s0b != s0 {
                // an unfaithful undo is C01's finding, not this property's: leave it out of the
                // event list handed to the machine, and stop (what follows would echo it)
                ev_in.pop();
                ev_out.pop();
                break;
            }
            or.checked += 1;
            match guarded(|| m.redo()) {
                Err(()) => { let c = format!("panic:redo:{k}"); or.fail(&c, json!({"history": ops_json(&ops_done)}), "redo panicked".into()); failed_classes.push(c); break; }
                Ok(Err(e)) => { let c = format!("redo-error:{}", group(k)); or.fail(&c, json!({"history": ops_json(&ops_done)}), format!("redo of {k} returned Err({e})")); failed_classes.push(c); break; }
                Ok(Ok(())) => {}
            }
            let s1b = snap(&m);
            ev_in.push("r".into());
            ev_out.push(format!("{}:{}:{}", it.id(&s1b), b(m.can_undo()), b(m.can_redo())));
            if s1b != s1 {
                fail_tags(or, &mut failed_classes, "redo", &kc, &s1, &s1b, json!({"history": ops_json(&ops_done), "diff": snap_diff(&s1, &s1b, 4)}), format!("op; undo; redo: redo of {k} did not reproduce the state that followed the operation"));
                break;
            }
        }
        if !failed_classes.is_empty() { tags.insert(cs.n.to_string(), failed_classes); }
        cs.case(&format!("hist {}", ev_in.join(" ")), &ev_out.join(" "));
    }
}

/// C02: random walks of the cursor. The expected snapshot after every undo/redo is the one
/// recorded when that state was first reached (the cursor specification).
pub fn run_c02(a: &Args) {
    let mut rng = Rng::new(a.seed ^ 0xC02);
    let mut cs = Cases::new(&a.out, "c02");
    let mut or = Oracle::default();
    let mut st = Stats::new();
    let mut tags: BTreeMap<String, Vec<String>> = BTreeMap::new();
    let (nh, maxl) = lens(a);
    c02_triples(a, &mut rng, &mut cs, &mut or, &mut st, &mut tags);
    let scen = scenarios();
    for h in 0..(nh + scen.len() as u64) {
        let (mut script, len) = plan(h, &scen, &mut rng, 8, (maxl + 10) as i64, &[Op::Undo, Op::Undo, Op::Redo, Op::Redo, Op::Undo, Op::Redo]);
        let mut m = fresh();
        let mut it = Interner::new();
        // zipper of snapshots: before (most recent first), current, after; plus the op that led to each
        let mut before: Vec<(String, String)> = vec![];
        let mut cur: (String, String) = (snap(&m), "init".into());
        let mut after: Vec<(String, String)> = vec![];
        it.id(&cur.0);
        let mut ev_in: Vec<String> = vec![];
        let mut ev_out: Vec<String> = vec![];
        let mut ops_done: Vec<Op> = vec![];
        let mut failed_classes: Vec<String> = vec![];
        st.histories += 1;
        for _ in 0..len {
            if !failed_classes.is_empty() { break; }
            let op = script.pop_front().unwrap_or_else(|| gen_op(&mut rng, &ctx_of(&m), true));
            let k = kind(&op);
            let kc = kind_ctx(&m, &op);
            *st.kinds.entry(k.to_string()).or_insert(0) += 1;
            let d0 = depths(&m);
            ops_done.push(op.clone());
            let r = guarded(|| apply_op(&mut m, &op));
            match r {
                Err(()) => { let c = format!("panic:{k}"); or.fail(&c, json!({"history": ops_json(&ops_done)}), format!("{k} panicked")); failed_classes.push(c); break; }
                Ok(Err(_)) => { st.err += 1;
                    if !matches!(op, Op::Undo | Op::Redo) {
                        let dd = depths(&m);
                        if dd == d0 && snap(&m) == cur.0 { continue; }
                        let c = format!("c04-leak:{}", kind(&op));
                        or.fail(&c, json!({"history": ops_json(&ops_done)}), format!("{k} returned Err but changed the workbook or the history (see C04)"));
                        failed_classes.push(c);
                        break;
                    } }
                Ok(Ok(())) => { st.ok += 1; }
            }
            if !matches!(op, Op::Undo | Op::Redo) { m.evaluate(); }
            let s = snap(&m);
            let d1 = depths(&m);
            match op {
                Op::Undo => {
                    ev_in.push("u".into());
                    or.checked += 1;
                    if let Some(prev) = before.pop() {
                        let undone = std::mem::replace(&mut cur, prev);
                        after.insert(0, undone.clone());
                        if s != cur.0 {
                            fail_tags(&mut or, &mut failed_classes, "undo", &undone.1, &cur.0, &s, json!({"history": ops_json(&ops_done), "diff": snap_diff(&cur.0, &s, 4)}), format!("undo of {} did not give the state before it", undone.1));
                            cur.0 = s.clone(); // resynchronise
                        }
                    } else if s != cur.0 {
                        let c = "undo-on-empty-changed-state".to_string();
                        or.fail(&c, json!({"history": ops_json(&ops_done)}), "undo with empty history changed the workbook".into());
                        failed_classes.push(c);
                    }
                }
                Op::Redo => {
                    ev_in.push("r".into());
                    or.checked += 1;
                    if !after.is_empty() {
                        let next = after.remove(0);
                        let prev = std::mem::replace(&mut cur, next);
                        before.push(prev);
                        if s != cur.0 {
                            let k2 = cur.1.clone();
                            fail_tags(&mut or, &mut failed_classes, "redo", &k2, &cur.0, &s, json!({"history": ops_json(&ops_done), "diff": snap_diff(&cur.0, &s, 4)}), format!("redo of {k2} did not reproduce the state that followed the original operation"));
                            cur.0 = s.clone();
                        }
                    } else if s != cur.0 {
                        let c = "redo-on-empty-changed-state".to_string();
                        or.fail(&c, json!({"history": ops_json(&ops_done)}), "redo with empty redo list changed the workbook".into());
                        failed_classes.push(c);
                    }
                }
                _ => {
                    if d1.0 != d0.0 + 1 {
                        st.nopush += 1;
                        // a successful call that records nothing must not change the workbook or the redo list
                        if s != cur.0 || d1.1 != d0.1 {
                            let c = format!("unrecorded-change:{}:{}", group(k), diff_shape(&cur.0, &s));
                            or.fail(&c, json!({"history": ops_json(&ops_done), "diff": snap_diff(&cur.0, &s, 4)}), format!("{k} succeeded, recorded no history entry, yet changed the workbook or the redo list"));
                            failed_classes.push(c);
                            cur.0 = s.clone();
                        }
                        continue;
                    }
                    let kc2 = kind_ctx_after(&m, &op, &kc);
                    let prev = std::mem::replace(&mut cur, (s.clone(), kc2));
                    before.push(prev);
                    after.clear();
                    ev_in.push(format!("d{}", it.id(&s)));
                }
            }
            ev_out.push(format!("{}:{}:{}", it.id(&s), b(m.can_undo()), b(m.can_redo())));
            if !failed_classes.is_empty() { break; } // later steps would only echo the first failure
            // can_undo / can_redo are the cursor's
            if m.can_undo() != !before.is_empty() || m.can_redo() != !after.is_empty() {
                let c = "cursor-flags".to_string();
                or.fail(&c, json!({"history": ops_json(&ops_done)}), format!("can_undo={} can_redo={} but the cursor is at {} of {}", m.can_undo(), m.can_redo(), before.len(), before.len() + after.len()));
                failed_classes.push(c);
            }
        }
        if !failed_classes.is_empty() { tags.insert(cs.n.to_string(), failed_classes); }
        if h < 2 { st.samples.push(format!("{:?}", ops_done.iter().take(8).collect::<Vec<_>>())); }
        cs.case(&format!("hist {}", ev_in.join(" ")), &ev_out.join(" "));
    }
    finish(cs, or, st, tags);
}

/// C03: primary with undo/redo; replicas fed with the queue cut three ways.
pub fn run_c03(a: &Args) {
    let mut rng = Rng::new(a.seed ^ 0xC03);
    let mut cs = Cases::new(&a.out, "c03");
    let mut or = Oracle::default();
    let mut st = Stats::new();
    let mut tags: BTreeMap<String, Vec<String>> = BTreeMap::new();
    let (nh, maxl) = lens(a);
    let opts = SnapOpts { values: true, views: false, styles: true };
    let scen = scenarios();
    for h in 0..(nh + scen.len() as u64) {
        let (mut script, len) = plan(h, &scen, &mut rng, 6, maxl as i64, &[Op::Undo, Op::Redo, Op::Undo]);
        let seed_bytes = (if plain() { plain_workbook() } else { seed_workbook() }).to_bytes();
        let mut p = UserModel::from_bytes(&seed_bytes, "en").unwrap();
        let mut r_each = UserModel::from_bytes(&seed_bytes, "en").unwrap();
        let mut r_rand = UserModel::from_bytes(&seed_bytes, "en").unwrap();
        let mut r_end = UserModel::from_bytes(&seed_bytes, "en").unwrap();
        let mut all_batches_end: Vec<Vec<u8>> = vec![];
        let mut pending_rand: Vec<Vec<u8>> = vec![];
        let mut ops_done: Vec<Op> = vec![];
        let mut failed_classes: Vec<String> = vec![];
        let mut ev: Vec<String> = vec![];
        let mut cuts: Vec<String> = vec![];
        let mut undo_kinds: Vec<String> = vec![];
        let mut redo_kinds: Vec<String> = vec![];
        st.histories += 1;
        let mut bad = false;
        for _ in 0..len {
            if !failed_classes.is_empty() { bad = true; break; }
            let op = script.pop_front().unwrap_or_else(|| gen_op(&mut rng, &ctx_of(&p), true));
            let k_plain = match &op { Op::UpdateName { scope, new_scope, .. } if scope != new_scope => format!("{}/rescope", kind(&op)), _ => plain_kind(kind(&op)) };
            let k = k_plain.as_str();
            *st.kinds.entry(kind(&op).to_string()).or_insert(0) += 1;
            ops_done.push(op.clone());
            let d0 = depths(&p);
            let s_before = snapshot(p.get_model(), &opts);
            let res = guarded(|| apply_op(&mut p, &op));
            let d1 = depths(&p);
            let res_class = match res { Err(()) => "panic", Ok(Err(_)) => "err", Ok(Ok(())) => "ok" };
            if res_class == "panic" { bad = true; break; }
            if res_class == "ok" { st.ok += 1 } else { st.err += 1 }
            // a call that failed must not have enqueued anything for the replicas
            if res_class == "err" && !matches!(op, Op::Undo | Op::Redo) && (d1 != d0 || snapshot(p.get_model(), &opts) != s_before) {
                let c = format!("c04-leak:{}", kind(&op));
                or.fail(&c, json!({"history": ops_json(&ops_done)}), format!("{k} returned Err but changed the workbook, the history or the outgoing queue (see C04)"));
                failed_classes.push(c);
                bad = true;
                break;
            }
            ev.push(match op { Op::Undo => "u".into(), Op::Redo => "r".into(), _ => if d1.0 == d0.0 + 1 { "d".to_string() } else { "n".to_string() } });
            // which operation an undo / redo event concerns (classes name the operation, not the event)
            let k_eff: String = match op {
                Op::Undo => match undo_kinds.pop() { Some(k0) => { redo_kinds.push(k0.clone()); format!("undo-of-{}", group(&k0)) } None => "undo-on-empty".to_string() },
                Op::Redo => match redo_kinds.pop() { Some(k0) => { undo_kinds.push(k0.clone()); format!("redo-of-{}", group(&k0)) } None => "redo-on-empty".to_string() },
                _ => { if d1.0 == d0.0 + 1 { undo_kinds.push(k.to_string()); redo_kinds.clear(); } k.to_string() }
            };
            let k = k_eff.as_str();
            // schedule 1: flush after every step
            let q = p.flush_send_queue();
            all_batches_end.push(q.clone());
            pending_rand.push(q.clone());
            let r1 = guarded(|| r_each.apply_external_diffs(&q));
            if !matches!(r1, Ok(Ok(()))) && failed_classes.is_empty() {
                let c = format!("replica-apply-failed:{k}");
                or.fail(&c, json!({"history": ops_json(&ops_done)}), format!("replica could not apply the batch produced by {k}: {:?}", r1));
                failed_classes.push(c);
            }
            // schedule 2: PRNG-chosen flush points (batches are concatenations of per-step queues,
            // re-encoded by the primary's own format: we replay the per-step blobs back to back)
            if rng.chance(1, 3) {
                cuts.push(format!("{}", pending_rand.len()));
                for blob in pending_rand.drain(..) { let _ = guarded(|| r_rand.apply_external_diffs(&blob)); }
            }
            or.checked += 1;
            let sp = snapshot(p.get_model(), &opts);
            let s1 = snapshot(r_each.get_model(), &opts);
            if sp != s1 && failed_classes.is_empty() {
                fail_tags(&mut or, &mut failed_classes, "replica-diverged", k, &sp, &s1, json!({"history": ops_json(&ops_done), "diff": snap_diff(&sp, &s1, 4)}), format!("after {k} the replica fed step by step differs from the primary"));
            }
        }
        if !bad {
            for blob in pending_rand.drain(..) { let _ = guarded(|| r_rand.apply_external_diffs(&blob)); }
            for blob in all_batches_end.iter() { let _ = guarded(|| r_end.apply_external_diffs(blob)); }
            let sp = snapshot(p.get_model(), &opts);
            for (name, r) in [("random-cuts", &r_rand), ("all-at-end", &r_end)] {
                or.checked += 1;
                let sr = snapshot(r.get_model(), &opts);
                if sr != sp && failed_classes.is_empty() {
                    let any_coarse = !plain() && ops_done.iter().any(|o| coarse(group(kind(o))));
                    let c = format!("replica-diverged-final:{name}:{}", if any_coarse { "structural".to_string() } else { diff_shape(&sp, &sr) });
                    or.fail(&c, json!({"history": ops_json(&ops_done), "diff": snap_diff(&sp, &sr, 4)}), format!("replica ({name}) differs from the primary at the end"));
                    failed_classes.push(c);
                }
            }
        }
        if !failed_classes.is_empty() { tags.insert(cs.n.to_string(), failed_classes); }
        if h < 2 { st.samples.push(format!("{:?}", ops_done.iter().take(8).collect::<Vec<_>>())); }
        // the generic machine at snapshot ids is exercised by C01/C02; here the model checks the
        // schedule algebra: batches cut at `cuts` concatenate to the whole queue
        cs.case(&format!("sched {} | {}", ev.join(" "), cuts.join(" ")), "ok");
    }
    finish(cs, or, st, tags);
}

/// C04: invalid calls injected into histories after a partial undo.
pub fn run_c04(a: &Args) {
    let mut rng = Rng::new(a.seed ^ 0xC04);
    let mut cs = Cases::new(&a.out, "c04");
    let mut or = Oracle::default();
    let mut st = Stats::new();
    let tags: BTreeMap<String, Vec<String>> = BTreeMap::new();
    let states = if a.thorough { 40 } else { 4 };
    let bad_ops = invalid_matrix();
    for sidx in 0..states {
        // a reachable state with a non-empty undo AND redo stack
        let mut m = fresh();
        let len = rng.range(4, 14);
        for _ in 0..len { let op = gen_op(&mut rng, &ctx_of(&m), false); let _ = guarded(|| apply_op(&mut m, &op)); }
        prepare_matrix_state(&mut m);
        let _ = guarded(|| m.undo());
        if sidx % 2 == 0 { let _ = guarded(|| m.undo()); }
        st.histories += 1;
        for (label, op) in bad_ops.iter() {
            let k = kind(op);
            *st.kinds.entry(format!("{k}/{label}")).or_insert(0) += 1;
            let s0 = snap(&m);
            let d0 = depths(&m);
            let (cu0, cr0) = (m.can_undo(), m.can_redo());
            let res = guarded(|| apply_op(&mut m, op));
            let s1 = snap(&m);
            let d1 = depths(&m);
            match res {
                Err(()) => { or.fail(&format!("panic:{k}/{label}"), json!({"op": format!("{op:?}")}), format!("{k} panicked on {label}")); m = fresh(); continue; }
                Ok(Ok(())) => { st.ok += 1;
                    // accepted although the argument class is invalid: not this property's business,
                    // but undo it so that the state stays comparable
                    if d1.0 == d0.0 + 1 { let _ = guarded(|| m.undo()); }
                    cs.case(&format!("call {k}/{label} accepted"), "accepted");
                    continue; }
                Ok(Err(_)) => { st.err += 1; }
            }
            or.checked += 1;
            let mut what = vec![];
            if s1 != s0 { what.push(format!("workbook changed ({})", diff_shape(&s0, &s1))); }
            if d1.0 != d0.0 { what.push(format!("undo stack {} -> {}", d0.0, d1.0)); }
            if d1.1 != d0.1 { what.push(format!("redo stack {} -> {}", d0.1, d1.1)); }
            if d1.2 != d0.2 { what.push(format!("send queue {} -> {}", d0.2, d1.2)); }
            if (m.can_undo(), m.can_redo()) != (cu0, cr0) { what.push("can_undo/can_redo changed".to_string()); }
            let obs = if what.is_empty() { "unchanged".to_string() } else {
                let kind_of = if d1.0 != d0.0 || d1.1 != d0.1 { "history" } else if s1 != s0 { "partial-edit" } else { "queue" };
                let c = format!("failed-call-{kind_of}:{k}/{label}");
                or.fail(&c, json!({"op": format!("{op:?}"), "state_index": sidx, "diff": snap_diff(&s0, &s1, 3)}), format!("{k} returned Err on {label} but {}", what.join(", ")));
                // restore a clean state for the next cell of the matrix
                m = fresh();
                let len = rng.range(4, 10);
                for _ in 0..len { let op = gen_op(&mut rng, &ctx_of(&m), false); let _ = guarded(|| apply_op(&mut m, &op)); }
                prepare_matrix_state(&mut m);
                let _ = guarded(|| m.undo());
                format!("changed:{kind_of}")
            };
            cs.case(&format!("call {k}/{label} err"), &obs);
        }
    }
    // the one class that needs a particular state: deleting the only sheet
    {
        let mut m = fresh();
        let _ = guarded(|| m.delete_sheet(1));
        let _ = guarded(|| m.set_user_input(0, 4, 4, "7"));
        let _ = guarded(|| m.undo());
        let s0 = snap(&m);
        let d0 = depths(&m);
        let res = guarded(|| m.delete_sheet(0));
        let s1 = snap(&m);
        let d1 = depths(&m);
        *st.kinds.entry("delete_sheet/only-sheet".to_string()).or_insert(0) += 1;
        match res {
            Ok(Err(_)) => {
                or.checked += 1;
                st.err += 1;
                let obs = if s1 == s0 && d1 == d0 { "unchanged".to_string() } else {
                    let kind_of = if d1.0 != d0.0 || d1.1 != d0.1 { "history" } else if s1 != s0 { "partial-edit" } else { "queue" };
                    or.fail(&format!("failed-call-{kind_of}:delete_sheet/only-sheet"), json!({"op": "delete_sheet(0) on a one-sheet workbook after input+undo"}), format!("delete_sheet returned Err but depths {:?} -> {:?}, workbook changed: {}", d0, d1, s1 != s0));
                    format!("changed:{kind_of}")
                };
                cs.case("call delete_sheet/only-sheet err", &obs);
            }
            Ok(Ok(())) => cs.case("call delete_sheet/only-sheet accepted", "accepted"),
            Err(()) => or.fail("panic:delete_sheet/only-sheet", json!({}), "panicked".into()),
        }
    }
    st.samples = bad_ops.iter().take(6).map(|(l, o)| format!("{l}: {o:?}")).collect();
    finish(cs, or, st, tags);
}

/// what some cells of the matrix need in order to reach their failing branch: two custom named
/// styles, a spilled dynamic array, data in the last row and column, a defined name, a
/// conditional format, a link, a second sheet called Sheet2 — and two recorded operations on
/// top, so that undoing one of them leaves both stacks non-empty
pub fn prepare_matrix_state(m: &mut UserModel) {
    let n = m.get_model().workbook.worksheets.len();
    if !m.get_model().workbook.worksheets.iter().any(|w| w.name.to_lowercase() == "sheet2") {
        let _ = guarded(|| m.new_sheet());
        let last = m.get_model().workbook.worksheets.len() as u32 - 1;
        let _ = guarded(|| m.rename_sheet(last, "Sheet2"));
    }
    let _ = n;
    for op in [
        Op::CreateNamedStyle { name: "MyStyle".into(), bold: true, fmt: "general".into() },
        Op::CreateNamedStyle { name: "Other".into(), bold: false, fmt: "0.00".into() },
        Op::ApplyNamedStyle { area: AreaS { sheet: 0, row: 20, col: 1, w: 1, h: 1 }, name: "MyStyle".into() },
        Op::Input { sheet: 0, row: 30, col: 8, text: "=SEQUENCE(3)".into() },
        Op::Input { sheet: 0, row: 1_048_576, col: 2, text: "edge".into() },
        Op::Input { sheet: 0, row: 3, col: 16384, text: "edge".into() },
        Op::NewName { name: "Name1".into(), scope: None, formula: "Sheet1!$A$1".into() },
        Op::AddCf { sheet: 0, range: "A1:A6".into(), json: "{\"type\":\"Blanks\",\"format\":{\"font\":null,\"fill\":null,\"border\":null,\"num_fmt\":null,\"alignment\":null},\"stop_if_true\":false}".into() },
        Op::SetLink { sheet: 0, row: 21, col: 1, target: "https://example.com".into(), label: Some("l".into()) },
        Op::Input { sheet: 0, row: 22, col: 1, text: "41".into() },
        Op::Input { sheet: 0, row: 22, col: 2, text: "42".into() },
    ] { let _ = guarded(|| apply_op(m, &op)); }
}

/// every mutating method × the classes of invalid argument the property lists
pub fn invalid_matrix() -> Vec<(String, Op)> {
    let mut v: Vec<(String, Op)> = vec![];
    let bad_sheet = 57u32;
    let a_ok = AreaS { sheet: 0, row: 2, col: 2, w: 2, h: 2 };
    let a_bad_sheet = AreaS { sheet: bad_sheet, row: 2, col: 2, w: 2, h: 2 };
    let a_off = AreaS { sheet: 0, row: 1_048_576, col: 16384, w: 3, h: 3 };
    let a_zero = AreaS { sheet: 0, row: 0, col: 0, w: 1, h: 1 };
    let a_span = AreaS { sheet: 0, row: 1_048_575, col: 1, w: 1, h: 4 };
    let mut add = |l: &str, o: Op| v.push((l.to_string(), o));
    for (l, s, r, c) in [("bad-sheet", bad_sheet, 1, 1), ("row-0", 0, 0, 1), ("col-0", 0, 1, 0), ("row-neg", 0, -1, 1), ("row-past", 0, 1_048_577, 1), ("col-past", 0, 1, 16385)] {
        add(l, Op::Input { sheet: s, row: r, col: c, text: "5".into() });
        add(l, Op::ArrayFormula { sheet: s, row: r, col: c, w: 2, h: 2, text: "=A1:B2".into() });
        add(l, Op::SetLink { sheet: s, row: r, col: c, target: "https://x.y".into(), label: None });
        add(l, Op::DeleteLink { sheet: s, row: r, col: c });
    }
    for (l, ar) in [("bad-sheet", a_bad_sheet), ("off-grid", a_off), ("zero", a_zero), ("partly-off-grid", a_span)] {
        add(l, Op::ClearAll(ar)); add(l, Op::ClearContents(ar)); add(l, Op::ClearFormatting(ar));
        add(l, Op::RangeStyle { area: ar, path: "font.b".into(), value: "true".into() });
        add(l, Op::Border { area: ar, json: "{\"item\":{\"style\":\"thin\",\"color\":\"#FF0000\"},\"type\":\"All\"}".into() });
        add(l, Op::AutoFillRows { area: ar, to: 9 });
        add(l, Op::AutoFillCols { area: ar, to: 5 });
        add(l, Op::PasteCsv { area: ar, csv: "1,2\n3,4\n".into() });
        add(l, Op::ApplyNamedStyle { area: ar, name: "Normal".into() });
    }
    add("bad-style-path", Op::RangeStyle { area: a_ok, path: "no.such.path".into(), value: "1".into() });
    add("bad-style-value", Op::RangeStyle { area: a_ok, path: "font.color".into(), value: "notacolor".into() });
    add("bad-style-value-partly-off-grid", Op::RangeStyle { area: a_span, path: "font.color".into(), value: "notacolor".into() });
    add("bad-named-style", Op::ApplyNamedStyle { area: a_ok, name: "NoSuchStyle".into() });
    for (l, s, at, n) in [("bad-sheet", bad_sheet, 2, 1), ("count-0", 0, 2, 0), ("count-neg", 0, 2, -2), ("at-0", 0, 0, 1), ("at-neg", 0, -3, 1), ("past-grid", 0, 1_048_576, 5), ("push-off-grid", 0, 1, 1_048_576)] {
        add(l, Op::InsertRows { sheet: s, at, n }); add(l, Op::DeleteRows { sheet: s, at, n });
        let (atc, nc) = (if at > 16384 { 16384 } else { at }, if n > 16384 { 16384 } else { n });
        add(l, Op::InsertCols { sheet: s, at: atc, n: nc }); add(l, Op::DeleteCols { sheet: s, at: atc, n: nc });
        add(l, Op::MoveRows { sheet: s, at, n: n.clamp(-2, 3), delta: 2 });
        add(l, Op::MoveCols { sheet: s, at: atc, n: n.clamp(-2, 3), delta: 2 });
    }
    add("delta-off-grid", Op::MoveRows { sheet: 0, at: 2, n: 1, delta: -5 });
    add("delta-off-grid", Op::MoveCols { sheet: 0, at: 2, n: 1, delta: 16384 });
    for (l, s, x, y) in [("bad-sheet", bad_sheet, 2, 3), ("range-0", 0, 0, 2), ("range-past", 0, 16383, 16385), ("reversed", 0, 5, 2)] {
        add(l, Op::ColsWidth { sheet: s, a: x, b: y, w: 50.0 }); add(l, Op::ColsHidden { sheet: s, a: x, b: y, hidden: true });
        let (rx, ry) = if x > 1000 { (1_048_575, 1_048_577) } else { (x, y) };
        add(l, Op::RowsHeight { sheet: s, a: rx, b: ry, h: 30.0 }); add(l, Op::RowsHidden { sheet: s, a: rx, b: ry, hidden: true });
    }
    add("negative-size", Op::ColsWidth { sheet: 0, a: 2, b: 3, w: -4.0 });
    add("negative-size", Op::RowsHeight { sheet: 0, a: 2, b: 3, h: -4.0 });
    for (l, s, n) in [("bad-sheet", bad_sheet, 1), ("negative", 0, -1), ("past-grid", 0, 1_048_577)] {
        add(l, Op::FrozenRows { sheet: s, n }); add(l, Op::FrozenCols { sheet: s, n: if n > 16384 { 16385 } else { n } });
    }
    add("bad-sheet", Op::DuplicateSheet(bad_sheet)); add("bad-sheet", Op::DeleteSheet(bad_sheet));
    add("bad-sheet", Op::HideSheet(bad_sheet)); add("bad-sheet", Op::UnhideSheet(bad_sheet));
    add("bad-sheet", Op::GridLines(bad_sheet, false)); add("bad-sheet", Op::SheetColor(bad_sheet, "#FF0000".into()));
    add("bad-colour", Op::SheetColor(0, "red".into())); add("bad-colour", Op::SheetColor(0, "#12".into()));
    add("bad-sheet", Op::RenameSheet(bad_sheet, "X".into())); add("empty-name", Op::RenameSheet(0, "".into()));
    add("invalid-name", Op::RenameSheet(0, "bad:name".into())); add("too-long-name", Op::RenameSheet(0, "0123456789012345678901234567890123".into()));
    add("duplicate-name", Op::RenameSheet(0, "Sheet2".into())); add("duplicate-name-case", Op::RenameSheet(0, "sheet2".into()));
    add("bad-sheet", Op::MoveSheet(bad_sheet, 0)); add("bad-target", Op::MoveSheet(0, bad_sheet));
    add("bad-timezone", Op::Timezone("Mars/Olympus".into())); add("bad-locale", Op::Locale("xx".into()));
    add("invalid-name", Op::NewName { name: "bad name".into(), scope: None, formula: "1".into() });
    add("name-is-reference", Op::NewName { name: "A1".into(), scope: None, formula: "1".into() });
    add("bad-scope", Op::NewName { name: "Good".into(), scope: Some(bad_sheet), formula: "1".into() });
    add("missing-name", Op::DeleteName { name: "NoSuchName".into(), scope: None });
    add("missing-name", Op::UpdateName { name: "NoSuchName".into(), scope: None, new_name: "Z".into(), new_scope: None, formula: "1".into() });
    add("missing-style", Op::DeleteNamedStyle("NoSuchStyle".into()));
    add("missing-style", Op::UpdateNamedStyle { name: "NoSuchStyle".into(), new_name: "X".into(), bold: true, fmt: "general".into() });
    add("new-name-taken", Op::UpdateNamedStyle { name: "MyStyle".into(), new_name: "Other".into(), bold: false, fmt: "0.0".into() });
    add("new-name-taken-builtin", Op::UpdateNamedStyle { name: "MyStyle".into(), new_name: "Normal".into(), bold: false, fmt: "0.0".into() });
    add("builtin-style", Op::UpdateNamedStyle { name: "Normal".into(), new_name: "Normal2".into(), bold: false, fmt: "0.0".into() });
    add("duplicate-name", Op::NewName { name: "Name1".into(), scope: None, formula: "2".into() });
    add("new-name-taken", Op::UpdateName { name: "Name1".into(), scope: None, new_name: "A1".into(), new_scope: None, formula: "1".into() });
    add("bad-new-scope", Op::UpdateName { name: "Name1".into(), scope: None, new_name: "Name1".into(), new_scope: Some(57), formula: "1".into() });
    add("push-off-grid-by-one", Op::InsertRows { sheet: 0, at: 2, n: 1 });
    add("push-off-grid-by-one", Op::InsertCols { sheet: 0, at: 2, n: 1 });
    add("split-array", Op::InsertRows { sheet: 0, at: 31, n: 1 });
    add("split-array", Op::DeleteRows { sheet: 0, at: 31, n: 1 });
    add("split-array", Op::MoveRows { sheet: 0, at: 31, n: 1, delta: 3 });
    add("into-spill", Op::ArrayFormula { sheet: 0, row: 31, col: 8, w: 1, h: 1, text: "=1".into() });
    add("builtin-style", Op::DeleteNamedStyle("Normal".into()));
    add("duplicate-style", Op::CreateNamedStyle { name: "Normal".into(), bold: true, fmt: "general".into() });
    add("bad-sheet", Op::AddCf { sheet: bad_sheet, range: "A1:A3".into(), json: "{\"type\":\"Blanks\",\"format\":{\"font\":null,\"fill\":null,\"border\":null,\"num_fmt\":null,\"alignment\":null},\"stop_if_true\":false}".into() });
    add("bad-range", Op::AddCf { sheet: 0, range: "notarange".into(), json: "{\"type\":\"Blanks\",\"format\":{\"font\":null,\"fill\":null,\"border\":null,\"num_fmt\":null,\"alignment\":null},\"stop_if_true\":false}".into() });
    add("bad-index", Op::DeleteCf { sheet: 0, index: 99 });
    add("bad-index", Op::UpdateCf { sheet: 0, index: 99, range: "A1:A3".into(), json: "{\"type\":\"Blanks\",\"format\":{\"font\":null,\"fill\":null,\"border\":null,\"num_fmt\":null,\"alignment\":null},\"stop_if_true\":false}".into() });
    add("bad-range", Op::UpdateCf { sheet: 0, index: 0, range: "notarange".into(), json: "{\"type\":\"Blanks\",\"format\":{\"font\":null,\"fill\":null,\"border\":null,\"num_fmt\":null,\"alignment\":null},\"stop_if_true\":false}".into() });
    add("bad-sheet", Op::UpdateCf { sheet: 57, index: 0, range: "A1:A3".into(), json: "{\"type\":\"Blanks\",\"format\":{\"font\":null,\"fill\":null,\"border\":null,\"num_fmt\":null,\"alignment\":null},\"stop_if_true\":false}".into() });
    add("bad-index", Op::CfPriority { sheet: 0, index: 99, raise: true });
    add("bad-index", Op::CfPriority { sheet: 0, index: 99, raise: false });
    add("bad-sheet", Op::CfPriority { sheet: 57, index: 0, raise: true });
    add("bad-sheet", Op::CopyPaste { src: a_ok, dst_sheet: bad_sheet, dst_row: 1, dst_col: 1, cut: false });
    add("off-grid-target", Op::CopyPaste { src: a_ok, dst_sheet: 0, dst_row: 1_048_576, dst_col: 16384, cut: false });
    add("off-grid-target", Op::CopyPaste { src: a_ok, dst_sheet: 0, dst_row: 1_048_576, dst_col: 16384, cut: true });
    v
}
