//! vh_hist — shared by the history properties (C01–C04, C26, C27): a canonical snapshot of
//! the observable workbook, an operation language over the public `UserModel` API, a seeded
//! generator of mostly-valid histories, and the applier.
pub mod driver;
pub mod ops;
pub mod snapshot;
pub use ops::*;
pub use snapshot::*;
