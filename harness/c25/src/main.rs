//! C25 — xlsx import never crashes: implementation side.
//!
//! Stream 1 (TIE, structure-aware): abstract packages (the same datatype as
//! coq/theories/Xlsx/Skeleton.v: files = Missing | Malformed | Tree, trees of
//! (tag, abstract attribute states, children)) are concretised into real zip
//! packages; outcome class of `load_from_xlsx_bytes` + `Model::from_workbook`
//! (ok | err | panic, under catch_unwind in a worker thread with a wall-clock
//! limit) is written to c25.impl; the extracted skeleton predicts the same class.
//! Stream 2 (SEARCH, not proof): byte-level mutations of valid packages, checked
//! only for "no panic, no hang".
use std::io::{Cursor, Read, Write};
use std::sync::mpsc;
use std::sync::Mutex;
use std::time::{Duration, Instant};

use serde_json::json;
use vh_common::*;

mod abs;
use abs::*;
mod text;

static LAST_PANIC: Mutex<Option<(String, u32, String)>> = Mutex::new(None);

fn install_hook() {
    std::panic::set_hook(Box::new(|info| {
        let loc = info.location().map(|l| (l.file().to_string(), l.line())).unwrap_or(("?".into(), 0));
        let msg = if let Some(s) = info.payload().downcast_ref::<&str>() {
            s.to_string()
        } else if let Some(s) = info.payload().downcast_ref::<String>() {
            s.clone()
        } else {
            "?".to_string()
        };
        if let Ok(mut g) = LAST_PANIC.lock() {
            *g = Some((loc.0, loc.1, msg));
        }
    }));
}

#[derive(Clone, Debug, PartialEq)]
pub enum Obs {
    Ok,
    Err,
    Panic { class: String, detail: String },
    Hang,
}
impl Obs {
    fn word(&self) -> &'static str {
        match self {
            Obs::Ok => "ok",
            Obs::Err => "err",
            Obs::Panic { .. } => "panic",
            Obs::Hang => "hang",
        }
    }
}

/// class of a panic = file name + the text of the source line it was raised at
/// (robust against line shifts in /repo; the text identifies the indexing site)
fn classify_panic(file: &str, line: u32, msg: &str) -> (String, String) {
    let short = file.rsplit("/src/").next().unwrap_or(file).to_string();
    let path = if file.starts_with('/') { file.to_string() } else { format!("/repo/{file}") };
    let mut text = String::new();
    if let Ok(src) = std::fs::read_to_string(&path) {
        if let Some(l) = src.lines().nth(line.saturating_sub(1) as usize) {
            text = l.trim().to_string();
        }
    }
    if !(file.contains("xlsx/src") || file.contains("base/src")) {
        // raised inside std / a dependency: keep the message instead of the line text
        text = msg.chars().take(60).collect();
    }
    (format!("panic@{short}: {text}"), format!("{file}:{line}: {msg}"))
}

fn import_once(bytes: &[u8]) -> Obs {
    let r = std::panic::catch_unwind(|| {
        match ironcalc::import::load_from_xlsx_bytes(bytes, "wb", "en", "UTC") {
            Ok(wb) => match ironcalc_base::Model::from_workbook(wb, "en") {
                Ok(_m) => Obs::Ok,
                Err(_) => Obs::Err,
            },
            Err(_) => Obs::Err,
        }
    });
    match r {
        Ok(o) => o,
        Err(_) => {
            let p = LAST_PANIC.lock().ok().and_then(|mut g| g.take());
            let (file, line, msg) = p.unwrap_or(("?".into(), 0, "?".into()));
            let (class, detail) = classify_panic(&file, line, &msg);
            Obs::Panic { class, detail }
        }
    }
}

/// worker thread: imports packages sent to it; the caller waits at most `limit`
struct Worker {
    tx: mpsc::Sender<Vec<u8>>,
    rx: mpsc::Receiver<Obs>,
}
impl Worker {
    fn spawn() -> Worker {
        let (tx, wrx) = mpsc::channel::<Vec<u8>>();
        let (wtx, rx) = mpsc::channel::<Obs>();
        std::thread::Builder::new()
            .stack_size(64 << 20)
            .spawn(move || {
                while let Ok(b) = wrx.recv() {
                    let o = import_once(&b);
                    if wtx.send(o).is_err() {
                        break;
                    }
                }
            })
            .unwrap();
        Worker { tx, rx }
    }
}
struct Runner {
    w: Worker,
    limit: Duration,
    hangs: u64,
    max_ms: u128,
}
impl Runner {
    fn new(limit_s: u64) -> Runner {
        Runner { w: Worker::spawn(), limit: Duration::from_secs(limit_s), hangs: 0, max_ms: 0 }
    }
    fn run(&mut self, bytes: Vec<u8>) -> Obs {
        let t0 = Instant::now();
        self.w.tx.send(bytes).unwrap();
        match self.w.rx.recv_timeout(self.limit) {
            Ok(o) => {
                self.max_ms = self.max_ms.max(t0.elapsed().as_millis());
                o
            }
            Err(_) => {
                // the worker is stuck: abandon it (it keeps its thread) and start a new one
                self.hangs += 1;
                self.w = Worker::spawn();
                Obs::Hang
            }
        }
    }
}

// ------------------------------------------------------------------------------------------
// zip helpers
fn rezip(files: &[(String, Vec<u8>)]) -> Vec<u8> {
    let mut zw = zip::ZipWriter::new(Cursor::new(Vec::new()));
    let opt = zip::write::FileOptions::default().compression_method(zip::CompressionMethod::Deflated);
    for (name, data) in files {
        if zw.start_file(name.clone(), opt).is_err() {
            continue;
        }
        let _ = zw.write_all(data);
    }
    zw.finish().map(|c| c.into_inner()).unwrap_or_default()
}
fn unzip(bytes: &[u8]) -> Vec<(String, Vec<u8>)> {
    let mut out = vec![];
    if let Ok(mut a) = zip::ZipArchive::new(Cursor::new(bytes)) {
        for i in 0..a.len() {
            if let Ok(mut f) = a.by_index(i) {
                let mut d = vec![];
                if f.read_to_end(&mut d).is_ok() {
                    out.push((f.name().to_string(), d));
                }
            }
        }
    }
    out
}

fn exported_package() -> Vec<u8> {
    let mut m = ironcalc_base::Model::new_empty("m", "en", "UTC", "en").unwrap();
    let _ = m.set_user_input(0, 1, 1, "1".to_string());
    let _ = m.set_user_input(0, 1, 2, "text".to_string());
    let _ = m.set_user_input(0, 2, 1, "=A1+1".to_string());
    let _ = m.set_user_input(0, 3, 3, "=SUM(A1:A2)".to_string());
    let _ = m.add_sheet("Second");
    let _ = m.set_user_input(1, 1, 1, "=Sheet1!A1".to_string());
    m.evaluate();
    match ironcalc::export::save_xlsx_to_writer(&m, Cursor::new(Vec::new())) {
        Ok(c) => c.into_inner(),
        Err(_) => vec![],
    }
}

// ------------------------------------------------------------------------------------------
// byte-level mutation (SEARCH stream)
fn mutate_bytes(rng: &mut Rng, d: &mut Vec<u8>) -> &'static str {
    if d.is_empty() {
        d.push(rng.below(256) as u8);
        return "insert";
    }
    match rng.below(9) {
        0 => {
            let n = rng.below(d.len() as u64) as usize;
            d.truncate(n);
            "truncate"
        }
        1 => {
            for _ in 0..=rng.below(4) {
                let i = rng.below(d.len() as u64) as usize;
                d[i] ^= 1 << rng.below(8);
            }
            "bitflip"
        }
        2 => {
            let i = rng.below(d.len() as u64) as usize;
            let n = (rng.below(64) as usize + 1).min(d.len() - i);
            d.drain(i..i + n);
            "delete-range"
        }
        3 => {
            let i = rng.below(d.len() as u64) as usize;
            let n = (rng.below(64) as usize + 1).min(d.len() - i);
            let chunk: Vec<u8> = d[i..i + n].to_vec();
            let j = rng.below(d.len() as u64 + 1) as usize;
            d.splice(j..j, chunk);
            "duplicate-range"
        }
        4 => {
            let i = rng.below(d.len() as u64 + 1) as usize;
            let bad: &[&[u8]] = &[b"\xff", b"\xc3", b"\xe2\x82", b"\xf0\x9f\x98", b"\xc0\x80", b"\xed\xa0\x80", b"\x00"];
            let c = rng.pick(bad).to_vec();
            d.splice(i..i, c);
            "invalid-utf8"
        }
        5 => {
            let i = rng.below(d.len() as u64) as usize;
            d[i] = *rng.pick(&[b'<', b'>', b'"', b'/', b'&', b'=', b' ', b'0', b'9', b'-', b'!', 0xC3, b'A']);
            "overwrite-meta"
        }
        6 => {
            // swap two chunks
            let i = rng.below(d.len() as u64) as usize;
            let j = rng.below(d.len() as u64) as usize;
            let n = (rng.below(32) as usize + 1).min(d.len() - i.max(j));
            for k in 0..n {
                d.swap(i + k, j + k);
            }
            "swap-range"
        }
        7 => {
            // replace a digit run by an extreme number
            if let Some(p) = (0..d.len()).cycle().skip(rng.below(d.len() as u64) as usize).take(d.len()).find(|&p| d[p].is_ascii_digit()) {
                let mut q = p;
                while q < d.len() && d[q].is_ascii_digit() {
                    q += 1;
                }
                let rep: &[&[u8]] = &[b"0", b"-1", b"4294967296", b"2147483648", b"99999999999999999999", b"1048577", b"16385", b""];
                let c = rng.pick(rep).to_vec();
                d.splice(p..q, c);
            }
            "extreme-number"
        }
        _ => {
            // insert a multi-byte character (byte offsets of later slices move off boundaries)
            let i = rng.below(d.len() as u64 + 1) as usize;
            let c = rng.pick(&["é", "中", "😀", "ß"]).as_bytes().to_vec();
            d.splice(i..i, c);
            "insert-multibyte"
        }
    }
}

fn main() {
    let a = Args::parse();
    install_hook();
    let (seed, thorough, out) = (a.seed, a.thorough, a.out.as_str());

    if a.extra.first().map(|s| s.as_str()) == Some("probe-file") {
        // child mode: import one file, print the observation (used for memory-limited probes)
        let bytes = std::fs::read(&a.extra[1]).unwrap();
        let o = import_once(&bytes);
        println!("{}", o.word());
        return;
    }

    if a.extra.first().map(|s| s.as_str()) == Some("dump") {
        // write the named witness package to a file
        for (n, p) in witnesses().into_iter().chain(hazard_witnesses()) {
            if n == a.extra[1] {
                std::fs::write(&a.extra[2], p.to_zip()).unwrap();
            }
        }
        return;
    }

    if a.extra.first().map(|s| s.as_str()) == Some("coq-witnesses") {
        // the witness packages of Props/C25.v as Gallina terms (written to Generated/Witness_c25.v by lib/c25.py)
        let mut s = String::from("(* Generated/Witness_c25.v — GENERATED by `vh_c25 1 quick <dir> coq-witnesses` (lib/c25.py pre_proof).\n   The base packages and the witness packages of the C25 refutations: the same abstract packages\n   the harness turns into zip files and imports with the real code. Do not edit. *)\nFrom IronCalc Require Import Base.Prelude Xlsx.Skeleton.\n\n");
        for k in 0..4 {
            s.push_str(&format!("Definition base_{k} : pkg :=\n  {}.\n\n", base_pkg(k).coq()));
        }
        for (n, p) in witnesses() {
            s.push_str(&format!("Definition w_{n} : pkg :=\n  {}.\n\n", p.coq()));
        }
        print!("{s}");
        return;
    }

    let mut rng = Rng::new(seed);
    let mut cs = Cases::new(out, "c25");
    let mut or = Oracle::default();
    let mut run = Runner::new(5);
    let mut dist: std::collections::BTreeMap<String, u64> = Default::default();
    let mut outcome_counts: std::collections::BTreeMap<String, u64> = Default::default();
    let mut panic_classes: std::collections::BTreeMap<String, u64> = Default::default();
    let mut samples: Vec<String> = vec![];
    let mut distinct: std::collections::HashSet<String> = Default::default();

    let do_case = |label: &str, p: &Pkg, cs: &mut Cases, or: &mut Oracle, run: &mut Runner,
                       dist: &mut std::collections::BTreeMap<String, u64>,
                       oc: &mut std::collections::BTreeMap<String, u64>,
                       pcs: &mut std::collections::BTreeMap<String, u64>,
                       samples: &mut Vec<String>, distinct: &mut std::collections::HashSet<String>| {
        let w = p.wire();
        if !distinct.insert(w.clone()) {
            return;
        }
        let bytes = p.to_zip();
        let o = run.run(bytes);
        cs.case(&format!("pkg {w}"), o.word());
        *dist.entry(label.to_string()).or_insert(0) += 1;
        *oc.entry(o.word().to_string()).or_insert(0) += 1;
        or.checked += 1;
        match &o {
            Obs::Panic { class, detail } => {
                *pcs.entry(class.clone()).or_insert(0) += 1;
                or.fail(class, json!({"stream": "structured", "mutation": label, "package": p.describe()}), detail.clone());
            }
            Obs::Hang => {
                or.fail("hang: structured package runs longer than 5 s", json!({"stream": "structured", "mutation": label, "package": p.describe()}), "timeout".into());
            }
            _ => {}
        }
        if samples.len() < 12 && (samples.len() < 4 || matches!(o, Obs::Panic { .. })) {
            samples.push(format!("{label}: {} -> {}", p.describe().chars().take(300).collect::<String>(), o.word()));
        }
    };

    // ---- stream 1a: the base packages and the named witnesses ---------------------------
    let bases: Vec<Pkg> = (0..4).map(|k| base_pkg(k)).collect();
    for (k, p) in bases.iter().enumerate() {
        do_case(&format!("base{k}"), p, &mut cs, &mut or, &mut run, &mut dist, &mut outcome_counts, &mut panic_classes, &mut samples, &mut distinct);
    }
    for (name, p) in witnesses() {
        do_case(&format!("witness:{name}"), &p, &mut cs, &mut or, &mut run, &mut dist, &mut outcome_counts, &mut panic_classes, &mut samples, &mut distinct);
    }
    // ---- stream 1b: EXHAUSTIVE single mutations of every base package --------------------
    for (k, base) in bases.iter().enumerate() {
        for (label, p) in all_single_mutations(base) {
            do_case(&format!("single:{label}"), &p, &mut cs, &mut or, &mut run, &mut dist, &mut outcome_counts, &mut panic_classes, &mut samples, &mut distinct);
        }
        let _ = k;
    }
    // ---- stream 1c: random multi-mutations ----------------------------------------------
    let n_random = if thorough { 40_000 } else { 2_500 };
    for _ in 0..n_random {
        let mut p = bases[rng.below(bases.len() as u64) as usize].clone();
        let k = 2 + rng.below(4);
        for _ in 0..k {
            random_mutation(&mut rng, &mut p);
        }
        do_case("random-multi", &p, &mut cs, &mut or, &mut run, &mut dist, &mut outcome_counts, &mut panic_classes, &mut samples, &mut distinct);
    }
    let structured_cases = cs.n;

    // ---- hazard witnesses: imported in a CHILD process under `ulimit -v` and `timeout` -------------
    let mut hazard: std::collections::BTreeMap<String, String> = Default::default();
    for (name, p) in hazard_witnesses() {
        let path = format!("{out}/c25_hazard_{name}.xlsx");
        std::fs::write(&path, p.to_zip()).unwrap();
        let exe = std::env::current_exe().unwrap();
        let cmd = format!("ulimit -v 2000000; exec timeout 8 '{}' 1 quick '{}' probe-file '{}'", exe.display(), out, path);
        let obs = match std::process::Command::new("sh").arg("-c").arg(&cmd).output() {
            Ok(o) => match o.status.code() {
                Some(0) => String::from_utf8_lossy(&o.stdout).lines().last().unwrap_or("?").trim().to_string(),
                Some(124) => "hang".to_string(),
                _ => "abort".to_string(),
            },
            Err(_) => "spawn-failed".to_string(),
        };
        or.checked += 1;
        if obs != "ok" && obs != "err" {
            or.fail("hang-or-abort: array formula ref expanded cell by cell (ref of more than 10^7 cells)",
                    json!({"stream": "hazard", "witness": name, "file": path, "package": p.describe()}),
                    format!("child process under ulimit -v 2000000 / timeout 8: {obs}"));
        }
        hazard.insert(name.to_string(), obs);
    }

    // ---- stream 3: TEXT payloads (SEARCH; no model of the XML layer): every text slot x every hostile text ----
    let tpool = text::pool();
    let mut text_outcomes: std::collections::BTreeMap<String, u64> = Default::default();
    let mut text_by_slot: std::collections::BTreeMap<String, u64> = Default::default();
    let mut text_cases = 0u64;
    {
        let base_obs = run.run(text::package(&[]));
        text_cases += 1;
        or.checked += 1;
        if base_obs != Obs::Ok {
            or.fail("text-stream base package does not import", json!({"stream": "text"}), format!("{:?}", base_obs));
        }
        let mut one = |fills: &[(usize, &text::Payload)], label: &str, run: &mut Runner, or: &mut Oracle,
                       pcs: &mut std::collections::BTreeMap<String, u64>| {
            let o = run.run(text::package(fills));
            text_cases += 1;
            or.checked += 1;
            *text_outcomes.entry(o.word().to_string()).or_insert(0) += 1;
            for (si, _) in fills {
                *text_by_slot.entry(text::SLOTS[*si].to_string()).or_insert(0) += 1;
            }
            let desc: Vec<serde_json::Value> = fills.iter().map(|(si, p)| json!({"slot": text::SLOTS[*si], "text": p.show()})).collect();
            match &o {
                Obs::Panic { class, detail } => {
                    *pcs.entry(class.clone()).or_insert(0) += 1;
                    or.fail(class, json!({"stream": "text", "kind": label, "fills": desc}), detail.clone());
                }
                Obs::Hang => or.fail("hang: text payload package runs longer than 5 s", json!({"stream": "text", "kind": label, "fills": desc}), "timeout".into()),
                _ => {}
            }
        };
        // TIE for the decoder cursor (Xlsx/EscapeSafe.v): the text as a shared string, a t="str" value and
        // a cached formula string; observation = panic / nopanic, the model gets the UTF-8 bytes
        for p in &tpool {
            if let text::Payload::Plain(s) = p {
                if s.len() <= 1500 {
                    let mut panicked = false;
                    for si in [0usize, 4, 5] {
                        if let Obs::Panic { .. } = run.run(text::package(&[(si, p)])) {
                            panicked = true;
                        }
                    }
                    let bytes = if s.is_empty() { "-".to_string() } else { s.bytes().map(|b| b.to_string()).collect::<Vec<_>>().join(".") };
                    cs.case(&format!("dec {bytes}"), if panicked { "panic" } else { "nopanic" });
                }
            }
        }
        // exhaustive: slot x pool
        for si in 0..text::SLOTS.len() {
            for p in &tpool {
                one(&[(si, p)], "slot x pool", &mut run, &mut or, &mut panic_classes);
            }
        }
        // random combinations of several slots
        let n_combo = if thorough { 30_000 } else { 600 };
        for _ in 0..n_combo {
            let fills = text::random_fills(&mut rng, &tpool);
            one(&fills, "random combination", &mut run, &mut or, &mut panic_classes);
        }
    }

    // ---- stream 2: byte-level SEARCH (no model; only "no panic, no hang") ------------------
    let mut seeds: Vec<(String, Vec<u8>)> = vec![];
    seeds.push(("export".into(), exported_package()));
    seeds.push(("base0".into(), bases[0].to_zip()));
    seeds.push(("base3".into(), bases[3].to_zip()));
    if let Ok(rd) = std::fs::read_dir("/repo/xlsx/tests") {
        let mut names: Vec<_> = rd.filter_map(|e| e.ok()).map(|e| e.path()).filter(|p| p.extension().map(|e| e == "xlsx").unwrap_or(false)).collect();
        names.sort();
        for p in names {
            if let Ok(b) = std::fs::read(&p) {
                if b.len() < 60_000 {
                    seeds.push((p.file_name().unwrap().to_string_lossy().to_string(), b));
                }
            }
        }
    }
    seeds.retain(|s| !s.1.is_empty());
    let mut byte_counts: std::collections::BTreeMap<String, u64> = Default::default();
    let mut byte_outcomes: std::collections::BTreeMap<String, u64> = Default::default();
    let n_bytes = if thorough { 300_000 } else { 12_000 };
    let unzipped: Vec<Vec<(String, Vec<u8>)>> = seeds.iter().map(|s| unzip(&s.1)).collect();
    let mut byte_evals = 0u64;
    // crafted byte-level cases (deterministic): empty input, prefixes of a valid package, a theme
    // colour whose byte 2 is inside a character
    {
        let exp = seeds[0].1.clone();
        let mut crafted: Vec<(String, Vec<u8>)> = vec![("empty".into(), vec![]), ("PK".into(), b"PK\x03\x04".to_vec())];
        for k in 1..64 {
            crafted.push((format!("prefix-{k}/64"), exp[..exp.len() * k / 64].to_vec()));
        }
        let mut files = unzip(&exp);
        for f in files.iter_mut() {
            if f.0.ends_with("theme1.xml") {
                let s = String::from_utf8_lossy(&f.1).to_string();
                if let Some(p) = s.find("srgbClr val=\"") {
                    let q = p + "srgbClr val=\"".len();
                    let mut t = s.clone();
                    t.replace_range(q..q + 6, "E\u{e9}7E6E6");
                    f.1 = t.into_bytes();
                }
            }
        }
        crafted.push(("theme-colour-nonboundary".into(), rezip(&files)));
        for (kind, bytes) in crafted {
            let o = run.run(bytes.clone());
            byte_evals += 1;
            *byte_counts.entry("crafted".to_string()).or_insert(0) += 1;
            *byte_outcomes.entry(o.word().to_string()).or_insert(0) += 1;
            or.checked += 1;
            match &o {
                Obs::Panic { class, detail } => {
                    *panic_classes.entry(class.clone()).or_insert(0) += 1;
                    or.fail(class, json!({"stream": "bytes", "crafted": kind}), detail.clone());
                }
                Obs::Hang => or.fail("hang: byte-mutated package runs longer than 5 s", json!({"stream": "bytes", "crafted": kind}), "timeout".into()),
                _ => {}
            }
        }
    }
    let t_bytes = Instant::now();
    let budget = Duration::from_secs(if thorough { 600 } else { 70 });
    for i in 0..n_bytes {
        if t_bytes.elapsed() > budget {
            break;
        }
        let si = rng.below(seeds.len() as u64) as usize;
        let (kind, bytes) = if i % 4 == 0 {
            // raw container bytes: zip structure, CRC, truncation
            let mut d = seeds[si].1.clone();
            let mut k = mutate_bytes(&mut rng, &mut d);
            if rng.chance(1, 3) {
                k = mutate_bytes(&mut rng, &mut d);
            }
            (format!("zip-bytes/{k}"), d)
        } else {
            // XML bytes of one entry, re-zipped with a correct CRC
            let mut files = unzipped[si].clone();
            if files.is_empty() {
                continue;
            }
            let fi = rng.below(files.len() as u64) as usize;
            let mut k = mutate_bytes(&mut rng, &mut files[fi].1);
            if rng.chance(1, 3) {
                k = mutate_bytes(&mut rng, &mut files[fi].1);
            }
            if rng.chance(1, 40) {
                files.remove(fi);
                k = "drop-entry";
            }
            (format!("xml-bytes/{k}"), rezip(&files))
        };
        let o = run.run(bytes.clone());
        byte_evals += 1;
        *byte_counts.entry(kind.clone()).or_insert(0) += 1;
        *byte_outcomes.entry(o.word().to_string()).or_insert(0) += 1;
        or.checked += 1;
        match &o {
            Obs::Panic { class, detail } => {
                *panic_classes.entry(class.clone()).or_insert(0) += 1;
                let hex: String = if bytes.len() <= 6000 { bytes.iter().map(|b| format!("{b:02x}")).collect() } else { format!("({} bytes; seed file {} + {kind}; rerun with the same seed)", bytes.len(), seeds[si].0) };
                or.fail(class, json!({"stream": "bytes", "seed_file": seeds[si].0, "mutation": kind, "zip_hex": hex}), detail.clone());
            }
            Obs::Hang => {
                or.fail("hang: byte-mutated package runs longer than 5 s", json!({"stream": "bytes", "seed_file": seeds[si].0, "mutation": kind}), "timeout".into());
            }
            _ => {}
        }
    }

    let failures_per_class = or.per_class.clone();
    cs.finish(json!({
        "structured_cases": structured_cases,
        "byte_level_cases": byte_evals,
        "distribution": dist,
        "structured_outcomes": outcome_counts,
        "byte_level_distribution": byte_counts,
        "byte_level_outcomes": byte_outcomes,
        "text_payload_cases": text_cases,
        "text_payload_outcomes": text_outcomes,
        "text_payload_by_slot": text_by_slot,
        "text_pool_size": tpool.len(),
        "text_slots": text::SLOTS,
        "byte_level_seeds": seeds.iter().map(|s| s.0.clone()).collect::<Vec<_>>(),
        "panic_classes": panic_classes,
        "hazard_witnesses": hazard,
        "hangs": run.hangs,
        "max_case_ms": run.max_ms as u64,
        "distinct_nontrivial": distinct.len(),
        "samples": samples,
        "oracle_checked": or.checked,
        "oracle_failures": or.failures,
        "oracle_failures_per_class": failures_per_class,
    }));
}
