//! text-payload stream (SEARCH layer, no model of the XML/zip layers): one small valid package whose
//! TEXT slots (shared strings, rich-text runs, inline strings, t="str" cached values, formula texts,
//! sheet names, defined-name texts and names, comment texts, number-format codes, hyperlink targets
//! and locations, <v> of error/number cells) are filled from a pool of hostile texts.
//! Outcome checked: no panic, no hang (same classification as the other streams).
use std::io::{Cursor, Write};
use vh_common::Rng;

#[derive(Clone, Debug)]
pub enum Payload {
    /// text content: XML-escaped before insertion
    Plain(String),
    /// inserted verbatim (entities, character references, broken markup)
    Raw(String),
}
impl Payload {
    pub fn xml(&self) -> String {
        match self {
            Payload::Plain(s) => s.replace('&', "&amp;").replace('<', "&lt;").replace('>', "&gt;").replace('"', "&quot;"),
            Payload::Raw(s) => s.clone(),
        }
    }
    pub fn show(&self) -> String {
        let (k, s) = match self {
            Payload::Plain(s) => ("plain", s),
            Payload::Raw(s) => ("raw", s),
        };
        if s.chars().count() > 80 {
            format!("{k}:{}…({} bytes)", s.chars().take(40).collect::<String>(), s.len())
        } else {
            format!("{k}:{s}")
        }
    }
}

pub const SLOTS: &[&str] = &[
    "shared-string", "shared-string-preserve", "rich-text-run", "inline-string", "str-cached-value", "str-value-no-formula",
    "formula-text", "shared-formula-text", "array-formula-text", "sheet-name", "defined-name-text", "defined-name-name",
    "comment-text", "numfmt-code", "hyperlink-target", "hyperlink-location", "error-cell-value", "number-cell-value",
    "cell-type", "table-column-name",
];

/// the hostile texts
pub fn pool() -> Vec<Payload> {
    let mut v: Vec<Payload> = vec![];
    let mut plain = |s: String, v: &mut Vec<Payload>| v.push(Payload::Plain(s));
    // every prefix, suffix and single deletion of the escape look-alikes, placed alone, at the start, in
    // the middle and at the END of the text (so that the look-alike ends exactly at, one before and one
    // after the end of the byte string)
    for base in ["_x0041_", "_x005F_", "_xZZZZ_", "_x000A_", "_xD800_", "_x00e9_", "_x0000_", "_xFFFF_"] {
        let c: Vec<char> = base.chars().collect();
        let mut variants: Vec<String> = vec![];
        for i in 1..=c.len() {
            variants.push(c[..i].iter().collect());
            variants.push(c[c.len() - i..].iter().collect());
        }
        for i in 0..c.len() {
            let mut d = c.clone();
            d.remove(i);
            variants.push(d.into_iter().collect());
        }
        variants.sort();
        variants.dedup();
        for p in variants {
            plain(p.clone(), &mut v);
            plain(format!("{p}tail"), &mut v);
            plain(format!("head{p}tail"), &mut v);
            plain(format!("batch{p}"), &mut v);
            plain(format!("batch{p}z"), &mut v);
            plain(format!("{p}{p}"), &mut v);
        }
    }
    for s in ["batch_x2024", "batch_x202", "batch_x20245", "batch_x2024_", "_x2024", "x_x2024", "_x_x0041_", "__x0041_", "_x0041_x0042_", "_x005F_x0041_", "_x005F_x005F_",
              "_x0041__x0042_", "_x00410_", "_X0041_", "_x004g_", "_x 041_", "_x+041_", "_x-041_"] {
        plain(s.to_string(), &mut v);
    }
    // multi-byte characters straddling the 7-byte window
    for s in ["_x\u{e9}41_", "_x00\u{e9}_", "\u{e9}_x0041_", "_x004\u{e9}", "_x\u{4e2d}1_", "_x\u{1F600}_", "_x0041\u{e9}", "_x0041_\u{e9}", "\u{1F600}_x0041", "_\u{e9}x0041_",
              "_x\u{e9}\u{e9}_", "_x\u{e9}\u{e9}\u{e9}", "a_x\u{4e2d}\u{e9}", "_x004\u{1F600}", "\u{e9}\u{e9}\u{e9}_x00", "_x0041\u{4e2d}", "\u{4e2d}_x0041_\u{4e2d}", "_x\u{7f}\u{80}41_"] {
        plain(s.to_string(), &mut v);
    }
    // empty and white space
    for s in ["", " ", "  ", "\t", "\n", " \t\n ", " a ", "\u{a0}", "\u{2028}", "\r\n"] {
        plain(s.to_string(), &mut v);
    }
    // other
    for s in ["'", "''", "\"", "=1+1", "#REF!", "!", "Sheet1!A1", "'Sheet 1'!A1", "A1:B2", "[", "]", "[Red]0.0", "0.0E+", "\\", "/", "*", "?", ":", "a\u{0301}", "\u{FEFF}x", "\u{FFFD}",
              "\u{10FFFF}", "\u{E000}", "#", "mailto:", "http://x/#a", "C:XFD", "R[", "Table1["] {
        plain(s.to_string(), &mut v);
    }
    // very long texts
    plain("a".repeat(70_000), &mut v);
    plain("_x0041_".repeat(10_000), &mut v);
    plain("\u{e9}".repeat(30_000), &mut v);
    plain(format!("{}_x0041", "b".repeat(65_530)), &mut v);
    plain("_x".repeat(20_000), &mut v);
    // raw: entities, character references, markup
    for s in ["&", "&amp", "&;", "&#0;", "&#x0;", "&#xD800;", "&#xDBFF;", "&#xDFFF;", "&#xFFFE;", "&#xFFFF;", "&#x110000;", "&#1114112;", "&#x1F600;", "&#65;", "&#x41;", "&lt;", "&gt;&quot;&apos;",
              "&unknown;", "&#;", "&#x;", "&#xZZ;", "&amp;#0;", "&#x5F;x0041_", "_x0041&#x5F;", "&#x5F;x0041&#x5F;", "_x&#x30;041_", "&#1;", "&#8;", "&#x1F;", "&#9;&#10;&#13;", "&#x7F;", "&#x85;",
              "&#xFDD0;", "&#x1FFFE;", "&#x10FFFF;", "&#xE9;_x0041", "<", ">", "<b>", "<b/>", "</t>", "<![CDATA[_x0041_]]>", "<![CDATA[", "]]>", "<!-- c -->", "<?pi?>", "a<b>c</b>d", "\"", "&#x22;",
              "&#38;#38;", "&#x26;lt;", "&#0000000065;", "&#x000000041;", "&#99999999999999999999;", "&#xFFFFFFFFFFFFFFFFF;", "&#-1;", "&# 65;", "&#x 41;", "&AMP;", "&Lt;"] {
        v.push(Payload::Raw(s.to_string()));
    }
    v
}

const NS_MAIN: &str = "http://schemas.openxmlformats.org/spreadsheetml/2006/main";
const NS_R: &str = "http://schemas.openxmlformats.org/officeDocument/2006/relationships";
const NS_PKG: &str = "http://schemas.openxmlformats.org/package/2006/relationships";
const HDR: &str = "<?xml version=\"1.0\" encoding=\"UTF-8\" standalone=\"yes\"?>";

/// the base package with slot `fills[i].0` holding `fills[i].1`; every other slot holds a harmless text
pub fn package(fills: &[(usize, &Payload)]) -> Vec<u8> {
    let get = |name: &str, default: &str| -> String {
        for (si, p) in fills {
            if SLOTS[*si] == name {
                return p.xml();
            }
        }
        default.to_string()
    };
    let sst = format!(
        "{HDR}<sst xmlns=\"{NS_MAIN}\" count=\"3\" uniqueCount=\"3\"><si><t>{}</t></si><si><t xml:space=\"preserve\">{}</t></si><si><r><t>{}</t></r><r><rPr><b/></rPr><t xml:space=\"preserve\">{}</t></r></si></sst>",
        get("shared-string", "plain"), get("shared-string-preserve", " kept "), get("rich-text-run", "Hello"), get("rich-text-run", " World"));
    let workbook = format!(
        "{HDR}<workbook xmlns=\"{NS_MAIN}\" xmlns:r=\"{NS_R}\"><sheets><sheet name=\"{}\" sheetId=\"1\" r:id=\"rId1\"/></sheets><definedNames><definedName name=\"{}\">{}</definedName></definedNames></workbook>",
        get("sheet-name", "Sheet1"), get("defined-name-name", "myname"), get("defined-name-text", "Sheet1!$A$1"));
    let rels = format!(
        "{HDR}<Relationships xmlns=\"{NS_PKG}\"><Relationship Id=\"rId1\" Type=\"{NS_R}/worksheet\" Target=\"worksheets/sheet1.xml\"/><Relationship Id=\"rId2\" Type=\"{NS_R}/styles\" Target=\"styles.xml\"/><Relationship Id=\"rId3\" Type=\"{NS_R}/sharedStrings\" Target=\"sharedStrings.xml\"/></Relationships>");
    let styles = format!(
        "{HDR}<styleSheet xmlns=\"{NS_MAIN}\"><numFmts count=\"1\"><numFmt numFmtId=\"164\" formatCode=\"{}\"/></numFmts><fonts count=\"1\"><font><sz val=\"11\"/><name val=\"Calibri\"/></font></fonts><fills count=\"1\"><fill><patternFill patternType=\"none\"/></fill></fills><borders count=\"1\"><border><left/><right/><top/><bottom/><diagonal/></border></borders><cellStyleXfs count=\"1\"><xf numFmtId=\"0\" fontId=\"0\" fillId=\"0\" borderId=\"0\"/></cellStyleXfs><cellXfs count=\"2\"><xf numFmtId=\"0\" fontId=\"0\" fillId=\"0\" borderId=\"0\" xfId=\"0\"/><xf numFmtId=\"164\" fontId=\"0\" fillId=\"0\" borderId=\"0\" xfId=\"0\" applyNumberFormat=\"1\"/></cellXfs><cellStyles count=\"1\"><cellStyle name=\"Normal\" xfId=\"0\" builtinId=\"0\"/></cellStyles></styleSheet>",
        get("numfmt-code", "0.00"));
    let sheet = format!(
        "{HDR}<worksheet xmlns=\"{NS_MAIN}\" xmlns:r=\"{NS_R}\"><dimension ref=\"A1:F6\"/><sheetData>\
<row r=\"1\"><c r=\"A1\" t=\"s\"><v>0</v></c><c r=\"B1\" t=\"s\"><v>1</v></c><c r=\"C1\" t=\"s\"><v>2</v></c><c r=\"D1\" t=\"inlineStr\"><is><t>{}</t></is></c></row>\
<row r=\"2\"><c r=\"A2\" t=\"str\"><f>\"a\"&amp;\"b\"</f><v>{}</v></c><c r=\"B2\" t=\"str\"><v>{}</v></c><c r=\"C2\" s=\"1\"><f>{}</f><v>2</v></c><c r=\"D2\"><f t=\"shared\" ref=\"D2:D3\" si=\"0\">{}</f><v>1</v></c></row>\
<row r=\"3\"><c r=\"D3\"><f t=\"shared\" si=\"0\"/><v>1</v></c><c r=\"E3\"><f t=\"array\" ref=\"E3:F3\">{}</f><v>1</v></c><c r=\"F3\"><v>2</v></c></row>\
<row r=\"4\"><c r=\"A4\" t=\"e\"><v>{}</v></c><c r=\"B4\" s=\"1\"><v>{}</v></c><c r=\"C4\" t=\"{}\"><v>1</v></c></row>\
</sheetData><hyperlinks><hyperlink ref=\"A1\" r:id=\"rId2\"/><hyperlink ref=\"B1\" location=\"{}\"/></hyperlinks></worksheet>",
        get("inline-string", "inline"), get("str-cached-value", "ab"), get("str-value-no-formula", "text"), get("formula-text", "A1+1"),
        get("shared-formula-text", "A2+1"), get("array-formula-text", "A1:B1*2"), get("error-cell-value", "#VALUE!"), get("number-cell-value", "1.5"),
        get("cell-type", "n"), get("hyperlink-location", "Sheet1!A3"));
    let sheet_rels = format!(
        "{HDR}<Relationships xmlns=\"{NS_PKG}\"><Relationship Id=\"rId1\" Type=\"{NS_R}/comments\" Target=\"../comments1.xml\"/><Relationship Id=\"rId2\" Type=\"{NS_R}/hyperlink\" Target=\"{}\" TargetMode=\"External\"/><Relationship Id=\"rId3\" Type=\"{NS_R}/table\" Target=\"../tables/table1.xml\"/></Relationships>",
        get("hyperlink-target", "https://example.com/"));
    let comments = format!(
        "{HDR}<comments xmlns=\"{NS_MAIN}\"><authors><author>a</author></authors><commentList><comment ref=\"A1\" authorId=\"0\"><text><r><t>{}</t></r></text></comment></commentList></comments>",
        get("comment-text", "a comment"));
    let table = format!(
        "{HDR}<table xmlns=\"{NS_MAIN}\" id=\"1\" name=\"Table1\" displayName=\"Table1\" ref=\"A10:B12\"><autoFilter ref=\"A10:B12\"/><tableColumns count=\"2\"><tableColumn id=\"1\" name=\"{}\"/><tableColumn id=\"2\" name=\"Other\"/></tableColumns></table>",
        get("table-column-name", "Col"));
    let mut zw = zip::ZipWriter::new(Cursor::new(Vec::new()));
    let opt = zip::write::FileOptions::default().compression_method(zip::CompressionMethod::Deflated);
    for (name, data) in [
        ("[Content_Types].xml", format!("{HDR}<Types xmlns=\"http://schemas.openxmlformats.org/package/2006/content-types\"/>")),
        ("xl/sharedStrings.xml", sst), ("xl/workbook.xml", workbook), ("xl/_rels/workbook.xml.rels", rels), ("xl/styles.xml", styles),
        ("xl/worksheets/sheet1.xml", sheet), ("xl/worksheets/_rels/sheet1.xml.rels", sheet_rels), ("xl/comments1.xml", comments), ("xl/tables/table1.xml", table),
    ] {
        zw.start_file(name, opt).unwrap();
        zw.write_all(data.as_bytes()).unwrap();
    }
    zw.finish().unwrap().into_inner()
}

/// random combination: several slots filled at once
pub fn random_fills<'a>(rng: &mut Rng, pool: &'a [Payload]) -> Vec<(usize, &'a Payload)> {
    let k = 2 + rng.below(5) as usize;
    (0..k).map(|_| (rng.below(SLOTS.len() as u64) as usize, &pool[rng.below(pool.len() as u64) as usize])).collect()
}
