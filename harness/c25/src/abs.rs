//! abstract xlsx packages: the Rust twin of coq/theories/Xlsx/Skeleton.v (datatypes only) and
//! the concretiser abstract package -> zip bytes. The numeric codes below ARE the interface
//! with the Coq model (Skeleton.v uses the same numbers).
use std::io::{Cursor, Write};
use vh_common::Rng;

// ---- tags -----------------------------------------------------------------------------------
pub const T_WORKBOOK: i64 = 1;
pub const T_SHEETS: i64 = 2;
pub const T_SHEET: i64 = 3;
pub const T_DEFINEDNAMES: i64 = 4;
pub const T_DEFINEDNAME: i64 = 5;
pub const T_RELATIONSHIPS: i64 = 6;
pub const T_RELATIONSHIP: i64 = 7;
pub const T_STYLESHEET: i64 = 10;
pub const T_NUMFMTS: i64 = 11;
pub const T_NUMFMT: i64 = 12;
pub const T_FONTS: i64 = 13;
pub const T_FONT: i64 = 14;
pub const T_FILLS: i64 = 15;
pub const T_FILL: i64 = 16;
pub const T_BORDERS: i64 = 17;
pub const T_BORDER: i64 = 18;
pub const T_CELLSTYLEXFS: i64 = 19;
pub const T_XF: i64 = 20;
pub const T_CELLSTYLES: i64 = 21;
pub const T_CELLSTYLE: i64 = 22;
pub const T_CELLXFS: i64 = 23;
pub const T_DXFS: i64 = 24;
pub const T_DXF: i64 = 25;
pub const T_COLOR: i64 = 26;
pub const T_PATTERNFILL: i64 = 27;
pub const T_FGCOLOR: i64 = 28;
pub const T_BGCOLOR: i64 = 29;
pub const T_WORKSHEET: i64 = 30;
pub const T_DIMENSION: i64 = 31;
pub const T_SHEETVIEWS: i64 = 32;
pub const T_SHEETVIEW: i64 = 33;
pub const T_COLS: i64 = 34;
pub const T_COL: i64 = 35;
pub const T_SHEETPR: i64 = 36;
pub const T_TABCOLOR: i64 = 37;
pub const T_SHEETDATA: i64 = 38;
pub const T_ROW: i64 = 39;
pub const T_C: i64 = 40;
pub const T_V: i64 = 41;
pub const T_F: i64 = 42;
pub const T_IS: i64 = 43;
pub const T_T: i64 = 44;
pub const T_MERGECELLS: i64 = 45;
pub const T_MERGECELL: i64 = 46;
pub const T_HYPERLINKS: i64 = 47;
pub const T_HYPERLINK: i64 = 48;
pub const T_SELECTION: i64 = 49;
pub const T_COMMENTS: i64 = 51;
pub const T_COMMENTLIST: i64 = 52;
pub const T_COMMENT: i64 = 53;
pub const T_TEXT: i64 = 54;
pub const T_TABLE: i64 = 55;
pub const T_TABLECOLUMNS: i64 = 56;
pub const T_TABLECOLUMN: i64 = 57;
pub const T_AUTOFILTER: i64 = 58;
pub const T_SST: i64 = 59;
pub const T_SI: i64 = 60;
pub const T_SZ: i64 = 61;
pub const T_LEFT: i64 = 63;

pub fn tag_name(t: i64) -> &'static str {
    match t {
        1 => "workbook", 2 => "sheets", 3 => "sheet", 4 => "definedNames", 5 => "definedName",
        6 => "Relationships", 7 => "Relationship",
        10 => "styleSheet", 11 => "numFmts", 12 => "numFmt", 13 => "fonts", 14 => "font", 15 => "fills",
        16 => "fill", 17 => "borders", 18 => "border", 19 => "cellStyleXfs", 20 => "xf", 21 => "cellStyles",
        22 => "cellStyle", 23 => "cellXfs", 24 => "dxfs", 25 => "dxf", 26 => "color", 27 => "patternFill",
        28 => "fgColor", 29 => "bgColor",
        30 => "worksheet", 31 => "dimension", 32 => "sheetViews", 33 => "sheetView", 34 => "cols", 35 => "col",
        36 => "sheetPr", 37 => "tabColor", 38 => "sheetData", 39 => "row", 40 => "c", 41 => "v", 42 => "f",
        43 => "is", 44 => "t", 45 => "mergeCells", 46 => "mergeCell", 47 => "hyperlinks", 48 => "hyperlink",
        49 => "selection",
        51 => "comments", 52 => "commentList", 53 => "comment", 54 => "text",
        55 => "table", 56 => "tableColumns", 57 => "tableColumn", 58 => "autoFilter",
        59 => "sst", 60 => "si", 61 => "sz", 63 => "left",
        _ => "unknownTag",
    }
}

// ---- attributes -----------------------------------------------------------------------------
pub const A_NAME: i64 = 1;
pub const A_SHEETID: i64 = 2;
pub const A_RID: i64 = 3; // r:id (namespaced)
pub const A_STATE: i64 = 4;
pub const A_LOCALSHEETID: i64 = 5;
pub const A_ID: i64 = 6; // Id (rels)
pub const A_TYPE: i64 = 7;
pub const A_TARGET: i64 = 8;
pub const A_R: i64 = 9;
pub const A_T: i64 = 10;
pub const A_S: i64 = 11;
pub const A_SI: i64 = 12;
pub const A_REF: i64 = 13;
pub const A_MIN: i64 = 14;
pub const A_MAX: i64 = 15;
pub const A_WIDTH: i64 = 16;
pub const A_RGB: i64 = 17;
pub const A_INDEXED: i64 = 18;
pub const A_THEME: i64 = 19;
pub const A_XFID: i64 = 20;
pub const A_VAL: i64 = 22;
pub const A_STYLE: i64 = 23;
pub const A_LCID: i64 = 24; // id (lower case, tableColumn)
pub const A_LOCATION: i64 = 25;
pub const A_TOTALSROWCOUNT: i64 = 26;
pub const A_HEADERROWCOUNT: i64 = 27;
pub const A_CA: i64 = 29;
pub const A_ACTIVECELL: i64 = 30;
pub const A_SQREF: i64 = 31;

pub fn attr_name(a: i64) -> &'static str {
    match a {
        1 => "name", 2 => "sheetId", 3 => "r:id", 4 => "state", 5 => "localSheetId", 6 => "Id", 7 => "Type",
        8 => "Target", 9 => "r", 10 => "t", 11 => "s", 12 => "si", 13 => "ref", 14 => "min", 15 => "max",
        16 => "width", 17 => "rgb", 18 => "indexed", 19 => "theme", 20 => "xfId", 22 => "val", 23 => "style",
        24 => "id", 25 => "location", 26 => "totalsRowCount", 27 => "headerRowCount", 29 => "ca",
        30 => "activeCell", 31 => "sqref",
        _ => "unknownAttr",
    }
}

// ---- abstract attribute states ---------------------------------------------------------------
/// Absent = the attribute is not in the list.
#[derive(Clone, Debug, PartialEq)]
pub enum AVal {
    /// a decimal integer (may be out of range of the type the reader parses it into)
    Num(i64),
    /// present, parses as nothing
    Bad,
    /// the w-th enumerated word of this attribute
    Word(i64),
    /// relationship id "rId<k>"
    Id(i64),
    /// Target string: class (see target_string) and the part it names
    Target(i64, i64),
    /// A1 cell reference (row, column)
    Cell(i64, i64),
    /// A1 range
    Range(i64, i64, i64, i64),
    /// rgb string: 0 = 8 ASCII hex digits, 1 = 6 ASCII hex digits, 2 = 8 bytes with byte 2 inside a 2-byte character
    Rgb(i64),
}

pub const TC_REL_WS: i64 = 0; // worksheets/pN.xml
pub const TC_ABS_WS: i64 = 1; // /xl/worksheets/pN.xml
pub const TC_BARE: i64 = 2; // pN.xml
pub const TC_ABS_XL: i64 = 3; // /xl/pN.xml
pub const TC_DOTDOT: i64 = 4; // ../pN.xml
pub const TC_EMPTY: i64 = 5; // ""
pub const TC_ONE: i64 = 6; // "x"
pub const TC_NONBOUNDARY: i64 = 7; // "xé/pN.xml": byte 2 is inside é

fn target_string(cls: i64, part: i64) -> String {
    match cls {
        0 => format!("worksheets/p{part}.xml"),
        1 => format!("/xl/worksheets/p{part}.xml"),
        2 => format!("p{part}.xml"),
        3 => format!("/xl/p{part}.xml"),
        4 => format!("../p{part}.xml"),
        5 => String::new(),
        6 => "x".to_string(),
        7 => format!("x\u{e9}/p{part}.xml"),
        _ => "?#".to_string(),
    }
}

fn col_letters(mut c: i64) -> String {
    let mut s = vec![];
    while c > 0 {
        let r = (c - 1) % 26;
        s.push((b'A' + r as u8) as char);
        c = (c - 1) / 26;
    }
    s.iter().rev().collect()
}

const REL_TYPES: [&str; 6] = ["worksheet", "comments", "hyperlink", "table", "theme", "other"];
const STATES: [&str; 3] = ["visible", "hidden", "veryHidden"];
const F_TYPES: [&str; 4] = ["shared", "array", "normal", "dataTable"];
const C_TYPES: [&str; 7] = ["b", "n", "e", "s", "str", "d", "inlineStr"];

pub fn attr_value(tag: i64, attr: i64, v: &AVal) -> String {
    match v {
        AVal::Num(n) => n.to_string(),
        AVal::Bad => "?#".to_string(),
        AVal::Id(k) => format!("rId{k}"),
        AVal::Cell(r, c) => format!("{}{}", col_letters(*c), r),
        AVal::Range(r1, c1, r2, c2) => format!("{}{}:{}{}", col_letters(*c1), r1, col_letters(*c2), r2),
        AVal::Rgb(k) => match k {
            0 => "FFA1B2C3".to_string(),
            1 => "A1B2C3".to_string(),
            _ => "a\u{e9}B2C3D".to_string(),
        },
        AVal::Target(cls, part) => {
            if attr == A_TARGET { target_string(*cls, *part) } else { "?#".to_string() }
        }
        AVal::Word(w) => {
            let w = *w;
            let pick = |l: &[&str]| -> Option<String> { if w >= 0 && (w as usize) < l.len() { Some(l[w as usize].to_string()) } else { None } };
            let s = match (tag, attr) {
                (_, A_TYPE) => pick(&REL_TYPES).map(|t| format!("http://schemas.openxmlformats.org/officeDocument/2006/relationships/{t}")),
                (_, A_STATE) => pick(&STATES),
                (T_F, A_T) => pick(&F_TYPES),
                (T_C, A_T) => pick(&C_TYPES),
                (T_SHEET, A_NAME) => Some(format!("Sheet{w}")),
                (T_LEFT, A_STYLE) => Some("thin".to_string()),
                _ => None,
            };
            s.unwrap_or(format!("w{w}"))
        }
    }
}

// ---- trees, files, packages ------------------------------------------------------------------
#[derive(Clone, Debug, PartialEq)]
pub struct Xml {
    pub tag: i64,
    pub attrs: Vec<(i64, AVal)>,
    pub text: bool,
    pub kids: Vec<Xml>,
}
pub fn el(tag: i64, attrs: Vec<(i64, AVal)>, kids: Vec<Xml>) -> Xml {
    Xml { tag, attrs, text: false, kids }
}
pub fn elt(tag: i64, attrs: Vec<(i64, AVal)>) -> Xml {
    Xml { tag, attrs, text: true, kids: vec![] }
}

#[derive(Clone, Debug, PartialEq)]
pub enum FState {
    Missing,
    Malformed,
    Tree(Xml),
}

#[derive(Clone, Debug, PartialEq)]
pub struct Pkg {
    pub sst: FState,
    pub wb: FState,
    pub rels: FState,
    pub styles: FState,
    /// part id -> content; written at xl/worksheets/p<id>.xml AND xl/p<id>.xml
    pub parts: Vec<(i64, FState)>,
    /// sheet part id -> its rels file xl/worksheets/_rels/p<id>.xml.rels
    pub srels: Vec<(i64, FState)>,
}

const NS_MAIN: &str = "http://schemas.openxmlformats.org/spreadsheetml/2006/main";
const NS_R: &str = "http://schemas.openxmlformats.org/officeDocument/2006/relationships";
const NS_PKG: &str = "http://schemas.openxmlformats.org/package/2006/relationships";

fn text_of(tag: i64) -> &'static str {
    match tag {
        T_F => "1+1",
        T_V => "1",
        T_DEFINEDNAME => "1",
        _ => "x",
    }
}

impl Xml {
    fn write(&self, out: &mut String, root: bool) {
        out.push('<');
        out.push_str(tag_name(self.tag));
        if root {
            let ns = if self.tag == T_RELATIONSHIPS { NS_PKG } else { NS_MAIN };
            out.push_str(&format!(" xmlns=\"{ns}\" xmlns:r=\"{NS_R}\""));
        }
        let mut seen = vec![];
        for (a, v) in &self.attrs {
            if seen.contains(a) {
                continue; // a duplicate attribute would be an XML syntax error; first one wins (as in the model)
            }
            seen.push(*a);
            let val = attr_value(self.tag, *a, v).replace('&', "&amp;").replace('<', "&lt;").replace('"', "&quot;");
            out.push_str(&format!(" {}=\"{}\"", attr_name(*a), val));
        }
        if self.kids.is_empty() && !self.text {
            out.push_str("/>");
            return;
        }
        out.push('>');
        if self.text {
            out.push_str(text_of(self.tag));
        }
        for k in &self.kids {
            k.write(out, false);
        }
        out.push_str(&format!("</{}>", tag_name(self.tag)));
    }
    pub fn to_xml(&self) -> String {
        let mut s = String::from("<?xml version=\"1.0\" encoding=\"UTF-8\" standalone=\"yes\"?>");
        self.write(&mut s, true);
        s
    }
    fn wire(&self, out: &mut Vec<i64>) {
        out.push(self.tag);
        out.push(self.attrs.len() as i64);
        for (a, v) in &self.attrs {
            out.push(*a);
            let (k, x) = match v {
                AVal::Num(n) => (0, [*n, 0, 0, 0]),
                AVal::Bad => (1, [0, 0, 0, 0]),
                AVal::Word(w) => (2, [*w, 0, 0, 0]),
                AVal::Id(i) => (3, [*i, 0, 0, 0]),
                AVal::Target(c, p) => (4, [*c, *p, 0, 0]),
                AVal::Cell(r, c) => (5, [*r, *c, 0, 0]),
                AVal::Range(a, b, c, d) => (6, [*a, *b, *c, *d]),
                AVal::Rgb(c) => (7, [*c, 0, 0, 0]),
            };
            out.push(k);
            out.extend_from_slice(&x);
        }
        out.push(self.text as i64);
        out.push(self.kids.len() as i64);
        for k in &self.kids {
            k.wire(out);
        }
    }
    fn describe(&self, out: &mut String) {
        out.push('<');
        out.push_str(tag_name(self.tag));
        for (a, v) in &self.attrs {
            out.push_str(&format!(" {}={:?}", attr_name(*a), v));
        }
        out.push('>');
        for k in &self.kids {
            k.describe(out);
        }
    }
    pub fn count_nodes(&self) -> usize {
        1 + self.kids.iter().map(|k| k.count_nodes()).sum::<usize>()
    }
    /// the n-th node in pre-order
    pub fn node_mut(&mut self, n: &mut usize) -> Option<&mut Xml> {
        if *n == 0 {
            return Some(self);
        }
        *n -= 1;
        for k in self.kids.iter_mut() {
            if let Some(x) = k.node_mut(n) {
                return Some(x);
            }
        }
        None
    }
}

fn zc(n: i64) -> String {
    if n < 0 { format!("({n})") } else { n.to_string() }
}
impl Xml {
    /// Gallina term of type Skeleton.xml
    pub fn coq(&self, out: &mut String, indent: usize) {
        let pad = " ".repeat(indent);
        out.push_str(&format!("{pad}(Elem {} [", zc(self.tag)));
        let mut first = true;
        for (a, v) in &self.attrs {
            if !first {
                out.push_str("; ");
            }
            first = false;
            let vs = match v {
                AVal::Num(n) => format!("VNum {}", zc(*n)),
                AVal::Bad => "VBad".to_string(),
                AVal::Word(w) => format!("VWord {}", zc(*w)),
                AVal::Id(k) => format!("VId {}", zc(*k)),
                AVal::Target(c, p) => format!("VTarget {} {}", zc(*c), zc(*p)),
                AVal::Cell(r, c) => format!("VCell {} {}", zc(*r), zc(*c)),
                AVal::Range(a, b, c, d) => format!("VRange {} {} {} {}", zc(*a), zc(*b), zc(*c), zc(*d)),
                AVal::Rgb(c) => format!("VRgb {}", zc(*c)),
            };
            out.push_str(&format!("({}, {})", zc(*a), vs));
        }
        out.push_str(&format!("] {} [", if self.text { "true" } else { "false" }));
        if self.kids.is_empty() {
            out.push_str("])");
            return;
        }
        out.push('\n');
        for (i, k) in self.kids.iter().enumerate() {
            k.coq(out, indent + 2);
            out.push_str(if i + 1 < self.kids.len() { ";\n" } else { "])" });
        }
    }
}
impl FState {
    pub fn coq(&self, indent: usize) -> String {
        match self {
            FState::Missing => "Missing".to_string(),
            FState::Malformed => "Malformed".to_string(),
            FState::Tree(t) => {
                let mut s = String::from("(Tree\n");
                t.coq(&mut s, indent + 2);
                s.push(')');
                s
            }
        }
    }
    fn wire(&self, out: &mut Vec<i64>) {
        match self {
            FState::Missing => out.push(0),
            FState::Malformed => out.push(1),
            FState::Tree(t) => {
                out.push(2);
                t.wire(out);
            }
        }
    }
    fn bytes(&self) -> Option<Vec<u8>> {
        match self {
            FState::Missing => None,
            FState::Malformed => Some(b"<?xml version=\"1.0\"?><a><b></a>".to_vec()),
            FState::Tree(t) => Some(t.to_xml().into_bytes()),
        }
    }
    fn describe(&self) -> String {
        match self {
            FState::Missing => "MISSING".into(),
            FState::Malformed => "MALFORMED".into(),
            FState::Tree(t) => {
                let mut s = String::new();
                t.describe(&mut s);
                s
            }
        }
    }
    pub fn tree_mut(&mut self) -> Option<&mut Xml> {
        match self {
            FState::Tree(t) => Some(t),
            _ => None,
        }
    }
}

impl Pkg {
    /// Gallina term of type Skeleton.pkg
    pub fn coq(&self) -> String {
        let lst = |l: &Vec<(i64, FState)>| -> String {
            let items: Vec<String> = l.iter().map(|(k, f)| format!("({}, {})", zc(*k), f.coq(6))).collect();
            format!("[{}]", items.join(";\n     "))
        };
        format!("{{| p_sst := {};\n   p_wb := {};\n   p_rels := {};\n   p_styles := {};\n   p_parts := {};\n   p_srels := {} |}}",
                self.sst.coq(4), self.wb.coq(4), self.rels.coq(4), self.styles.coq(4), lst(&self.parts), lst(&self.srels))
    }
    pub fn wire(&self) -> String {
        let mut v: Vec<i64> = vec![];
        self.sst.wire(&mut v);
        self.wb.wire(&mut v);
        self.rels.wire(&mut v);
        self.styles.wire(&mut v);
        v.push(self.parts.len() as i64);
        for (id, f) in &self.parts {
            v.push(*id);
            f.wire(&mut v);
        }
        v.push(self.srels.len() as i64);
        for (id, f) in &self.srels {
            v.push(*id);
            f.wire(&mut v);
        }
        v.iter().map(|x| x.to_string()).collect::<Vec<_>>().join(".")
    }
    pub fn describe(&self) -> String {
        let mut s = format!("workbook.xml={} | rels={} | styles={} | sst={}", self.wb.describe(), self.rels.describe(), self.styles.describe(), self.sst.describe());
        for (id, f) in &self.parts {
            s.push_str(&format!(" | p{id}={}", f.describe()));
        }
        for (id, f) in &self.srels {
            s.push_str(&format!(" | p{id}.rels={}", f.describe()));
        }
        s
    }
    pub fn to_zip(&self) -> Vec<u8> {
        let mut zw = zip::ZipWriter::new(Cursor::new(Vec::new()));
        let opt = zip::write::FileOptions::default().compression_method(zip::CompressionMethod::Stored);
        let mut put = |name: String, f: &FState| {
            if let Some(b) = f.bytes() {
                zw.start_file(name, opt).unwrap();
                zw.write_all(&b).unwrap();
            }
        };
        put("[Content_Types].xml".into(), &FState::Tree(el(T_RELATIONSHIPS, vec![], vec![])));
        put("xl/sharedStrings.xml".into(), &self.sst);
        put("xl/workbook.xml".into(), &self.wb);
        put("xl/_rels/workbook.xml.rels".into(), &self.rels);
        put("xl/styles.xml".into(), &self.styles);
        let mut seen = vec![];
        for (id, f) in &self.parts {
            if seen.contains(id) {
                continue; // first binding wins (as in the model's lookup)
            }
            seen.push(*id);
            put(format!("xl/worksheets/p{id}.xml"), f);
            put(format!("xl/p{id}.xml"), f);
        }
        let mut seen = vec![];
        for (id, f) in &self.srels {
            if seen.contains(id) {
                continue;
            }
            seen.push(*id);
            put(format!("xl/worksheets/_rels/p{id}.xml.rels"), f);
        }
        zw.finish().unwrap().into_inner()
    }
    pub fn files_mut(&mut self) -> Vec<&mut FState> {
        let mut v: Vec<&mut FState> = vec![&mut self.sst, &mut self.wb, &mut self.rels, &mut self.styles];
        for (_, f) in self.parts.iter_mut() {
            v.push(f);
        }
        for (_, f) in self.srels.iter_mut() {
            v.push(f);
        }
        v
    }
}

// ---- valid base packages ---------------------------------------------------------------------
fn styles_tree() -> Xml {
    el(T_STYLESHEET, vec![], vec![
        el(T_NUMFMTS, vec![], vec![el(T_NUMFMT, vec![], vec![])]),
        el(T_FONTS, vec![], vec![el(T_FONT, vec![], vec![
            el(T_SZ, vec![(A_VAL, AVal::Num(11))], vec![]),
            el(T_COLOR, vec![(A_RGB, AVal::Rgb(0))], vec![]),
        ])]),
        el(T_FILLS, vec![], vec![el(T_FILL, vec![], vec![el(T_PATTERNFILL, vec![], vec![
            el(T_FGCOLOR, vec![(A_INDEXED, AVal::Num(3))], vec![]),
            el(T_BGCOLOR, vec![(A_THEME, AVal::Num(1))], vec![]),
        ])])]),
        el(T_BORDERS, vec![], vec![el(T_BORDER, vec![], vec![el(T_LEFT, vec![(A_STYLE, AVal::Word(0))], vec![
            el(T_COLOR, vec![(A_RGB, AVal::Rgb(1))], vec![]),
        ])])]),
        el(T_CELLSTYLEXFS, vec![], vec![el(T_XF, vec![], vec![])]),
        el(T_CELLSTYLES, vec![], vec![el(T_CELLSTYLE, vec![(A_NAME, AVal::Word(0)), (A_XFID, AVal::Num(0))], vec![])]),
        el(T_CELLXFS, vec![], vec![el(T_XF, vec![(A_XFID, AVal::Num(0))], vec![]), el(T_XF, vec![], vec![])]),
        el(T_DXFS, vec![], vec![el(T_DXF, vec![], vec![el(T_FONT, vec![], vec![el(T_COLOR, vec![(A_THEME, AVal::Num(2))], vec![])])])]),
    ])
}

fn sheet_tree(rich: bool) -> Xml {
    let mut rows = vec![
        el(T_ROW, vec![(A_R, AVal::Num(1))], vec![
            el(T_C, vec![(A_R, AVal::Cell(1, 1))], vec![elt(T_V, vec![])]),
            el(T_C, vec![(A_R, AVal::Cell(1, 2)), (A_T, AVal::Word(4))], vec![elt(T_F, vec![]), elt(T_V, vec![])]),
        ]),
    ];
    if rich {
        rows.push(el(T_ROW, vec![(A_R, AVal::Num(2))], vec![
            el(T_C, vec![(A_R, AVal::Cell(2, 3))], vec![
                elt(T_F, vec![(A_T, AVal::Word(0)), (A_SI, AVal::Num(0)), (A_REF, AVal::Range(2, 3, 3, 3))]),
                elt(T_V, vec![]),
            ]),
            el(T_C, vec![(A_R, AVal::Cell(2, 4))], vec![
                elt(T_F, vec![(A_T, AVal::Word(1)), (A_REF, AVal::Range(2, 4, 3, 5))]),
                elt(T_V, vec![]),
            ]),
        ]));
        rows.push(el(T_ROW, vec![], vec![
            el(T_C, vec![(A_R, AVal::Cell(3, 3))], vec![
                el(T_F, vec![(A_T, AVal::Word(0)), (A_SI, AVal::Num(0))], vec![]),
                elt(T_V, vec![]),
            ]),
            el(T_C, vec![(A_R, AVal::Cell(3, 6))], vec![el(T_F, vec![(A_CA, AVal::Num(1))], vec![]), elt(T_V, vec![])]),
        ]));
    }
    let mut kids = vec![
        el(T_SHEETPR, vec![], vec![el(T_TABCOLOR, vec![(A_RGB, AVal::Rgb(0))], vec![])]),
        el(T_DIMENSION, vec![(A_REF, AVal::Range(1, 1, 3, 6))], vec![]),
        el(T_SHEETVIEWS, vec![], vec![el(T_SHEETVIEW, vec![], vec![
            el(T_SELECTION, vec![(A_ACTIVECELL, AVal::Cell(1, 1)), (A_SQREF, AVal::Range(1, 1, 2, 2))], vec![]),
        ])]),
        el(T_COLS, vec![], vec![el(T_COL, vec![(A_MIN, AVal::Num(1)), (A_MAX, AVal::Num(2)), (A_WIDTH, AVal::Num(12))], vec![])]),
        el(T_SHEETDATA, vec![], rows),
    ];
    if rich {
        kids.push(el(T_MERGECELLS, vec![], vec![el(T_MERGECELL, vec![(A_REF, AVal::Range(5, 1, 6, 2))], vec![])]));
        kids.push(el(T_HYPERLINKS, vec![], vec![
            el(T_HYPERLINK, vec![(A_REF, AVal::Cell(1, 1)), (A_LOCATION, AVal::Word(0))], vec![]),
            el(T_HYPERLINK, vec![(A_REF, AVal::Range(1, 2, 2, 2)), (A_RID, AVal::Id(2))], vec![]),
        ]));
    }
    el(T_WORKSHEET, vec![], kids)
}

fn rel(id: i64, ty: i64, cls: i64, part: i64) -> Xml {
    el(T_RELATIONSHIP, vec![(A_ID, AVal::Id(id)), (A_TYPE, AVal::Word(ty)), (A_TARGET, AVal::Target(cls, part))], vec![])
}

/// k = 0: one plain sheet; 1: two sheets (absolute + relative target), defined names;
/// 2: three sheets, one hidden, one chartsheet-like relationship, shared strings;
/// 3: one rich sheet with sheet rels (comments, hyperlink, table)
pub fn base_pkg(k: usize) -> Pkg {
    let nsheets = match k { 0 => 1, 1 => 2, 2 => 3, _ => 1 };
    let mut sheets = vec![];
    let mut rels = vec![];
    let mut parts = vec![];
    let mut srels = vec![];
    for i in 0..nsheets {
        let mut at = vec![(A_NAME, AVal::Word(i)), (A_SHEETID, AVal::Num(i + 1)), (A_RID, AVal::Id(i + 1))];
        if k == 2 && i == 1 {
            at.push((A_STATE, AVal::Word(1)));
        }
        sheets.push(el(T_SHEET, at, vec![]));
        let cls = if k == 1 && i == 0 { TC_ABS_WS } else { TC_REL_WS };
        let ty = if k == 2 && i == 2 { 5 } else { 0 };
        rels.push(rel(i + 1, ty, cls, 10 + i));
        parts.push((10 + i, FState::Tree(sheet_tree(k == 3 || (k == 1 && i == 1)))));
    }
    if k >= 2 {
        rels.push(rel(9, 4, TC_BARE, 99)); // theme relationship to a missing part: falls back to the default theme
    }
    let mut wbk = vec![el(T_SHEETS, vec![], sheets)];
    if k == 1 || k == 3 {
        wbk.push(el(T_DEFINEDNAMES, vec![], vec![
            elt(T_DEFINEDNAME, vec![(A_NAME, AVal::Word(0))]),
            elt(T_DEFINEDNAME, vec![(A_NAME, AVal::Word(1)), (A_LOCALSHEETID, AVal::Num(0))]),
        ]));
    }
    if k == 3 {
        srels.push((10, FState::Tree(el(T_RELATIONSHIPS, vec![], vec![
            rel(1, 1, TC_DOTDOT, 20),
            rel(2, 2, TC_BARE, 21),
            rel(3, 3, TC_DOTDOT, 30),
        ]))));
        parts.push((20, FState::Tree(el(T_COMMENTS, vec![], vec![el(T_COMMENTLIST, vec![], vec![
            el(T_COMMENT, vec![(A_REF, AVal::Cell(1, 1))], vec![el(T_TEXT, vec![], vec![elt(T_T, vec![])])]),
        ])]))));
        parts.push((30, FState::Tree(el(T_TABLE, vec![(A_NAME, AVal::Word(0)), (A_REF, AVal::Range(10, 1, 12, 2)), (A_TOTALSROWCOUNT, AVal::Num(0))], vec![
            el(T_AUTOFILTER, vec![(A_REF, AVal::Range(10, 1, 12, 2))], vec![]),
            el(T_TABLECOLUMNS, vec![], vec![
                el(T_TABLECOLUMN, vec![(A_LCID, AVal::Num(1)), (A_NAME, AVal::Word(1))], vec![]),
                el(T_TABLECOLUMN, vec![(A_LCID, AVal::Num(2)), (A_NAME, AVal::Word(2))], vec![]),
            ]),
        ]))));
    }
    Pkg {
        sst: if k == 2 { FState::Tree(el(T_SST, vec![], vec![el(T_SI, vec![], vec![elt(T_T, vec![])])])) } else { FState::Missing },
        wb: FState::Tree(el(T_WORKBOOK, vec![], wbk)),
        rels: FState::Tree(el(T_RELATIONSHIPS, vec![], rels)),
        styles: FState::Tree(styles_tree()),
        parts,
        srels,
    }
}

/// find the first node with the given tag in pre-order
fn find_tag(x: &mut Xml, tag: i64) -> Option<&mut Xml> {
    if x.tag == tag {
        return Some(x);
    }
    for k in x.kids.iter_mut() {
        if let Some(r) = find_tag(k, tag) {
            return Some(r);
        }
    }
    None
}
fn remove_tag(x: &mut Xml, tag: i64) {
    x.kids.retain(|k| k.tag != tag);
    for k in x.kids.iter_mut() {
        remove_tag(k, tag);
    }
}
fn set_attr(x: &mut Xml, a: i64, v: Option<AVal>) {
    x.attrs.retain(|(k, _)| *k != a);
    if let Some(v) = v {
        x.attrs.push((a, v));
    }
}

/// the named witnesses: the same packages as the `C25_refuted_*` theorems of Props/C25.v
pub fn witnesses() -> Vec<(&'static str, Pkg)> {
    let mut out = vec![];
    // F19a: worksheet without <sheetData>
    let mut p = base_pkg(0);
    remove_tag(p.parts[0].1.tree_mut().unwrap(), T_SHEETDATA);
    out.push(("no_sheetdata", p));
    // F19b: comments Target shorter than two bytes
    for (name, cls) in [("short_target_empty", TC_EMPTY), ("short_target_one", TC_ONE), ("nonboundary_target", TC_NONBOUNDARY)] {
        let mut p = base_pkg(3);
        let t = p.srels[0].1.tree_mut().unwrap();
        set_attr(&mut t.kids[0], A_TARGET, Some(AVal::Target(cls, 20)));
        out.push((name, p));
    }
    // table Target shorter than two bytes
    let mut p = base_pkg(3);
    let t = p.srels[0].1.tree_mut().unwrap();
    set_attr(&mut t.kids[2], A_TARGET, Some(AVal::Target(TC_EMPTY, 30)));
    out.push(("short_table_target", p));
    // F19c: worksheet path without /worksheets/
    let mut p = base_pkg(0);
    let t = p.rels.tree_mut().unwrap();
    set_attr(&mut t.kids[0], A_TARGET, Some(AVal::Target(TC_BARE, 10)));
    out.push(("no_worksheets_dir", p));
    // r:id of a sheet that is not in workbook.xml.rels
    let mut p = base_pkg(0);
    let t = p.wb.tree_mut().unwrap();
    set_attr(find_tag(t, T_SHEET).unwrap(), A_RID, Some(AVal::Id(7)));
    out.push(("dangling_rid", p));
    // localSheetId beyond the sheets
    let mut p = base_pkg(1);
    let t = p.wb.tree_mut().unwrap();
    let dn = find_tag(t, T_DEFINEDNAME).unwrap();
    set_attr(dn, A_LOCALSHEETID, Some(AVal::Num(2)));
    out.push(("local_sheet_id_out_of_range", p));
    // defined name but no worksheet relationship at all
    let mut p = base_pkg(1);
    let t = p.rels.tree_mut().unwrap();
    for r in t.kids.iter_mut() {
        set_attr(r, A_TYPE, Some(AVal::Word(5)));
    }
    out.push(("defined_name_without_worksheets", p));
    // styles.xml without one of the six containers
    for (name, tag) in [("styles_no_fonts", T_FONTS), ("styles_no_fills", T_FILLS), ("styles_no_borders", T_BORDERS),
                        ("styles_no_cellstylexfs", T_CELLSTYLEXFS), ("styles_no_cellstyles", T_CELLSTYLES), ("styles_no_cellxfs", T_CELLXFS)] {
        let mut p = base_pkg(0);
        remove_tag(p.styles.tree_mut().unwrap(), tag);
        out.push((name, p));
    }
    // rgb attribute whose byte 2 is inside a multi-byte character
    let mut p = base_pkg(0);
    set_attr(find_tag(p.styles.tree_mut().unwrap(), T_COLOR).unwrap(), A_RGB, Some(AVal::Rgb(2)));
    out.push(("rgb_nonboundary", p));
    // comment <t/> without text
    let mut p = base_pkg(3);
    find_tag(p.parts[1].1.tree_mut().unwrap(), T_T).unwrap().text = false;
    out.push(("comment_t_without_text", p));
    out
}

/// witnesses that must NOT be imported in-process (memory blow-up); run through `probe-file`
pub fn hazard_witnesses() -> Vec<(&'static str, Pkg)> {
    let mut out = vec![];
    // array formula whose ref covers the whole sheet: the reader inserts one map entry per cell
    let mut p = base_pkg(0);
    let sd = find_tag(p.parts[0].1.tree_mut().unwrap(), T_SHEETDATA).unwrap();
    sd.kids[0].kids[0] = el(T_C, vec![(A_R, AVal::Cell(1, 1))], vec![
        elt(T_F, vec![(A_T, AVal::Word(1)), (A_REF, AVal::Range(1, 1, 1048576, 16384))]),
        elt(T_V, vec![]),
    ]);
    out.push(("array_ref_full_sheet", p));
    out
}

// ---- mutations ---------------------------------------------------------------------------------
fn alt_values(attr: i64, cur: &AVal) -> Vec<AVal> {
    let mut v = vec![AVal::Bad];
    match attr {
        A_TARGET => {
            let part = if let AVal::Target(_, p) = cur { *p } else { 10 };
            for c in 0..8 {
                v.push(AVal::Target(c, part));
            }
            v.push(AVal::Target(TC_DOTDOT, 77));
            v.push(AVal::Target(TC_REL_WS, 77));
            v.push(AVal::Target(TC_ABS_XL, part));
        }
        A_TYPE => {
            for w in 0..7 {
                v.push(AVal::Word(w));
            }
        }
        A_STATE => {
            for w in 0..4 {
                v.push(AVal::Word(w));
            }
            v.push(AVal::Num(1));
        }
        A_T => {
            for w in 0..8 {
                v.push(AVal::Word(w));
            }
        }
        A_RGB => {
            for c in 0..3 {
                v.push(AVal::Rgb(c));
            }
            v.push(AVal::Num(12345678));
        }
        A_RID | A_ID => {
            for k in [1, 2, 3, 7] {
                v.push(AVal::Id(k));
            }
            v.push(AVal::Num(1));
        }
        A_R | A_REF | A_ACTIVECELL | A_SQREF => {
            v.push(AVal::Num(1));
            v.push(AVal::Num(-1));
            v.push(AVal::Num(2147483648));
            v.push(AVal::Cell(1, 1));
            v.push(AVal::Cell(2, 4));
            v.push(AVal::Cell(1048576, 16384));
            v.push(AVal::Range(2, 4, 2, 5));
            v.push(AVal::Range(1, 1, 2, 2));
            v.push(AVal::Range(3, 3, 1, 1));
        }
        A_NAME | A_LOCATION => {
            v.push(AVal::Word(0));
            v.push(AVal::Word(5));
            v.push(AVal::Num(3));
        }
        _ => {
            for n in [-1i64, 0, 1, 2, 3, 65, 2147483647, 2147483648, 4294967295, 4294967296, -2147483648, -2147483649] {
                v.push(AVal::Num(n));
            }
            v.push(AVal::Word(9));
        }
    }
    v.retain(|x| x != cur);
    v
}

/// every package that differs from `base` by exactly one edit (finite, enumerated completely)
pub fn all_single_mutations(base: &Pkg) -> Vec<(String, Pkg)> {
    let mut out = vec![];
    let nfiles = 4 + base.parts.len() + base.srels.len();
    for fi in 0..nfiles {
        for st in [FState::Missing, FState::Malformed] {
            let mut p = base.clone();
            let mut fs = p.files_mut();
            if *fs[fi] == st {
                continue;
            }
            *fs[fi] = st.clone();
            drop(fs);
            out.push((format!("file{fi}:{:?}", st), p));
        }
        let n = {
            let mut p = base.clone();
            let mut fs = p.files_mut();
            fs[fi].tree_mut().map(|t| t.count_nodes()).unwrap_or(0)
        };
        for ni in 0..n {
            // node-level edits: delete, duplicate, move first/last, drop text, per-attribute edits
            let (nk, attrs, tag) = {
                let mut p = base.clone();
                let mut fs = p.files_mut();
                let mut i = ni;
                let x = fs[fi].tree_mut().unwrap().node_mut(&mut i).unwrap();
                (x.kids.len(), x.attrs.clone(), x.tag)
            };
            let mut edit = |label: String, f: &dyn Fn(&mut Xml)| {
                let mut p = base.clone();
                {
                    let mut fs = p.files_mut();
                    let mut i = ni;
                    let x = fs[fi].tree_mut().unwrap().node_mut(&mut i).unwrap();
                    f(x);
                }
                out.push((label, p));
            };
            for ki in 0..nk {
                edit(format!("f{fi}/n{ni}/{}:del-kid{ki}", tag_name(tag)), &|x| {
                    x.kids.remove(ki);
                });
                edit(format!("f{fi}/n{ni}/{}:dup-kid{ki}", tag_name(tag)), &|x| {
                    let k = x.kids[ki].clone();
                    x.kids.insert(ki, k);
                });
                if ki + 1 < nk {
                    edit(format!("f{fi}/n{ni}/{}:swap-kid{ki}", tag_name(tag)), &|x| {
                        x.kids.swap(ki, ki + 1);
                    });
                }
            }
            if nk > 0 {
                edit(format!("f{fi}/n{ni}/{}:del-all-kids", tag_name(tag)), &|x| x.kids.clear());
            }
            edit(format!("f{fi}/n{ni}/{}:toggle-text", tag_name(tag)), &|x| x.text = !x.text);
            for (a, cur) in &attrs {
                edit(format!("f{fi}/n{ni}/{}:del-attr-{}", tag_name(tag), attr_name(*a)), &|x| set_attr(x, *a, None));
                for alt in alt_values(*a, cur) {
                    edit(format!("f{fi}/n{ni}/{}:{}={:?}", tag_name(tag), attr_name(*a), alt), &|x| {
                        for e in x.attrs.iter_mut() {
                            if e.0 == *a {
                                e.1 = alt.clone();
                            }
                        }
                    });
                }
            }
            // add an attribute the node does not have (the ones the reader looks at)
            for (a, v) in [(A_STATE, AVal::Word(3)), (A_LOCALSHEETID, AVal::Num(5)), (A_LOCALSHEETID, AVal::Num(1)), (A_RGB, AVal::Rgb(2)),
                           (A_XFID, AVal::Bad), (A_T, AVal::Word(3)), (A_T, AVal::Word(1)), (A_T, AVal::Word(0)), (A_CA, AVal::Num(1)),
                           (A_INDEXED, AVal::Bad), (A_THEME, AVal::Bad), (A_TOTALSROWCOUNT, AVal::Num(-1)), (A_HEADERROWCOUNT, AVal::Bad)] {
                if !attrs.iter().any(|(k, _)| *k == a) {
                    edit(format!("f{fi}/n{ni}/{}:add-{}={:?}", tag_name(tag), attr_name(a), v), &|x| x.attrs.push((a, v.clone())));
                }
            }
        }
    }
    out
}

pub fn random_mutation(rng: &mut Rng, p: &mut Pkg) {
    let mut fs = p.files_mut();
    let fi = rng.below(fs.len() as u64) as usize;
    if rng.chance(1, 25) {
        *fs[fi] = if rng.chance(1, 2) { FState::Missing } else { FState::Malformed };
        return;
    }
    let Some(t) = fs[fi].tree_mut() else { return };
    let n = t.count_nodes();
    let mut i = rng.below(n as u64) as usize;
    let Some(x) = t.node_mut(&mut i) else { return };
    match rng.below(7) {
        0 if !x.kids.is_empty() => {
            let k = rng.below(x.kids.len() as u64) as usize;
            x.kids.remove(k);
        }
        1 if !x.kids.is_empty() => {
            let k = rng.below(x.kids.len() as u64) as usize;
            let c = x.kids[k].clone();
            x.kids.insert(k, c);
        }
        2 if x.kids.len() > 1 => {
            let a = rng.below(x.kids.len() as u64) as usize;
            let b = rng.below(x.kids.len() as u64) as usize;
            x.kids.swap(a, b);
        }
        3 if !x.attrs.is_empty() => {
            let k = rng.below(x.attrs.len() as u64) as usize;
            x.attrs.remove(k);
        }
        4 | 5 if !x.attrs.is_empty() => {
            let k = rng.below(x.attrs.len() as u64) as usize;
            let alts = alt_values(x.attrs[k].0, &x.attrs[k].1);
            if !alts.is_empty() {
                x.attrs[k].1 = rng.pick(&alts).clone();
            }
        }
        _ => {
            let cands = [(A_STATE, AVal::Word(3)), (A_LOCALSHEETID, AVal::Num(5)), (A_RGB, AVal::Rgb(2)), (A_XFID, AVal::Bad), (A_T, AVal::Word(1)),
                         (A_T, AVal::Word(0)), (A_CA, AVal::Num(1)), (A_INDEXED, AVal::Bad), (A_R, AVal::Bad), (A_SI, AVal::Num(1))];
            let (a, v) = rng.pick(&cands).clone();
            if !x.attrs.iter().any(|(k, _)| *k == a) {
                x.attrs.push((a, v));
            } else {
                x.text = !x.text;
            }
        }
    }
}
