//! C10 — display language and locale never change what formulas compute.
//! (A) exhaustive: every built-in function name x every ordered pair of languages (and a few
//!     argument shapes under rotating locales): typed -> stored -> shown in the other configuration
//!     -> re-typed there = the same stored formula; the displayed text, lexed by the real lexer, must
//!     be parsed by the extracted model (names_of over the GENERATED tables) to the tree the real
//!     parser returns.
//! (B) formula pools typed in English, chained through configurations (typed/shown/re-typed).
//! (C) switch histories: set_language / set_locale leave stored formulas, defined names and
//!     conditional-format formulas untouched; values change only for locale-dependent functions;
//!     the same structural history with and without switches stores the same workbook.
#[path = "../../c09/src/nodeio.rs"]
mod nodeio;
#[path = "../../c26/src/treeutil.rs"]
mod treeutil;
#[path = "../../c26/src/fgen.rs"]
mod fgen;
use fgen::*;
use nodeio::*;
use treeutil::*;
use vh_common::*;

use ironcalc_base::expressions::parser::stringify::{to_localized_string, to_rc_format};
use ironcalc_base::expressions::parser::{Node, Parser};
use ironcalc_base::expressions::types::CellReferenceRC;
use ironcalc_base::language::get_language;
use ironcalc_base::locale::get_locale;
use ironcalc_base::{Function, Model, UserModel};
use serde_json::json;
use std::collections::{BTreeMap, BTreeSet, HashMap, HashSet};
use std::panic::{catch_unwind, AssertUnwindSafe};

pub const LANGS: [&str; 5] = ["en", "de", "es", "fr", "it"];          // order of Generated/Tables_c23.v
pub const LOCALES: [&str; 6] = ["en", "en-GB", "de", "es", "fr", "it"];
/// functions whose result is defined to depend on the locale (number <-> text conversion, dates
/// from text, currency); a formula that contains one may change value on set_locale
pub const LOCALE_DEPENDENT: [&str; 12] = ["TEXT", "VALUE", "NUMBERVALUE", "DOLLAR", "FIXED", "DATEVALUE", "TIMEVALUE", "TEXTJOIN", "CONCAT", "CONCATENATE", "T", "N"];

fn dot(loc: &str) -> bool { get_locale(loc).unwrap().numbers.symbols.decimal == "." }
fn hash64(s: &str) -> u64 { let mut h: u64 = 0xcbf29ce484222325; for b in s.bytes() { h ^= b as u64; h = h.wrapping_mul(0x100000001b3); } h }

struct Run {
    cs: Cases,
    or: Oracle,
    fns: Fns,
    seen: HashSet<u64>,
    dist: BTreeMap<String, u64>,
    samples: Vec<String>,
    distinct: HashSet<String>,
    locale_dependent_seen: BTreeSet<String>,
}

fn new_model(lang: &'static str, loc: &str) -> Model<'static> {
    let loc: &'static str = LOCALES.iter().copied().find(|l| *l == loc).unwrap_or("en");
    let mut m = Model::new_empty("m", loc, "UTC", lang).unwrap();
    let _ = m.set_user_input(0, 1, 1, "10".to_string());
    let _ = m.set_user_input(0, 2, 1, "20".to_string());
    let _ = m.set_user_input(0, 1, 2, "text".to_string());
    m
}
fn stored(m: &Model, sheet: u32, row: i32, col: i32) -> Option<String> {
    let ws = m.workbook.worksheet(sheet).ok()?;
    let f = ws.cell(row, col)?.get_formula()?;
    ws.shared_formulas.get(f as usize).cloned()
}
fn tree(m: &Model, sheet: u32, row: i32, col: i32) -> Option<Node> {
    let ws = m.workbook.worksheet(sheet).ok()?;
    let f = ws.cell(row, col)?.get_formula()?;
    m.parsed_formulas.get(sheet as usize)?.get(f as usize).map(|p| p.0.clone())
}
/// the computed value as it is stored (language independent: errors by kind, numbers by bits)
fn value(m: &Model, sheet: u32, row: i32, col: i32) -> String {
    use ironcalc_base::types::{Cell, FormulaValue, SpillValue};
    let fv = |v: &FormulaValue| match v {
        FormulaValue::Unevaluated => "unevaluated".to_string(), FormulaValue::Boolean(x) => format!("b:{x}"),
        FormulaValue::Number(n) => format!("n:{:016x}", n.to_bits()), FormulaValue::Text(t) => format!("t:{t:?}"),
        FormulaValue::Error { ei, .. } => format!("e:{ei:?}"),
    };
    match m.workbook.worksheet(sheet).ok().and_then(|ws| ws.cell(row, col)) {
        None => "none".into(),
        Some(Cell::CellFormula { v, .. }) | Some(Cell::ArrayFormula { v, .. }) => fv(v),
        Some(Cell::SpillCell { v, .. }) => match v { SpillValue::Boolean(x) => format!("b:{x}"), SpillValue::Number(n) => format!("n:{:016x}", n.to_bits()), SpillValue::Text(t) => format!("t:{t:?}"), SpillValue::Error(e) => format!("e:{e:?}") },
        Some(c) => format!("{c:?}"),
    }
}

/// class of a cross-configuration failure, from the tree and the target configuration
fn classify(e: &Node, lang: &'static str, loc: &str) -> String {
    let g = get_language(lang).unwrap();
    if contains(e, &|n| matches!(n, Node::ParseErrorKind { .. })) { return "unparsable_input".into(); }
    // identifiers that are names of the target language: user functions / variables / defined names
    if contains(e, &|n| match n {
        Node::NamedFunctionKind { name, .. } => g.functions.lookup(name).is_some() || name.to_uppercase() == g.booleans.r#true.to_uppercase() || name.to_uppercase() == g.booleans.r#false.to_uppercase(),
        Node::NamedVariableKind { name, .. } | Node::DefinedNameKind((name, _, _)) => name.to_uppercase() == g.booleans.r#true.to_uppercase() || name.to_uppercase() == g.booleans.r#false.to_uppercase(),
        _ => false }) { return "identifier_is_name_in_target_language".into(); }
    if contains(e, &|n| matches!(n, Node::FunctionKind { kind, .. } if g.functions.lookup(&kind.to_localized_name(g)).as_ref() != Some(kind))) { return "function_name_not_unique".into(); }
    if contains(e, &|n| matches!(n, Node::ErrorKind(ironcalc_base::expressions::token::Error::NIMPL)) || array_has_error(n, true)) { return "error_nimpl_spelling".into(); }
    if lang != "en" && contains(e, &|n| matches!(n, Node::ErrorKind(k) if k.to_localized_error_string(g) != format!("{k}")) || array_has_error(n, false)) { return "error_not_localized".into(); }
    if !dot(loc) && contains(e, &|n| matches!(n, Node::ArrayKind(rows) if rows.len() > 1)) { return "array_row_separator".into(); }
    if has_long_number(e) { return "number_more_than_15_digits".into(); }
    let mut pairs = vec![];
    bad_pairs(e, &mut pairs);
    if !pairs.is_empty() { return "paren_dropped_associative".into(); }
    if let Some(gl) = glue_class(e, false) { return format!("lexer_glue:{gl}"); }
    if contains(e, &|n| matches!(n, Node::NamedFunctionKind { name, .. } if name.to_lowercase() != *name)) { return "named_function_lowercased".into(); }
    if contains(e, &|n| matches!(n, Node::LambdaCallKind { lambda, .. } if matches!(&**lambda, Node::NamedVariableKind { name, .. } if name.to_lowercase() != *name))) { return "named_function_lowercased".into(); }
    "cross_language_mismatch".into()
}

impl Run {
    /// the tie: displayed text of `e` in (lang, loc) at cell (row, col): real tokens = model print,
    /// real parse = model parse (names_of lang from the generated tables)
    fn tie(&mut self, e: &Node, lang: &'static str, loc: &str, sheets: &[String], defnames: &[(String, Option<u32>, String)], ctx: &CellReferenceRC) {
        let g = get_language(lang).unwrap();
        let l = get_locale(loc).unwrap();
        // what the model does not spell: error literals read by a non-English lexer (debris), parse errors,
        // long numbers are canonicalised on both sides
        if lang != "en" && contains(e, &|n| matches!(n, Node::ErrorKind(_)) || array_has_error(n, false)) { return; }
        if contains(e, &|n| matches!(n, Node::ParseErrorKind { .. })) { return; }
        // an identifier leaf that is the language's boolean literal is lexed as a Boolean token: the model
        // prints identifiers as identifier tokens (oracle class identifier_is_name_in_target_language)
        let is_bool = |name: &str| name.to_uppercase() == g.booleans.r#true.to_uppercase() || name.to_uppercase() == g.booleans.r#false.to_uppercase();
        if contains(e, &|n| match n {
            Node::NamedVariableKind { name, .. } | Node::DefinedNameKind((name, _, _)) | Node::TableNameKind(name) => is_bool(name),
            Node::LambdaDefKind { parameters, .. } => parameters.iter().any(|p| is_bool(&named_variable_fields(&format!("{p:?}")).0)),
            _ => false }) { return; }
        let s = to_localized_string(e, ctx, l, g);
        let toks = tokens(&s, false, l, g);
        if toks.iter().any(|t| t == "X") { return; }
        let mut p = Parser::new(sheets.to_vec(), defnames.to_vec(), HashMap::new(), l, g);
        let back = p.parse(&s, ctx);
        let li = LANGS.iter().position(|x| *x == lang).unwrap();
        let mut env = vec![format!("{}", sheets.len())];
        for sh in sheets { env.push(wire(sh)); }
        env.push(format!("{}", defnames.len()));
        for (n, sc, f) in defnames { env.push(wire(n)); env.push(match sc { Some(i) => format!("{i}"), None => "-1".into() }); env.push(wire(f)); }
        let line = format!("D {li} {} {} {} {} {} | {}", b(dot(loc)), ctx.row, ctx.column, wire(&ctx.sheet), env.join(" "), dump_s(e, &self.fns));
        if self.seen.insert(hash64(&line)) {
            self.cs.case(&line, &format!("{} | {}", toks.join(" "), dump_s(&back, &self.fns)));
            if self.samples.len() < 12 && self.cs.n % 1499 == 5 { self.samples.push(format!("{lang}/{loc}: {s}")); }
        }
    }

    /// typed in English -> (l1, loc1) -> (l2, loc2): each hop is shown there and re-typed into a fresh model
    fn chain(&mut self, text_en: &str, confs: &[(usize, usize)], origin: &str) {
        *self.dist.entry(origin.to_string()).or_insert(0) += 1;
        let mut m0 = new_model("en", "en");
        if catch_unwind(AssertUnwindSafe(|| m0.set_user_input(0, 3, 3, text_en.to_string()))).is_err() { return; }
        let s0 = match stored(&m0, 0, 3, 3) { Some(s) => s, None => return };
        let e0 = tree(&m0, 0, 3, 3).unwrap();
        if matches!(e0, Node::ParseErrorKind { .. }) { return; }
        self.distinct.insert(s0.clone());
        let sheets = vec!["Sheet1".to_string()];
        let ctx = CellReferenceRC { sheet: "Sheet1".into(), row: 3, column: 3 };
        let mut cur = m0;           // the model that currently holds the formula
        for (li, ci) in confs {
            let (lang, loc) = (LANGS[*li], LOCALES[*ci]);
            // switch the holder to the configuration: stored text must not change
            let before = stored(&cur, 0, 3, 3);
            let _ = cur.set_language(lang);
            let _ = cur.set_locale(loc);
            self.or.checked += 1;
            if stored(&cur, 0, 3, 3) != before {
                self.or.fail("switch_changes_stored_formula", json!({"formula": text_en, "to": [lang, loc]}), format!("stored {before:?} became {:?}", stored(&cur, 0, 3, 3)));
                return;
            }
            let shown = cur.get_localized_cell_content(0, 3, 3).unwrap_or_default();
            let e = tree(&cur, 0, 3, 3).unwrap();
            self.tie(&e, lang, loc, &sheets, &[], &ctx);
            // re-type what is shown into a fresh model of that configuration
            let mut fresh = new_model(lang, loc);
            if catch_unwind(AssertUnwindSafe(|| fresh.set_user_input(0, 3, 3, shown.clone()))).is_err() { return; }
            let s1 = stored(&fresh, 0, 3, 3);
            self.or.checked += 1;
            // (an unparsable text is stored as typed: equal texts are not enough)
            let reparsed_ok = tree(&fresh, 0, 3, 3).map(|t| !matches!(t, Node::ParseErrorKind { .. })).unwrap_or(false);
            if s1.as_deref() != Some(s0.as_str()) || !reparsed_ok {
                // the in-memory tree may already differ from what the stored text says (C09 / C26 classes)
                let class = classify(&e, lang, loc);
                self.or.fail(&class, json!({"typed_in_english": text_en, "shown_in": [lang, loc], "shown": shown, "stored_before": s0, "stored_after": s1}),
                    format!("{text_en:?} stored as {s0:?}, shown in {lang}/{loc} as {shown:?}, re-typed there is stored as {s1:?}"));
                return;
            }
            cur = fresh;
        }
    }
}

/// every formula text of a model (shared formulas, defined names, conditional-format formulas)
fn stored_all(m: &Model) -> Vec<String> {
    let mut out = vec![];
    for (i, ws) in m.workbook.worksheets.iter().enumerate() {
        for (k, f) in ws.shared_formulas.iter().enumerate() { out.push(format!("s{i} f{k} {f}")); }
        for (k, cf) in ws.conditional_formatting.iter().enumerate() { out.push(format!("s{i} cf{k} {:?} {:?}", cf.range, cf.cf_rule)); }
    }
    for d in &m.workbook.defined_names { out.push(format!("name {:?} {:?} {}", d.name, d.sheet_id, d.formula)); }
    out
}
fn values_all(m: &Model) -> BTreeMap<(u32, i32, i32), (String, String)> {
    let mut out = BTreeMap::new();
    for (i, ws) in m.workbook.worksheets.iter().enumerate() {
        for (r, row) in &ws.sheet_data { for (c, cell) in row {
            if let Some(f) = cell.get_formula() {
                out.insert((i as u32, *r, *c), (ws.shared_formulas.get(f as usize).cloned().unwrap_or_default(), value(m, i as u32, *r, *c)));
            }
        } }
    }
    out
}
fn mentions_locale_dependent(text: &str) -> Option<&'static str> {
    let u = text.to_uppercase();
    LOCALE_DEPENDENT.iter().copied().find(|f| { u.match_indices(&format!("{f}(")).any(|(i, _)| i == 0 || !u.as_bytes()[i - 1].is_ascii_alphanumeric()) })
}
/// implicit conversions between text and numbers also follow the locale: a text operand of an
/// arithmetic operator or a number operand of '&'
fn implicit_conversion(text: &str) -> bool { text.contains('"') || text.contains('&') }

#[derive(Clone, Debug)]
enum HOp { Lang(usize), Loc(usize), Rename(u32, String), RenameName(u32), NewSheet, DeleteSheet(u32), MoveSheet(u32, u32), InsertRow(u32, i32), Input(u32, i32, i32, String) }

fn build_book(rng: &mut Rng, k: u64) -> (UserModel<'static>, Vec<String>) {
    let mut um = UserModel::new_empty("book", "en", "UTC", "en").unwrap();
    let mut log = vec![];
    let _ = um.new_sheet();
    let _ = um.new_sheet();
    let _ = um.rename_sheet(1, "Data");
    for r in 1..=6 { for c in 1..=3 { let _ = um.set_user_input(0, r, c, &format!("{}", (r * 7 + c * 3) % 11)); let _ = um.set_user_input(1, r, c, &format!("{}.5", r + c)); } }
    for (n, sc, f) in [("Name1", None, "Sheet1!$A$1"), ("rate", None, "Data!$B$2:$B$4"), ("local_n", Some(0u32), "Sheet1!$C$3"), ("inc", None, "=LAMBDA(x,x+1.5)"), ("tot", None, "=LAMBDA(x,SUM(x,Data!$A$1))")] {
        let _ = um.new_defined_name(n, sc, f);
    }
    let g = FGen { sheets: vec!["Sheet1".into(), "Data".into(), "Sheet3".into()], names: vec!["Name1".into(), "rate".into(), "inc(2)".into(), "tot(1)".into()], max_row: 8, max_col: 4,
                   long_numbers: false, errors: k % 3 == 0, arrays: k % 4 == 0, spills: false, upper_user_fn: false };
    let extra = ["=TEXT(1234.5,\"#,##0.00\")", "=VALUE(\"1.5\")", "=\"1,5\"+1", "=1.5&\"\"", "=FIXED(1234.567,1)", "=DOLLAR(12.5)", "=SUM(Data!A1:B3)*1.5", "=IF(Data!A1>2.5,\"y\",\"n\")", "=ROUND(Data!B2/3,2)", "=NUMBERVALUE(\"2,5\",\",\",\".\")", "=DATEVALUE(\"1/2/2024\")", "=Data!A1+Sheet3!A1"];
    let n = 10 + rng.below(10);
    for i in 0..n {
        let f = if i < 4 { rng.pick(&extra).to_string() } else { g.formula(rng) };
        let (sheet, row, col) = (rng.below(3) as u32, rng.range(7, 12) as i32, rng.range(1, 5) as i32);
        if catch_unwind(AssertUnwindSafe(|| um.set_user_input(sheet, row, col, &f))).is_err() { break; }
        log.push(format!("input({sheet},{row},{col},{f:?})"));
    }
    if k % 2 == 0 {
        let r: ironcalc_base::cf_types::CfRuleInput = serde_json::from_str("{\"type\":\"Formula\",\"formula\":\"SUM(A1,1.5)>2\",\"format\":{\"font\":null,\"fill\":null,\"border\":null,\"num_fmt\":null,\"alignment\":null},\"stop_if_true\":false}").unwrap();
        let _ = um.add_conditional_formatting(0, "A1:A6", r);
        let r: ironcalc_base::cf_types::CfRuleInput = serde_json::from_str("{\"type\":\"CellIs\",\"operator\":\"GreaterThan\",\"formula\":\"2.5\",\"formula2\":null,\"format\":{\"font\":null,\"fill\":null,\"border\":null,\"num_fmt\":null,\"alignment\":null},\"stop_if_true\":false}").unwrap();
        let _ = um.add_conditional_formatting(1, "A1:B3", r);
        log.push("two conditional formats".into());
    }
    um.evaluate();
    (um, log)
}

fn apply(um: &mut UserModel, op: &HOp) -> Result<(), String> {
    match op {
        HOp::Lang(l) => um.set_language(LANGS[*l]),
        HOp::Loc(l) => um.set_locale(LOCALES[*l]),
        HOp::Rename(s, n) => um.rename_sheet(*s, n),
        // rename the first global cell / range name, passing the formula as the model shows it (what a UI does)
        HOp::RenameName(k) => {
            let (name, scope, formula) = um.get_defined_name_list().into_iter().find(|(_, s, f)| s.is_none() && !f.to_uppercase().contains("LAMBDA")).ok_or("no name")?;
            um.update_defined_name(&name, scope, &format!("Nm{k}"), scope, &formula)
        }
        HOp::NewSheet => um.new_sheet(),
        HOp::DeleteSheet(s) => um.delete_sheet(*s),
        HOp::MoveSheet(a, b2) => um.move_sheet(*a, *b2),
        HOp::InsertRow(s, r) => um.insert_rows(*s, *r, 1),
        HOp::Input(s, r, c, t) => um.set_user_input(*s, *r, *c, t),
    }
}

impl Run {
    /// one switch history: (1) every switch leaves what is stored untouched and changes values only of
    /// locale-dependent formulas; (2) the structural operations give the same stored workbook and the
    /// same values with and without the switches
    fn history(&mut self, rng: &mut Rng, k: u64, len: usize) {
        let (mut um, log) = build_book(rng, k);
        let bytes = um.to_bytes();
        let mut twin = UserModel::from_bytes(&bytes, "en").unwrap();      // the same history without switches
        twin.evaluate();
        let mut ops: Vec<HOp> = vec![];
        let mut non_en = false;
        for _ in 0..len {
            let ns = um.get_model().workbook.worksheets.len() as u32;
            let op = match rng.below(14) {
                12..=13 => HOp::RenameName(rng.below(1000) as u32),
                0..=2 => HOp::Lang(rng.below(5) as usize),
                3..=5 => HOp::Loc(rng.below(6) as usize),
                6..=7 => HOp::Rename(rng.below(ns as u64) as u32, rng.pick(&["Data", "Datos", "Other Sheet", "Blatt.1", "S4", "Sheet1"]).to_string()),
                // new_sheet names the sheet in the active language (Sheet / Hoja / Feuil / Tabelle / Foglio): by design;
                // generated under English only, so that both runs create the same name
                8 => if um.get_model().get_language() == "en" { HOp::NewSheet } else { HOp::InsertRow(0, 2) },
                9 => HOp::DeleteSheet(rng.below(ns as u64) as u32),
                10 => HOp::MoveSheet(rng.below(ns as u64) as u32, rng.below(ns as u64) as u32),
                _ => HOp::InsertRow(rng.below(ns as u64) as u32, rng.range(1, 8) as i32),
            };
            ops.push(op.clone());
            let replay = json!({"book": k, "build": log, "ops": ops.iter().map(|o| format!("{o:?}")).collect::<Vec<_>>()});
            let before_stored = stored_all(um.get_model());
            let trees_before: Vec<Node> = um.get_model().parsed_formulas.iter().flatten().map(|p| p.0.clone()).collect();
            let before_vals = values_all(um.get_model());
            let res = catch_unwind(AssertUnwindSafe(|| apply(&mut um, &op)));
            let res = match res { Ok(r) => r, Err(_) => { self.or.fail("operation_panics", replay, format!("{op:?} panics")); return; } };
            *self.dist.entry(format!("op:{}", format!("{op:?}").split('(').next().unwrap_or(""))).or_insert(0) += 1;
            match &op {
                HOp::Lang(_) | HOp::Loc(_) => {
                    if res.is_err() { continue; }
                    let is_lang = matches!(op, HOp::Lang(_));
                    non_en = um.get_model().get_language() != "en" || !dot(&um.get_model().get_locale());
                    self.or.checked += 1;
                    let after_stored = stored_all(um.get_model());
                    if after_stored != before_stored {
                        let d: Vec<String> = after_stored.iter().filter(|l| !before_stored.contains(l)).take(2).cloned().collect();
                        self.or.fail(if is_lang { "set_language_changes_stored" } else { "set_locale_changes_stored" }, replay, format!("{op:?}: stored texts changed: {d:?}"));
                        return;
                    }
                    let after_vals = values_all(um.get_model());
                    for (key, (text, v)) in &after_vals {
                        if let Some((_, v0)) = before_vals.get(key) {
                            if v0 != v {
                                self.or.checked += 1;
                                if is_lang {
                                    self.or.fail("set_language_changes_value", replay.clone(), format!("{op:?}: {key:?} {text:?} was {v0} is {v}"));
                                    return;
                                }
                                match mentions_locale_dependent(text) {
                                    Some(f) => { self.locale_dependent_seen.insert(f.to_string()); }
                                    None if implicit_conversion(text) => { self.locale_dependent_seen.insert("(implicit text/number conversion)".to_string()); }
                                    None => {
                                        // a cell that only reads locale-dependent cells changes too: follow one step is not enough in general,
                                        // so the class is decided on the workbook: no locale-dependent formula anywhere => violation
                                        let any_dep = after_vals.values().any(|(t, _)| mentions_locale_dependent(t).is_some() || implicit_conversion(t));
                                        if !any_dep {
                                            self.or.fail("set_locale_changes_value", replay.clone(), format!("{op:?}: {key:?} {text:?} was {v0} is {v}; no locale-dependent formula in the workbook"));
                                            return;
                                        }
                                    }
                                }
                            }
                        }
                    }
                }
                _ => {
                    // the twin performs the same structural operation in en / en
                    let res2 = catch_unwind(AssertUnwindSafe(|| apply(&mut twin, &op)));
                    let res2 = match res2 { Ok(r) => r, Err(_) => return };
                    self.or.checked += 1;
                    if res.is_ok() != res2.is_ok() {
                        // new_sheet names the sheet in the active language: an existing name can clash in one and not the other
                        self.or.fail(if non_en { "operation_outcome_depends_on_language" } else { "twin_outcome_differs" }, replay, format!("{op:?}: {res:?} with switches, {res2:?} without"));
                        return;
                    }
                    if res.is_err() { continue; }
                    if matches!(op, HOp::NewSheet) && um.get_model().get_language() != "en" {
                        // the generated sheet name is localized: align the twin
                        let idx = um.get_model().workbook.worksheets.len() as u32 - 1;
                        let name = um.get_model().workbook.worksheets[idx as usize].get_name();
                        let _ = twin.rename_sheet(idx, &name);
                    }
                    let (a, b2) = (stored_all(um.get_model()), stored_all(twin.get_model()));
                    if a != b2 {
                        let strip = |l: &String| l.splitn(3, ' ').nth(2).unwrap_or("").to_string();
                        let (sa, sb): (BTreeSet<String>, BTreeSet<String>) = (a.iter().map(strip).collect(), b2.iter().map(strip).collect());
                        let mut d: Vec<String> = sa.difference(&sb).take(3).map(|x| format!("only with switches: {x}")).collect();
                        d.extend(sb.difference(&sa).take(3).map(|x| format!("only in en/en: {x}")));
                        // row insertion writes the displaced formula back as LOCALIZED text through the localized parser:
                        // every formula the display form does not read back (F40/F41, F60, F61, foreign identifiers) is damaged
                        let lang: &'static str = LANGS.iter().copied().find(|l| *l == um.get_model().get_language()).unwrap_or("en");
                        let loc = um.get_model().get_locale();
                        let root: Option<String> = trees_before.iter().map(|e| classify(e, lang, &loc))
                            .find(|c| ["function_name_not_unique", "error_nimpl_spelling", "error_not_localized", "array_row_separator", "identifier_is_name_in_target_language"].contains(&c.as_str()) || c.starts_with("lexer_glue:") || c == "unparsable_input")
                            // a formula that never parsed is kept as typed; row insertion re-reads that text with the active
                            // locale, whose parser stops silently at the first character it cannot lex ("8.34.." is 8 in a comma locale)
                            .map(|c| if c == "unparsable_input" { "unparsable_formula_reparsed_in_active_locale".to_string() } else { c });
                        let class = if matches!(op, HOp::Rename(..)) && non_en { "rename_sheet_reparses_in_active_language".to_string() }
                            // the rename loop of update_defined_name still parses the stored formulas with the active locale / language
                            else if matches!(op, HOp::RenameName(..)) && non_en { "rename_name_reparses_in_active_language".to_string() }
                            else if let (true, Some(c)) = (matches!(op, HOp::InsertRow(..)) && non_en, root) { c }
                            else { "structural_op_depends_on_language".to_string() };
                        self.or.fail(&class, replay, format!("{op:?} under {}/{}: stored texts differ from the English run: {d:?}", um.get_model().get_language(), um.get_model().get_locale()));
                        return;
                    }
                }
            }
        }
    }
}


// ---------------------------------------------------------------------------------------------
// (E) conditional-format rules: every rule kind x every formula slot x every language x locale
// ---------------------------------------------------------------------------------------------
use ironcalc_base::cf_types::{CfRule, CfRuleInput, Cfvo, ColorScaleThreshold, Icon, IconThreshold, ValueOperator};
use ironcalc_base::types::{Color, Dxf, Fill};

const CF_NUM: [&str; 8] = ["MAX(2.5,0)", "SUM($A$1:$A$6)/4.5", "AVERAGE($A$1:$A$6)*1.5", "MIN(1.5,A1)", "ROUND(7/3,1)", "LET(v,1.5,v*2)", "10.5", "LAMBDA(a,b,a+b)(1.5,2)"];
const CF_BOOL: [&str; 5] = ["SUM(A1,1.5)>2", "AND(A1>0.5,MAX(A1,2.5)<100)", "IF(A1>2.5,TRUE,FALSE)", "LAMBDA(a,b,a+b)(A1,0.5)>3", "OR(A1=1.5,A1>=LET(v,2.5,v*2))"];

fn dxf() -> Dxf { Dxf { fill: Some(Fill { color: Color::Rgb("#FFCC00".into()), ..Default::default() }), ..Default::default() } }
fn rgb(c: &str) -> Color { Color::Rgb(c.to_string()) }

/// the rule inputs (English texts): (label, input)
fn cf_rules() -> Vec<(String, CfRuleInput)> {
    let mut v = vec![];
    let ops = [ValueOperator::Equal, ValueOperator::GreaterThan, ValueOperator::GreaterThanOrEqual, ValueOperator::LessThan, ValueOperator::LessThanOrEqual, ValueOperator::NotEqual, ValueOperator::Between, ValueOperator::NotBetween];
    for (i, op) in ops.iter().enumerate() {
        let two = matches!(op, ValueOperator::Between | ValueOperator::NotBetween);
        v.push((format!("CellIs:{op:?}"), CfRuleInput::CellIs { operator: op.clone(), formula: CF_NUM[i % 8].to_string(), formula2: if two { Some(CF_NUM[(i + 3) % 8].to_string()) } else { None }, format: dxf(), stop_if_true: i % 2 == 0 }));
    }
    // Between with every pair of bounds shapes
    for i in 0..8 { v.push((format!("CellIs:Between#{i}"), CfRuleInput::CellIs { operator: ValueOperator::Between, formula: CF_NUM[(i + 5) % 8].to_string(), formula2: Some(CF_NUM[i].to_string()), format: dxf(), stop_if_true: false })); }
    for (i, f) in CF_BOOL.iter().enumerate() { v.push((format!("Formula#{i}"), CfRuleInput::Formula { formula: f.to_string(), format: dxf(), stop_if_true: false })); }
    v.push(("ColorScale2".into(), CfRuleInput::ColorScale { thresholds: vec![ColorScaleThreshold { cfvo: Cfvo::Formula(CF_NUM[3].into()), color: rgb("#FF0000") }, ColorScaleThreshold { cfvo: Cfvo::Formula(CF_NUM[0].into()), color: rgb("#00FF00") }] }));
    v.push(("ColorScale3".into(), CfRuleInput::ColorScale { thresholds: vec![ColorScaleThreshold { cfvo: Cfvo::Min, color: rgb("#FF0000") }, ColorScaleThreshold { cfvo: Cfvo::Formula(CF_NUM[4].into()), color: rgb("#FFFF00") }, ColorScaleThreshold { cfvo: Cfvo::Formula(CF_NUM[6].into()), color: rgb("#00FF00") }] }));
    v.push(("DataBar:both".into(), CfRuleInput::DataBar { min: Some(Cfvo::Formula(CF_NUM[3].into())), max: Some(Cfvo::Formula(CF_NUM[5].into())), positive_color: rgb("#0000FF"), negative_color: rgb("#FF0000"), is_gradient: true, show_value: true }));
    v.push(("DataBar:max".into(), CfRuleInput::DataBar { min: None, max: Some(Cfvo::Formula(CF_NUM[7].into())), positive_color: rgb("#0000FF"), negative_color: rgb("#FF0000"), is_gradient: false, show_value: true }));
    v.push(("DataBar:min".into(), CfRuleInput::DataBar { min: Some(Cfvo::Formula(CF_NUM[0].into())), max: Some(Cfvo::Number(9.5)), positive_color: rgb("#0000FF"), negative_color: rgb("#FF0000"), is_gradient: false, show_value: false }));
    v.push(("IconSet".into(), CfRuleInput::IconSet { thresholds: vec![
        IconThreshold { icon: Icon::ArrowUp, cfvo: Cfvo::Formula(CF_NUM[1].into()), color: rgb("#00AA00"), is_strict: false },
        IconThreshold { icon: Icon::ArrowRight, cfvo: Cfvo::Formula(CF_NUM[0].into()), color: rgb("#AAAA00"), is_strict: true },
        IconThreshold { icon: Icon::ArrowDown, cfvo: Cfvo::Percent(10.0), color: rgb("#AA0000"), is_strict: false }], show_value: true }));
    v.push(("IconRating".into(), CfRuleInput::IconRating { icon: Icon::Star, color: rgb("#FFAA00"), thresholds: vec![(Cfvo::Formula(CF_NUM[2].into()), false), (Cfvo::Formula(CF_NUM[4].into()), true)], show_value: false }));
    v
}
/// a displayed rule as the input a UI would send back
fn rule_to_input(r: &CfRule) -> Option<CfRuleInput> {
    Some(match r.clone() {
        CfRule::CellIs { operator, formula, formula2, stop_if_true, .. } => CfRuleInput::CellIs { operator, formula, formula2, format: dxf(), stop_if_true },
        CfRule::Formula { formula, stop_if_true, .. } => CfRuleInput::Formula { formula, format: dxf(), stop_if_true },
        CfRule::ColorScale { thresholds } => CfRuleInput::ColorScale { thresholds },
        CfRule::DataBar { min, max, positive_color, negative_color, is_gradient, show_value } => CfRuleInput::DataBar { min, max, positive_color, negative_color, is_gradient, show_value },
        CfRule::IconSet { thresholds, show_value } => CfRuleInput::IconSet { thresholds, show_value },
        CfRule::IconRating { icon, color, thresholds, show_value } => CfRuleInput::IconRating { icon, color, thresholds, show_value },
        _ => return None,
    })
}
fn cfvo_wire(c: &Option<Cfvo>, lex: &dyn Fn(&str) -> String) -> String {
    match c { None => "N ;;".into(), Some(Cfvo::Formula(f)) => format!("F {} ;;", lex(f)), Some(_) => "O ;;".into() }
}
/// the formula slots of a rule: (wire of the whole rule for the model, slots in order)
fn rule_wire(r: &CfRule, lex: &dyn Fn(&str) -> String) -> (String, Vec<String>) {
    let body = |f: &str| f.trim().trim_start_matches('=').to_string();
    match r {
        CfRule::CellIs { formula, formula2, .. } => (format!("CI F {} ;; {}", lex(&body(formula)), match formula2 { Some(f) => format!("F {} ;;", lex(&body(f))), None => "N ;;".into() }),
            std::iter::once(formula.clone()).chain(formula2.clone()).collect()),
        CfRule::Formula { formula, .. } => (format!("FO F {} ;;", lex(&body(formula))), vec![formula.clone()]),
        CfRule::ColorScale { thresholds } => (format!("CS {}", thresholds.iter().map(|t| cfvo_wire(&Some(t.cfvo.clone()), lex)).collect::<Vec<_>>().join(" ")),
            thresholds.iter().filter_map(|t| if let Cfvo::Formula(f) = &t.cfvo { Some(f.clone()) } else { None }).collect()),
        CfRule::DataBar { min, max, .. } => (format!("DB {} {}", cfvo_wire(min, lex), cfvo_wire(max, lex)),
            [min, max].iter().filter_map(|c| if let Some(Cfvo::Formula(f)) = c { Some(f.clone()) } else { None }).collect()),
        CfRule::IconSet { thresholds, .. } => (format!("IS {}", thresholds.iter().map(|t| cfvo_wire(&Some(t.cfvo.clone()), lex)).collect::<Vec<_>>().join(" ")),
            thresholds.iter().filter_map(|t| if let Cfvo::Formula(f) = &t.cfvo { Some(f.clone()) } else { None }).collect()),
        CfRule::IconRating { thresholds, .. } => (format!("IR {}", thresholds.iter().map(|t| cfvo_wire(&Some(t.0.clone()), lex)).collect::<Vec<_>>().join(" ")),
            thresholds.iter().filter_map(|t| if let Cfvo::Formula(f) = &t.0 { Some(f.clone()) } else { None }).collect()),
        _ => ("OT".into(), vec![]),
    }
}
/// rule without the dxf id (allocation order is not the point)
fn rule_canon(r: &CfRule) -> String {
    let s = format!("{r:?}");
    match s.find("dxf_id: ") { Some(i) => { let j = s[i..].find(',').map(|k| i + k).unwrap_or(s.len()); format!("{}dxf_id: _{}", &s[..i], &s[j..]) } None => s }
}
fn cf_base_bytes() -> Vec<u8> {
    let mut m = Model::new_empty("cf", "en", "UTC", "en").unwrap();
    for (r, v) in ["0.5", "1.5", "2.5", "3", "7.25", "12"].iter().enumerate() { let _ = m.set_user_input(0, r as i32 + 1, 1, v.to_string()); }
    m.evaluate();
    m.to_bytes()
}
fn cf_styles(m: &Model) -> Vec<String> {
    (1..=6).map(|r| match m.get_extended_style_for_cell(0, r, 1) { Ok(e) => format!("fill={:?} icon={:?} bar={:?} rating={:?}", e.style.fill, e.icon, e.data_bar, e.rating), Err(e) => format!("ERR {e}") }).collect()
}

impl Run {
    fn cf_scenario(&mut self, base: &[u8], label: &str, input: &CfRuleInput, li: usize, ci: usize, via_update: bool) {
        let (lang, loc) = (LANGS[li], LOCALES[ci]);
        *self.dist.entry("cf_rules".to_string()).or_insert(0) += 1;
        let replay = json!({"rule": label, "language": lang, "locale": loc, "via": if via_update { "update_conditional_formatting" } else { "add_conditional_formatting" }, "input": format!("{input:?}")});
        // the reference: entered in en / en
        let mut r = Model::from_bytes(base, "en").unwrap();
        if let Err(e) = r.add_conditional_formatting(0, "A1:A6", input.clone()) { self.or.fail("cf_rule_rejected_in_english", replay, e); return; }
        r.evaluate();
        let stored_en = r.workbook.worksheets[0].conditional_formatting[0].cf_rule.clone();
        let styles_en = cf_styles(&r);
        // shown in (lang, loc)
        let _ = r.set_language(lang);
        let _ = r.set_locale(loc);
        self.or.checked += 1;
        if rule_canon(&r.workbook.worksheets[0].conditional_formatting[0].cf_rule) != rule_canon(&stored_en) {
            self.or.fail("switch_changes_stored_cf_rule", replay, "set_language / set_locale changed a stored conditional-format rule".into()); return;
        }
        let shown = match r.get_conditional_formatting_list(0) { Ok(l) if l.len() == 1 => l[0].cf_rule.clone(), _ => return };
        let typed = match rule_to_input(&shown) { Some(t) => t, None => return };
        // entered there, in a model of that configuration with the same data
        let mut m = Model::from_bytes(base, lang).unwrap();
        let _ = m.set_locale(loc);
        let res = if via_update {
            let _ = m.add_conditional_formatting(0, "A1:A6", CfRuleInput::Blanks { format: dxf(), stop_if_true: false });
            m.update_conditional_formatting(0, 0, "A1:A6", typed.clone()).map(|_| ())
        } else { m.add_conditional_formatting(0, "A1:A6", typed.clone()).map(|_| ()) };
        self.or.checked += 1;
        if let Err(e) = res {
            self.or.fail("cf_rule_shown_is_rejected", replay, format!("the rule as displayed in {lang}/{loc} ({shown:?}) is rejected there: {e}")); return;
        }
        m.evaluate();
        let stored_m = m.workbook.worksheets[0].conditional_formatting[0].cf_rule.clone();
        // ---- tie: the typed slots, lexed by the real lexer of the configuration -> Localize.cf_rule_input_to_internal
        let (g, l) = (get_language(lang).unwrap(), get_locale(loc).unwrap());
        let (en_g, en_l) = (get_language("en").unwrap(), get_locale("en").unwrap());
        let (wire_typed, _) = rule_wire(&shown, &|t: &str| tokens(t, false, l, g).join(" "));
        let (_, slots_stored) = rule_wire(&stored_m, &|t: &str| t.to_string());
        let obs: Vec<String> = slots_stored.iter().map(|t| tokens(t.trim().trim_start_matches('='), false, en_l, en_g).join(" ")).collect();
        let line = format!("Q {} {} {} 1 {} 0 | {}", li, b(dot(loc)), wire("Sheet1"), wire("Sheet1"), wire_typed);
        if self.seen.insert(hash64(&line)) { self.cs.case(&line, &obs.join(" ;; ")); }
        // ---- oracle: stored in English, same result in every language
        self.or.checked += 2;
        if rule_canon(&stored_m) != rule_canon(&stored_en) {
            self.or.fail("cf_formula_not_stored_in_english", replay, format!("{label} entered in {lang}/{loc} as {shown:?} is stored as {stored_m:?}; entered in English it is {stored_en:?}"));
            return;
        }
        let styles_m = cf_styles(&m);
        if styles_m != styles_en {
            let d: Vec<String> = styles_m.iter().zip(styles_en.iter()).enumerate().filter(|(_, (a, b2))| a != b2).take(2).map(|(i, (a, b2))| format!("A{}: {a} vs {b2}", i + 1)).collect();
            self.or.fail("cf_result_depends_on_language", replay, format!("{label} in {lang}/{loc}: {d:?}"));
            return;
        }
        // and the list shows it in the language again
        match m.get_conditional_formatting_list(0) { Ok(l2) if l2.len() == 1 && rule_canon(&l2[0].cf_rule) == rule_canon(&shown) => {}
            _ => { self.or.fail("cf_display_not_stable", replay, format!("{label}: the rule entered in {lang}/{loc} is not displayed as it was typed")); } }
    }
}

fn probe_rename(args: &[String]) {
    // rename <lang> <locale> <formula typed in English>...: type, switch, rename ANOTHER sheet, look at the stored text
    let lang: &'static str = LANGS.iter().copied().find(|l| *l == args[0]).unwrap();
    for f in &args[2..] {
        let mut m = new_model("en", "en");
        m.new_sheet();
        let _ = m.set_user_input(0, 3, 3, f.clone());
        m.evaluate();
        println!("{f:?}: stored {:?} value {}", stored(&m, 0, 3, 3), value(&m, 0, 3, 3));
        let _ = m.set_language(lang);
        let _ = m.set_locale(&args[1]);
        let r = m.rename_sheet_by_index(1, "Other");
        println!("   rename_sheet_by_index(1, Other) under {}/{} = {r:?}: stored {:?} value {} shown {:?}", args[0], args[1], stored(&m, 0, 3, 3), value(&m, 0, 3, 3), m.get_localized_cell_content(0, 3, 3));
    }
}

fn probe_rename_name(args: &[String]) {
    // rename_name <lang> <locale> <formula typed in English>...: type, define G, switch, rename G to H, look at the stored text
    let lang: &'static str = LANGS.iter().copied().find(|l| *l == args[0]).unwrap();
    for f in &args[2..] {
        let mut m = new_model("en", "en");
        let _ = m.new_defined_name("G", None, "Sheet1!$A$1");
        let _ = m.set_user_input(0, 3, 3, f.clone());
        m.evaluate();
        println!("{f:?}: stored {:?} value {}", stored(&m, 0, 3, 3), value(&m, 0, 3, 3));
        let _ = m.set_language(lang);
        let _ = m.set_locale(&args[1]);
        let r = m.update_defined_name("G", None, "H", None, "Sheet1!$A$1");
        m.evaluate();
        println!("   update_defined_name(G -> H) under {}/{} = {r:?}: stored {:?} value {}", args[0], args[1], stored(&m, 0, 3, 3), value(&m, 0, 3, 3));
    }
}

fn probe_insert(args: &[String]) {
    // insert <lang> <locale> <formula typed in English>...: type at C8, switch, insert a row at 2
    let lang: &'static str = LANGS.iter().copied().find(|l| *l == args[0]).unwrap();
    for f in &args[2..] {
        let mut m = new_model("en", "en");
        let _ = m.set_user_input(0, 8, 3, f.clone());
        m.evaluate();
        println!("{f:?}: stored {:?} value {}", stored(&m, 0, 8, 3), value(&m, 0, 8, 3));
        let _ = m.set_language(lang);
        let _ = m.set_locale(&args[1]);
        let r = m.insert_rows(0, 2, 1);
        m.evaluate();
        println!("   insert_rows(0,2,1) under {}/{} = {r:?}: stored {:?} value {} shown {:?}", args[0], args[1], stored(&m, 0, 9, 3), value(&m, 0, 9, 3), m.get_localized_cell_content(0, 9, 3));
    }
}

fn probe(args: &[String]) {
    // probe <lang> <locale> <formula typed in English>...
    let lang: &'static str = LANGS.iter().copied().find(|l| *l == args[0]).unwrap();
    for f in &args[2..] {
        let mut m = new_model("en", "en");
        let _ = m.set_user_input(0, 3, 3, f.clone());
        m.evaluate();
        println!("{f:?}: stored {:?} value {}", stored(&m, 0, 3, 3), value(&m, 0, 3, 3));
        let _ = m.set_language(lang);
        let _ = m.set_locale(&args[1]);
        let shown = m.get_localized_cell_content(0, 3, 3).unwrap();
        println!("   in {}/{}: shown {shown:?} stored {:?} value {}", args[0], args[1], stored(&m, 0, 3, 3), value(&m, 0, 3, 3));
        let mut fr = new_model(lang, &args[1]);
        let _ = fr.set_user_input(0, 3, 3, shown.clone());
        fr.evaluate();
        println!("   re-typed: stored {:?} value {}", stored(&fr, 0, 3, 3), value(&fr, 0, 3, 3));
    }
}

fn main() {
    let raw: Vec<String> = std::env::args().collect();
    if raw.len() >= 2 && raw[1] == "probe" { probe(&raw[2..]); return; }
    if raw.len() >= 2 && raw[1] == "rename" { probe_rename(&raw[2..]); return; }
    if raw.len() >= 2 && raw[1] == "insert" { probe_insert(&raw[2..]); return; }
    if raw.len() >= 2 && raw[1] == "rename_name" { probe_rename_name(&raw[2..]); return; }
    let a = Args::parse();
    let mut run = Run { cs: Cases::new(&a.out, "c10"), or: Oracle::default(), fns: Fns::new(), seen: HashSet::new(), dist: BTreeMap::new(), samples: vec![],
        distinct: HashSet::new(), locale_dependent_seen: BTreeSet::new() };
    let mut rng = Rng::new(a.seed);
    let fns = Fns::new();

    // (A) exhaustive: every function x every ordered pair of languages, "=NAME()"; the locale pair rotates
    let mut rot = 0usize;
    for (fi, f) in fns.all.iter().enumerate() {
        if *f == Function::Lambda { continue; }       // LAMBDA is a keyword: "=LAMBDA()" is a parse error
        let en = f.to_localized_name(get_language("en").unwrap());
        for l1 in 0..5 { for l2 in 0..5 {
            if l1 == l2 && l1 == 0 { continue; }
            rot = (rot + 7) % 36;
            let (c1, c2) = (rot / 6, rot % 6);
            run.chain(&format!("={en}()"), &[(l1, c1), (l2, c2)], "names");
        } }
        // argument shapes: decimals and separators, under every locale for one rotating language pair
        let shapes = [format!("={en}(1.5)"), format!("={en}(A1,2.5)"), format!("={en}(A1:A2,,\"x\")")];
        let sh = &shapes[fi % 3];
        let (l1, l2) = ((fi / 3) % 5, (fi / 15 + 1 + (fi / 3)) % 5);
        for c in 0..6 { run.chain(sh, &[(l1, c), (l2, (c + 1 + fi) % 6)], "shapes"); }
    }
    // error literals and booleans in every language
    for t in ["=#REF!", "=#VALUE!+1", "=#N/A", "=#DIV/0!", "=#NAME?", "=#NUM!", "=#NULL!", "=#SPILL!", "=#CALC!", "=#CIRC!", "=#ERROR!", "=#N/IMPL!", "=TRUE", "=FALSE", "=TRUE()", "=IF(TRUE,1.5,\"a;b\")", "={1,2;3,4}", "={1.5,2}", "={1;2}"] {
        for l in 0..5 { for c in 0..6 { run.chain(t, &[(l, c)], "literals"); } }
    }
    // identifiers that are names in another language
    for t in ["=summe(1)", "=WAHR+1", "=VRAI", "=somme(1,2)", "=LET(wahr,1,wahr+1)", "=SI(1,2,3)"] {
        for l in 0..5 { run.chain(t, &[(l, l % 6)], "foreign_identifiers"); }
    }
    // (B) formula pool, chains of two configurations
    let g = FGen { sheets: vec!["Sheet1".into()], names: vec![], max_row: 8, max_col: 4, long_numbers: true, errors: true, arrays: true, spills: true, upper_user_fn: true };
    let npool = if a.thorough { 40000 } else { 500 };
    for _ in 0..npool {
        let f = g.formula(&mut rng);
        let c1 = (rng.below(5) as usize, rng.below(6) as usize);
        let c2 = (rng.below(5) as usize, rng.below(6) as usize);
        run.chain(&f, &[c1, c2], "pool");
    }
    for f in FIXED_POOL { for l in 0..5 { run.chain(f, &[(l, (l * 2) % 6), ((l + 1) % 5, (l * 2 + 3) % 6)], "fixed"); } }
    // (D) locale sensitivity sweep: which formulas change value when only the locale changes
    let sweep: [(&str, bool); 40] = [
        ("=TEXT(1234.5,\"#,##0.00\")", true), ("=VALUE(\"1.5\")", true), ("=VALUE(\"1,5\")", true), ("=NUMBERVALUE(\"2,5\")", true), ("=DOLLAR(1234.5)", true),
        ("=FIXED(1234.567,1)", true), ("=DATEVALUE(\"1/2/2024\")", true), ("=TIMEVALUE(\"10:30\")", true), ("=\"1,5\"+1", true), ("=\"1.5\"+1", true),
        ("=\"1/2/2024\"+0", true), ("=SUM(\"1,5\",1)", true), ("=TEXT(45000,\"mmmm\")", true), ("=TEXT(45000,\"dddd\")", true), ("=TEXT(0.5,\"0%\")", false),
        ("=NUMBERVALUE(\"2,5\",\",\",\".\")", false), ("=1.5&\"\"", false), ("=CONCATENATE(1.5,\"x\")", false), ("=LEN(1.5)", false), ("=1.5+2.25", false),
        ("=SUM(1.5,2)", false), ("=ROUND(2.567,1)", false), ("=IF(1.5>1,\"a\",\"b\")", false), ("=UPPER(\"straße\")", false), ("=LEFT(\"abc\",2)", false),
        ("=EXACT(\"a\",\"A\")", false), ("=DATE(2024,2,1)", false), ("=YEAR(45000)", false), ("=MONTH(45000)", false), ("=WEEKDAY(45000)", false),
        ("=TEXT(1.5,\"0.00\")", true), ("=T(1.5)", false), ("=N(\"1,5\")", false), ("=ISNUMBER(\"1,5\"+0)", true), ("=INT(\"2,7\")", true),
        ("=TRUE&\"\"", false), ("=1/3", false), ("=1E+3", false), ("=TEXT(1234.5,\"0\")", false), ("=MAX(\"1,5\",1)", false),
    ];
    let mut sweep_report = serde_json::Map::new();
    for (f, expected_dependent) in sweep.iter() {
        let mut vals: Vec<String> = vec![];
        for loc in LOCALES {
            let mut m = new_model("en", "en");
            let _ = m.set_user_input(0, 3, 3, f.to_string());
            let _ = m.set_locale(loc);
            vals.push(value(&m, 0, 3, 3));
        }
        let differs = vals.iter().any(|v| *v != vals[0]);
        run.or.checked += 1;
        if differs { sweep_report.insert(f.to_string(), json!(vals)); }
        if differs && !expected_dependent {
            run.or.fail("locale_changes_value_of_independent_formula", json!({"formula": f, "values_per_locale": vals}), format!("{f}: values per locale {:?} = {vals:?}", LOCALES));
        }
    }
    // (E) conditional-format rules: every kind and slot x all 30 configurations; add and update
    {
        let base = cf_base_bytes();
        let rules = cf_rules();
        for (k, (label, input)) in rules.iter().enumerate() {
            for li in 0..5 { for ci in 0..6 { run.cf_scenario(&base, label, input, li, ci, (k + li + ci) % 3 == 0); } }
        }
    }
    // every node kind with an argument list, in every separator family (all 30 configurations)
    for t in ["=LAMBDA(a,b,a+b)(1,2)", "=LAMBDA(a,b,c,a*b+c)(1.5,2,A1)", "=LAMBDA(a,[b],a)(1,2)", "=SUM(1,2,3)", "=SUM(1.5,,A1)", "=unknownfn(1,2)", "=LET(a,1,b,2.5,a+b)",
              "=LET(f,LAMBDA(p,q,p*q),f(2,3))", "={1,2,3}", "={1.5,2;3,4}", "=IF(A1>1,SUM(A1,2),MAX(1,2,3))", "=LAMBDA(R1C1x,B2_b,R1C1x+B2_b)(1,2)"] {
        for l in 0..5 { for c in 0..6 { run.chain(t, &[(l, c)], "argument_lists"); } }
    }
    // (C) switch histories
    let (nh, len) = if a.thorough { (4000u64, 14usize) } else { (60u64, 10usize) };
    for k in 0..nh {
        let mut r = Rng::new(a.seed.wrapping_mul(1_000_003).wrapping_add(k));
        run.history(&mut r, k, len);
    }

    let Run { cs, or, dist, samples, distinct, locale_dependent_seen, .. } = run;
    cs.finish(json!({
        "oracle_checked": or.checked,
        "oracle_failures": or.failures,
        "oracle_failures_per_class": or.per_class,
        "distinct_nontrivial": distinct.len(),
        "distribution": dist,
        "samples": samples,
        "locale_dependent_functions_observed": locale_dependent_seen,
        "locale_sweep_formulas_that_differ": sweep_report,
    }));
}
