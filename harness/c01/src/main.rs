//! c01 — see harness/hist/src/driver.rs
fn main() {
    let a = vh_common::Args::parse();
    vh_hist::driver::run_c01(&a);
}
