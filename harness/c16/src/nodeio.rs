//! Canonical wire forms shared with the OCaml runner:
//!  * `dump(node)`   — prefix-notation dump of a `Node` (ignores nothing but the payload of
//!                     `ParseErrorKind`), one atom per field, atoms separated by spaces;
//!  * `tokens(text)` — the token stream the real lexer reads from `text`, one atom per token.
use ironcalc_base::expressions::lexer::{Lexer, LexerMode};
use ironcalc_base::expressions::parser::{ArrayNode, Node};
use ironcalc_base::expressions::token::{Error, OpCompare, OpProduct, OpSum, OpUnary, TokenType};
use ironcalc_base::expressions::types::ParsedReference;
use ironcalc_base::language::Language;
use ironcalc_base::locale::Locale;
use ironcalc_base::number_format::to_excel_precision_str;
use ironcalc_base::Function;
use vh_common::*;

pub const ERRORS: [Error; 12] = [
    Error::REF, Error::NAME, Error::VALUE, Error::DIV, Error::NA, Error::NUM, Error::ERROR, Error::NIMPL,
    Error::SPILL, Error::CALC, Error::CIRC, Error::NULL,
];
pub fn err_idx(e: &Error) -> usize { ERRORS.iter().position(|x| x == e).unwrap() }

pub struct Fns { pub all: Vec<Function> }
impl Fns {
    pub fn new() -> Fns { Fns { all: Function::into_iter().collect() } }
    pub fn idx(&self, f: &Function) -> usize { self.all.iter().position(|x| x == f).unwrap() }
}

pub fn cmp_name(op: &OpCompare) -> &'static str {
    match op {
        OpCompare::LessThan => "lt", OpCompare::GreaterThan => "gt", OpCompare::Equal => "eq",
        OpCompare::LessOrEqualThan => "le", OpCompare::GreaterOrEqualThan => "ge", OpCompare::NonEqual => "ne",
    }
}
fn opt_sheet(s: &Option<String>) -> String { match s { Some(n) => wire(n), None => "~".to_string() } }
fn opt_u32(s: &Option<u32>) -> String { match s { Some(n) => format!("{n}"), None => "-1".to_string() } }
pub fn num_text(x: f64) -> String { wire(&to_excel_precision_str(x)) }

/// `NamedVariable` has crate-private fields; its `Debug` output is the only window.
pub fn named_variable_fields(dbg: &str) -> (String, String, bool) {
    // NamedVariable { name: "x", id: None, is_optional: false }
    let name = dbg.split("name: \"").nth(1).and_then(|s| s.split('"').next()).unwrap_or("").to_string();
    let id = if dbg.contains("id: None") { "-1".to_string() } else {
        dbg.split("id: Some(").nth(1).and_then(|s| s.split(')').next()).unwrap_or("?").to_string()
    };
    (name, id, dbg.contains("is_optional: true"))
}

pub fn dump(n: &Node, fns: &Fns, out: &mut Vec<String>) {
    use Node::*;
    match n {
        BooleanKind(v) => { out.push("B".into()); out.push(b(*v).into()); }
        NumberKind(x) => { out.push("N".into()); out.push(num_text(*x)); }
        StringKind(s) => { out.push("S".into()); out.push(wire(s)); }
        ReferenceKind { sheet_name, sheet_index, absolute_row, absolute_column, row, column } => {
            out.push("R".into()); out.push(opt_sheet(sheet_name)); out.push(format!("{sheet_index}"));
            out.push(format!("{row}")); out.push(format!("{column}")); out.push(b(*absolute_row).into()); out.push(b(*absolute_column).into());
        }
        WrongReferenceKind { sheet_name, absolute_row, absolute_column, row, column } => {
            out.push("R".into()); out.push(opt_sheet(sheet_name)); out.push("-1".into());
            out.push(format!("{row}")); out.push(format!("{column}")); out.push(b(*absolute_row).into()); out.push(b(*absolute_column).into());
        }
        RangeKind { sheet_name, sheet_index, absolute_row1, absolute_column1, row1, column1, absolute_row2, absolute_column2, row2, column2 } => {
            out.push("G".into()); out.push(opt_sheet(sheet_name)); out.push(format!("{sheet_index}"));
            for v in [row1, column1] { out.push(format!("{v}")); }
            out.push(b(*absolute_row1).into()); out.push(b(*absolute_column1).into());
            for v in [row2, column2] { out.push(format!("{v}")); }
            out.push(b(*absolute_row2).into()); out.push(b(*absolute_column2).into());
        }
        WrongRangeKind { sheet_name, absolute_row1, absolute_column1, row1, column1, absolute_row2, absolute_column2, row2, column2 } => {
            out.push("G".into()); out.push(opt_sheet(sheet_name)); out.push("-1".into());
            for v in [row1, column1] { out.push(format!("{v}")); }
            out.push(b(*absolute_row1).into()); out.push(b(*absolute_column1).into());
            for v in [row2, column2] { out.push(format!("{v}")); }
            out.push(b(*absolute_row2).into()); out.push(b(*absolute_column2).into());
        }
        OpRangeKind { left, right } => { out.push(":".into()); dump(left, fns, out); dump(right, fns, out); }
        OpConcatenateKind { left, right } => { out.push("&".into()); dump(left, fns, out); dump(right, fns, out); }
        OpSumKind { kind, left, right } => {
            out.push(match kind { OpSum::Add => "+", OpSum::Minus => "-" }.into()); dump(left, fns, out); dump(right, fns, out);
        }
        OpProductKind { kind, left, right } => {
            out.push(match kind { OpProduct::Times => "*", OpProduct::Divide => "/" }.into()); dump(left, fns, out); dump(right, fns, out);
        }
        OpPowerKind { left, right } => { out.push("^".into()); dump(left, fns, out); dump(right, fns, out); }
        FunctionKind { kind, args } => {
            out.push("F".into()); out.push(format!("{}", fns.idx(kind))); out.push(format!("{}", args.len()));
            for a in args { dump(a, fns, out); }
        }
        LambdaDefKind { parameters, body } => {
            out.push("L".into()); out.push(format!("{}", parameters.len()));
            for p in parameters {
                let (name, id, opt) = named_variable_fields(&format!("{p:?}"));
                out.push(wire(&name)); out.push(id); out.push(b(opt).into());
            }
            dump(body, fns, out);
        }
        LambdaCallKind { lambda, args } => {
            out.push("K".into()); dump(lambda, fns, out); out.push(format!("{}", args.len()));
            for a in args { dump(a, fns, out); }
        }
        NamedFunctionKind { id, name, args } => {
            out.push("U".into()); out.push(opt_u32(id)); out.push(wire(name)); out.push(format!("{}", args.len()));
            for a in args { dump(a, fns, out); }
        }
        ArrayKind(rows) => {
            out.push("A".into()); out.push(format!("{}", rows.len()));
            for r in rows {
                out.push(format!("{}", r.len()));
                for e in r {
                    match e {
                        ArrayNode::Boolean(v) => { out.push("b".into()); out.push(b(*v).into()); }
                        ArrayNode::Number(x) => {
                            if *x < 0.0 || (*x == 0.0 && x.is_sign_negative()) { out.push("m".into()); out.push(num_text(-*x)); }
                            else { out.push("n".into()); out.push(num_text(*x)); }
                        }
                        ArrayNode::String(s) => { out.push("s".into()); out.push(wire(s)); }
                        ArrayNode::Error(e) => { out.push("e".into()); out.push(format!("{}", err_idx(e))); }
                        ArrayNode::Empty => { out.push("z".into()); }
                    }
                }
            }
        }
        DefinedNameKind((name, scope, formula)) => {
            out.push("D".into()); out.push(wire(name)); out.push(opt_u32(scope)); out.push(wire(formula));
        }
        TableNameKind(name) => { out.push("T".into()); out.push(wire(name)); }
        NamedVariableKind { name, id } => { out.push("V".into()); out.push(wire(name)); out.push(opt_u32(id)); }
        ImplicitIntersection { automatic, child } => { out.push("@".into()); out.push(b(*automatic).into()); dump(child, fns, out); }
        SpillRangeOperator { child } => { out.push("#".into()); dump(child, fns, out); }
        CompareKind { kind, left, right } => { out.push(format!("c{}", cmp_name(kind))); dump(left, fns, out); dump(right, fns, out); }
        UnaryKind { kind, right } => {
            out.push(match kind { OpUnary::Minus => "neg", OpUnary::Percentage => "pct" }.into()); dump(right, fns, out);
        }
        ErrorKind(e) => { out.push("E".into()); out.push(format!("{}", err_idx(e))); }
        ParseErrorKind { .. } => out.push("P".into()),
        EmptyArgKind => out.push("_".into()),
    }
}
pub fn dump_s(n: &Node, fns: &Fns) -> String { let mut v = vec![]; dump(n, fns, &mut v); v.join(" ") }

fn pref(p: &ParsedReference) -> String { format!("{}:{}:{}:{}", p.row, p.column, b(p.absolute_row), b(p.absolute_column)) }

pub fn token_atom(t: &TokenType) -> String {
    use TokenType::*;
    match t {
        Illegal(_) => "ILLEGAL".into(),
        EOF => "EOF".into(),
        Ident(s) => format!("I:{}", wire(s)),
        String(s) => format!("S:{}", wire(s)),
        Number(x) => format!("N:{}", num_text(*x)),
        Boolean(v) => format!("B:{}", b(*v)),
        Error(e) => format!("E:{}", err_idx(e)),
        Compare(op) => format!("c{}", cmp_name(op)),
        Addition(OpSum::Add) => "+".into(), Addition(OpSum::Minus) => "-".into(),
        Product(OpProduct::Times) => "*".into(), Product(OpProduct::Divide) => "/".into(),
        Power => "^".into(), LeftParenthesis => "(".into(), RightParenthesis => ")".into(), Colon => ":".into(),
        Semicolon => ";".into(), LeftBracket => "[".into(), RightBracket => "]".into(), LeftBrace => "{".into(),
        RightBrace => "}".into(), Comma => ",".into(), Bang => "!".into(), Percent => "%".into(), And => "&".into(),
        At => "@".into(), Spill => "#".into(), Backslash => "\\".into(),
        Reference { sheet, row, column, absolute_column, absolute_row } =>
            format!("R:{}:{}:{}:{}:{}", opt_sheet(sheet), row, column, b(*absolute_row), b(*absolute_column)),
        Range { sheet, left, right } => format!("G:{}:{}:{}", opt_sheet(sheet), pref(left), pref(right)),
        StructuredReference { .. } => "X".into(),
    }
}

/// the token stream of `text`; stops after the first ILLEGAL (the lexer jumps to the end of input there)
pub fn tokens(text: &str, rc: bool, locale: &Locale, language: &Language) -> Vec<String> {
    let mut lx = Lexer::new(text, if rc { LexerMode::R1C1 } else { LexerMode::A1 }, locale, language);
    let mut out = vec![];
    for _ in 0..100000 {
        let t = lx.next_token();
        if t == TokenType::EOF { break; }
        let ill = matches!(t, TokenType::Illegal(_));
        out.push(token_atom(&t));
        if ill { break; }
    }
    out
}
