//! C16 — cut & paste / copy & paste: the second printer `to_string_moved` (through
//! Model::move_cell_value_to_area) against the extracted model, and the property oracle
//! (pasted tree = moved tree; copy = same tree at the target; end-to-end values with UserModel).
mod nodeio;
mod gen;
use gen::*;
use nodeio::*;
use vh_common::*;

use ironcalc_base::expressions::lexer::LexerMode;
use ironcalc_base::expressions::parser::stringify::{to_english_string, to_localized_string};
use ironcalc_base::expressions::parser::{Node, Parser};
use ironcalc_base::expressions::token::OpUnary;
use ironcalc_base::expressions::types::{Area, CellReferenceIndex, CellReferenceRC};
use ironcalc_base::language::{get_language, Language};
use ironcalc_base::locale::{get_locale, Locale};
use ironcalc_base::{Model, UserModel};
use serde_json::json;
use std::collections::{BTreeMap, HashMap, HashSet};

pub const LANGS: [&str; 5] = ["en", "es", "fr", "de", "it"];
pub const LOCALES: [&str; 6] = ["en", "en-GB", "de", "es", "fr", "it"];
pub const CTX_ROW: i32 = 3;
pub const CTX_COL: i32 = 3;
pub fn sheets() -> Vec<String> { vec!["Sheet1".to_string(), "Second Sheet".to_string(), "Third".to_string()] }
pub fn defined_names() -> Vec<(String, Option<u32>, String)> {
    vec![("MyName".to_string(), None, "Sheet1!$A$1".to_string()), ("local_n".to_string(), Some(0), "Sheet1!$B$2:$B$3".to_string())]
}
pub fn ctx() -> CellReferenceRC { CellReferenceRC { sheet: "Sheet1".to_string(), row: CTX_ROW, column: CTX_COL } }

/// kept source-compatible with harness/c09/src/gen.rs (which builds LAMBDA nodes by parsing)
#[derive(Clone, Copy, PartialEq, Eq, Debug)]
pub enum Form { En }
pub fn parse_form(s: &str, _f: Form) -> Node {
    let mut p = Parser::new(sheets(), defined_names(), HashMap::new(), get_locale("en").unwrap(), get_language("en").unwrap());
    p.parse(s, &ctx())
}
fn parse_at(s: &str, sheet: &str, row: i32, col: i32, lc: &'static Locale, lg: &'static Language) -> Node {
    let mut p = Parser::new(sheets(), defined_names(), HashMap::new(), lc, lg);
    p.set_lexer_mode(LexerMode::A1);
    p.parse(s, &CellReferenceRC { sheet: sheet.to_string(), row, column: col })
}

pub fn full_paren(n: &Node) -> String {
    use Node::*;
    let args_s = |args: &Vec<Node>| args.iter().map(full_paren).collect::<Vec<_>>().join(",");
    match n {
        OpRangeKind { left, right } => format!("(({}):({}))", full_paren(left), full_paren(right)),
        OpConcatenateKind { left, right } => format!("({}&{})", full_paren(left), full_paren(right)),
        OpSumKind { kind, left, right } => format!("({}{}{})", full_paren(left), kind, full_paren(right)),
        OpProductKind { kind, left, right } => format!("({}{}{})", full_paren(left), kind, full_paren(right)),
        OpPowerKind { left, right } => format!("({}^{})", full_paren(left), full_paren(right)),
        CompareKind { kind, left, right } => format!("({}{}{})", full_paren(left), kind, full_paren(right)),
        UnaryKind { kind: OpUnary::Minus, right } => format!("(-{})", full_paren(right)),
        UnaryKind { kind: OpUnary::Percentage, right } => format!("({}%)", full_paren(right)),
        ImplicitIntersection { child, .. } => format!("(@{})", full_paren(child)),
        SpillRangeOperator { child } => format!("({}#)", full_paren(child)),
        FunctionKind { kind, args } => format!("{}({})", kind.to_localized_name(get_language("en").unwrap()), args_s(args)),
        NamedFunctionKind { name, args, .. } => format!("{}({})", name, args_s(args)),
        LambdaDefKind { parameters, body } => {
            let mut parts: Vec<String> = parameters.iter().map(|p| {
                let (name, _, opt) = named_variable_fields(&format!("{p:?}"));
                if opt { format!("[{name}]") } else { name }
            }).collect();
            parts.push(full_paren(body));
            format!("LAMBDA({})", parts.join(","))
        }
        LambdaCallKind { lambda, args } => format!("{}({})", full_paren(lambda), args_s(args)),
        EmptyArgKind => String::new(),
        leaf => to_english_string(leaf, &ctx()),
    }
}

// ---- the table of missing parentheses of to_string_moved (independent transcription) -------------
fn rank(n: &Node) -> u32 {
    use Node::*;
    match n {
        ImplicitIntersection { .. } | SpillRangeOperator { .. } => 1, OpRangeKind { .. } => 2, UnaryKind { .. } => 3, OpPowerKind { .. } => 4,
        OpProductKind { .. } => 5, OpSumKind { .. } => 6, OpConcatenateKind { .. } => 7, CompareKind { .. } => 8, _ => 0,
    }
}
fn moved_wrapped(parent: &Node, pos: &str, c: &Node) -> bool {
    use Node::*;
    match (parent, pos) {
        (OpProductKind { .. }, "left") => matches!(c, OpSumKind { .. } | CompareKind { .. }),
        (OpProductKind { .. }, "right") => matches!(c, OpSumKind { .. } | CompareKind { .. } | OpProductKind { .. } | UnaryKind { .. }),
        _ => false,
    }
}
fn limit(parent: &Node, pos: &str) -> Option<u32> {
    use Node::*;
    Some(match (parent, pos) {
        (CompareKind { .. }, "left") => 8, (CompareKind { .. }, "right") => 7,
        (OpConcatenateKind { .. }, "left") => 7, (OpConcatenateKind { .. }, "right") => 6,
        (OpSumKind { .. }, "left") => 6, (OpSumKind { .. }, "right") => 5,
        (OpProductKind { .. }, "left") => 5, (OpProductKind { .. }, "right") => 4,
        (OpPowerKind { .. }, "left") => 4, (OpPowerKind { .. }, "right") => 3,
        (UnaryKind { kind: OpUnary::Minus, .. }, _) => 2, (UnaryKind { kind: OpUnary::Percentage, .. }, _) => 3,
        (OpRangeKind { .. }, "left") => 1, (OpRangeKind { .. }, "right") => 0,
        (ImplicitIntersection { .. }, _) | (SpillRangeOperator { .. }, _) => 0,
        _ => return None,
    })
}
pub fn moved_bad_pairs(n: &Node, out: &mut Vec<String>) {
    for (pos, c) in children(n) {
        if let Some(l) = limit(n, pos) {
            if !moved_wrapped(n, pos, c) && rank(c) > l { out.push(format!("{}<-{}:{}", kind_name(n), kind_name(c), pos)); }
        }
        moved_bad_pairs(c, out);
    }
}

// ---- the move as the property states it -----------------------------------------------------------
#[derive(Clone, Debug)]
struct Ctx { src_sheet: u32, row: i32, col: i32, area: (i32, i32, i32, i32), tgt_sheet: u32, drow: i32, dcol: i32 }
impl Ctx {
    fn in_area(&self, sheet: u32, r: i32, c: i32) -> bool {
        sheet == self.src_sheet && r >= self.area.0 && r < self.area.0 + self.area.3 && c >= self.area.1 && c < self.area.1 + self.area.2
    }
}
fn spec_move(n: &Node, cx: &Ctx) -> Node {
    let names = sheets();
    let src_name = names[cx.src_sheet as usize].clone();
    let other = cx.tgt_sheet != cx.src_sheet;
    let resolve = |s: &Option<String>| -> Option<u32> { match s { Some(nm) => names.iter().position(|x| x == nm).map(|x| x as u32), None => Some(cx.tgt_sheet) } };
    map_node(n, &|x| match x {
        Node::ReferenceKind { sheet_name, sheet_index, absolute_row, absolute_column, row, column } => {
            let r = if *absolute_row { *row } else { *row + cx.row };
            let c = if *absolute_column { *column } else { *column + cx.col };
            let inside = cx.in_area(*sheet_index, r, c);
            let (r2, c2) = if inside { (r + cx.drow, c + cx.dcol) } else { (r, c) };
            let name = if !inside && other && sheet_name.is_none() { Some(src_name.clone()) } else { sheet_name.clone() };
            let row = if *absolute_row { r2 } else { r2 - (cx.row + cx.drow) };
            let column = if *absolute_column { c2 } else { c2 - (cx.col + cx.dcol) };
            Some(match resolve(&name) {
                Some(k) => Node::ReferenceKind { sheet_name: name, sheet_index: k, absolute_row: *absolute_row, absolute_column: *absolute_column, row, column },
                None => Node::WrongReferenceKind { sheet_name: name, absolute_row: *absolute_row, absolute_column: *absolute_column, row, column },
            })
        }
        Node::RangeKind { sheet_name, sheet_index, absolute_row1, absolute_column1, row1, column1, absolute_row2, absolute_column2, row2, column2 } => {
            let r1 = if *absolute_row1 { *row1 } else { *row1 + cx.row };
            let c1 = if *absolute_column1 { *column1 } else { *column1 + cx.col };
            let r2 = if *absolute_row2 { *row2 } else { *row2 + cx.row };
            let c2 = if *absolute_column2 { *column2 } else { *column2 + cx.col };
            let inside = cx.in_area(*sheet_index, r1, c1) && cx.in_area(*sheet_index, r2, c2);
            let (dr, dc) = if inside { (cx.drow, cx.dcol) } else { (0, 0) };
            let name = if !inside && other && sheet_name.is_none() { Some(src_name.clone()) } else { sheet_name.clone() };
            let f = |abs: bool, v: i32, d: i32, anchor: i32| if abs { v + d } else { v + d - anchor };
            let (tr, tc) = (cx.row + cx.drow, cx.col + cx.dcol);
            let (row1, column1, row2, column2) = (f(*absolute_row1, r1, dr, tr), f(*absolute_column1, c1, dc, tc), f(*absolute_row2, r2, dr, tr), f(*absolute_column2, c2, dc, tc));
            Some(match resolve(&name) {
                Some(k) => Node::RangeKind { sheet_name: name, sheet_index: k, absolute_row1: *absolute_row1, absolute_column1: *absolute_column1, row1, column1,
                    absolute_row2: *absolute_row2, absolute_column2: *absolute_column2, row2, column2 },
                None => Node::WrongRangeKind { sheet_name: name, absolute_row1: *absolute_row1, absolute_column1: *absolute_column1, row1, column1,
                    absolute_row2: *absolute_row2, absolute_column2: *absolute_column2, row2, column2 },
            })
        }
        Node::WrongReferenceKind { sheet_name, absolute_row, absolute_column, row, column } => {
            let row = if *absolute_row { *row } else { *row - cx.drow };
            let column = if *absolute_column { *column } else { *column - cx.dcol };
            Some(Node::WrongReferenceKind { sheet_name: sheet_name.clone(), absolute_row: *absolute_row, absolute_column: *absolute_column, row, column })
        }
        Node::WrongRangeKind { sheet_name, absolute_row1, absolute_column1, row1, column1, absolute_row2, absolute_column2, row2, column2 } => {
            let f = |abs: bool, v: i32, d: i32| if abs { v } else { v - d };
            Some(Node::WrongRangeKind { sheet_name: sheet_name.clone(), absolute_row1: *absolute_row1, absolute_column1: *absolute_column1,
                row1: f(*absolute_row1, *row1, cx.drow), column1: f(*absolute_column1, *column1, cx.dcol),
                absolute_row2: *absolute_row2, absolute_column2: *absolute_column2, row2: f(*absolute_row2, *row2, cx.drow), column2: f(*absolute_column2, *column2, cx.dcol) })
        }
        _ => None,
    })
}
fn map_node(n: &Node, f: &dyn Fn(&Node) -> Option<Node>) -> Node {
    if let Some(x) = f(n) { return x; }
    use Node::*;
    let bx = |x: &Box<Node>| Box::new(map_node(x, f));
    let vs = |v: &Vec<Node>| v.iter().map(|x| map_node(x, f)).collect::<Vec<_>>();
    match n {
        OpRangeKind { left, right } => OpRangeKind { left: bx(left), right: bx(right) },
        OpConcatenateKind { left, right } => OpConcatenateKind { left: bx(left), right: bx(right) },
        OpSumKind { kind, left, right } => OpSumKind { kind: kind.clone(), left: bx(left), right: bx(right) },
        OpProductKind { kind, left, right } => OpProductKind { kind: kind.clone(), left: bx(left), right: bx(right) },
        OpPowerKind { left, right } => OpPowerKind { left: bx(left), right: bx(right) },
        CompareKind { kind, left, right } => CompareKind { kind: kind.clone(), left: bx(left), right: bx(right) },
        FunctionKind { kind, args } => FunctionKind { kind: kind.clone(), args: vs(args) },
        NamedFunctionKind { id, name, args } => NamedFunctionKind { id: *id, name: name.clone(), args: vs(args) },
        LambdaDefKind { parameters, body } => LambdaDefKind { parameters: parameters.clone(), body: bx(body) },
        LambdaCallKind { lambda, args } => LambdaCallKind { lambda: bx(lambda), args: vs(args) },
        UnaryKind { kind, right } => UnaryKind { kind: kind.clone(), right: bx(right) },
        ImplicitIntersection { automatic, child } => ImplicitIntersection { automatic: *automatic, child: bx(child) },
        SpillRangeOperator { child } => SpillRangeOperator { child: bx(child) },
        other => other.clone(),
    }
}

/// canonical form for comparisons: range corners in order (the A1 parser orders them), names compared by spelling
fn canon(n: &Node, arow: i32, acol: i32) -> Node {
    map_node(n, &|x| match x {
        Node::RangeKind { sheet_name, sheet_index, absolute_row1, absolute_column1, row1, column1, absolute_row2, absolute_column2, row2, column2 } => {
            let pr = |abs: bool, v: i32, a: i32| if abs { v } else { v + a };
            let (mut ra, mut rb) = ((*absolute_row1, *row1), (*absolute_row2, *row2));
            let (mut ca, mut cb) = ((*absolute_column1, *column1), (*absolute_column2, *column2));
            if pr(rb.0, rb.1, arow) < pr(ra.0, ra.1, arow) { std::mem::swap(&mut ra, &mut rb); }
            if pr(cb.0, cb.1, acol) < pr(ca.0, ca.1, acol) { std::mem::swap(&mut ca, &mut cb); }
            Some(Node::RangeKind { sheet_name: sheet_name.clone(), sheet_index: *sheet_index, absolute_row1: ra.0, absolute_column1: ca.0, row1: ra.1, column1: ca.1,
                absolute_row2: rb.0, absolute_column2: cb.0, row2: rb.1, column2: cb.1 })
        }
        Node::WrongRangeKind { sheet_name, absolute_row1, absolute_column1, row1, column1, absolute_row2, absolute_column2, row2, column2 } => {
            let pr = |abs: bool, v: i32, a: i32| if abs { v } else { v + a };
            let (mut ra, mut rb) = ((*absolute_row1, *row1), (*absolute_row2, *row2));
            let (mut ca, mut cb) = ((*absolute_column1, *column1), (*absolute_column2, *column2));
            if pr(rb.0, rb.1, arow) < pr(ra.0, ra.1, arow) { std::mem::swap(&mut ra, &mut rb); }
            if pr(cb.0, cb.1, acol) < pr(ca.0, ca.1, acol) { std::mem::swap(&mut ca, &mut cb); }
            Some(Node::WrongRangeKind { sheet_name: sheet_name.clone(), absolute_row1: ra.0, absolute_column1: ca.0, row1: ra.1, column1: ca.1,
                absolute_row2: rb.0, absolute_column2: cb.0, row2: rb.1, column2: cb.1 })
        }
        Node::DefinedNameKind((name, _, _)) => Some(Node::NamedVariableKind { name: name.clone(), id: None }),
        _ => None,
    })
}
/// "2:0.5" — digits ':' digits followed by a decimal separator / exponent, or a row number off the grid: the lexer reads
/// a row range and something else (character level; C09's restriction of the token-level tie)
fn num_colon_num_text(s: &str) -> bool {
    let c: Vec<char> = s.chars().collect();
    for i in 1..c.len() {
        if c[i] == ':' && c[i - 1].is_ascii_digit() {
            let mut j = i + 1;
            let mut v: u64 = 0;
            while j < c.len() && c[j].is_ascii_digit() { v = (v * 10 + c[j] as u64 - 48).min(9_999_999); j += 1; }
            if j > i + 1 && (v == 0 || v > 1048576 || (j < c.len() && matches!(c[j], '.' | ',' | 'e' | 'E'))) { return true; }
        }
    }
    false
}
/// a range literal that is printed without its column part ("2:5": columns $A..$XFD) or without its row part ("B:D"):
/// its text starts / ends with a bare number or bare letters
fn is_full_line_range(n: &Node) -> bool {
    matches!(n, Node::RangeKind { absolute_row1, absolute_column1, row1, column1, absolute_row2, absolute_column2, row2, column2, .. }
           | Node::WrongRangeKind { absolute_row1, absolute_column1, row1, column1, absolute_row2, absolute_column2, row2, column2, .. }
        if (*absolute_column1 && *absolute_column2 && *column1 == 1 && *column2 == 16384) || (*absolute_row1 && *absolute_row2 && *row1 == 1 && *row2 == 1_048_576))
}
/// F04 family, bare operand of ':' next to a full-row / full-column range: "10/4:2:2" is lexed as 10 / rows 4:2 followed by ":2"
/// (the token-level glue model treats the range as one opaque token): character level, oracle only (class lexer_glue:*)
fn colon_next_to_full_line_range(n: &Node) -> bool {
    contains(n, &|x| matches!(x, Node::OpRangeKind { left, right } if is_full_line_range(leftmost(right)) || is_full_line_range(rightmost(left))))
}
fn classify(n: &Node, dot: bool, lang: &str, pasted: &str, other: bool) -> Vec<String> {
    let mut pairs = vec![];
    moved_bad_pairs(n, &mut pairs);
    if !pairs.is_empty() {
        let mut seen = HashSet::new();
        return pairs.into_iter().filter(|p| seen.insert(p.clone())).map(|p| format!("moved_paren_missing:{p}")).collect();
    }
    if contains(n, &|x| matches!(x, Node::ArrayKind(_))) { return vec!["moved_array_nesting".into()]; }
    if !dot && contains(n, &|x| match x {
        Node::FunctionKind { args, .. } | Node::NamedFunctionKind { args, .. } | Node::LambdaCallKind { args, .. } => args.len() >= 2,
        Node::LambdaDefKind { parameters, .. } => !parameters.is_empty(), _ => false }) { return vec!["moved_argument_separator_hard_coded".into()]; }
    if lang != "en" && contains(n, &|x| matches!(x, Node::BooleanKind(_))) { return vec!["moved_boolean_in_english".into()]; }
    if contains(n, &|x| matches!(x, Node::LambdaDefKind { parameters, .. } if parameters.iter().any(|p| format!("{p:?}").contains("is_optional: true")))) {
        return vec!["moved_lambda_optional_parameter_loses_brackets".into()];
    }
    if let Some(g) = glue_class(n, false) { return vec![format!("lexer_glue:{g}")]; }
    if colon_next_to_full_line_range(n) { return vec!["lexer_glue:number_colon".into()]; }
    // pasted on another sheet an unqualified reference acquires the sheet name: "Sheet1!A1:x" is F04 too
    if other && contains(n, &|x| matches!(x, Node::OpRangeKind { left, .. } if matches!(rightmost(left), Node::ReferenceKind { .. }))) { return vec!["lexer_glue:ref_colon_F04".into()]; }
    // (F01 "#N/IMPL" spelling is repaired by 4a681a0: no class of its own any more)
    if lang != "en" && contains(n, &|x| matches!(x, Node::ErrorKind(_))) { return vec!["error_not_localized".into()]; }
    let lg = get_language(lang).unwrap();
    if contains(n, &|x| matches!(x, Node::FunctionKind { kind, .. } if lg.functions.lookup(&kind.to_localized_name(lg)).as_ref() != Some(kind))) {
        return vec!["function_name_not_unique".into()];
    }
    if pasted.contains("#REF!") || pasted.contains("1048577") { return vec!["moved_reference_off_grid".into()]; }
    vec!["cut_tree_mismatch".into()]
}

struct Run<'a> { cs: Cases, or: Oracle, fns: &'a Fns, dist: BTreeMap<String, u64>, samples: Vec<String>, distinct: HashSet<String> }

fn new_model(locale: &'static str, lang: &'static str) -> Model<'static> {
    let mut m = Model::new_empty("model", locale, "UTC", lang).unwrap();
    m.rename_sheet_by_index(0, "Sheet1").unwrap();
    m.add_sheet("Second Sheet").unwrap();
    m.add_sheet("Third").unwrap();
    m.new_defined_name("MyName", None, "Sheet1!$A$1").unwrap();
    m.new_defined_name("local_n", Some(0), "Sheet1!$B$2:$B$3").unwrap();
    m
}

impl<'a> Run<'a> {
    fn one(&mut self, m: &mut Model<'static>, e: &Node, locale: &'static str, lang: &'static str, cx: &Ctx, origin: &str) {
        let lc = get_locale(locale).unwrap();
        let lg = get_language(lang).unwrap();
        let dot = lc.numbers.symbols.decimal == ".";
        let names = sheets();
        let text = if lang == "en" && locale == "en" { format!("={}", full_paren(e)) } else { format!("={}", to_localized_string(e, &ctx(), lc, lg)) };
        // what the implementation parses at the source cell
        let n = parse_at(&text[1..], &names[cx.src_sheet as usize], cx.row, cx.col, lc, lg);
        if matches!(n, Node::ParseErrorKind { .. }) { *self.dist.entry("unparsable_input".into()).or_insert(0) += 1; return; }
        let area = Area { sheet: cx.src_sheet, row: cx.area.0, column: cx.area.1, width: cx.area.2, height: cx.area.3 };
        let src = CellReferenceIndex { sheet: cx.src_sheet, row: cx.row, column: cx.col };
        let tgt = CellReferenceIndex { sheet: cx.tgt_sheet, row: cx.row + cx.drow, column: cx.col + cx.dcol };
        let pasted = match m.move_cell_value_to_area(&text, &src, &tgt, &area) { Ok(s) => s, Err(err) => { self.or.fail("move_cell_value_failed", json!({"text": text}), err); return; } };
        let body = pasted.strip_prefix('=').unwrap_or(&pasted).to_string();
        let toks = tokens(&body, false, lc, lg);
        let back = parse_at(&body, &names[cx.tgt_sheet as usize], tgt.row, tgt.column, lc, lg);
        let d = dump_s(&n, self.fns);
        *self.dist.entry(format!("{origin}/{}", if lang == "en" && locale == "en" { "en" } else { "loc" })).or_insert(0) += 1;
        self.distinct.insert(format!("{locale} {lang} {} {}", cx.drow * 100 + cx.dcol + cx.tgt_sheet as i32 * 7, body));
        if self.samples.len() < 12 && self.cs.n % 1777 == 5 { self.samples.push(format!("{locale}/{lang} {text} cut {:?} => {pasted}", cx)); }
        // the debris a non-English lexer makes of an English error name depends on what follows it
        let tie = !(lang != "en" && contains(&n, &|x| matches!(x, Node::ErrorKind(_)) || array_has_error(x, false)))
            && !contains(&n, &|x| matches!(x, Node::ParseErrorKind { .. })) && !num_colon_num_text(&body) && !colon_next_to_full_line_range(&n)
            // a reference that is off the grid already at the source (full-row / full-column spelling of its partner): C09's printer model
            && (body.matches("#REF!").count() == text.matches("#REF!").count())
            // in a comma-decimal locale the hard-coded ',' is not a separator token at all (it continues or starts a
            // number, or is illegal): character level, oracle only (class moved_argument_separator_hard_coded)
            && !(!dot && contains(&n, &|x| match x {
                Node::FunctionKind { args, .. } | Node::NamedFunctionKind { args, .. } | Node::LambdaCallKind { args, .. } => args.len() >= 2,
                Node::LambdaDefKind { parameters, .. } => !parameters.is_empty(), _ => false }));
        if tie {
            self.cs.case(
                &format!("P {} {} {} {} {} {} {} {} {} {} {} {} {}", lang, b(dot), cx.src_sheet, cx.row, cx.col, cx.area.0, cx.area.1, cx.area.2, cx.area.3, cx.tgt_sheet, cx.drow, cx.dcol, d),
                &format!("{} | {}", toks.join(" "), dump_s(&back, self.fns)));
        }
        self.or.checked += 1;
        let expected = spec_move(&n, cx);
        if canon(&back, tgt.row, tgt.column) != canon(&expected, tgt.row, tgt.column) {
            for class in classify(&n, dot, lang, &pasted, cx.tgt_sheet != cx.src_sheet) {
                // a cell of the cut area moved off the grid: not a paste a user can make
                if class == "moved_reference_off_grid" && !text.contains("#REF!") { *self.dist.entry("cut_off_grid_skipped".into()).or_insert(0) += 1; continue; }
                self.or.fail(&class, json!({"formula": text, "locale": locale, "lang": lang, "cut": format!("{cx:?}"), "pasted": pasted}),
                    format!("{text} cut {cx:?} pastes as {pasted}: parses to [{}], expected [{}]", dump_s(&back, self.fns), dump_s(&expected, self.fns)));
            }
        }
        // copy: the same tree at the target anchor
        self.or.checked += 1;
        if let Ok(copied) = m.extend_copied_value(&text, &src, &tgt) {
            let cb = parse_at(copied.strip_prefix('=').unwrap_or(&copied), &names[cx.tgt_sheet as usize], tgt.row, tgt.column, lc, lg);
            // expected: same stored offsets; unqualified references resolve on the target sheet
            let exp = map_node(&n, &|x| match x {
                Node::ReferenceKind { sheet_name: None, absolute_row, absolute_column, row, column, .. } =>
                    Some(Node::ReferenceKind { sheet_name: None, sheet_index: cx.tgt_sheet, absolute_row: *absolute_row, absolute_column: *absolute_column, row: *row, column: *column }),
                Node::RangeKind { sheet_name: None, absolute_row1, absolute_column1, row1, column1, absolute_row2, absolute_column2, row2, column2, .. } =>
                    Some(Node::RangeKind { sheet_name: None, sheet_index: cx.tgt_sheet, absolute_row1: *absolute_row1, absolute_column1: *absolute_column1, row1: *row1, column1: *column1,
                        absolute_row2: *absolute_row2, absolute_column2: *absolute_column2, row2: *row2, column2: *column2 }),
                _ => None });
            if canon(&cb, tgt.row, tgt.column) != canon(&exp, tgt.row, tgt.column) {
                let class = if copied.contains("#REF!") { "copy_reference_off_grid_is_ref_error".to_string() }   // legitimate: part of the statement
                    else {
                        let mut bp = vec![]; bad_pairs(&n, false, &mut bp);
                        if !bp.is_empty() { format!("copy_paren_dropped_associative:{}", bp[0]) }
                        else if let Some(g) = glue_class(&n, false) { format!("copy_lexer_glue:{g}") }
                        else if lang != "en" && contains(&n, &|x| matches!(x, Node::ErrorKind(_)) || array_has_error(x, false)) { "copy_error_not_localized".into() }
                        else if !dot && contains(&n, &|x| matches!(x, Node::ArrayKind(rows) if rows.len() > 1)) { "copy_array_row_separator".into() }
                        else if contains(&n, &|x| matches!(x, Node::NamedFunctionKind { name, .. } if name.to_lowercase() != *name)) { "copy_named_function_lowercased".into() }
                        else if contains(&n, &|x| matches!(x, Node::FunctionKind { kind, .. } if lg.functions.lookup(&kind.to_localized_name(lg)).as_ref() != Some(kind))) { "copy_function_name_not_unique".into() }
                        else { "copy_tree_mismatch".into() }
                    };
                if class != "copy_reference_off_grid_is_ref_error" {
                    self.or.fail(&class, json!({"formula": text, "locale": locale, "lang": lang, "copied": copied, "to": format!("{cx:?}")}),
                        format!("{text} copied {cx:?} gives {copied}: [{}] expected [{}]", dump_s(&cb, self.fns), dump_s(&exp, self.fns)));
                }
            }
        }
    }
}

fn tables(cs: &mut Cases, fns: &Fns) {
    for lang in LANGS {
        let g = get_language(lang).unwrap();
        let en_loc = get_locale("en").unwrap();
        for (i, f) in fns.all.iter().enumerate() { cs.case(&format!("T fn {lang} {i} {}", wire(&f.to_localized_name(g))), "ok"); }
        for (i, e) in ERRORS.iter().enumerate() {
            let toks = tokens(&format!("{e}"), false, en_loc, g);
            cs.case(&format!("T err {lang} {i} {}", toks.join(" ")), "ok");
        }
        cs.case(&format!("T bool {lang} {} {}", wire(&g.booleans.r#true.to_uppercase()), wire(&g.booleans.r#false.to_uppercase())), "ok");
    }
    cs.case(&format!("T tf {} {}", fns.idx(&ironcalc_base::Function::True), fns.idx(&ironcalc_base::Function::False)), "ok");
    for s in sheets() { cs.case(&format!("T sheet {}", wire(&s)), "ok"); }
    for (n, sc, f) in defined_names() {
        cs.case(&format!("T defname {} {} {}", wire(&n), match sc { Some(i) => format!("{i}"), None => "-1".into() }, wire(&f)), "ok");
    }
}

mod e2e;

fn main() {
    let a = Args::parse();
    let fns = Fns::new();
    let mut run = Run { cs: Cases::new(&a.out, "c16"), or: Oracle::default(), fns: &fns, dist: BTreeMap::new(), samples: vec![], distinct: HashSet::new() };
    tables(&mut run.cs, &fns);
    let mut rng = Rng::new(a.seed);
    let g = Gen::new(&fns);
    // cut contexts: the formula sits in C3 of Sheet1; areas 1x1 .. 3x3 around it; targets on the same
    // sheet (disjoint, overlapping) and on another sheet
    let ctxs: Vec<Ctx> = vec![
        Ctx { src_sheet: 0, row: 3, col: 3, area: (3, 3, 1, 1), tgt_sheet: 0, drow: 4, dcol: 2 },
        Ctx { src_sheet: 0, row: 3, col: 3, area: (2, 2, 3, 3), tgt_sheet: 0, drow: 5, dcol: 4 },
        Ctx { src_sheet: 0, row: 3, col: 3, area: (2, 2, 3, 3), tgt_sheet: 0, drow: 1, dcol: -1 },
        Ctx { src_sheet: 0, row: 3, col: 3, area: (2, 1, 3, 3), tgt_sheet: 0, drow: -1, dcol: 1 },
        Ctx { src_sheet: 0, row: 3, col: 3, area: (3, 2, 2, 1), tgt_sheet: 1, drow: 0, dcol: 0 },
        Ctx { src_sheet: 0, row: 3, col: 3, area: (2, 3, 1, 3), tgt_sheet: 1, drow: 2, dcol: 5 },
        Ctx { src_sheet: 0, row: 3, col: 3, area: (3, 3, 2, 2), tgt_sheet: 2, drow: -2, dcol: -2 },
    ];
    let mut models: HashMap<(&str, &str), Model<'static>> = HashMap::new();
    let all_pairs: Vec<(&'static str, &'static str)> = LOCALES.iter().flat_map(|l| LANGS.iter().map(move |k| (*l, *k))).collect();
    let pairs = g.all_pairs();
    let triples = g.all_triples();
    let leaves = g.leaf_cases();
    let mut rot = 0usize;
    let mut job = |run: &mut Run, e: &Node, origin: &str, k: usize, all_loc: bool| {
        let cx = &ctxs[k % ctxs.len()];
        let mut cfgs = vec![("en", "en")];
        if all_loc { cfgs.extend(all_pairs.iter().cloned().filter(|p| *p != ("en", "en"))); } else { rot = (rot * 7 + 11) % 30; cfgs.push(all_pairs[rot]); rot += 1; }
        for (lc, lg) in cfgs {
            let m = models.entry((lc, lg)).or_insert_with(|| new_model(lc, lg));
            run.one(m, e, lc, lg, cx, origin);
        }
    };
    for (k, e) in pairs.iter().enumerate() {
        if a.thorough { for j in 0..ctxs.len() { job(&mut run, e, "pairs", j, j == 0); } } else { job(&mut run, e, "pairs", k, false); job(&mut run, e, "pairs", k + 3, false); }
    }
    for (k, e) in triples.iter().enumerate() { job(&mut run, e, "triples", k, false); }
    for (k, e) in leaves.iter().enumerate() { for j in 0..(if a.thorough { ctxs.len() } else { 2 }) { job(&mut run, e, "leaves", k + j * 3, a.thorough && j == 0); } }
    let nrand = if a.thorough { 40_000 } else { 2_500 };
    for i in 0..nrand {
        let e = g.random(&mut rng, 2 + (i % 5) as u32, false);
        job(&mut run, &e, "random", i as usize, false);
    }
    // references around the area: every cell of a 6x6 block x 4 flag combinations x single / range, all contexts
    for cx in &ctxs {
        let m = models.entry(("en", "en")).or_insert_with(|| new_model("en", "en"));
        for r in 1..=6 { for c in 1..=6 { for fl in 0..4 {
            let (ar, ac) = (fl & 1 == 1, fl & 2 == 2);
            let rf = Node::ReferenceKind { sheet_name: if fl == 3 { Some("Sheet1".to_string()) } else { None }, sheet_index: 0, absolute_row: ar, absolute_column: ac,
                row: if ar { r } else { r - CTX_ROW }, column: if ac { c } else { c - CTX_COL } };
            run.one(m, &rf, "en", "en", cx, "refs");
            let r2 = (r + 1 + (c % 2)).min(7); let c2 = (c + (r % 3)).min(7);
            let rg = Node::RangeKind { sheet_name: None, sheet_index: 0, absolute_row1: ar, absolute_column1: ac, row1: if ar { r } else { r - CTX_ROW }, column1: if ac { c } else { c - CTX_COL },
                absolute_row2: ac, absolute_column2: ar, row2: if ac { r2 } else { r2 - CTX_ROW }, column2: if ar { c2 } else { c2 - CTX_COL } };
            run.one(m, &add(rg, num(1.0)), "en", "en", cx, "refs");
        } } }
    }
    let e2e_stats = e2e::run(&mut rng, &mut run.or, &mut run.cs, a.thorough);
    let Run { cs, or, dist, samples, distinct, .. } = run;
    cs.finish(json!({
        "oracle_checked": or.checked, "oracle_failures": or.failures, "oracle_failures_per_class": or.per_class,
        "distinct_nontrivial": distinct.len(), "distribution": dist, "samples": samples, "e2e": e2e_stats,
        "pairs": pairs.len(), "triples": triples.len(), "leaves": leaves.len(), "random": nrand,
    }));
}
