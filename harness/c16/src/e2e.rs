//! End to end with UserModel: cut / copy a range (1x1 .. 3x3) and paste it on the same sheet (disjoint or
//! overlapping) or on another sheet; the statement evaluated on values, contents and styles.
use ironcalc_base::expressions::types::Area;
use ironcalc_base::UserModel;
use serde_json::json;
use vh_common::*;

fn a1(r: i32, c: i32) -> String { format!("{}{}", (b'A' + (c - 1) as u8) as char, r) }

struct Sc { area: (i32, i32, i32, i32), tgt_sheet: u32, dst: (i32, i32), cut: bool, inside: Vec<((i32, i32), String)>, outside: Vec<((u32, i32, i32), String)>,
    /// formulas `=Sheet1!<cut cell>+1` placed systematically: on the OTHER sheet at every coordinate of the cut rectangle and just outside each
    /// edge, and on the cut sheet just outside each edge: (sheet, row, col, referenced cut cell)
    probes: Vec<(u32, i32, i32, (i32, i32))> }

fn build(sc: &Sc) -> Result<UserModel<'static>, String> {
    let mut u = UserModel::new_empty("m", "en", "UTC", "en")?;
    u.new_sheet()?;
    for s in 0..2u32 { for r in 1..=7 { for c in 1..=6 { u.set_user_input(s, r, c, &format!("{}", (s as i32 + 1) * 1000 + r * 10 + c))?; } } }
    for ((r, c), f) in &sc.inside { u.set_user_input(0, *r, *c, f)?; }
    for ((s, r, c), f) in &sc.outside { u.set_user_input(*s, *r, *c, f)?; }
    for (s, r, c, t) in &sc.probes { u.set_user_input(*s, *r, *c, &format!("=Sheet1!{}+1", a1(t.0, t.1)))?; }
    // a style on the first cell of the area
    u.update_range_style(&Area { sheet: 0, row: sc.area.0, column: sc.area.1, width: 1, height: 1 }, "font.b", "true")?;
    Ok(u)
}
fn paste(u: &mut UserModel, sc: &Sc) -> Result<(), String> {
    let (r, c, h, w) = sc.area;
    u.set_selected_sheet(0)?;
    u.set_selected_cell(r, c)?;
    u.set_selected_range(r, c, r + h - 1, c + w - 1)?;
    let cb = u.copy_to_clipboard()?;
    let v = serde_json::to_value(&cb).map_err(|e| e.to_string())?;
    let data = serde_json::from_value(v["data"].clone()).map_err(|e| e.to_string())?;
    u.set_selected_sheet(sc.tgt_sheet)?;
    u.set_selected_cell(sc.dst.0, sc.dst.1)?;
    u.set_selected_range(sc.dst.0, sc.dst.1, sc.dst.0, sc.dst.1)?;
    u.paste_from_clipboard(0, (r, c, r + h - 1, c + w - 1), &data, sc.cut)
}
fn val(u: &UserModel, s: u32, r: i32, c: i32) -> String { format!("{:?}", u.get_model().get_cell_value_by_index(s, r, c)) }

/// formulas whose operand structure the moved printer cannot spell
fn paren_sensitive(f: &str) -> bool { f.contains('(') && !f.starts_with("=SUM(") }

pub fn run(rng: &mut Rng, or: &mut Oracle, cs: &mut Cases, thorough: bool) -> serde_json::Value {
    let n = if thorough { 1500 } else { 150 };
    let mut stats = std::collections::BTreeMap::<String, u64>::new();
    for i in 0..n {
        let h = 1 + rng.below(3) as i32; let w = 1 + rng.below(3) as i32;
        let r0 = 2 + rng.below(2) as i32; let c0 = 2 + rng.below(2) as i32;
        let other = i % 3 == 2;
        let cut = i % 4 != 3;
        let dst = match rng.below(4) { 0 => (r0 + 4, c0), 1 => (r0, c0 + 3), 2 => (r0 + 1, c0 + 1), _ => (r0 - 1, c0) };
        let (dr, dc) = (dst.0 - r0, dst.1 - c0);
        // formulas inside the area (first cell and, if any, last cell)
        let in_cell = a1(r0 + h - 1, c0 + w - 1); let out_cell = a1(7, 1);
        let pool_in = [format!("={in_cell}+{out_cell}"), format!("=SUM({}:{in_cell})*2", a1(r0, c0)), format!("=${out_cell}-$A$1"), format!("=10-({out_cell}-{in_cell})"), format!("=({in_cell}+1)^2"), format!("=-({in_cell}+{out_cell})")];
        let mut inside = vec![((r0, c0), rng.pick(&pool_in).clone())];
        if h * w > 1 { inside.push(((r0 + h - 1, c0 + w - 1), format!("={}*3", a1(1, 1)))); }
        // formulas elsewhere: references to a cut cell, to a range wholly inside, to a range partly inside, unrelated ones
        let first = a1(r0, c0);
        let pool_out = [format!("={first}+1"), format!("=SUM({first}:{in_cell})"), format!("=SUM(A1:{in_cell})"), "=1-(2-3)".to_string(), "=(1+2)^2".to_string(), format!("=$A$1+{out_cell}")];
        let mut outside = vec![];
        for k in 0..3 { outside.push(((0u32, 1 + k, 8), rng.pick(&pool_out).clone())); }
        outside.push(((1u32, 1, 8), format!("=Sheet1!{first}*2")));
        outside.push(((1u32, 2, 8), format!("=SUM(Sheet1!{first}:{in_cell})")));
        // probes: the other sheet at every coordinate of the cut rectangle and just outside each edge; the cut sheet just outside each edge
        let mut probes = vec![];
        let last = (r0 + h - 1, c0 + w - 1);
        let mut k = 0;
        for r in r0 - 1..=r0 + h { for c in c0 - 1..=c0 + w {
            if r < 1 || c < 1 { continue; }
            let inside_rect = r >= r0 && r < r0 + h && c >= c0 && c < c0 + w;
            let corner = (r == r0 - 1 || r == r0 + h) && (c == c0 - 1 || c == c0 + w);
            if corner { continue; }
            k += 1;
            let t = if k % 2 == 0 { (r0, c0) } else { last };
            probes.push((1u32, r, c, t));
            if !inside_rect { probes.push((0u32, r, c, t)); }
        } }
        let sc = Sc { area: (r0, c0, h, w), tgt_sheet: if other { 1 } else { 0 }, dst, cut, inside, outside, probes };
        let input = json!({"area": [r0, c0, h, w], "to_sheet": sc.tgt_sheet, "to": [dst.0, dst.1], "cut": cut,
            "inside": sc.inside.iter().map(|(p, f)| format!("{}: {}", a1(p.0, p.1), f)).collect::<Vec<_>>(),
            "outside": sc.outside.iter().map(|(p, f)| format!("S{}!{}: {}", p.0 + 1, a1(p.1, p.2), f)).collect::<Vec<_>>()});
        let Ok(mut u) = build(&sc) else { continue };
        let mut before = std::collections::BTreeMap::new();
        for s in 0..2u32 { for r in 1..=12 { for c in 1..=10 { before.insert((s, r, c), val(&u, s, r, c)); } } }
        let bold_before = u.get_cell_style(0, r0, c0).map(|s| s.font.b).unwrap_or(false);
        if let Err(e) = paste(&mut u, &sc) { or.fail("paste_failed", input.clone(), e); continue; }
        *stats.entry(format!("{}{}", if cut { "cut" } else { "copy" }, if other { "_other_sheet" } else { "" })).or_insert(0) += 1;
        let ts = sc.tgt_sheet;
        let in_src = |s: u32, r: i32, c: i32| s == 0 && r >= r0 && r < r0 + h && c >= c0 && c < c0 + w;
        let in_dst = |s: u32, r: i32, c: i32| s == ts && r >= dst.0 && r < dst.0 + h && c >= dst.1 && c < dst.1 + w;
        let sens_in = sc.inside.iter().any(|(_, f)| paren_sensitive(f));
        // (1) pasted cells have the values the originals had (cut; for copy only literal cells are comparable)
        for r in r0..r0 + h { for c in c0..c0 + w {
            let is_formula = sc.inside.iter().any(|(p, _)| *p == (r, c));
            if !cut && is_formula { continue; }
            or.checked += 1;
            let got = val(&u, ts, r + dr, c + dc);
            if got != before[&(0, r, c)] {
                let overlap = !other && dr.abs() < h && dc.abs() < w;
                let class = if is_formula && sc.inside.iter().any(|(p, f)| *p == (r, c) && paren_sensitive(f)) { "cut_formula_value_changed_moved_paren_missing" }
                    else if other && is_formula { "cut_to_other_sheet_formula_value_changed" }
                    else if overlap { "overlapping_cut_paste_value_changed" }
                    else if is_formula && sens_in { "cut_formula_reads_cut_formula_with_moved_paren_missing" }
                    else { "pasted_value_differs" };
                or.fail(class, json!({"scenario": input, "cell": a1(r, c), "before": before[&(0, r, c)], "after": got}), format!("pasted {} = {} was {}", a1(r + dr, c + dc), got, before[&(0, r, c)]));
            }
        } }
        // style of the first cell travels
        or.checked += 1;
        let bold_after = u.get_cell_style(ts, dst.0, dst.1).map(|s| s.font.b).unwrap_or(false);
        if bold_before != bold_after { or.fail("pasted_style_differs", input.clone(), "bold flag of the first cell lost".into()); }
        // (2) cut: the source cells that are not overwritten are empty
        if cut { for r in r0..r0 + h { for c in c0..c0 + w { if !in_dst(0, r, c) {
            or.checked += 1;
            let got = val(&u, 0, r, c);
            if got != "Ok(String(\"\"))" && got != "Ok(None)" && !got.contains("\"\"") { or.fail("cut_source_not_cleared", json!({"scenario": input, "cell": a1(r, c), "after": got}), format!("{} still {}", a1(r, c), got)); }
        } } } }
        // (2b) the probes: a reference to a cut cell from anywhere (any sheet, any coordinates — also the coordinates of the cut
        // rectangle on another sheet) points to the moved cell after a cut; after a copy nothing changes. Compared as text.
        for (s, r, c, t) in &sc.probes {
            if in_dst(*s, *r, *c) { continue; }
            let before_text = format!("=Sheet1!{}+1", a1(t.0, t.1));
            let got = u.get_model().get_cell_formula(*s, *r, *c).ok().flatten().unwrap_or_default();
            if cut && !other {
                // which formula cells the external pass rewrites: model external_rewritten (skip rule incl. the sheet conjunct)
                cs.case(&format!("K 0 {} {} {} {} {} {} {}", r0, c0, w, h, s, r, c), b(got != before_text));
            }
            if other && cut { continue; }   // F67: cut to another sheet (known classes above)
            or.checked += 1;
            let expected = if cut { format!("=Sheet1!{}+1", a1(t.0 + dr, t.1 + dc)) } else { before_text.clone() };
            if got != expected {
                or.fail("reference_to_cut_cell_not_moved", json!({"scenario": input, "probe": format!("S{}!{}", s + 1, a1(*r, *c)), "before": before_text, "after": got, "expected": expected}),
                    format!("probe S{}!{} {} became {} (expected {})", s + 1, a1(*r, *c), before_text, got, expected));
            }
        }
        // (3) every formula elsewhere keeps its value (cut: references follow; copy: nothing else changes) unless it reads an overwritten cell
        for ((s, r, c), f) in &sc.outside {
            if in_src(*s, *r, *c) || in_dst(*s, *r, *c) { continue; }
            or.checked += 1;
            let got = val(&u, *s, *r, *c);
            if got != before[&(*s, *r, *c)] {
                // a formula that reads the target area legitimately changes (its cells were overwritten); so does one reading
                // part of the cut area through a range that is not wholly inside
                let reads_partial = f.contains("A1:");
                let overlap = !other && dr.abs() < h && dc.abs() < w;
                let class = if !cut && !other { "excluded" }
                    else if !cut { "excluded" }
                    else if reads_partial { "excluded" }
                    else if paren_sensitive(f) { "external_formula_reprinted_by_moved_printer" }
                    else if other { "cut_to_other_sheet_external_reference_not_retargeted" }
                    else if overlap { "overlapping_cut_paste_external_value_changed" }
                    else if sens_in { "external_value_depends_on_cut_formula_with_moved_paren_missing" }
                    else { "external_formula_value_changed_after_cut" };
                if class == "excluded" { *stats.entry("excluded_external".into()).or_insert(0) += 1; continue; }
                or.fail(class, json!({"scenario": input, "formula": f, "at": format!("S{}!{}", s + 1, a1(*r, *c)), "before": before[&(*s, *r, *c)], "after": got,
                    "text_after": u.get_model().get_cell_formula(*s, *r, *c).ok().flatten()}),
                    format!("{f} at S{}!{}: {} -> {}", s + 1, a1(*r, *c), before[&(*s, *r, *c)], got));
            }
        }
    }
    json!(stats)
}

