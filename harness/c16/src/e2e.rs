//! end to end with UserModel: cut / copy a range and paste it (placeholder filled in below)
use vh_common::*;
pub fn run(_rng: &mut Rng, _or: &mut Oracle, _thorough: bool) -> serde_json::Value { serde_json::json!({}) }
