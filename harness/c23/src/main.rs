//! C23 — function and error names round-trip in every language.
//!
//!  `vh_c23 <seed> <tier> <out> tables`  dumps the name tables of the compiled code to
//!      <out>/c23.tables.json (read by lib/c23.py::pre_proof -> Generated/Tables_c23.v)
//!  `vh_c23 <seed> <tier> <out>`         writes the correspondence cases (real lookup / parser /
//!      lexer / error lookups vs the Gallina model over the generated tables) and evaluates the
//!      property oracle on the implementation (parser + printers, Model cells, xlsx round trip).
use ironcalc::export::save_xlsx_to_writer;
use ironcalc::import::load_from_xlsx_bytes;
use ironcalc_base::expressions::lexer::{Lexer, LexerMode};
use ironcalc_base::expressions::parser::stringify::{to_excel_string, to_localized_string, to_rc_format};
use ironcalc_base::expressions::parser::{Node, Parser};
use ironcalc_base::expressions::token::{get_error_by_english_name, get_error_by_name, Error, TokenType};
use ironcalc_base::expressions::types::CellReferenceRC;
use ironcalc_base::language::{get_language, Language};
use ironcalc_base::locale::get_locale;
use ironcalc_base::types::{Cell, FormulaValue};
use ironcalc_base::{Function, Model};
use serde_json::json;
use std::collections::{BTreeMap, BTreeSet, HashMap};
use std::io::Cursor;
use vh_common::*;

/// the Error enum in declaration order; `eidx` has no wildcard arm, so a new variant breaks the
/// build of this harness (reported as a violation by `check`)
const ERRORS: [Error; 12] = [
    Error::REF, Error::NAME, Error::VALUE, Error::DIV, Error::NA, Error::NUM,
    Error::ERROR, Error::NIMPL, Error::SPILL, Error::CALC, Error::CIRC, Error::NULL,
];
fn eidx(e: &Error) -> usize {
    match e {
        Error::REF => 0, Error::NAME => 1, Error::VALUE => 2, Error::DIV => 3, Error::NA => 4, Error::NUM => 5,
        Error::ERROR => 6, Error::NIMPL => 7, Error::SPILL => 8, Error::CALC => 9, Error::CIRC => 10, Error::NULL => 11,
    }
}

/// non-ASCII characters the generators add to names (ß upper-cases to two characters, the long s
/// and the Kelvin sign to ASCII letters, the dotless i to I)
const EXTRA_CHARS: [char; 7] = ['é', 'ü', 'ß', 'ſ', 'ı', '\u{212A}', 'ǆ'];

/// every two-letter id the language table resolves (so a language added to language.bin shows up)
fn languages() -> Vec<String> {
    let mut v = vec![];
    for a in 'a'..='z' {
        for b in 'a'..='z' {
            let id = format!("{a}{b}");
            if get_language(&id).is_ok() { v.push(id); }
        }
    }
    // "en" first: the xlsx form is parsed with the English tables
    v.sort_by_key(|x| (x != "en", x.clone()));
    v
}

struct Ctx {
    langs: Vec<String>,
    funs: Vec<Function>,
    fidx: HashMap<String, usize>, // Debug name -> index in into_iter order
}
impl Ctx {
    fn new() -> Ctx {
        let funs: Vec<Function> = Function::into_iter().collect();
        let fidx = funs.iter().enumerate().map(|(i, f)| (format!("{f:?}"), i)).collect();
        Ctx { langs: languages(), funs, fidx }
    }
    fn fi(&self, f: &Function) -> usize { self.fidx[&format!("{f:?}")] }
}

fn error_names(l: &Language) -> Vec<String> { ERRORS.iter().map(|e| e.to_localized_error_string(l)).collect() }

fn dump_tables(cx: &Ctx, out: &str) {
    let mut chars: BTreeSet<char> = BTreeSet::new();
    for c in 0u8..128 { chars.insert(c as char); }
    for c in EXTRA_CHARS { chars.insert(c); for d in c.to_uppercase() { chars.insert(d); } }
    let mut langs = vec![];
    for id in &cx.langs {
        let l = get_language(id).unwrap();
        let names: Vec<String> = cx.funs.iter().map(|f| f.to_localized_name(l)).collect();
        let upper: Vec<String> = names.iter().map(|n| n.to_uppercase()).collect();
        let errs = error_names(l);
        for s in names.iter().chain(errs.iter()).chain([&l.booleans.r#true, &l.booleans.r#false]) {
            for c in s.chars() {
                chars.insert(c);
                for d in c.to_lowercase() { chars.insert(d); }
                for d in c.to_uppercase() { chars.insert(d); }
            }
        }
        langs.push(json!({"id": id, "code": l.code, "name": l.name, "functions": names, "functions_upper": upper,
            "errors": errs, "true": l.booleans.r#true, "false": l.booleans.r#false}));
    }
    // the char tables of the Rust standard library restricted to the characters that occur
    let chartab: Vec<_> = chars.iter().map(|c| json!({"c": *c as u32,
        "upper": c.to_uppercase().map(|x| x as u32).collect::<Vec<u32>>(),
        "alpha": c.is_alphabetic(), "alnum": c.is_alphanumeric()})).collect();
    // the xlsx (English, hard-coded) error names: for every error the candidates
    // get_error_by_english_name maps to it
    let mut cands: BTreeSet<String> = BTreeSet::new();
    for id in &cx.langs { for n in error_names(get_language(id).unwrap()) { cands.insert(n); } }
    for e in ERRORS.iter() { let d = format!("{e}"); cands.insert(format!("{d}!")); cands.insert(format!("{d}?")); cands.insert(d); }
    let english: Vec<Vec<String>> = ERRORS.iter().map(|e| cands.iter().filter(|s| get_error_by_english_name(s).as_ref() == Some(e)).cloned().collect()).collect();
    let t = json!({
        "languages": langs,
        "variants": cx.funs.iter().map(|f| format!("{f:?}")).collect::<Vec<_>>(),
        "xlsx": cx.funs.iter().map(|f| f.to_xlsx_string()).collect::<Vec<_>>(),
        "error_variants": ERRORS.iter().map(|e| format!("{e:?}")).collect::<Vec<_>>(),
        "error_display": ERRORS.iter().map(|e| format!("{e}")).collect::<Vec<_>>(),
        "error_english": english,
        "chars": chartab,
    });
    std::fs::create_dir_all(out).ok();
    std::fs::write(format!("{out}/c23.tables.json"), serde_json::to_string_pretty(&t).unwrap()).unwrap();
}

fn ctx_cell() -> CellReferenceRC { CellReferenceRC { sheet: "Sheet1".to_string(), row: 1, column: 1 } }

fn mk_parser<'a>(lang: &'a Language) -> Parser<'a> {
    Parser::new(vec!["Sheet1".to_string()], vec![], HashMap::new(), get_locale("en").unwrap(), lang)
}

/// what the real lexer + parser make of `<name>(1)` in the language
fn call_obs(cx: &Ctx, lang: &Language, name: &str) -> String {
    let text = format!("{name}(1)");
    let mut lx = Lexer::new(&text, LexerMode::A1, get_locale("en").unwrap(), lang);
    match lx.next_token() {
        TokenType::Boolean(_) => {}
        TokenType::Ident(n) if n == name => {}
        _ => return "notident".to_string(),
    }
    let mut p = mk_parser(lang);
    match p.parse(&text, &ctx_cell()) {
        Node::FunctionKind { kind, .. } => format!("fn {}", cx.fi(&kind)),
        Node::LambdaDefKind { .. } => "lambda".to_string(),
        Node::NamedFunctionKind { name, .. } => format!("named {}", wire(&name)),
        Node::ImplicitIntersection { .. } => "single".to_string(),
        Node::SpillRangeOperator { .. } => "anchor".to_string(),
        Node::ParseErrorKind { .. } => "err".to_string(),
        _ => "other".to_string(),
    }
}

/// the first token of `text` in the language, if an error, and the text that is left
fn lexerr_obs(lang: &Language, text: &str) -> String {
    let mut lx = Lexer::new(text, LexerMode::A1, get_locale("en").unwrap(), lang);
    match lx.next_token() {
        TokenType::Error(e) => {
            let pos = lx.get_position() as usize;
            let rest: String = text.chars().skip(pos).collect();
            format!("e {} {}", eidx(&e), wire(&rest))
        }
        TokenType::Spill => "spill".to_string(),
        _ => "other".to_string(),
    }
}

fn cell_error(m: &Model, row: i32, col: i32) -> Option<Error> {
    match m.workbook.worksheet(0).ok()?.cell(row, col)? {
        Cell::ErrorCell { ei, .. } => Some(ei.clone()),
        Cell::CellFormula { v: FormulaValue::Error { ei, .. }, .. } => Some(ei.clone()),
        Cell::ArrayFormula { v: FormulaValue::Error { ei, .. }, .. } => Some(ei.clone()),
        _ => None,
    }
}

fn lower_mixed(s: &str, rng: &mut Rng) -> String {
    s.chars().map(|c| if rng.chance(1, 2) { c.to_lowercase().collect::<String>() } else { c.to_string() }).collect()
}

fn main() {
    let a = Args::parse();
    let cx = Ctx::new();
    if a.extra.first().map(|s| s.as_str()) == Some("tables") {
        dump_tables(&cx, &a.out);
        return;
    }
    let mut rng = Rng::new(a.seed);
    let mut cs = Cases::new(&a.out, "c23");
    let mut or = Oracle::default();
    let mut dist: BTreeMap<String, u64> = BTreeMap::new();
    let mut samples: Vec<String> = vec![];
    let mut nontrivial: BTreeSet<String> = BTreeSet::new();
    let en = get_language("en").unwrap();

    // ---------------------------------------------------------------- name pools
    let mut all_names: BTreeSet<String> = BTreeSet::new(); // every function name of every language
    let mut all_err: BTreeSet<String> = BTreeSet::new();
    for id in &cx.langs {
        let l = get_language(id).unwrap();
        for f in &cx.funs { all_names.insert(f.to_localized_name(l)); }
        for n in error_names(l) { all_err.insert(n); }
    }
    let xlsx_names: Vec<String> = cx.funs.iter().map(|f| f.to_xlsx_string()).collect();

    // ---------------------------------------------------------------- correspondence cases
    for (li, id) in cx.langs.iter().enumerate() {
        let l = get_language(id).unwrap();
        // (1) lookup: every name of every language (cross-language too), lower/mixed case, xlsx forms,
        //     one-character mutations
        let mut keys: Vec<String> = vec![];
        for n in &all_names {
            keys.push(n.clone());
            keys.push(n.to_lowercase());
            for _ in 0..(if a.thorough { 12 } else { 1 }) {
                keys.push(lower_mixed(n, &mut rng));
                let cs_: Vec<char> = n.chars().collect();
                let k = rng.below(cs_.len() as u64) as usize;
                keys.push(cs_.iter().enumerate().filter(|(i, _)| *i != k).map(|(_, c)| *c).collect()); // drop one
                let mut ins = cs_.clone();
                ins.insert(k, *rng.pick(&['S', '.', '1', '_', 'é', 'ü', 'ß', 'ǆ', 'A', 'E']));
                keys.push(ins.iter().collect());
            }
            keys.push(format!("{n}{}", rng.pick(&['S', '.', '1', '_', 'é'])));
            if n.contains("SS") { keys.push(n.replace("SS", "ß")); }
            if n.contains('S') { keys.push(n.replacen('S', "ſ", 1)); }
            if n.contains('I') { keys.push(n.replacen('I', "ı", 1)); }
            if n.contains('K') { keys.push(n.replacen('K', "\u{212A}", 1)); }
        }
        for x in &xlsx_names { keys.push(x.clone()); keys.push(x.to_lowercase()); }
        keys.push(String::new());
        for k in &keys {
            let obs = match l.functions.lookup(k) { Some(f) => format!("some {}", cx.fi(&f)), None => "none".to_string() };
            cs.case(&format!("lk {li} {}", wire(k)), &obs);
            *dist.entry("lookup".into()).or_insert(0) += 1;
        }
        // (2) the parser's treatment of NAME(1): every name of this language and of English with every
        //     prefix combination the parser strips; the xlsx names as they are
        let mut calls: Vec<String> = vec![];
        let own: BTreeSet<String> = cx.funs.iter().map(|f| f.to_localized_name(l)).chain(cx.funs.iter().map(|f| f.to_localized_name(en))).collect();
        for n in &own {
            for p in ["", "_xlfn.", "_xlfn._xlws.", "_xlpm.", "_xlfn._xlfn.", "_xlfn._xlws._xlfn.", "_xlfn._xlpm.", "_xlws.", "_xlfn._xlws._xlfn._xlws."] {
                calls.push(format!("{p}{n}"));
            }
            calls.push(n.to_lowercase());
        }
        for x in &xlsx_names { calls.push(x.clone()); }
        for n in ["_xlfn.SINGLE", "_xlfn.ANCHORARRAY", "SINGLE", "ANCHORARRAY", "_xlfn.LAMBDA", "lambda", "_xlfn.lambda", "_xlpm.x", "_xlfn.NOSUCH", "NOSUCH.FN", "_xlfn.", "_x", "x_y.z"] {
            calls.push(n.to_string());
        }
        calls.push(l.booleans.r#true.clone()); calls.push(l.booleans.r#false.to_lowercase());
        for c in &calls {
            let obs = call_obs(&cx, l, c);
            cs.case(&format!("call {li} {}", wire(c)), &obs);
            *dist.entry("call".into()).or_insert(0) += 1;
        }
        // (2b) stringify's ErrorKind arm in this language
        for (k, e) in ERRORS.iter().enumerate() {
            let printed = to_localized_string(&Node::ErrorKind(e.clone()), &ctx_cell(), get_locale("en").unwrap(), l);
            cs.case(&format!("prt {li} {k}"), &wire(&printed));
            *dist.entry("error-print".into()).or_insert(0) += 1;
        }
        // (3) the lexer's error cascade and the two equality lookups
        let mut etexts: Vec<String> = vec![];
        for n in &all_err {
            for suf in ["", "!", "A", "1", "+1", "/IMPL!", "?", " ", "MBRE!"] { etexts.push(format!("{n}{suf}")); }
            let v: Vec<char> = n.chars().collect();
            for k in 1..v.len() { etexts.push(v[..k].iter().collect()); }
            etexts.push(n.to_lowercase());
        }
        for e in ERRORS.iter() { etexts.push(format!("{e}")); etexts.push(format!("{e}+1")); }
        etexts.push("#".to_string());
        for t in &etexts {
            cs.case(&format!("lexe {li} {}", wire(t)), &lexerr_obs(l, t));
            let o = match get_error_by_name(t, l) { Some(e) => format!("some {}", eidx(&e)), None => "none".into() };
            cs.case(&format!("ebn {li} {}", wire(t)), &o);
            if li == 0 {
                let o = match get_error_by_english_name(t) { Some(e) => format!("some {}", eidx(&e)), None => "none".into() };
                cs.case(&format!("een {}", wire(t)), &o);
            }
            *dist.entry("error-lex/lookup".into()).or_insert(0) += 2;
        }
    }
    // (4) to_uppercase of the Rust standard library vs the generated character map
    for n in all_names.iter().chain(all_err.iter()) {
        for v in [n.clone(), n.to_lowercase()] {
            cs.case(&format!("up {}", wire(&v)), &wire(&v.to_uppercase()));
            *dist.entry("to_uppercase".into()).or_insert(0) += 1;
        }
    }

    // ---------------------------------------------------------------- the property oracle
    let en_locale = get_locale("en").unwrap();
    for id in cx.langs.iter() {
        let l = get_language(id).unwrap();
        // ---- functions: NAME() parsed in the language and printed back three ways
        for (i, f) in cx.funs.iter().enumerate() {
            or.checked += 1;
            let name = f.to_localized_name(l);
            let text = format!("{name}()");
            let inp = json!({"language": id, "function": format!("{f:?}"), "text": text});
            nontrivial.insert(format!("{id}:{name}"));
            let mut p = mk_parser(l);
            let node = p.parse(&text, &ctx_cell());
            let is_lambda_name = name.to_uppercase() == "LAMBDA";
            match &node {
                Node::FunctionKind { kind, .. } => {
                    let g = cx.fi(kind);
                    if g != i {
                        if kind.to_localized_name(l).to_uppercase() == name.to_uppercase() {
                            or.fail(&format!("shared-function-name {id} {name}"), inp.clone(),
                                format!("{name}() in '{id}' parses to {:?}, not {:?}: both functions are called {name}", kind, f));
                        } else {
                            or.fail("function-name-parses-to-other-function", inp.clone(), format!("{name}() parsed to {:?}", kind));
                        }
                        continue;
                    }
                    let loc = to_localized_string(&node, &ctx_cell(), en_locale, l);
                    if loc != text { or.fail("function-localized-print", inp.clone(), format!("printed {loc}")); }
                    let rc = to_rc_format(&node);
                    let want_rc = format!("{}()", f.to_localized_name(en));
                    if rc != want_rc { or.fail("function-rc-print", inp.clone(), format!("to_rc_format printed {rc}, expected {want_rc}")); }
                    // the stored form is read back by the English R1C1 parser
                    let mut pe = mk_parser(en);
                    pe.set_lexer_mode(LexerMode::R1C1);
                    match pe.parse(&rc, &ctx_cell()) {
                        Node::FunctionKind { kind, .. } if cx.fi(&kind) == i => {}
                        other => or.fail("function-rc-reparse", inp.clone(), format!("{rc} reparsed as {:?}", other)),
                    }
                    let x = to_excel_string(&node, &ctx_cell());
                    let want_x = format!("{}()", f.to_xlsx_string());
                    if x != want_x { or.fail("function-xlsx-print", inp.clone(), format!("to_excel_string printed {x}, expected {want_x}")); }
                    let mut pe = mk_parser(en);
                    match pe.parse(&x, &ctx_cell()) {
                        Node::FunctionKind { kind, .. } if cx.fi(&kind) == i => {}
                        other => or.fail("function-xlsx-reparse", inp.clone(), format!("{x} reparsed as {:?}", other)),
                    }
                }
                Node::ParseErrorKind { .. } if is_lambda_name => {
                    // LAMBDA() without a body is rejected by parse_lambda; use LAMBDA(1)
                    let text1 = format!("{name}(1)");
                    let node = p.parse(&text1, &ctx_cell());
                    let loc = to_localized_string(&node, &ctx_cell(), en_locale, l);
                    let x = to_excel_string(&node, &ctx_cell());
                    let ok = matches!(node, Node::LambdaDefKind { .. }) && loc == text1 && x == format!("{}(1)", f.to_xlsx_string())
                        && matches!(mk_parser(en).parse(&x, &ctx_cell()), Node::LambdaDefKind { .. });
                    if !ok { or.fail("lambda-name-round-trip", inp.clone(), format!("{text1} printed {loc} / {x}")); }
                }
                other => {
                    let up = name.to_uppercase();
                    if up == l.booleans.r#true || up == l.booleans.r#false {
                        or.fail(&format!("function-named-like-boolean {id} {name}"), inp.clone(),
                            format!("{text} does not parse to the function {:?}: the lexer reads {name} as a boolean ({:?})", f, other));
                    } else {
                        or.fail("function-name-does-not-parse", inp.clone(), format!("{text} parsed to {:?}", other));
                    }
                }
            }
        }
        // ---- errors: a cell `=<name>` and a cell `<name>` in a Model of that language, read back,
        //      re-entered from its printed content, exported to xlsx and imported again
        let mut m = Model::new_empty("c23", "en", "UTC", id).unwrap();
        for (k, e) in ERRORS.iter().enumerate() {
            let name = e.to_localized_error_string(l);
            let row = k as i32 + 1;
            m.set_user_input(0, row, 1, format!("={name}")).unwrap();
            m.set_user_input(0, row, 2, name.clone()).unwrap();
            m.set_user_input(0, row, 3, name.to_lowercase()).unwrap();
        }
        m.evaluate();
        for (k, e) in ERRORS.iter().enumerate() {
            or.checked += 1;
            let name = e.to_localized_error_string(l);
            let row = k as i32 + 1;
            let inp = json!({"language": id, "error": format!("{e:?}"), "name": name});
            nontrivial.insert(format!("{id}:{name}"));
            for col in 1..=3 {
                let got = cell_error(&m, row, col);
                let shown = m.get_formatted_cell_value(0, row, col).unwrap_or_default();
                if got.as_ref() != Some(e) || shown != name {
                    or.fail("error-name-entered-in-cell", inp.clone(), format!("column {col}: cell holds {:?} shown as {shown}", got));
                }
            }
        }
        // print the formula in the language and enter what was printed in a FRESH model of the same
        // language (in the same sheet an unparsable text equal to a stored formula's R1C1 text is
        // silently identified with that formula)
        for (k, e) in ERRORS.iter().enumerate() {
            or.checked += 1;
            let row = k as i32 + 1;
            let name = e.to_localized_error_string(l);
            let content = m.get_localized_cell_content(0, row, 1).unwrap_or_default();
            let mut fresh = Model::new_empty("c23b", "en", "UTC", id).unwrap();
            fresh.set_user_input(0, 1, 1, content.clone()).unwrap();
            fresh.evaluate();
            let got = cell_error(&fresh, 1, 1);
            if got.as_ref() != Some(e) {
                let inp = json!({"language": id, "error": format!("{e:?}"), "name": name, "printed": content});
                let shown = format!("{e}");
                if content == format!("={shown}") && shown != name {
                    let cls = if *e == Error::NIMPL { "error-display-nimpl".to_string() } else { format!("error-literal-printed-in-english {id}") };
                    or.fail(&cls, inp, format!("={name} is printed as {content} in '{id}', which reads back as {:?} in a fresh '{id}' workbook", got));
                } else {
                    or.fail("error-formula-reprint", inp, format!("={name} printed as {content}, re-entered gives {:?}", got));
                }
            }
        }
        // xlsx
        match save_xlsx_to_writer(&m, Cursor::new(Vec::new())) {
            Ok(w) => {
                let bytes = w.into_inner();
                match load_from_xlsx_bytes(&bytes, "c23", "en", "UTC").map_err(|e| format!("{e:?}"))
                    .and_then(|wb| Model::from_workbook(wb, id)) {
                    Ok(mut m2) => {
                        let before: Vec<Vec<Option<Error>>> = (1..=12).map(|r| (1..=3).map(|c| cell_error(&m2, r, c)).collect()).collect();
                        m2.evaluate();
                        for (k, e) in ERRORS.iter().enumerate() {
                            or.checked += 1;
                            let row = k as i32 + 1;
                            let name = e.to_localized_error_string(l);
                            for col in 1..=3usize {
                                let inp = json!({"language": id, "error": format!("{e:?}"), "name": name, "column": col, "via": "xlsx"});
                                let cached = before[k][col - 1].clone();
                                let after = cell_error(&m2, row, col as i32);
                                for (what, got) in [("as imported", cached), ("after re-evaluation", after)] {
                                    if got.as_ref() != Some(e) {
                                        if *e == Error::NIMPL && got == Some(Error::ERROR) {
                                            or.fail("error-display-nimpl", inp.clone(), format!("xlsx export writes {e} for Error::NIMPL; the importer reads it as #ERROR! ({what})"));
                                        } else if col == 1 && what == "after re-evaluation" {
                                            or.fail("error-formula-xlsx", inp.clone(), format!("formula cell reads {:?} {what}", got));
                                        } else {
                                            or.fail("error-value-xlsx", inp.clone(), format!("cell reads {:?} {what}", got));
                                        }
                                    }
                                }
                            }
                        }
                    }
                    Err(e) => or.fail("xlsx-reimport-failed", json!({"language": id}), e),
                }
            }
            Err(e) => or.fail("xlsx-export-failed", json!({"language": id}), format!("{e:?}")),
        }
    }
    // ---- the name written to xlsx files (Display) is read back by the importer's lookup
    for e in ERRORS.iter() {
        or.checked += 1;
        let d = format!("{e}");
        if get_error_by_english_name(&d).as_ref() != Some(e) {
            let cls = if *e == Error::NIMPL { "error-display-nimpl" } else { "error-display-not-read-back" };
            or.fail(cls, json!({"error": format!("{e:?}"), "display": d}), format!("Display prints {d}; get_error_by_english_name({d}) = {:?}", get_error_by_english_name(&d)));
        }
    }
    // ---- the xlsx name of every function goes through the English parser
    for (i, f) in cx.funs.iter().enumerate() {
        or.checked += 1;
        let x = f.to_xlsx_string();
        let obs = call_obs(&cx, en, &x);
        let ok = obs == format!("fn {i}") || (obs == "lambda" && x == "_xlfn.LAMBDA") || false;
        if !ok { or.fail("function-xlsx-name", json!({"function": format!("{f:?}"), "xlsx": x}), format!("{x}(1) in English: {obs}")); }
    }
    for (k, v) in dist.iter() { samples.push(format!("{k}: {v} cases")); }
    samples.push(format!("oracle: {} functions x {} languages parsed and printed back; 12 errors x {} languages entered in cells and sent through xlsx", cx.funs.len(), cx.langs.len(), cx.langs.len()));
    let oc = or.checked;
    cs.finish(json!({
        "distribution": dist, "samples": samples, "oracle_checked": oc,
        "distinct_nontrivial": nontrivial.len(),
        "oracle_failures": or.failures, "oracle_failures_per_class": or.per_class,
        "languages": cx.langs, "functions": cx.funs.len(),
    }));
}
