//! vh_c18 — C18 "re-entering a cell's displayed content reproduces the cell".
//! For every (language, locale) and every input text: type it into a fresh cell of a real Model,
//! read the content with Model::get_localized_cell_content, type that content into the same cell,
//! compare (content, kind, style, value to 15 digits). The same case goes to the extracted model.
use ironcalc_base::expressions::token::Error;
use ironcalc_base::types::Cell;
use ironcalc_base::Model;
use serde_json::json;
use vh_common::*;

pub const LOCALES: [&str; 6] = ["en", "de", "en-GB", "es", "fr", "it"];
pub const LANGS: [&str; 5] = ["en", "es", "fr", "de", "it"];

fn err_index(e: &Error) -> usize {
    // the order in which get_error_by_name tests the names
    match e {
        Error::REF => 0, Error::NAME => 1, Error::VALUE => 2, Error::DIV => 3, Error::NA => 4, Error::NUM => 5,
        Error::ERROR => 6, Error::NIMPL => 7, Error::SPILL => 8, Error::CALC => 9, Error::CIRC => 10, Error::NULL => 11,
    }
}

pub struct Ctx { pub m: Model<'static>, pub loc: &'static str, pub lang: &'static str, n: u32 }
fn leak(s: &str) -> &'static str { Box::leak(s.to_string().into_boxed_str()) }
impl Ctx {
    pub fn new(loc: &str, lang: &str) -> Ctx {
        let (loc, lang) = (leak(loc), leak(lang));
        Ctx { m: Model::new_empty("m", loc, "UTC", lang).unwrap(), loc, lang, n: 0 }
    }
    /// a fresh cell (default style) for every case; a fresh workbook every 20000 cases
    pub fn fresh(&mut self) {
        self.n += 1;
        if self.n % 20000 == 0 {
            self.m = Model::new_empty("m", self.loc, "UTC", self.lang).unwrap();
        } else {
            let ws = &mut self.m.workbook.worksheets[0];
            ws.sheet_data.clear(); ws.rows.clear(); ws.cols.clear();
        }
    }
    /// type `s` into a fresh A1 and describe the cell
    pub fn observe(&mut self, s: &str) -> Obs {
        self.fresh();
        let r = std::panic::catch_unwind(std::panic::AssertUnwindSafe(|| self.m.set_user_input(0, 1, 1, s.to_string())));
        match r {
            Err(_) => { self.m = Model::new_empty("m", self.loc, "UTC", self.lang).unwrap(); return Obs::Other("panic".into()); }
            Ok(Err(e)) => return Obs::Other(format!("reject:{}", e.len())),
            Ok(Ok(())) => {}
        }
        self.describe()
    }
    pub fn describe(&self) -> Obs {
        let cell = self.m.workbook.worksheets[0].cell(1, 1).cloned();
        let st = self.m.get_style_for_cell(0, 1, 1).unwrap();
        match cell {
            None | Some(Cell::EmptyCell { .. }) => Obs::Empty,
            Some(Cell::NumberCell { v, .. }) => Obs::Num(v, st.num_fmt.clone()),
            Some(Cell::BooleanCell { v, .. }) => Obs::Bool(v),
            Some(Cell::ErrorCell { ei, .. }) => Obs::Err(err_index(&ei)),
            Some(Cell::SharedString { si, .. }) => {
                let t = self.m.workbook.shared_strings.get(si as usize).cloned().unwrap_or_default();
                if st.quote_prefix { Obs::Quoted(t) } else { Obs::Text(t) }
            }
            Some(Cell::CellFormula { .. }) | Some(Cell::ArrayFormula { .. }) => Obs::Formula,
            Some(_) => Obs::Other("cellkind".into()),
        }
    }
}

#[derive(Debug, Clone, PartialEq)]
pub enum Obs { Empty, Num(f64, String), Bool(bool), Err(usize), Quoted(String), Text(String), Formula, Other(String) }
impl Obs {
    pub fn line(&self) -> String {
        match self {
            Obs::Empty => "empty".into(),
            Obs::Num(v, f) => format!("num {:x} {}", v.to_bits(), wire(f)),
            Obs::Bool(v) => format!("bool {}", b(*v)),
            Obs::Err(i) => format!("err {}", i),
            Obs::Quoted(t) => format!("quoted {}", wire(t)),
            Obs::Text(t) => format!("text {}", wire(t)),
            Obs::Formula => "formula".into(),
            Obs::Other(s) => format!("other {}", s),
        }
    }
}

pub fn alphabet(loc: &str) -> Vec<char> {
    let mut a: Vec<char> = "019.,+-eE%$€/ '".chars().collect();
    a.push(match loc { "fr" => '\u{202f}', "en-GB" => '£', _ => ':' });
    a
}


use ironcalc_base::number_format::to_excel_precision_str;

fn pool() -> Vec<String> {
    let mut v: Vec<String> = [
        "0", "1", "-1", "+1", "007", "1.5", "1,5", ".5", "5.", "-.5", "1e3", "1E3", "1e-3", "1.5e+10", "-1e-7", "1e15", "1e21", "123456789012345678",
        "0.1", "0.30000000000000004", "1.0000000000000002", "0.1234567890123456789", "3.141592653589793", "1e-320", "1.7976931348623157e308", "1e999",
        "-0", "0.0", "1,234", "1.234", "1,234.5", "1.234,5", "1,234,567", "1.234.567", "12,34", "1,,234", "5,", "1 234", "1\u{202f}234", "1\u{202f}234,5",
        "5%", "5 %", "-5%", "5.5%", "5,5%", "1e2%", "%5", "50%%",
        "$5", "$ 5", "-$5", "$-5", "5$", "$5.5", "$5,5", "$1,234.50", "\u{20ac}5", "5\u{20ac}", "5 \u{20ac}", "-\u{20ac}5", "\u{a3}5", "5\u{a3}", "-$1e3", "-$-5", "$1e3",
        "1/2/2020", "01/02/2020", "1/2/20", "13/1/2020", "1/13/2020", "31/12/1999", "12/31/1999", "2020-01-02", "2020-1-2", "2020/01/02", "1-2-2020", "1.2.2020", "01.02.20",
        "1-Jan-2020", "Jan-1-2020", "1/January/2020", "January/1/2020", "1-ene-2020", "1/enero/2020", "1-janv.-2020", "1/janvier/2020", "1.Jan.2020", "1.Januar.2020", "1-gen-2020", "1/gennaio/2020",
        "June/1/00", "29/2/2021", "2/29/2021", "29/2/2020", "2/29/2020", "1/1/1900", "31/12/9999", "12/31/9999", "+1/+2/+3", "1/1/-5",
        "true", "TRUE", "True", "false", "FALSE", "tRuE", "VERDADERO", "FALSO", "verdadero", "VRAI", "FAUX", "vrai", "WAHR", "FALSCH", "wahr", "VERO", "vero", " TRUE", "TRUE ",
        "#REF!", "#NAME?", "#VALUE!", "#DIV/0!", "#N/A", "#NUM!", "#N/IMPL!", "#SPILL!", "#CALC!", "#CIRC!", "#ERROR!", "#NULL!", "#ref!", "#div/0!",
        "#\u{a1}REF!", "#\u{bf}NOMBRE?", "#\u{a1}VALOR!", "#\u{a1}DIV/0!", "#\u{a1}NUM!", "#NOM?", "#VALEUR!", "#NOMBRE!", "#BEZUG!", "#WERT!", "#NV", "#ZAHL!", "#\u{dc}BERLAUF!", "#\u{fc}berlauf!",
        "#RIF!", "#NOME?", "#VALORE!", "#N/D", "#ERRORE!", "#\u{17f}PILL!", "#D\u{131}V/0!", "#FOO!",
        "'123", "'=1+1", "'TRUE", "'", "''", "'#REF!", "'1/2/2020", "'5%", "'-$5", "' 12", "'hello",
        "hello", "Hello World", " ", "  ", " 12 ", "12 ", " 12", "a", "-", "+", "--5", "-inf", "inf", "nan", "NaN", "+nan", "-infinity", "infinity", "1e", "e5", "1..2", "1.2.3",
        "http://example.com", "https://example.com/a?b=1", "www.example.com", "user@example.com", "mailto:user@example.com",
        "=1+1", "=A1", "=SUM(A2:A3)", "=1/0", "=\"a\"", "=TRUE", "=1.5", "=1,5", "=1;2", "=-1", "=", "==", "=1+", "+A2", "-A2", "+1+1", "-(1)", "=IF(A2,1,2)", "=1e3", "=#REF!", "=A2%", "-E :e'", "-e99 :e9", "-(1):0", "=(1):0", "=E :e",
    ].iter().map(|s| s.to_string()).collect();
    v.push("\u{e9}t\u{e9}".to_string());
    v
}

struct Snap { obs: Obs, content: String, style: String, v15: String }
fn snap(cx: &Ctx) -> Snap {
    let obs = cx.describe();
    let content = cx.m.get_localized_cell_content(0, 1, 1).unwrap_or_else(|e| format!("<err {e}>"));
    let style = format!("{:?}", cx.m.get_style_for_cell(0, 1, 1).unwrap());
    let v15 = match &obs { Obs::Num(v, _) => to_excel_precision_str(*v), _ => String::new() };
    Snap { obs, content, style, v15 }
}
fn kind(o: &Obs) -> &'static str { match o { Obs::Empty => "empty", Obs::Num(..) => "number", Obs::Bool(_) => "boolean", Obs::Err(_) => "error", Obs::Quoted(_) => "quoted-text", Obs::Text(_) => "text", Obs::Formula => "formula", Obs::Other(_) => "other" } }

fn main() {
    let a = Args::parse();
    let mut rng = Rng::new(a.seed);
    let mut cs = Cases::new(&a.out, "c18");
    let mut orc = Oracle::default();
    let mut samples: Vec<String> = vec![];
    let mut nontrivial = std::collections::HashSet::<String>::new();
    let mut per_kind = std::collections::BTreeMap::<String, u64>::new();
    let pool = pool();
    let maxlen = if a.thorough { 4 } else { 3 };
    let mut n_cfg = 0;
    for lang in LANGS {
        for loc in LOCALES {
            n_cfg += 1;
            let alpha = alphabet(loc);
            let mut inputs: Vec<String> = pool.clone();
            let k = alpha.len() as u64;
            for len in 1..=maxlen {
                for mut idx in 0..k.pow(len as u32) {
                    let mut s = String::new();
                    for _ in 0..len { s.push(alpha[(idx % k) as usize]); idx /= k; }
                    inputs.push(s);
                }
            }
            // random longer strings over the alphabet and the pool's fragments
            for _ in 0..(if a.thorough { 20000 } else { 3000 }) {
                let mut s = String::new();
                for _ in 0..rng.range(4, 10) { if rng.chance(1, 6) { let p = rng.pick(&pool[..]); s.push_str(p); } else { s.push(*rng.pick(&alpha[..])); } }
                if s.chars().count() <= 24 { inputs.push(s); }
            }
            let mut cx = Ctx::new(loc, lang);
            for s in &inputs {
                cx.fresh();
                let r = std::panic::catch_unwind(std::panic::AssertUnwindSafe(|| cx.m.set_user_input(0, 1, 1, s.to_string())));
                if !matches!(r, Ok(Ok(()))) { cx = Ctx::new(loc, lang); continue; }
                let s1 = snap(&cx);
                let r2 = std::panic::catch_unwind(std::panic::AssertUnwindSafe(|| cx.m.set_user_input(0, 1, 1, s1.content.clone())));
                if !matches!(r2, Ok(Ok(()))) {
                    orc.fail("c18-reentry-rejected", json!({"lang": lang, "locale": loc, "text": s, "content": s1.content}), "set_user_input failed on the displayed content".into());
                    cx = Ctx::new(loc, lang); continue;
                }
                let s2 = snap(&cx);
                cs.case(&format!("rt {} {} {} {}", loc, lang, wire(s), wire(&s1.content)),
                        &format!("{} ; {} ; {}", s1.obs.line(), wire(&s1.content), s2.obs.line()));
                orc.checked += 1;
                *per_kind.entry(kind(&s1.obs).to_string()).or_insert(0) += 1;
                nontrivial.insert(format!("{}|{}|{}", lang, loc, s1.content));
                if samples.len() < 6 && s.len() > 3 && lang == "es" { samples.push(format!("{lang}/{loc}: {:?} -> {} -> content {:?} -> {}", s, s1.obs.line(), s1.content, s2.obs.line())); }
                // the property: content text, value type, style, value to 15 digits unchanged
                let same_val = match (&s1.obs, &s2.obs) {
                    (Obs::Num(x, _), Obs::Num(y, _)) => x.to_bits() == y.to_bits() || s1.v15 == s2.v15,
                    (p, q) => p == q,
                };
                if s1.content == s2.content && kind(&s1.obs) == kind(&s2.obs) && s1.style == s2.style && same_val { continue; }
                let inp = json!({"lang": lang, "locale": loc, "text": s, "content": s1.content});
                let detail = format!("{} / style {} -> content {:?} -> {} / content {:?}{}", s1.obs.line(), if s1.style == s2.style { "same" } else { "CHANGED" }, s1.content, s2.obs.line(), s2.content, if same_val { "" } else { " VALUE CHANGED" });
                let class = match (&s1.obs, &s2.obs) {
                    (Obs::Bool(bv), Obs::Text(t)) if lang != "en" && s1.style == s2.style && {
                        let g = ironcalc_base::language::get_language(lang).unwrap();
                        *t == if *bv { g.booleans.r#true.clone() } else { g.booleans.r#false.clone() } } => "c18-localized-boolean-becomes-text",
                    (Obs::Formula, Obs::Formula) if s1.content.contains(':') => "c18-range-formula-display-not-stable",
                    (Obs::Formula, Obs::Formula) => "c18-formula-display-not-stable",
                    (Obs::Formula, _) => "c18-formula-display-not-a-formula",
                    (Obs::Num(..), Obs::Text(t)) if s1.content == "inf" || s1.content == "-inf" || s1.content == "NaN" => { let _ = t; "c18-nonfinite-display" }
                    (Obs::Num(_, f1), Obs::Num(_, f2)) if same_val && s1.content == s2.content && f1 != "0.00E+00" && f2 == "0.00E+00" && s1.content.contains('e') => "c18-exponent-display-changes-format",
                    (Obs::Num(_, f), _) if f.contains('y') => "c18-date-display-not-reentered",
                    (Obs::Num(..), _) => "c18-number-roundtrip",
                    (Obs::Text(_), _) | (Obs::Quoted(_), _) => "c18-string-roundtrip",
                    (Obs::Err(_), _) => "c18-error-roundtrip",
                    (Obs::Bool(_), _) => "c18-boolean-roundtrip",
                    _ => "c18-roundtrip",
                };
                orc.fail(class, inp, detail);
            }
            // the emptied quote-prefixed cell
            cx.fresh();
            let _ = cx.m.set_user_input(0, 1, 1, "'abc".to_string());
            let _ = cx.m.set_user_input(0, 1, 1, "".to_string());
            let s1 = snap(&cx);
            let _ = cx.m.set_user_input(0, 1, 1, s1.content.clone());
            let s2 = snap(&cx);
            orc.checked += 1;
            if kind(&s1.obs) != kind(&s2.obs) || s1.content != s2.content {
                orc.fail("c18-emptied-quote-prefix-cell", json!({"lang": lang, "locale": loc, "steps": ["'abc", ""], "content": s1.content}),
                    format!("{} shows {:?}; re-entered: {}", s1.obs.line(), s1.content, s2.obs.line()));
            }
        }
    }

    // ---------- previous cell state x typed input (two steps on one cell) ----------
    // previous state = an initial style (on the cell, its row or its column) + typed steps
    #[derive(Clone)]
    struct Prev { name: &'static str, place: u8 /*0 none 1 cell 2 row 3 column*/, fmt: &'static str, qp: bool, bold: bool, steps: Vec<String> }
    let mut n_two = 0u64;
    let mut two_kinds = std::collections::BTreeMap::<String, u64>::new();
    for lang in LANGS {
        for loc in LOCALES {
            let l = ironcalc_base::locale::get_locale(loc).unwrap();
            let g = ironcalc_base::language::get_language(lang).unwrap();
            let d = l.numbers.symbols.decimal.clone();
            let gs = l.numbers.symbols.group.clone();
            let p = |place: u8, fmt: &'static str, qp: bool, bold: bool, steps: &[&str], name: &'static str| Prev { name, place, fmt, qp, bold, steps: steps.iter().map(|x| x.to_string()).collect() };
            let grouped = format!("1{gs}234");
            let cur = format!("$1{gs}250{d}5");
            let prevs: Vec<Prev> = vec![
                p(0, "general", false, false, &[], "absent"),
                p(0, "general", false, false, &["x", ""], "empty-default"),
                p(0, "general", false, false, &["'007"], "quoted-text"),
                p(0, "general", false, false, &["'abc", ""], "quoted-then-emptied"),
                p(0, "general", false, false, &["hello"], "plain-text"),
                p(0, "general", false, false, &["42"], "number-plain"),
                p(0, "general", false, false, &["50%"], "number-percent"),
                p(0, "general", false, false, &[cur.as_str()], "number-currency"),
                p(0, "general", false, false, &["5\u{20ac}"], "number-currency-suffix"),
                p(0, "general", false, false, &["1/2/2020"], "number-date-yyyy"),
                p(0, "general", false, false, &["1/2/20"], "number-date-yy"),
                p(0, "general", false, false, &["2020-01-02"], "number-date-iso"),
                p(0, "general", false, false, &[grouped.as_str()], "number-grouped"),
                p(0, "general", false, false, &["1e3"], "number-scientific"),
                p(0, "general", false, false, &["true"], "boolean"),
                p(0, "general", false, false, &["#DIV/0!"], "error"),
                p(0, "general", false, false, &["=1+1"], "formula"),
                p(0, "general", false, false, &["'007", "50%"], "quoted-then-percent"),
                p(1, "general", false, true, &[], "cell-style-bold"),
                p(1, "0.00", false, true, &[], "cell-style-bold-0.00"),
                p(1, "general", true, false, &[], "cell-style-quote-prefix"),
                p(1, "dd/mm/yyyy", false, false, &[], "cell-style-date"),
                p(1, "general", false, true, &["'007"], "bold-then-quoted-text"),
                p(2, "0.000", false, true, &[], "row-style"),
                p(2, "general", true, false, &[], "row-style-quote-prefix"),
                p(3, "#,##0.00", false, true, &[], "column-style"),
            ];
            let inputs: Vec<String> = vec![
                "".into(), "0".into(), "7".into(), format!("-2{d}5"), "50%".into(), format!("12{d}5%"), cur.clone(), "5\u{20ac}".into(), "-$3".into(),
                grouped.clone(), format!("1{gs}234{d}5"), "1e3".into(), "3/4/2021".into(), "3/4/21".into(), "2021-03-04".into(), "3-4-2021".into(),
                "true".into(), "FALSE".into(), g.booleans.r#true.clone(), "#DIV/0!".into(), g.errors.value.clone(), "abc".into(), "'007".into(), "'".into(), "'=1".into(),
                "=1+1".into(), "=A2".into(), "+A2".into(), format!("0{d}30000000000000004"), "123456789012345678".into(), "1e999".into(), " 12 ".into(), "http://example.com".into(),
            ];
            let mut cx = Ctx::new(loc, lang);
            for pv in &prevs {
                for inp in &inputs {
                    cx.fresh();
                    // initial style
                    if pv.place != 0 {
                        let mut st = cx.m.get_style_for_cell(0, 1, 1).unwrap();
                        st.num_fmt = pv.fmt.to_string(); st.quote_prefix = pv.qp; st.font.b = pv.bold;
                        let r = match pv.place { 1 => cx.m.set_cell_style(0, 1, 1, &st), 2 => cx.m.set_row_style(0, 1, &st), _ => cx.m.set_column_style(0, 1, &st) };
                        if r.is_err() { continue; }
                    }
                    let mut ok = true;
                    for stp in pv.steps.iter().chain(std::iter::once(inp)) {
                        let r = std::panic::catch_unwind(std::panic::AssertUnwindSafe(|| cx.m.set_user_input(0, 1, 1, stp.to_string())));
                        if !matches!(r, Ok(Ok(()))) { ok = false; break; }
                    }
                    if !ok { cx = Ctx::new(loc, lang); continue; }
                    let s1 = snap(&cx);
                    let q1 = cx.m.get_style_for_cell(0, 1, 1).unwrap().quote_prefix;
                    let r2 = std::panic::catch_unwind(std::panic::AssertUnwindSafe(|| cx.m.set_user_input(0, 1, 1, s1.content.clone())));
                    if !matches!(r2, Ok(Ok(()))) { cx = Ctx::new(loc, lang); continue; }
                    let s2 = snap(&cx);
                    let q2 = cx.m.get_style_for_cell(0, 1, 1).unwrap().quote_prefix;
                    let steps_w = if pv.steps.is_empty() { "_".to_string() } else { pv.steps.iter().map(|x| wire(x)).collect::<Vec<_>>().join(",") };
                    cs.case(&format!("r2 {} {} {} {} {} {} {}", loc, lang, wire(pv.fmt), b(pv.qp), steps_w, wire(inp), wire(&s1.content)),
                            &format!("{} q{} ; {} ; {} q{}", s1.obs.line(), b(q1), wire(&s1.content), s2.obs.line(), b(q2)));
                    orc.checked += 1; n_two += 1;
                    *two_kinds.entry(format!("{}>{}", pv.name, kind(&s1.obs))).or_insert(0) += 1;
                    nontrivial.insert(format!("{}|{}|{}|{}", lang, loc, pv.name, s1.content));
                    let same_val = match (&s1.obs, &s2.obs) {
                        (Obs::Num(x, _), Obs::Num(y, _)) => x.to_bits() == y.to_bits() || s1.v15 == s2.v15,
                        (p_, q_) => p_ == q_,
                    };
                    if s1.content == s2.content && kind(&s1.obs) == kind(&s2.obs) && s1.style == s2.style && same_val { continue; }
                    let inj = json!({"lang": lang, "locale": loc, "previous": pv.name, "previous_steps": pv.steps, "previous_style": {"where": pv.place, "num_fmt": pv.fmt, "quote_prefix": pv.qp, "bold": pv.bold}, "text": inp, "content": s1.content});
                    let detail = format!("{} q{} / style {} -> content {:?} -> {} q{} / content {:?}{}", s1.obs.line(), b(q1), if s1.style == s2.style { "same" } else { "CHANGED" }, s1.content, s2.obs.line(), b(q2), s2.content, if same_val { "" } else { " VALUE CHANGED" });
                    let class = match (&s1.obs, &s2.obs) {
                        (Obs::Empty, _) if q1 && s1.content == "'" => "c18-emptied-quote-prefix-cell",
                        (Obs::Bool(bv), Obs::Text(t)) if lang != "en" && s1.style == s2.style && *t == (if *bv { g.booleans.r#true.clone() } else { g.booleans.r#false.clone() }) => "c18-localized-boolean-becomes-text",
                        (Obs::Formula, Obs::Formula) if s1.content.contains(':') => "c18-range-formula-display-not-stable",
                        (Obs::Formula, _) => "c18-formula-roundtrip",
                        (Obs::Num(..), Obs::Text(_)) if !q1 && (s1.content == "inf" || s1.content == "-inf" || s1.content == "NaN") => "c18-nonfinite-display",
                        (Obs::Num(_, f1), Obs::Num(_, f2)) if same_val && s1.content == s2.content && f1 != "0.00E+00" && f2 == "0.00E+00" && s1.content.contains('e') => "c18-exponent-display-changes-format",
                        (Obs::Num(..), _) if q1 => "c18-number-cell-keeps-quote-prefix",
                        (Obs::Num(_, f1), Obs::Num(_, f2)) if f1 == f2 && f1.contains("yy") && !f1.contains("yyyy") && !same_val => "c18-two-digit-year-display-outside-window",
                        (Obs::Num(_, f1), Obs::Num(_, f2)) if f1 == f2 && f1.contains('y') && !f1.starts_with('y')
                            && f1.starts_with('d') != l.dates.date_formats.short.starts_with('d') => "c18-date-format-order-differs-from-locale",
                        (Obs::Num(_, f1), _) if f1.contains('y') || f1.contains('d') => "c18-date-formatted-number-display-not-reentered",
                        (Obs::Num(..), _) => "c18-number-roundtrip",
                        (Obs::Text(_), _) | (Obs::Quoted(_), _) => "c18-string-roundtrip",
                        (Obs::Err(_), _) => "c18-error-roundtrip",
                        (Obs::Bool(_), _) => "c18-boolean-roundtrip",
                        _ => "c18-roundtrip",
                    };
                    orc.fail(class, inj, detail);
                }
            }
        }
    }
    let checked = orc.checked;
    cs.finish(json!({
        "distribution": {"two_step_cases": n_two, "two_step_previous_x_first_kind": two_kinds, "configurations": n_cfg, "pool": pool.len(), "exhaustive_maxlen": maxlen, "first_cell_kinds": per_kind},
        "samples": samples, "oracle_checked": checked, "oracle_failures": orc.failures,
        "oracle_failures_per_class": orc.per_class, "distinct_nontrivial": nontrivial.len(),
    }));
}
