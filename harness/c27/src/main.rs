//! C27 — workbook structure stays well-formed.
//! After EVERY step of seeded histories over the public UserModel API (valid, boundary and invalid
//! calls, undo, redo) and after loading / evaluating every .xlsx of /repo/xlsx/tests, the structural
//! skeleton of `model.workbook` is dumped as one wire line; the extracted `wf_workbook_b` judges it
//! ("wf" / "notwf:<first failing clause>"); the observation on this side is a Rust
//! re-implementation of the same predicate (the correspondence compares two implementations of
//! the predicate on real states; the oracle is the predicate itself).
use ironcalc_base::types::*;
use ironcalc_base::Model;
use serde_json::json;
use std::collections::{BTreeMap, HashSet};
use std::panic::{catch_unwind, AssertUnwindSafe};
use vh_common::*;
use vh_hist::driver::fresh;
use vh_hist::*;

const LAST_ROW: i64 = 1_048_576;
const LAST_COLUMN: i64 = 16_384;
const NBUILTIN: i64 = 50;

fn sorted_cells(ws: &Worksheet) -> Vec<(i32, i32, &Cell)> {
    let mut v: Vec<(i32, i32, &Cell)> = vec![];
    for (r, row) in &ws.sheet_data { for (c, cell) in row { v.push((*r, *c, cell)); } }
    v.sort_by_key(|x| (x.0, x.1));
    v
}
fn cell_wire(r: i32, c: i32, cell: &Cell) -> String {
    let s = cell.get_style();
    match cell {
        Cell::EmptyCell { .. } => format!("{r} {c} {s} E"),
        Cell::SharedString { si, .. } => format!("{r} {c} {s} V {}", (*si).max(-2).min(i32::MAX) as i64 + if *si < 0 { -1_000_000 } else { 0 }),
        Cell::BooleanCell { .. } | Cell::NumberCell { .. } | Cell::ErrorCell { .. } => format!("{r} {c} {s} V -1"),
        Cell::CellFormula { f, .. } => format!("{r} {c} {s} F {f}"),
        Cell::ArrayFormula { f, r: (w, h), kind: ArrayKind::Dynamic, .. } => format!("{r} {c} {s} D {f} {w} {h}"),
        Cell::ArrayFormula { f, r: (w, h), kind: ArrayKind::Cse, .. } => format!("{r} {c} {s} C {f} {w} {h}"),
        Cell::SpillCell { a, .. } => format!("{r} {c} {s} S {} {}", a.0, a.1),
    }
}
fn wb_wire(wb: &Workbook) -> String {
    let st = &wb.styles;
    let mut o = format!("wb {} {} {} {} {}", wb.shared_strings.len(), st.fonts.len(), st.fills.len(), st.borders.len(), st.num_fmts.len());
    for nf in &st.num_fmts { o.push_str(&format!(" {}", nf.num_fmt_id)); }
    o.push_str(&format!(" {}", st.cell_xfs.len()));
    for x in &st.cell_xfs { o.push_str(&format!(" {} {} {} {}", x.font_id, x.fill_id, x.border_id, x.num_fmt_id)); }
    o.push_str(&format!(" {}", wb.defined_names.len()));
    for d in &wb.defined_names { o.push_str(&format!(" {}", d.sheet_id.map(|x| x as i64).unwrap_or(-1))); }
    o.push_str(&format!(" {}", wb.worksheets.len()));
    for ws in &wb.worksheets {
        o.push_str(&format!(" {} {} {} {}", wire(&ws.name), wire(&ws.name.to_uppercase()), ws.sheet_id, ws.shared_formulas.len()));
        o.push_str(&format!(" {}", ws.cols.len()));
        for c in &ws.cols { o.push_str(&format!(" {} {}", c.min, c.max)); }
        o.push_str(&format!(" {}", ws.rows.len()));
        for r in &ws.rows { o.push_str(&format!(" {}", r.r)); }
        let cells = sorted_cells(ws);
        o.push_str(&format!(" {}", cells.len()));
        for (r, c, cell) in cells { o.push(' '); o.push_str(&cell_wire(r, c, cell)); }
    }
    o
}

// ---- the predicate, re-implemented (same clause order as Sheet/Wf.v) --------------------------
fn idx_ok(i: i64, n: i64) -> bool { 0 <= i && i < n }
fn spills_ok(ws: &Worksheet) -> bool {
    let ext = |r: i32, c: i32| match ws.sheet_data.get(&r).and_then(|m| m.get(&c)) { Some(Cell::ArrayFormula { r: (w, h), .. }) => Some((*w as i64, *h as i64)), _ => None };
    let mut anchors: Vec<((i64, i64), i64, i64)> = vec![];
    for (r, c, cell) in sorted_cells(ws) {
        match cell {
            Cell::SpillCell { a, .. } => {
                let ok = match ext(a.0, a.1) {
                    Some((w, h)) => { let (ar, ac, pr, pc) = (a.0 as i64, a.1 as i64, r as i64, c as i64); ar <= pr && pr < ar + h && ac <= pc && pc < ac + w && (r, c) != *a }
                    None => false,
                };
                if !ok { return false; }
            }
            Cell::ArrayFormula { r: (w, h), .. } => anchors.push(((r as i64, c as i64), *w as i64, *h as i64)),
            _ => {}
        }
    }
    for (a, w, h) in &anchors {
        if !(*w >= 1 && *h >= 1 && a.0 >= 1 && a.0 <= LAST_ROW && a.1 >= 1 && a.1 <= LAST_COLUMN && a.0 + h - 1 <= LAST_ROW && a.1 + w - 1 <= LAST_COLUMN) { return false; }
    }
    for (i, (a1, w1, h1)) in anchors.iter().enumerate() {
        for (a2, w2, h2) in anchors.iter().skip(i + 1) {
            if !(a1.0 + h1 <= a2.0 || a2.0 + h2 <= a1.0 || a1.1 + w1 <= a2.1 || a2.1 + w2 <= a1.1) { return false; }
        }
    }
    true
}
fn verdict(wb: &Workbook) -> String {
    let invalid = ['\\', '/', '*', '?', ':', '[', ']'];
    let st = &wb.styles;
    let fail = |c: &str| format!("notwf:{c}");
    if !wb.worksheets.iter().all(|ws| { let n = ws.name.chars().count(); n != 0 && n <= 31 && !ws.name.contains(&invalid[..]) }) { return fail("names-valid"); }
    let mut seen = HashSet::new();
    if !wb.worksheets.iter().all(|ws| seen.insert(ws.name.to_uppercase())) { return fail("names-unique"); }
    let mut ids = HashSet::new();
    if !wb.worksheets.iter().all(|ws| ids.insert(ws.sheet_id)) { return fail("ids-unique"); }
    let (nstr, nxf) = (wb.shared_strings.len() as i64, st.cell_xfs.len() as i64);
    for ws in &wb.worksheets {
        let nf = ws.shared_formulas.len() as i64;
        for (r, c, cell) in sorted_cells(ws) {
            let grid = r as i64 >= 1 && r as i64 <= LAST_ROW && c as i64 >= 1 && c as i64 <= LAST_COLUMN;
            let k = match cell {
                Cell::SharedString { si, .. } => idx_ok(*si as i64, nstr),
                Cell::CellFormula { f, .. } | Cell::ArrayFormula { f, .. } => idx_ok(*f as i64, nf),
                _ => true,
            };
            if !(grid && idx_ok(cell.get_style() as i64, nxf) && k) { return fail("cells"); }
        }
    }
    let nfids: HashSet<i64> = st.num_fmts.iter().map(|n| n.num_fmt_id as i64).collect();
    if st.cell_xfs.is_empty() || !st.cell_xfs.iter().all(|x| idx_ok(x.font_id as i64, st.fonts.len() as i64) && idx_ok(x.fill_id as i64, st.fills.len() as i64)
        && idx_ok(x.border_id as i64, st.borders.len() as i64) && (idx_ok(x.num_fmt_id as i64, NBUILTIN) || nfids.contains(&(x.num_fmt_id as i64)))) { return fail("xfs"); }
    for ws in &wb.worksheets {
        let mut lo = 0i64;
        for c in &ws.cols { if !(lo < c.min as i64 && c.min <= c.max && c.max as i64 <= LAST_COLUMN) { return fail("cols"); } lo = c.max as i64; }
    }
    for ws in &wb.worksheets { let mut rs = HashSet::new(); if !ws.rows.iter().all(|r| rs.insert(r.r)) { return fail("rows"); } }
    if !wb.worksheets.iter().all(spills_ok) { return fail("spills"); }
    if !wb.defined_names.iter().all(|d| match d.sheet_id { None => true, Some(i) => wb.worksheets.iter().any(|ws| ws.sheet_id == i) }) { return fail("dnames"); }
    "wf".to_string()
}

/// why the cols clause fails on some sheet: inverted (min > max), off-grid, or unsorted/overlapping
fn cols_reason(wb: &Workbook) -> &'static str {
    for ws in &wb.worksheets {
        let mut lo = 0i64;
        for c in &ws.cols {
            if c.min > c.max { return "inverted"; }
            if (c.max as i64) > LAST_COLUMN || c.min < 1 { return "off-grid"; }
            if lo >= c.min as i64 { return "overlap"; }
            lo = c.max as i64;
        }
    }
    "none"
}

/// failure class of a not-well-formed state reached by `op`
fn classify(v: &str, op: &Op, ok: bool, had_cse: bool, wb: &Workbook) -> String {
    let fam = family(op);
    match (v, fam) {
        // F47: insert_columns pushes a descriptor past the last column (F45, the inverted
        // descriptor of delete_columns, is fixed: any other cols failure is a violation)
        ("notwf:cols", _) if cols_reason(wb) == "off-grid" && kind(op) == "insert_columns" => "notwf:cols(off-grid) after insert_columns".to_string(),
        ("notwf:cols", _) => format!("notwf:cols({}) after {}{}", cols_reason(wb), if ok { "" } else { "failed " }, kind(op)),
        // delete_sheet (also through undo of new_sheet / redo) keeps the defined names scoped to the sheet
        ("notwf:dnames", "sheets" | "undo" | "redo") => "notwf:dnames after sheets".to_string(),
        // property C31's findings F40-F42 (CSE arrays) and F43/F44 (undo)
        ("notwf:spills", _) if had_cse => "notwf:spills (history with CSE arrays)".to_string(),
        ("notwf:spills", "undo") => "notwf:spills after undo".to_string(),
        _ => format!("{v} after {}{}", if ok { "" } else { "failed " }, fam),
    }
}

/// runs a fixed operation sequence on an empty workbook; the verdict is taken after EVERY step
fn run_fixed(ops: &[Op], cs: &mut Cases, or: &mut Oracle, n: &mut u64) {
    let mut m = ironcalc_base::UserModel::new_empty("w", "en", "UTC", "en").unwrap();
    for (i, op) in ops.iter().enumerate() {
        let r = catch_unwind(AssertUnwindSafe(|| apply_op(&mut m, op)));
        let ok = match r { Err(_) => { or.fail(&format!("panic:{}", family(op)), json!({"history": ops_json(&ops[..=i])}), format!("{} panicked", kind(op))); return; } Ok(x) => x.is_ok() };
        let wb = &m.get_model().workbook;
        let v = verdict(wb);
        *n += 1;
        or.checked += 1;
        if i + 1 == ops.len() || v != "wf" { cs.case(&wb_wire(wb), &v); }
        if v != "wf" {
            or.fail(&classify(&v, op, ok, false, wb), json!({"history": ops_json(&ops[..=i])}), format!("{v} after {:?}", op));
            return;
        }
    }
}

fn family(op: &Op) -> &'static str {
    match kind(op) {
        "insert_rows" | "insert_columns" | "delete_rows" | "delete_columns" | "move_rows" | "move_columns" => "structural",
        "copy_paste" | "cut_paste" | "paste_csv" | "auto_fill_rows" | "auto_fill_columns" => "paste",
        "array_formula" => "array_formula",
        "input" | "clear_all" | "clear_contents" | "clear_formatting" => "edit",
        "new_sheet" | "duplicate_sheet" | "delete_sheet" | "rename_sheet" | "move_sheet" | "hide_sheet" | "unhide_sheet" => "sheets",
        "new_defined_name" | "delete_defined_name" | "update_defined_name" => "defined_names",
        "columns_width" | "columns_hidden" | "rows_height" | "rows_hidden" => "row_col_attributes",
        "undo" => "undo", "redo" => "redo",
        _ => "other",
    }
}

/// deterministic witnesses of the known findings: (class, what, operations on an empty workbook)
fn witnesses() -> Vec<(&'static str, &'static str, Vec<Op>)> {
    let inp = |row: i32, col: i32, t: &str| Op::Input { sheet: 0, row, col, text: t.to_string() };
    vec![
        ("notwf:spills (history with CSE arrays)", "CSE array entered over a dynamic anchor (C31 F40)", vec![inp(5, 4, "=SEQUENCE(3)"), Op::ArrayFormula { sheet: 0, row: 3, col: 3, w: 2, h: 3, text: "=SEQUENCE(2,2)".into() }]),
        ("notwf:spills after undo", "paste over dynamic anchors, undo (C31 F43)", vec![Op::Redo, inp(6, 1, "=C3:D4"), Op::MoveRows { sheet: 0, at: 6, n: 1, delta: 1 }, inp(2, 4, "={1;2;3}"),
            Op::ClearAll(AreaS { sheet: 0, row: 2, col: 2, w: 2, h: 2 }), inp(3, 3, "=SEQUENCE(A1)*2"),
            Op::CopyPaste { src: AreaS { sheet: 0, row: 7, col: 1, w: 3, h: 3 }, dst_sheet: 0, dst_row: 2, dst_col: 3, cut: false }, Op::Undo]),
        // F45 (fixed by 5240496): these two must be well-formed now; if not, the class is an ordinary violation
        ("notwf:cols(inverted) after delete_columns", "delete the columns a descriptor starts in", vec![Op::ColsWidth { sheet: 0, a: 6, b: 8, w: 50.0 }, Op::DeleteCols { sheet: 0, at: 6, n: 2 }]),
        ("notwf:cols(inverted) after delete_columns", "delete exactly the descriptor", vec![Op::ColsWidth { sheet: 0, a: 6, b: 7, w: 50.0 }, Op::DeleteCols { sheet: 0, at: 6, n: 2 }]),
        ("notwf:cols(inverted) after undo", "insert columns into a descriptor, undo", vec![Op::ColsWidth { sheet: 0, a: 6, b: 7, w: 50.0 }, Op::InsertCols { sheet: 0, at: 6, n: 2 }, Op::Undo]),
        ("notwf:cols(off-grid) after insert_columns", "insert a column while the last column has a descriptor", vec![Op::ColsWidth { sheet: 0, a: 16384, b: 16384, w: 50.0 }, Op::InsertCols { sheet: 0, at: 1, n: 1 }]),
        ("notwf:dnames after sheets", "delete a sheet a defined name is scoped to", vec![Op::NewSheet, Op::NewName { name: "Name1".into(), scope: Some(1), formula: "Sheet2!$A$1".into() }, Op::DeleteSheet(1)]),
    ]
}
fn scenario(ops: &[Op], show: bool) -> String {
    // a witness that starts with Redo runs from the seed workbook of the histories
    let mut m = if matches!(ops.first(), Some(Op::Redo)) { fresh() } else { ironcalc_base::UserModel::new_empty("w", "en", "UTC", "en").unwrap() };
    for op in ops {
        let r = apply_op(&mut m, op);
        if show { println!("  {:?} -> {:?}  cols {:?} names {:?}", op, r.is_ok(), m.get_model().workbook.worksheets[0].cols.iter().map(|c| (c.min, c.max)).collect::<Vec<_>>(), m.get_model().workbook.defined_names.iter().map(|d| d.sheet_id).collect::<Vec<_>>()); }
    }
    verdict(&m.get_model().workbook)
}

fn next_len(seqs: &[Vec<usize>]) -> i32 { seqs.first().map(|s| s.len() as i32).unwrap_or(0) }

fn main() {
    let a = Args::parse();
    if a.extra.first().map(|x| x == "probe").unwrap_or(false) {
        for (c, what, ops) in witnesses() { println!("{c} ({what})"); println!("  => {}", scenario(&ops, true)); }
        return;
    }
    let mut cs = Cases::new(&a.out, "c27");
    let mut or = Oracle::default();
    let mut samples: Vec<String> = vec![];
    let mut kinds: BTreeMap<String, u64> = BTreeMap::new();
    // the model of new_empty is what new_empty builds
    {
        let m = Model::new_empty("model", "en", "UTC", "en").unwrap();
        cs.case("init", &verdict(&m.workbook));
        cs.case(&wb_wire(&m.workbook), &verdict(&m.workbook));
        let w = wb_wire(&m.workbook);
        if w != "wb 0 1 2 1 0 1 0 0 0 0 0 1 83.104.101.101.116.49 83.72.69.69.84.49 1 0 0 0 0" {
            or.fail("init-differs", json!({"dump": w}), "Model::new_empty no longer builds the skeleton Wf.init describes".into());
        }
    }
    // ---- tie: the descriptor part of delete_columns / insert_columns on sheets without cells -------
    let mut surgery = 0u64;
    {
        // every well-formed layout over columns 1..=ncol (each column: free / starts a descriptor / continues one),
        // the same layouts moved to the end of the grid, every band
        let ncol: i32 = if a.thorough { 7 } else { 6 };
        let mut layouts: Vec<Vec<(i32, i32)>> = vec![];
        let total = 3u32.pow(ncol as u32);
        for code in 0..total {
            let (mut x, mut cur, mut ok, mut prev) = (code, vec![], true, 0u32);
            for col in 1..=ncol {
                let d = x % 3; x /= 3;
                match d {
                    0 => {}
                    1 => cur.push((col, col)),
                    _ => { if prev == 0 || cur.is_empty() { ok = false; break; } let l = cur.len(); cur[l - 1].1 = col; }
                }
                prev = d;
            }
            if ok { layouts.push(cur); }
        }
        let mk = |l: &Vec<(i32, i32)>, off: i32| -> Vec<Col> { l.iter().map(|(a, b)| Col { min: a + off, max: b + off, width: 50.0, custom_width: true, style: None, hidden: false }).collect() };
        let show = |cols: &Vec<Col>| -> String { let mut o = format!("{}", cols.len()); for c in cols { o.push_str(&format!(" {} {}", c.min, c.max)); } o };
        let mut base = Model::new_empty("t", "en", "UTC", "en").unwrap();
        for off in [0i32, 16384 - ncol] {
            for l in &layouts {
                let cols = mk(l, off);
                for start in (off + 1 - 1).max(0)..=(off + ncol + 1) {
                    for count in [1i32, 2, 3, 0, -1] {
                        if count <= 0 && start != off + 2 { continue; }
                        for which in ["dc", "ic"] {
                            base.workbook.worksheets[0].cols = cols.clone();
                            let r = if which == "dc" { base.delete_columns(0, start, count) } else { base.insert_columns(0, start, count) };
                            let obs = match r { Ok(()) => format!("ok {}", show(&base.workbook.worksheets[0].cols)), Err(_) => "err".to_string() };
                            // insert_columns(column < 1) is accepted by the code and by the model alike
                            cs.case(&format!("{which} {start} {count} {}", show(&cols)), &obs);
                            surgery += 1;
                        }
                    }
                }
            }
        }
    }
    // ---- exhaustive small scenarios: row / column descriptors under structural edits, sheet ids ------
    let mut fixed = 0u64;
    {
        // every set of row descriptors on rows 1..=4 x every structural row operation near them, then undo and redo
        let nr = if a.thorough { 5 } else { 4 };
        for mask in 0u32..(1 << nr) {
            let mut pre: Vec<Op> = vec![];
            for r in 0..nr { if mask & (1 << r) != 0 { pre.push(Op::RowsHeight { sheet: 0, a: r + 1, b: r + 1, h: 30.0 + r as f64 }); } }
            let mut pre_c: Vec<Op> = vec![];
            for c in 0..nr { if mask & (1 << c) != 0 { pre_c.push(Op::ColsWidth { sheet: 0, a: c + 1, b: c + 1, w: 50.0 + c as f64 }); } }
            for at in 1..=nr {
                let mut edits: Vec<(Op, Op)> = vec![];
                for delta in -3..=3 { if delta != 0 {
                    edits.push((Op::MoveRows { sheet: 0, at, n: 1, delta }, Op::MoveCols { sheet: 0, at, n: 1, delta }));
                } }
                for n in 1..=2 {
                    edits.push((Op::InsertRows { sheet: 0, at, n }, Op::InsertCols { sheet: 0, at, n }));
                    edits.push((Op::DeleteRows { sheet: 0, at, n }, Op::DeleteCols { sheet: 0, at, n }));
                }
                for (er, ec) in edits {
                    let mut ops = pre.clone(); ops.extend([er, Op::Undo, Op::Redo]);
                    run_fixed(&ops, &mut cs, &mut or, &mut fixed);
                    let mut ops = pre_c.clone(); ops.extend([ec, Op::Undo, Op::Redo]);
                    run_fixed(&ops, &mut cs, &mut or, &mut fixed);
                }
            }
        }
        // every sequence of sheet operations up to length 4 (thorough 5)
        let alphabet: Vec<Op> = vec![Op::NewSheet, Op::MoveSheet(1, 0), Op::MoveSheet(0, 1), Op::DeleteSheet(0), Op::DeleteSheet(1), Op::DuplicateSheet(0), Op::Undo, Op::RenameSheet(0, "sheet2".into())];
        let maxlen = if a.thorough { 5 } else { 4 };
        let mut seqs: Vec<Vec<usize>> = vec![vec![]];
        for _ in 0..maxlen {
            let mut next = vec![];
            for sq in &seqs { if sq.len() as i32 == next_len(&seqs) { for k in 0..alphabet.len() { let mut t = sq.clone(); t.push(k); next.push(t); } } }
            for t in &next { let ops: Vec<Op> = t.iter().map(|k| alphabet[*k].clone()).collect(); if t.len() == maxlen { run_fixed(&ops, &mut cs, &mut or, &mut fixed); } }
            seqs = next;
        }
    }
    for (class, what, ops) in witnesses() {
        or.checked += 1;
        let v = scenario(&ops, false);
        if v != "wf" { or.fail(class, json!({"witness": what, "history": ops_json(&ops)}), format!("{what}: {v}")); }
    }
    // ---- histories -------------------------------------------------------------------------
    let mut rng = Rng::new(a.seed ^ 0xC27);
    let (nh, maxl) = if a.thorough { (1200u64, 45i64) } else { (110u64, 30i64) };
    let (mut steps, mut failed_calls) = (0u64, 0u64);
    for hno in 0..nh {
        let mut m = fresh();
        let len = rng.range(8, maxl);
        let mut ops_done: Vec<Op> = vec![];
        let mut had_cse = false;
        for _ in 0..len {
            let op = gen_op(&mut rng, &ctx_of(&m), true);
            *kinds.entry(kind(&op).to_string()).or_insert(0) += 1;
            if matches!(op, Op::ArrayFormula { .. }) { had_cse = true; }
            ops_done.push(op.clone());
            let r = catch_unwind(AssertUnwindSafe(|| apply_op(&mut m, &op)));
            let ok = match r {
                Err(_) => { or.fail(&format!("panic:{}", family(&op)), json!({"history": ops_json(&ops_done)}), format!("{} panicked", kind(&op))); break; }
                Ok(Err(_)) => { failed_calls += 1; false }
                Ok(Ok(())) => true,
            };
            steps += 1;
            let wb = &m.get_model().workbook;
            let v = verdict(wb);
            let ncells: usize = wb.worksheets.iter().map(|ws| ws.sheet_data.values().map(|r| r.len()).sum::<usize>()).sum();
            if ncells <= 3000 { cs.case(&wb_wire(wb), &v); }
            or.checked += 1;
            if v != "wf" {
                let class = classify(&v, &op, ok, had_cse, wb);
                or.fail(&class, json!({"history": ops_json(&ops_done)}), format!("{v} after {:?}", op));
                break; // the broken structure would echo through the rest of the history
            }
        }
        if hno < 3 { samples.push(format!("{:?}", ops_done.iter().take(5).collect::<Vec<_>>())); }
    }
    // ---- the repository's own xlsx files -----------------------------------------------------
    let mut files: Vec<String> = vec![];
    fn walk(dir: &std::path::Path, out: &mut Vec<String>) {
        if let Ok(rd) = std::fs::read_dir(dir) {
            for e in rd.flatten() {
                let p = e.path();
                if p.is_dir() { walk(&p, out); } else if p.extension().map(|x| x == "xlsx").unwrap_or(false) { out.push(p.to_string_lossy().to_string()); }
            }
        }
    }
    walk(std::path::Path::new("/repo/xlsx/tests"), &mut files);
    files.sort();
    let (mut loaded, mut skipped) = (0u64, 0u64);
    let total_files = files.len();
    for (i, f) in files.iter().enumerate() {
        // quick: a third of the files, rotating with the seed; thorough: all
        if !a.thorough && (i as u64 + a.seed) % 3 != 0 { continue; }
        let short = f.trim_start_matches("/repo/xlsx/tests/").to_string();
        let r = catch_unwind(AssertUnwindSafe(|| ironcalc::import::load_from_xlsx(f, "en", "UTC", "en")));
        let mut m = match r { Ok(Ok(m)) => m, _ => { skipped += 1; continue; } };
        loaded += 1;
        for stage in ["load", "evaluate"] {
            if stage == "evaluate" && catch_unwind(AssertUnwindSafe(|| m.evaluate())).is_err() { break; }
            let v = verdict(&m.workbook);
            let ncells: usize = m.workbook.worksheets.iter().map(|ws| ws.sheet_data.values().map(|r| r.len()).sum::<usize>()).sum();
            if ncells <= 20000 { cs.case(&wb_wire(&m.workbook), &v); }
            or.checked += 1;
            if v != "wf" { or.fail(&format!("{v} after xlsx {stage}"), json!({"file": short}), format!("{v} after {stage} of {short}")); break; }
        }
    }
    cs.finish(json!({
        "oracle_failures": or.failures, "oracle_checked": or.checked, "oracle_failures_per_class": or.per_class,
        "distribution": {"histories": nh, "steps": steps, "failed_calls": failed_calls, "op_kinds": kinds, "xlsx_files": total_files, "xlsx_loaded": loaded, "xlsx_skipped": skipped, "descriptor_surgery_cases": surgery, "fixed_scenario_steps": fixed},
        "samples": samples, "distinct_nontrivial": steps + 2 * loaded,
    }));
}
