//! C24 (escaping codec part) — escape_xml / decode_xlsx_escapes are private to the xlsx crate;
//! they are observed through the public writer and reader:
//!   esc  s : the text the writer puts between <t> and </t> of xl/sharedStrings.xml for a cell
//!            holding s (save_xlsx_to_writer, part read back with the zip crate)
//!   dec  t : the shared string the reader returns for a crafted sharedStrings.xml whose <t> holds t
//!            (XML-quoted by this harness), i.e. decode_xlsx_escapes(t)
//!   xun  t : roxmltree (the importer's XML parser) on <t>…</t>
//!   rt   s : save_xlsx_to_writer then load_from_xlsx_bytes, the string read back
//! and compared with the Gallina models escape / decode / xml_unescape / roundtrip.
//! Oracle: rt s = s.
use ironcalc::export::save_xlsx_to_writer;
use ironcalc::import::load_from_xlsx_bytes;
use ironcalc_base::types::Cell;
use ironcalc_base::Model;
use serde_json::json;
use std::collections::{BTreeMap, BTreeSet};
use std::io::{Cursor, Read, Write};
use vh_common::*;
mod wb;
mod books;
mod cover;

const ROWS: usize = 1_000_000;
fn pos(i: usize) -> (i32, i32) { ((i % ROWS) as i32 + 1, (i / ROWS) as i32 + 1) }

fn build(strings: &[String]) -> Vec<u8> {
    let mut m = Model::new_empty("c24", "en", "UTC", "en").unwrap();
    for (i, s) in strings.iter().enumerate() {
        let (r, c) = pos(i);
        m.update_cell_with_text(0, r, c, s).unwrap();
    }
    save_xlsx_to_writer(&m, Cursor::new(Vec::new())).unwrap().into_inner()
}

fn part(bytes: &[u8], name: &str) -> String {
    let mut z = zip::ZipArchive::new(Cursor::new(bytes)).unwrap();
    let mut f = z.by_name(name).unwrap();
    let mut s = String::new();
    f.read_to_string(&mut s).unwrap();
    s
}

/// the raw contents of the <t> elements, in file order
fn raw_items(xml: &str) -> Vec<String> {
    let mut v = vec![];
    let mut rest = xml;
    while let Some(a) = rest.find("<si><t>") {
        let after = &rest[a + 7..];
        let b = after.find("</t></si>").unwrap();
        v.push(after[..b].to_string());
        rest = &after[b + 9..];
    }
    v
}

fn read_back(bytes: &[u8], n: usize) -> Result<Vec<String>, String> {
    // a panic of the importer is an observation (reported with the input), not the end of the run
    let wb = std::panic::catch_unwind(|| load_from_xlsx_bytes(bytes, "c24", "en", "UTC"))
        .map_err(|_| "the importer panicked".to_string())?
        .map_err(|e| format!("{e:?}"))?;
    let ws = &wb.worksheets[0];
    let mut out = Vec::with_capacity(n);
    for i in 0..n {
        let (r, c) = pos(i);
        match ws.cell(r, c) {
            Some(Cell::SharedString { si, .. }) => out.push(wb.shared_strings[*si as usize].clone()),
            other => return Err(format!("cell {i} is {:?}", other)),
        }
    }
    Ok(out)
}

/// the same archive with xl/sharedStrings.xml replaced
fn replace_part(bytes: &[u8], name: &str, content: &str) -> Vec<u8> {
    let mut zin = zip::ZipArchive::new(Cursor::new(bytes)).unwrap();
    let mut zout = zip::ZipWriter::new(Cursor::new(Vec::new()));
    for i in 0..zin.len() {
        let f = zin.by_index_raw(i).unwrap();
        if f.name() == name { continue; }
        zout.raw_copy_file(f).unwrap();
    }
    zout.start_file(name, zip::write::FileOptions::default()).unwrap();
    zout.write_all(content.as_bytes()).unwrap();
    zout.finish().unwrap().into_inner()
}

fn xml_quote(t: &str) -> String {
    let mut o = String::new();
    for c in t.chars() {
        match c { '&' => o.push_str("&amp;"), '<' => o.push_str("&lt;"), '>' => o.push_str("&gt;"), '\r' => o.push_str("&#xD;"), _ => o.push(c) }
    }
    o
}

fn xml_char_ok(c: char) -> bool {
    let n = c as u32;
    n == 9 || n == 10 || n == 13 || (0x20..=0xD7FF).contains(&n) || (0xE000..=0xFFFD).contains(&n) || n >= 0x10000
}
fn is_ctrl(c: char) -> bool { let n = c as u32; n <= 8 || n == 11 || n == 12 || (14..=31).contains(&n) }

/// the class of the known finding: a literal _xHHHH (not a surrogate value) followed by a control character
fn collides(s: &str) -> bool {
    let v: Vec<char> = s.chars().collect();
    for i in 0..v.len() {
        if i + 6 < v.len() && v[i] == '_' && v[i + 1] == 'x' && v[i + 2..i + 6].iter().all(|c| c.is_ascii_hexdigit()) && is_ctrl(v[i + 6]) {
            let code = u32::from_str_radix(&v[i + 2..i + 6].iter().collect::<String>(), 16).unwrap();
            if char::from_u32(code).is_some() { return true; }
        }
    }
    false
}

fn all_strings(alpha: &[char], maxlen: usize, out: &mut Vec<String>) {
    let mut cur: Vec<String> = vec![String::new()];
    out.push(String::new());
    for _ in 0..maxlen {
        let mut next = Vec::with_capacity(cur.len() * alpha.len());
        for s in &cur { for c in alpha { let mut t = s.clone(); t.push(*c); next.push(t); } }
        out.extend(next.iter().cloned());
        cur = next;
    }
}

struct CodecStats { nontrivial: u64, in_class: u64, in_class_failing: u64, samples: Vec<String> }

fn codec_part(a: &Args, cs: &mut Cases, or: &mut Oracle, dist_out: &mut BTreeMap<String, u64>) -> CodecStats {
    let mut rng = Rng::new(a.seed);
    let mut dist: BTreeMap<String, u64> = BTreeMap::new();

    // ------------------------------------------------------------ generators (writer side)
    let mut set: BTreeSet<String> = BTreeSet::new();
    let mut add = |v: Vec<String>, what: &str, dist: &mut BTreeMap<String, u64>, set: &mut BTreeSet<String>| {
        let mut n = 0; for s in v { if set.insert(s) { n += 1; } } *dist.entry(what.to_string()).or_insert(0) += n;
    };
    let a9 = ['_', 'x', '0', '4', '1', 'F', 'A', '\u{1}', '<'];
    let mut v = vec![]; all_strings(&a9, if a.thorough { 6 } else { 5 }, &mut v);
    add(v, "all strings over _ x 0 4 1 F A U+0001 < up to the length bound", &mut dist, &mut set);
    let a17 = ['_', 'x', '0', '4', '1', 'F', 'A', '\u{1}', '<', '&', '"', '\n', '\r', '\t', 'é', '😀', '>'];
    let mut v = vec![]; all_strings(&a17, if a.thorough { 4 } else { 3 }, &mut v);
    add(v, "all short strings over the 17-symbol alphabet (XML specials, LF CR TAB, é, astral)", &mut dist, &mut set);
    // the look-alike window: a b h1 h2 h3 h4 u [v], optionally after a prefix
    let hs = ['0', '4', '1', 'F', '_', '\u{1}'];
    let prefixes: Vec<&str> = if a.thorough { vec!["", "_", "_x0041", "é", "\u{1}"] } else { vec![""] };
    let mut v = vec![];
    for p in &prefixes { for c0 in ['_', 'A'] { for c1 in ['x', '_'] { for h1 in hs { for h2 in hs { for h3 in hs { for h4 in hs {
        for u in ['_', '\u{1}', 'A', '<'] { for w in ["", "_", "x", "\u{1}"] {
            v.push(format!("{p}{c0}{c1}{h1}{h2}{h3}{h4}{u}{w}"));
        } } } } } } } } }
    add(v, "window sweep: prefix (_|A)(x|_) 4 of {0 4 1 F _ U+0001} (_|U+0001|A|<) (|_|x|U+0001)", &mut dist, &mut set);
    // multi-byte characters inside the window the byte-indexed code looks at
    let ws = ['0', 'F', 'é', '€', '😀', '_'];
    let mut v = vec![];
    for h1 in ws { for h2 in ws { for h3 in ws { for h4 in ws { for u in ['_', '\u{1}', 'é'] { for w in ["", "_", "0_", "00_"] {
        v.push(format!("_x{h1}{h2}{h3}{h4}{u}{w}"));
    } } } } } }
    add(v, "window sweep with 2-, 3- and 4-byte characters inside _x????", &mut dist, &mut set);
    // random longer strings
    let pool: Vec<char> = "__xx0014FAadDf85\u{1}\u{2}\u{b}\u{1f}\u{0}<>&\"'\n\r\t é€😀\u{7f}\u{80}\u{d7ff}\u{e000}\u{fffd}".chars().collect();
    let mut v = vec![];
    for _ in 0..(if a.thorough { 300_000 } else { 30_000 }) {
        let n = rng.range(6, 40) as usize;
        let mut s = String::new();
        while s.chars().count() < n {
            match rng.below(10) {
                0 => { s.push_str("_x"); for _ in 0..4 { s.push(*rng.pick(&['0', '0', '1', '4', '5', 'F', 'D', '8', 'a', 'f'])); } if rng.chance(1, 2) { s.push(*rng.pick(&['_', '\u{1}', '\u{1f}', 'A'])); } }
                1 => s.push(char::from_u32(rng.below(0x20) as u32).unwrap()),
                2 => { let c = rng.below(0x11_0000) as u32; if let Some(ch) = char::from_u32(c) { if xml_char_ok(ch) || is_ctrl(ch) { s.push(ch); } } }
                _ => s.push(*rng.pick(&pool)),
            }
        }
        v.push(s);
    }
    add(v, "random strings of 6-40 characters (look-alikes, controls, XML specials, any plane)", &mut dist, &mut set);
    let corpus = ["_x0041\u{1}", "_xD800\u{1}", "_xd800\u{1}", "_x005F\u{1}", "_x005F_", "_x005f_", "_x0041__", "__x0041_", "_x0041_x0041_", "_x_x0041_", "_x0041\u{1}_x0041\u{1}",
        "_x000A_", "_xFFFF_", "_xffff_", "a\u{0}b", "\u{1f}", "\u{7f}", "\t", " lead", "trail ", "\n", "\r\n", "&amp;", "&#x41;", "]]>", "<![CDATA[x]]>"];
    add(corpus.iter().map(|s| s.to_string()).collect(), "corpus", &mut dist, &mut set);
    let strings: Vec<String> = set.into_iter().collect();

    // ------------------------------------------------------------ writer and writer+reader
    let bytes = build(&strings);
    let raw = raw_items(&part(&bytes, "xl/sharedStrings.xml"));
    let mut nontrivial = 0u64;
    let mut in_class = 0u64; let mut in_class_failing = 0u64;
    if raw.len() != strings.len() {
        or.fail("harness-shared-strings-count", json!({"strings": strings.len(), "items": raw.len()}), "the writer did not emit one <si> per distinct string".into());
    } else {
        let back = read_back(&bytes, strings.len());
        for (i, s) in strings.iter().enumerate() {
            cs.case(&format!("esc {}", wire(s)), &wire(&raw[i]));
            if raw[i] != *s { nontrivial += 1; }
            // the importer's XML parser on what the writer wrote
            let xobs = match roxmltree::Document::parse(&format!("<t>{}</t>", raw[i])) {
                Ok(d) => format!("ok {}", wire(d.root_element().text().unwrap_or(""))),
                Err(_) => "err".to_string(),
            };
            cs.case(&format!("xun {}", wire(&raw[i])), &xobs);
            let got = match &back { Ok(v) => format!("ok {}", wire(&v[i])), Err(_) => "err".to_string() };
            cs.case(&format!("rt {}", wire(s)), &got);
            or.checked += 1;
            let cl = collides(s);
            if cl { in_class += 1; }
            if got != format!("ok {}", wire(s)) {
                if cl { in_class_failing += 1; }
                let class = if cl { "escape-lookalike-then-control" } else { "escape-roundtrip" };
                or.fail(class, json!({"string": s, "codepoints": wire(s)}), format!("written as {:?}, read back as {}", raw[i], match &back { Ok(v) => format!("{:?}", v[i]), Err(e) => e.clone() }));
            }
        }
        if in_class != in_class_failing {
            or.fail("known-class-not-tight", json!({"in_class": in_class, "failing": in_class_failing}), "some string of the class _xHHHH+control round-trips".into());
        }
    }
    // characters the writer emits raw although XML forbids them: each in a workbook of its own
    for s in ["\u{fffe}", "a\u{ffff}b"] {
        let b1 = build(&[s.to_string()]);
        let got = match read_back(&b1, 1) { Ok(v) => format!("ok {}", wire(&v[0])), Err(_) => "err".to_string() };
        cs.case(&format!("rt {}", wire(s)), &got);
        or.checked += 1;
        if got != format!("ok {}", wire(s)) {
            or.fail("noncharacter-written-raw", json!({"string": s, "codepoints": wire(s)}), format!("U+FFFE/U+FFFF is written unescaped; the reader answers {got}"));
        }
    }
    *dist.entry("noncharacters (own workbook each)".into()).or_insert(0) += 2;

    // ------------------------------------------------------------ reader side: decode on crafted parts
    let mut dset: BTreeSet<String> = BTreeSet::new();
    let hd = ['0', '5', 'F', 'D', '8', '_'];
    for c0 in ['_', 'A'] { for c1 in ['x', '_', 'X'] { for h1 in hd { for h2 in hd { for h3 in hd { for h4 in hd { for u in ['_', 'A', 'x'] { for w in ["", "_", "x", "0", "x0041_"] {
        dset.insert(format!("{c0}{c1}{h1}{h2}{h3}{h4}{u}{w}"));
    } } } } } } } }
    for h1 in ws { for h2 in ws { for h3 in ws { for h4 in ws { for u in ['_', 'é'] { for w in ["", "_", "0_", "00_", "x0041_"] {
        dset.insert(format!("_x{h1}{h2}{h3}{h4}{u}{w}"));
    } } } } } }
    let mut v = vec![]; all_strings(&['_', 'x', '0', '5', 'F', 'a', 'é', '&', '<'], if a.thorough { 6 } else { 5 }, &mut v);
    for s in v { dset.insert(s); }
    for _ in 0..(if a.thorough { 200_000 } else { 20_000 }) {
        let n = rng.range(7, 30) as usize;
        let mut s = String::new();
        while s.chars().count() < n {
            match rng.below(6) {
                0 | 1 => { s.push_str("_x"); for _ in 0..4 { s.push(*rng.pick(&['0', '0', '1', '4', '5', 'F', 'D', '8', 'a', 'f', 'g', 'é'])); } if rng.chance(3, 4) { s.push('_'); } }
                2 => { let c = rng.below(0x11_0000) as u32; if let Some(ch) = char::from_u32(c) { if xml_char_ok(ch) && ch != '\r' { s.push(ch); } } }
                _ => s.push(*rng.pick(&['_', 'x', '0', 'F', 'A', '&', '<', '>', ' ', 'é', '😀', '\n', '\t'])),
            }
        }
        dset.insert(s);
    }
    // what the writer really produced (entities resolved) is what decode sees in practice
    for r in raw.iter().take(60_000) { if let Ok(d) = roxmltree::Document::parse(&format!("<t>{r}</t>")) { let t = d.root_element().text().unwrap_or("").to_string(); if !t.contains('\r') { dset.insert(t); } } }
    dset.remove("");
    let dstr: Vec<String> = dset.into_iter().collect();
    let placeholders: Vec<String> = (0..dstr.len()).map(|i| format!("p{i}")).collect();
    let pb = build(&placeholders);
    let mut xml = String::from("<?xml version=\"1.0\" encoding=\"UTF-8\" standalone=\"yes\"?>\n<sst xmlns=\"http://schemas.openxmlformats.org/spreadsheetml/2006/main\">");
    for t in &dstr { xml.push_str("<si><t>"); xml.push_str(&xml_quote(t)); xml.push_str("</t></si>"); }
    xml.push_str("</sst>");
    let crafted = replace_part(&pb, "xl/sharedStrings.xml", &xml);
    match read_back(&crafted, dstr.len()) {
        Ok(v) => for (t, d) in dstr.iter().zip(v.iter()) {
            cs.case(&format!("dec {}", wire(t)), &wire(d));
            if d != t { nontrivial += 1; }
        },
        Err(e) => or.fail("harness-crafted-part-rejected", json!({}), e),
    }
    *dist.entry("reader side: crafted <t> contents (window sweeps, short strings, random, real writer output)".into()).or_insert(0) += dstr.len() as u64;
    // the XML parser on hand-written references
    for t in ["&#65;", "&#x41;", "&#x1;", "&#1;", "&bogus;", "&amp", "a\rb", "a\r\nb", "a\nb", "&#xA;&#xD;", "&lt;&gt;&amp;&quot;&apos;", "&#x10FFFF;", "&#x110000;", "&#xD800;", "&#xFFFE;", "&#65535;", "&#4294967295;", "&#4294967296;", "&#x100000000;", "&#x0;", "&#9;", "&#x20;", "&#;", "&#x;", "a<b", "\u{1}", "\u{fffe}"] {
        let xobs = match roxmltree::Document::parse(&format!("<t>{t}</t>")) {
            Ok(d) => format!("ok {}", wire(d.root_element().text().unwrap_or(""))),
            Err(_) => "err".to_string(),
        };
        cs.case(&format!("xun {}", wire(t)), &xobs);
    }
    let samples: Vec<String> = vec![
        format!("{} distinct strings through the writer and writer+reader", strings.len()),
        format!("{} crafted <t> contents through the reader", dstr.len()),
        format!("class _xHHHH+control: {} members generated, {} of them fail the round trip", in_class, in_class_failing),
        "esc _x0041\\x01 -> _x0041_x0001_ ; rt -> Ax0001_".to_string(),
    ];
    for (k, v) in dist { *dist_out.entry(k).or_insert(0) += v; }
    CodecStats { nontrivial, in_class, in_class_failing, samples }
}

fn main() {
    let a = Args::parse();
    let mut cs = Cases::new(&a.out, "c24");
    let mut or = Oracle::default();
    let mut dist: BTreeMap<String, u64> = BTreeMap::new();
    let wb_only = a.extra.iter().any(|x| x == "wb");
    let st = if wb_only { CodecStats { nontrivial: 0, in_class: 0, in_class_failing: 0, samples: vec![] } } else { codec_part(&a, &mut cs, &mut or, &mut dist) };
    let codec_checked = or.checked;
    let ws = books::workbook_part(&a, &mut or);
    let mut samples = st.samples.clone();
    samples.extend(ws.samples.iter().cloned());
    let oc = or.checked;
    cs.finish(json!({
        "distribution": dist, "samples": samples, "oracle_checked": oc, "distinct_nontrivial": st.nontrivial + ws.nontrivial,
        "oracle_failures": or.failures, "oracle_failures_per_class": or.per_class,
        "class_members": st.in_class, "class_members_failing": st.in_class_failing,
        "codec_oracle_checked": codec_checked,
        "workbooks": ws.meta,
    }));
}
