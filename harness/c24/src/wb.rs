//! C24 — the whole-workbook oracle: a workbook built through the API is exported with
//! save_xlsx_to_writer, imported with load_from_xlsx_bytes + Model::from_workbook, evaluated, and its
//! canonical snapshot (vh_hist::snapshot_lines; conditional formats with their dxf by value) is
//! compared line by line with the original's. Every difference is classified by root cause.
use ironcalc::export::save_xlsx_to_writer;
use ironcalc::import::load_from_xlsx_bytes;
use ironcalc_base::Model;
use std::collections::{BTreeMap, BTreeSet};
use std::io::Cursor;
use std::panic::{catch_unwind, AssertUnwindSafe};
use vh_hist::{snapshot_lines, SnapOpts};

pub fn canon_lines(m: &Model) -> Vec<String> {
    let wb = &m.workbook;
    let mut out = vec![];
    for l in snapshot_lines(m, &SnapOpts::default()) {
        // conditional formats are re-emitted below with the dxf by value
        let mut it = l.split(' ');
        let first = it.next().unwrap_or("");
        let second = it.next().unwrap_or("");
        if first.starts_with('s') && second.starts_with("cf#") { continue; }
        out.push(l);
    }
    for (i, ws) in wb.worksheets.iter().enumerate() {
        for cf in &ws.conditional_formatting {
            let dbg = format!("{:?}", cf.cf_rule);
            // replace "dxf_id: N" by the dxf itself
            let mut s = dbg.clone();
            if let Some(p) = dbg.find("dxf_id: ") {
                let rest = &dbg[p + 8..];
                let n: String = rest.chars().take_while(|c| c.is_ascii_digit()).collect();
                let id: usize = n.parse().unwrap_or(usize::MAX);
                let dxf = wb.styles.dxfs.get(id).map(|d| format!("{d:?}")).unwrap_or_else(|| "BAD-DXF".into());
                s = format!("{}dxf: {}{}", &dbg[..p], dxf, &rest[n.len()..]);
            }
            // a Formula rule is stored with or without its leading '=' (stripped before evaluation,
            // stripped by the writer, added by the reader): the same rule
            if let Some(p) = s.find("Formula { formula: \"=") { s.replace_range(p + 20..p + 21, ""); }
            out.push(format!("s{i} cf {} prio={} {}", cf.range, cf.priority, s));
        }
    }
    out
}

pub enum Trip { Ok(Vec<String>), ExportPanic(String), ExportErr(String), ImportErr(String), ImportPanic(String), ModelErr(String) }

pub fn round_trip(m: &Model) -> Trip {
    let bytes = match catch_unwind(AssertUnwindSafe(|| save_xlsx_to_writer(m, Cursor::new(Vec::new())))) {
        Ok(Ok(w)) => w.into_inner(),
        Ok(Err(e)) => return Trip::ExportErr(format!("{e:?}")),
        Err(p) => return Trip::ExportPanic(panic_msg(p)),
    };
    let wb = &m.workbook;
    let r = catch_unwind(AssertUnwindSafe(|| load_from_xlsx_bytes(&bytes, &wb.name, &wb.settings.locale, &wb.settings.tz)));
    let w2 = match r {
        Ok(Ok(w)) => w,
        Ok(Err(e)) => return Trip::ImportErr(format!("{e:?}")),
        Err(p) => return Trip::ImportPanic(panic_msg(p)),
    };
    let r = catch_unwind(AssertUnwindSafe(|| {
        let mut m2 = Model::from_workbook(w2, "en")?;
        m2.evaluate();
        Ok::<Vec<String>, String>(canon_lines(&m2))
    }));
    match r {
        Ok(Ok(l)) => Trip::Ok(l),
        Ok(Err(e)) => Trip::ModelErr(e),
        Err(p) => Trip::ImportPanic(panic_msg(p)),
    }
}

fn panic_msg(p: Box<dyn std::any::Any + Send>) -> String {
    if let Some(s) = p.downcast_ref::<&str>() { s.to_string() } else if let Some(s) = p.downcast_ref::<String>() { s.clone() } else { "panic".into() }
}

/// key of a snapshot line: what it describes
pub fn key_of(l: &str) -> (String, String) {
    let mut it = l.split(' ');
    let first = it.next().unwrap_or("");
    if first.len() > 1 && first.starts_with('s') && first[1..].chars().all(|c| c.is_ascii_digit()) {
        let k = it.next().unwrap_or("");
        let id = it.next().unwrap_or("");
        if k == "cf" { return (k.to_string(), format!("{first} cf {id} {}", it.next().unwrap_or(""))); }
        if k == "sheet" { return (k.to_string(), format!("{first} sheet")); }
        (k.to_string(), format!("{first} {k} {id}"))
    } else if first == "name" || first == "namedstyle" {
        (first.to_string(), format!("{first} {}", it.next().unwrap_or("")))
    } else { (first.to_string(), first.to_string()) }
}

pub struct Diff { pub kind: String, pub key: String, pub before: Option<String>, pub after: Option<String> }

pub fn diff(a: &[String], b: &[String]) -> Vec<Diff> {
    let sa: BTreeSet<&String> = a.iter().collect();
    let sb: BTreeSet<&String> = b.iter().collect();
    let mut removed: BTreeMap<String, &String> = BTreeMap::new();
    for l in sa.difference(&sb) { removed.insert(key_of(l).1, l); }
    let mut out = vec![];
    for l in sb.difference(&sa) {
        let (k, key) = key_of(l);
        let before = removed.remove(&key).map(|s| s.to_string());
        out.push(Diff { kind: k, key, before, after: Some(l.to_string()) });
    }
    for (key, l) in removed { out.push(Diff { kind: key_of(l).0, key, before: Some(l.to_string()), after: None }); }
    out
}
