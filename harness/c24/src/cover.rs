//! workbooks built to cover what the statement of C24 lists: every style attribute, number
//! formats, widths / heights / hidden flags, frozen panes, grid lines, sheet states and colours,
//! global and sheet-scoped names, links, every conditional-format rule kind, CSE and dynamic
//! arrays, every value kind, and strings from every plane / XML specials / controls / look-alikes.
use ironcalc_base::cf_types::*;
use ironcalc_base::types::*;
use ironcalc_base::Model;
use vh_common::Rng;

fn book(name: &'static str) -> Model<'static> { Model::new_empty(name, "en", "UTC", "en").unwrap() }
fn put(m: &mut Model, sheet: u32, r: i32, c: i32, s: &str) { let _ = m.set_user_input(sheet, r, c, s.to_string()); }

fn colors() -> Vec<Color> {
    vec![Color::None, Color::Rgb("#FF0000".into()), Color::Rgb("#12AB9F".into()), Color::Theme(0, 0.0), Color::Theme(1, 0.0), Color::Theme(4, 0.0),
         Color::Theme(4, 0.39997558519241921), Color::Theme(5, -0.249977111117893), Color::Theme(9, 0.5), Color::Theme(3, -0.5)]
}

pub fn style_books() -> Vec<(String, Model<'static>)> {
    let mut out = vec![];
    // fonts
    let mut m = book("fonts");
    let mut r = 1;
    let mut styles: Vec<Style> = vec![];
    for (k, col) in colors().into_iter().enumerate() {
        let mut s = Style::default(); s.font.color = col; s.font.b = k % 2 == 0; styles.push(s);
    }
    for sz in [1, 8, 11, 12, 13, 24, 72, 409] { let mut s = Style::default(); s.font.sz = sz; styles.push(s); }
    for (st, u, b, i) in [(true, false, false, false), (false, true, false, false), (false, false, true, false), (false, false, false, true), (true, true, true, true)] {
        let mut s = Style::default(); s.font.strike = st; s.font.u = u; s.font.b = b; s.font.i = i; styles.push(s);
    }
    for name in ["Arial", "Courier New", "Inter", "MS Gothic", "A&B <font>", "Ünï \"q\""] { let mut s = Style::default(); s.font.name = name.into(); styles.push(s); }
    for fam in [0, 1, 2, 3, 5] { let mut s = Style::default(); s.font.family = fam; styles.push(s); }
    for sch in [FontScheme::Minor, FontScheme::Major, FontScheme::None] { let mut s = Style::default(); s.font.scheme = sch; styles.push(s); }
    for s in &styles { put(&mut m, 0, r, 1, "x"); let _ = m.set_cell_style(0, r, 1, s); let _ = m.set_cell_style(0, r, 2, s); r += 1; }
    m.evaluate(); out.push(("style:font".to_string(), m));
    // fills
    let mut m = book("fills"); let mut r = 1;
    for col in colors() { let mut s = Style::default(); s.fill.color = col; put(&mut m, 0, r, 1, "1"); let _ = m.set_cell_style(0, r, 1, &s); r += 1; }
    m.evaluate(); out.push(("style:fill".to_string(), m));
    // borders
    let mut m = book("borders"); let mut r = 1;
    let bstyles = [BorderStyle::Thin, BorderStyle::Medium, BorderStyle::Thick, BorderStyle::Double, BorderStyle::Dotted, BorderStyle::SlantDashDot, BorderStyle::MediumDashed, BorderStyle::MediumDashDotDot, BorderStyle::MediumDashDot];
    for (k, bs) in bstyles.iter().enumerate() {
        for side in 0..6 {
            let item = Some(BorderItem { style: bs.clone(), color: colors()[(k + side) % 10].clone() });
            let mut s = Style::default();
            match side { 0 => s.border.left = item, 1 => s.border.right = item, 2 => s.border.top = item, 3 => s.border.bottom = item,
                4 => { s.border.diagonal = item; s.border.diagonal_up = true; } _ => { s.border.diagonal = item; s.border.diagonal_down = true; s.border.diagonal_up = k % 2 == 0; } }
            put(&mut m, 0, r, 1, "b"); let _ = m.set_cell_style(0, r, 1, &s); r += 1;
        }
    }
    let mut s = Style::default();
    let it = |c: &str| Some(BorderItem { style: BorderStyle::Thin, color: Color::Rgb(c.into()) });
    s.border.left = it("#111111"); s.border.right = it("#222222"); s.border.top = it("#333333"); s.border.bottom = it("#444444");
    put(&mut m, 0, r, 1, "all"); let _ = m.set_cell_style(0, r, 1, &s);
    let mut s2 = Style::default(); s2.border.diagonal_up = true; // flag without a diagonal item
    put(&mut m, 0, r + 1, 1, "flag"); let _ = m.set_cell_style(0, r + 1, 1, &s2);
    m.evaluate(); out.push(("style:border".to_string(), m));
    // alignment
    let mut m = book("align"); let mut r = 1;
    let hs = [HorizontalAlignment::Center, HorizontalAlignment::CenterContinuous, HorizontalAlignment::Distributed, HorizontalAlignment::Fill, HorizontalAlignment::General, HorizontalAlignment::Justify, HorizontalAlignment::Left, HorizontalAlignment::Right];
    let vs = [VerticalAlignment::Bottom, VerticalAlignment::Center, VerticalAlignment::Distributed, VerticalAlignment::Justify, VerticalAlignment::Top];
    for h in hs.iter() { for v in vs.iter() { for w in [false, true] {
        let mut s = Style::default(); s.alignment = Some(Alignment { horizontal: h.clone(), vertical: v.clone(), wrap_text: w });
        put(&mut m, 0, r, 1, "a"); let _ = m.set_cell_style(0, r, 1, &s); r += 1;
    } } }
    m.evaluate(); out.push(("style:alignment".to_string(), m));
    // number formats: the codes of the built-in ids typed as custom codes, and real custom ones
    let mut m = book("numfmt"); let mut r = 1;
    let fmts = ["general", "General", "0", "0.00", "#,##0", "#,##0.00", "0%", "0.00%", "0.00E+00", "# ?/?", "# ??/??", "mm-dd-yy", "d-mmm-yy", "d-mmm", "mmm-yy",
        "h:mm AM/PM", "h:mm:ss AM/PM", "h:mm", "h:mm:ss", "m/d/yy h:mm", "#,##0 ;(#,##0)", "#,##0 ;[Red](#,##0)", "#,##0.00;(#,##0.00)", "#,##0.00;[Red](#,##0.00)",
        "mm:ss", "[h]:mm:ss", "mmss.0", "##0.0E+0", "@", "yyyy-mm-dd", "dd/mm/yyyy", "\"$\"#,##0.00", "[Red]0.0;[Blue]-0.0;\"zero\"", "0.0\" <&> \"", "yyyy\"年\"m\"月\"",
        "0.000", "#,##0.0000", "$#,##0.00", "[$€-407] #,##0.00", "0 \"a'b\"", "_(* #,##0_);_(* (#,##0);_(* \"-\"_);_(@_)"];
    for f in fmts { let mut s = Style::default(); s.num_fmt = f.into(); put(&mut m, 0, r, 1, "1234.5"); let _ = m.set_cell_style(0, r, 1, &s); r += 1; }
    // formats chosen by the engine from typed input
    for t in ["10%", "$5", "1,234", "2024-03-15", "1e3", "12:30", "3/4/2024"] { put(&mut m, 0, r, 1, t); r += 1; }
    m.evaluate(); out.push(("style:numfmt".to_string(), m));
    // quote prefix
    let mut m = book("quote"); let mut r = 1;
    for t in ["'123", "'=1+1", "'TRUE", "'", "''x", "'#N/A", "' lead"] { put(&mut m, 0, r, 1, t); r += 1; }
    let mut s = Style::default(); s.quote_prefix = true; s.font.b = true; put(&mut m, 0, r, 1, "plain"); let _ = m.set_cell_style(0, r, 1, &s);
    let _ = m.set_cell_style(0, r + 1, 1, &s); // empty cell with a quote-prefix style
    m.evaluate(); out.push(("style:quote-prefix".to_string(), m));
    // combined styles on empty cells, rows, columns; named styles
    let mut m = book("rowcolstyle");
    let mut s = Style::default(); s.font.i = true; s.fill.color = Color::Rgb("#EEEEEE".into()); s.num_fmt = "0.00".into();
    let _ = m.set_column_style(0, 3, &s); let _ = m.set_row_style(0, 5, &s); let _ = m.set_row_style(0, 7, &s); put(&mut m, 0, 7, 2, "cell in styled row");
    put(&mut m, 0, 2, 3, "cell in styled column");
    let _ = m.set_cell_style(0, 9, 9, &s); // empty styled cell
    let mut st = Style::default(); st.font.b = true; st.num_fmt = "0.00".into();
    let _ = m.create_named_style("MyStyle", &st, StyleIncludes::default());
    let _ = m.set_cell_style_by_name(0, 1, 1, "MyStyle"); put(&mut m, 0, 1, 1, "3");
    m.evaluate(); out.push(("style:row-column-named".to_string(), m));
    out
}

pub fn layout_books() -> Vec<(String, Model<'static>)> {
    let mut out = vec![];
    let mut m = book("layout");
    for (c, w) in [(1, 10.0), (2, 50.0), (3, 125.0), (4, 125.5), (5, 333.33), (7, 0.0), (16384, 80.0)] { let _ = m.set_column_width(0, c, w); put(&mut m, 0, 1, c.min(20), "w"); }
    for (r, h) in [(1, 28.0), (2, 20.0), (3, 35.5), (4, 0.0), (5, 409.0), (6, 28.000000001)] { let _ = m.set_row_height(0, r, h); put(&mut m, 0, r, 1, "h"); }
    let _ = m.set_row_height(0, 40, 50.0);           // a row without cells
    let _ = m.set_row_hidden(0, 41, true);           // a hidden row without cells
    let _ = m.set_row_hidden(0, 2, true);            // a hidden row with cells
    let _ = m.set_column_hidden(0, 2, true); let _ = m.set_column_hidden(0, 9, true);
    m.evaluate(); out.push(("layout:widths-heights-hidden".to_string(), m));
    let mut m = book("sheets");
    for n in ["Data", "Sheet 2", "it's", "a&b", "<x>", "q\"q", "Ünï 😀", " lead", "trail ", "a\tb", "x.y", "R1C1", "A1", "1st", "tab;semi", "a,b", "[br]"] { let _ = m.add_sheet(n); }
    let n = m.workbook.worksheets.len() as u32;
    for i in 0..n { put(&mut m, i, 1, 1, "1"); put(&mut m, i, 2, 1, "=A1+1"); }
    for i in 1..n { let f = format!("={}!A1", ironcalc_base::expressions::utils::quote_name(&m.workbook.worksheets[i as usize].name)); put(&mut m, 0, i as i32 + 2, 2, &f); }
    let _ = m.set_sheet_state(1, SheetState::Hidden); let _ = m.set_sheet_state(2, SheetState::VeryHidden);
    let _ = m.set_sheet_color(3, &Color::Rgb("#00AA11".into())); let _ = m.set_sheet_color(4, &Color::Theme(4, 0.4));
    let _ = m.set_frozen_rows(5, 2); let _ = m.set_frozen_columns(5, 3); let _ = m.set_frozen_rows(6, 1); let _ = m.set_frozen_columns(7, 1);
    let _ = m.set_show_grid_lines(8, false);
    m.evaluate(); out.push(("layout:sheets".to_string(), m));
    out
}

pub fn name_link_books() -> Vec<(String, Model<'static>)> {
    let mut out = vec![];
    let mut m = book("names");
    let _ = m.add_sheet("Second"); let _ = m.add_sheet("it's");
    for r in 1..=4 { put(&mut m, 0, r, 1, &format!("{r}")); put(&mut m, 1, r, 1, &format!("{}", r * 10)); }
    let defs: Vec<(&str, Option<u32>, &str)> = vec![("rate", None, "0.2"), ("cellref", None, "Sheet1!$A$1"), ("rng", None, "Sheet1!$A$1:$A$3"), ("local", Some(1), "Second!$A$2"),
        ("local", Some(0), "Sheet1!$A$2"), ("txt", None, "\"a<b&c\""), ("expr", None, "SUM(Sheet1!$A$1:$A$4)*2"), ("quoted", Some(2), "'it''s'!$A$1"), ("Ünï_name", None, "1+1"), ("x.y", None, "TRUE")];
    for (n, s, f) in defs { let _ = m.new_defined_name(n, s, f); }
    put(&mut m, 0, 1, 3, "=rate*2"); put(&mut m, 0, 2, 3, "=cellref+1"); put(&mut m, 0, 3, 3, "=SUM(rng)"); put(&mut m, 1, 1, 3, "=local"); put(&mut m, 0, 4, 3, "=local"); put(&mut m, 0, 5, 3, "=expr"); put(&mut m, 0, 6, 3, "=txt");
    m.evaluate(); out.push(("names".to_string(), m));
    let mut m = book("links");
    let links = vec![Link::External { target: "https://example.com".into(), tooltip: None }, Link::External { target: "https://example.com/a?b=1&c=<2>".into(), tooltip: Some("tip & \"q\"".into()) },
        Link::External { target: "mailto:a@b.c".into(), tooltip: None }, Link::External { target: "file.xlsx#Sheet1!A1".into(), tooltip: None },
        Link::Internal { location: "Sheet1!A30".into(), tooltip: None }, Link::Internal { location: "Sheet1!B2".into(), tooltip: Some("go".into()) }];
    for (k, l) in links.into_iter().enumerate() { let r = k as i32 + 1; put(&mut m, 0, r, 1, "label"); let _ = m.set_cell_link(0, r, 1, l.clone()); let _ = m.set_cell_link(0, r, 3, l); }
    put(&mut m, 0, 10, 1, "http://a.b"); put(&mut m, 0, 11, 1, "me@site.org");
    m.evaluate(); out.push(("links".to_string(), m));
    out
}

pub fn cf_books() -> Vec<(String, Model<'static>)> {
    let mut m = book("cf");
    for r in 1..=8 { put(&mut m, 0, r, 1, &format!("{}", r * 3 % 7)); put(&mut m, 0, r, 2, ["a", "bb", "abc", ""][r as usize % 4]); put(&mut m, 0, r, 3, "2024-03-15"); }
    let f1 = Dxf { font: Some(DxfFont { b: Some(true), color: Color::Rgb("#FF0000".into()), ..Default::default() }), fill: None, border: None, num_fmt: None, alignment: None };
    let f2 = Dxf { font: None, fill: Some(Fill { color: Color::Rgb("#FFEE00".into()) }), border: None, num_fmt: None, alignment: None };
    let f3 = Dxf { font: Some(DxfFont { strike: Some(true), u: Some(false), i: Some(true), sz: Some(14), b: None, color: Color::Theme(4, 0.4) }), fill: Some(Fill { color: Color::Theme(5, -0.25) }),
        border: Some(Border { left: Some(BorderItem { style: BorderStyle::Thin, color: Color::Rgb("#000000".into()) }), ..Default::default() }),
        num_fmt: Some(NumFmt { num_fmt_id: 164, format_code: "0.00".into() }), alignment: None };
    let f0 = Dxf::default();
    let c = |s: &str| Color::Rgb(s.into());
    let rules: Vec<(&str, CfRuleInput)> = vec![
        ("A1:A8", CfRuleInput::CellIs { operator: ValueOperator::GreaterThan, formula: "3".into(), formula2: None, format: f1.clone(), stop_if_true: false }),
        ("A1:A8", CfRuleInput::CellIs { operator: ValueOperator::Between, formula: "1".into(), formula2: Some("4".into()), format: f2.clone(), stop_if_true: true }),
        ("A1:A8", CfRuleInput::CellIs { operator: ValueOperator::NotEqual, formula: "\"a<b\"".into(), formula2: None, format: f3.clone(), stop_if_true: false }),
        ("A1:B8", CfRuleInput::Formula { formula: "=$A1>2".into(), format: f1.clone(), stop_if_true: false }),
        ("B1:B8", CfRuleInput::Text { operator: TextOperator::Contains, value: "a".into(), format: f2.clone(), stop_if_true: false }),
        ("B1:B8", CfRuleInput::Text { operator: TextOperator::BeginsWith, value: "a\"b".into(), format: f0.clone(), stop_if_true: false }),
        ("B1:B8", CfRuleInput::Text { operator: TextOperator::Equals, value: "bb".into(), format: f1.clone(), stop_if_true: false }),
        ("B1:B8", CfRuleInput::Text { operator: TextOperator::EndsWith, value: "c".into(), format: f1.clone(), stop_if_true: false }),
        ("B1:B8", CfRuleInput::Text { operator: TextOperator::DoesNotContain, value: "<&>".into(), format: f1.clone(), stop_if_true: false }),
        ("C1:C8", CfRuleInput::TimePeriod { time_period: PeriodType::LastMonth, date1: None, date2: None, format: f1.clone(), stop_if_true: false }),
        ("C1:C8", CfRuleInput::TimePeriod { time_period: PeriodType::Today, date1: None, date2: None, format: f2.clone(), stop_if_true: false }),
        ("C1:C8", CfRuleInput::TimePeriod { time_period: PeriodType::Between, date1: Some("2024-01-01".into()), date2: Some("2024-12-31".into()), format: f2.clone(), stop_if_true: false }),
        ("A1:A8", CfRuleInput::DuplicateValues { format: f1.clone(), stop_if_true: false }),
        ("A1:A8", CfRuleInput::UniqueValues { format: f2.clone(), stop_if_true: false }),
        ("B1:B8", CfRuleInput::Blanks { format: f1.clone(), stop_if_true: false }),
        ("B1:B8", CfRuleInput::NotBlanks { format: f2.clone(), stop_if_true: false }),
        ("A1:C8", CfRuleInput::Errors { format: f1.clone(), stop_if_true: false }),
        ("A1:C8", CfRuleInput::NoErrors { format: f0.clone(), stop_if_true: false }),
        ("A1:A8", CfRuleInput::AboveAverage { format: f1.clone(), stop_if_true: false }),
        ("A1:A8", CfRuleInput::BelowAverage { format: f2.clone(), stop_if_true: false }),
        ("A1:A8", CfRuleInput::Top10 { rank: 3, percent: false, format: f1.clone(), stop_if_true: false }),
        ("A1:A8", CfRuleInput::Bottom10 { rank: 20, percent: true, format: f2.clone(), stop_if_true: false }),
        ("A1:A8", CfRuleInput::ColorScale { thresholds: vec![ColorScaleThreshold { cfvo: Cfvo::Min, color: c("#FF0000") }, ColorScaleThreshold { cfvo: Cfvo::Max, color: c("#00FF00") }] }),
        ("A1:A8", CfRuleInput::ColorScale { thresholds: vec![ColorScaleThreshold { cfvo: Cfvo::Number(1.0), color: c("#FF0000") }, ColorScaleThreshold { cfvo: Cfvo::Percentile(50.0), color: Color::Theme(4, 0.0) }, ColorScaleThreshold { cfvo: Cfvo::Percent(90.0), color: c("#0000FF") }] }),
        ("A1:A8", CfRuleInput::DataBar { min: None, max: None, positive_color: c("#638EC6"), negative_color: c("#FF0000"), is_gradient: true, show_value: true }),
        ("A1:A8", CfRuleInput::DataBar { min: Some(Cfvo::Number(0.0)), max: Some(Cfvo::Formula("$A$8".into())), positive_color: c("#00FF00"), negative_color: c("#FF00FF"), is_gradient: false, show_value: false }),
        ("A1:A8", CfRuleInput::IconSet { thresholds: vec![IconThreshold { icon: Icon::ArrowUp, cfvo: Cfvo::Percent(67.0), color: c("#00FF00"), is_strict: false }, IconThreshold { icon: Icon::ArrowRight, cfvo: Cfvo::Percent(33.0), color: c("#FFFF00"), is_strict: true }, IconThreshold { icon: Icon::ArrowDown, cfvo: Cfvo::Min, color: c("#FF0000"), is_strict: false }], show_value: true }),
        ("A1:A8", CfRuleInput::IconRating { icon: Icon::Star, color: c("#FFC000"), thresholds: vec![(Cfvo::Number(1.0), false), (Cfvo::Number(3.0), true), (Cfvo::Percent(80.0), false)], show_value: false }),
    ];
    let mut out = vec![];
    // one workbook per rule (a lost rule cannot hide another) and one with all of them (priorities)
    let mut all = book("cf-all");
    for r in 1..=8 { put(&mut all, 0, r, 1, &format!("{}", r * 3 % 7)); put(&mut all, 0, r, 2, ["a", "bb", "abc", ""][r as usize % 4]); }
    for (k, (range, rule)) in rules.iter().enumerate() {
        let mut one = Model::from_bytes(&m.to_bytes(), "en").unwrap();
        let tag = format!("{rule:?}"); let tag = tag.split(' ').next().unwrap_or("rule").to_string();
        let _ = one.add_conditional_formatting(0, range, rule.clone());
        one.evaluate();
        out.push((format!("cf:{tag}#{k}"), one));
        let _ = all.add_conditional_formatting(0, range, rule.clone());
    }
    let _ = all.add_conditional_formatting(0, "A1:A3 C1:C3", rules[0].1.clone());
    all.evaluate(); out.push(("cf:all-rules".to_string(), all));
    m.evaluate();
    out
}

pub fn value_books() -> Vec<(String, Model<'static>)> {
    let mut out = vec![];
    let mut m = book("values"); let mut r = 1;
    for t in ["0", "-0", "1", "-1", "0.1", "0.30000000000000004", "1e308", "1.7976931348623157e308", "5e-324", "2.2250738585072014e-308", "123456789012345678", "1e21", "1e-7", "3.141592653589793", "TRUE", "false",
        "#N/A", "#DIV/0!", "#VALUE!", "#REF!", "#NAME?", "#NUM!", "#ERROR!", "#N/IMPL!", "#SPILL!", "#CALC!", "#CIRC!", "#NULL!"] { put(&mut m, 0, r, 1, t); r += 1; }
    for f in ["=1/0", "=NA()", "=1+\"a\"", "=SQRT(-1)", "=nosuchfn(1)", "=A1:A2 A3:A4", "=1=1", "=1=2", "=\"text\"", "=\"\"", "=1/3", "=-0", "=1e308*10", "=PI()", "=A1000", "=SUM(A1:A3)", "=TRUE", "=IF(TRUE,\"a\",1)",
        "=#N/A", "=#N/IMPL!", "=UNICHAR(1)", "=\"a\"&UNICHAR(10)&\"b\"", "=REPT(\"_x0041_\",2)", "=\"<&>\"", "=\" lead \"", "=1+(2+3)", "=1-(2-3)", "=(1+2)*3", "=-(1+2)", "=2^-1", "=(1&2)+3", "=1<(2<3)", "=SUM(1,,2)", "=LET(x,2,x*x)", "=LAMBDA(a,a+1)(2)", "=@A1:A3", "=SUM(A:A)", "=Sheet1!A1", "=$A$1+B$2+$C3"] { put(&mut m, 0, r, 2, f); r += 1; }
    m.evaluate(); out.push(("values".to_string(), m));
    // arrays
    let mut m = book("arrays");
    for r in 1..=4 { put(&mut m, 0, r, 1, &format!("{r}")); put(&mut m, 0, r, 2, ["x", "TRUE", "#N/A", "2.5"][r as usize - 1]); }
    put(&mut m, 0, 1, 4, "=A1:A4*2"); put(&mut m, 0, 1, 5, "=B1:B4"); put(&mut m, 0, 1, 6, "=SEQUENCE(2,3)"); put(&mut m, 0, 6, 4, "={1,2;3,4}"); put(&mut m, 0, 10, 1, "=A1:A4=2");
    put(&mut m, 0, 10, 4, "=B1:B4&\"<\"");
    let _ = m.set_user_array_formula(0, 1, 10, 1, 3, "=A1:A3*2"); let _ = m.set_user_array_formula(0, 6, 10, 2, 2, "=SUM(A1:A4)"); let _ = m.set_user_array_formula(0, 10, 10, 1, 2, "=B1:B2");
    let _ = m.set_user_array_formula(0, 14, 10, 1, 1, "=A1:A3");
    put(&mut m, 0, 20, 1, "=SEQUENCE(3)"); put(&mut m, 0, 21, 1, "blocker"); // #SPILL!
    m.evaluate(); out.push(("arrays".to_string(), m));
    out
}

/// strings as cell values, as results of formulas and inside formulas
pub fn string_books(rng: &mut Rng, thorough: bool) -> Vec<(String, Model<'static>)> {
    let mut strs: Vec<String> = vec!["<".into(), ">".into(), "&".into(), "\"".into(), "'x".into(), "a'b".into(), "&amp;".into(), "]]>".into(), " lead".into(), "trail ".into(), "  ".into(), "a  b".into(),
        "tab\there".into(), "line\nbreak".into(), "cr\rhere".into(), "crlf\r\nx".into(), "_x0041_".into(), "_x005F_".into(), "_x0041".into(), "__x0041_".into(), "_xD800_".into(), "_x000A_".into(),
        "é".into(), "€".into(), "😀".into(), "\u{d7ff}\u{e000}\u{fffd}".into(), "\u{10000}\u{10ffff}".into(), "\u{7f}\u{80}\u{9f}".into(), "\u{feff}bom".into(), "\u{200b}zw".into(), "\u{2028}ls".into(), "=not a formula".into(), "_x0041\u{1}".into()];
    for c in 0u32..32 { if c != 9 && c != 10 && c != 13 { strs.push(format!("c{}x", char::from_u32(c).unwrap())); } }
    for _ in 0..(if thorough { 400 } else { 60 }) {
        let n = rng.range(1, 12) as usize; let mut s = String::new();
        for _ in 0..n { let plane = rng.below(20); let c = match plane { 0..=9 => rng.range(0x20, 0x7e) as u32, 10..=12 => rng.range(0xa0, 0xd7ff) as u32, 13 => rng.range(0xe000, 0xfffd) as u32, 14..=16 => rng.range(0x10000, 0x10ffff) as u32, 17 => rng.range(0, 31) as u32, _ => *rng.pick(&[0x26, 0x3c, 0x3e, 0x22, 0x27, 0x5f, 0x78]) };
            if let Some(ch) = char::from_u32(c) { s.push(ch); } }
        if !s.is_empty() && !s.starts_with(['=', '+', '-', '\'']) { strs.push(s); }
    }
    let mut out = vec![];
    // (1) as cell values (shared strings) and as cached formula results (t="str")
    let mut m = book("strings");
    for (k, s) in strs.iter().enumerate() { let r = k as i32 + 1; let _ = m.update_cell_with_text(0, r, 1, s); put(&mut m, 0, r, 2, &format!("=A{r}&\"\"")); }
    m.evaluate(); out.push(("strings:values".to_string(), m));
    // (2) inside formulas, as string literals: one workbook per group so that a class does not hide another
    let groups: Vec<(&str, Vec<&String>)> = vec![
        ("plain", strs.iter().filter(|s| !s.chars().any(|c| (c as u32) < 32) && !s.contains("_x")).collect()),
        ("control", strs.iter().filter(|s| s.chars().any(|c| (c as u32) < 32 && c != '\t' && c != '\n' && c != '\r')).collect()),
        ("whitespace", strs.iter().filter(|s| s.chars().any(|c| c == '\t' || c == '\n' || c == '\r')).collect()),
        ("lookalike", strs.iter().filter(|s| s.contains("_x") && !s.chars().any(|c| (c as u32) < 32)).collect()),
    ];
    for (g, ss) in groups {
        let mut m = book("strlit");
        for (k, s) in ss.iter().enumerate() { put(&mut m, 0, k as i32 + 1, 1, &format!("=\"{}\"", s.replace('"', "\"\""))); }
        m.evaluate(); out.push((format!("strings:literal-in-formula:{g}"), m));
    }
    out
}
