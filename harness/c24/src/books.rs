//! workbooks for the whole-workbook oracle: seeded user-model histories (vh_hist) and built
//! coverage workbooks; classification of every difference by root cause.
use crate::wb::*;
use ironcalc_base::Model;
use serde_json::json;
use std::collections::BTreeMap;
use vh_common::*;
use vh_hist::{apply_op, ctx_of, gen_op, ops_json, Op};
use crate::cover;

pub struct WbStats { pub nontrivial: u64, pub samples: Vec<String>, pub meta: serde_json::Value }

/// classes already recorded in known/C24.jsonl: a history continues past them (every other class
/// stops the history at its first occurrence)
pub const RECORDED: &[&str] = &[
    "xlsx:row-attributes-without-cells", "xlsx:sheet-color-not-exported", "xlsx:implicit-intersection-added",
    "xlsx:unparsable-formula-reinterpreted", "xlsx:orphan-spill-cell-becomes-value", "xlsx:export-panic-dangling-name-scope",
    "xlsx:export-panic-unevaluated", "xlsx:sheet-name-whitespace-normalised", "xlsx:cf-dxf-false-flag-dropped", "xlsx:cf-text-equals-becomes-formula",
    "xlsx:cf-timeperiod-between-becomes-formula", "xlsx:cf-iconset-icons-and-colors-not-kept", "xlsx:cf-iconrating-color-not-kept",
    "xlsx:array-range-off-grid-cell-dropped", "xlsx:array-range-off-grid-import-error", "xlsx:formula-text-not-decoded", "escape-lookalike-then-control",
];

fn rc_of(key: &str) -> (i32, i32) {
    // "s0 cell R8C5"
    let w = key.split(' ').nth(2).unwrap_or("R0C0");
    let mut it = w[1..].split('C');
    (it.next().unwrap_or("0").parse().unwrap_or(0), it.next().unwrap_or("0").parse().unwrap_or(0))
}

/// a spill cell whose anchor is not an array formula that covers it
fn is_orphan_spill(ws: &ironcalc_base::types::Worksheet, row: i32, col: i32) -> bool {
    use ironcalc_base::types::Cell;
    match ws.cell(row, col) {
        Some(Cell::SpillCell { a, .. }) => match ws.cell(a.0, a.1) {
            Some(Cell::ArrayFormula { r, .. }) => !(a.0 <= row && row < a.0 + r.1 && a.1 <= col && col < a.1 + r.0),
            _ => true,
        },
        _ => false,
    }
}

pub fn classify_panic(orig: &Model, msg: &str) -> String {
    let wb = &orig.workbook;
    if wb.defined_names.iter().any(|d| match d.sheet_id { Some(id) => !wb.worksheets.iter().any(|w| w.sheet_id == id), None => false }) {
        return "xlsx:export-panic-dangling-name-scope".into();
    }
    if msg.contains("evaluated before saving") { return "xlsx:export-panic-unevaluated".into(); }
    "xlsx:export-panic".into()
}

fn sheet_of(key: &str) -> usize { key.split(' ').next().unwrap_or("s0")[1..].parse().unwrap_or(0) }
fn field<'a>(l: &'a str, name: &str) -> &'a str {
    match l.find(name) { Some(p) => { let r = &l[p + name.len()..]; r.split(' ').next().unwrap_or("") } None => "" }
}
fn cell_words(l: &str) -> Vec<&str> { l.split(" {fmt=").next().unwrap_or("").split(' ').collect() }
fn style_part(l: &str) -> &str { match l.find(" {fmt=") { Some(p) => &l[p..], None => "" } }

fn is_ctrl(c: char) -> bool { let n = c as u32; n <= 8 || n == 11 || n == 12 || (14..=31).contains(&n) }
/// escape_xml changes the text beyond the XML entities (a control character or an _xHHHH_ look-alike)
fn xlsx_escaped(t: &str) -> bool {
    let v: Vec<char> = t.chars().collect();
    for i in 0..v.len() {
        if is_ctrl(v[i]) { return true; }
        if i + 6 < v.len() && v[i] == '_' && v[i + 1] == 'x' && v[i + 6] == '_' && v[i + 2..i + 6].iter().all(|c| c.is_ascii_hexdigit()) { return true; }
    }
    false
}
fn ws_name_fragile(n: &str) -> bool { n.contains(['\t', '\n', '\r']) }

/// root-cause class of one difference, computed from the original workbook and the two lines;
/// None = a value-only difference (same formula, same style): a consequence of another difference
pub fn classify(orig: &Model, d: &Diff) -> Option<String> {
    use ironcalc_base::types::Cell;
    let shape = match (&d.before, &d.after) { (Some(_), Some(_)) => "~", (Some(_), None) => "-", _ => "+" };
    let wb = &orig.workbook;
    let si = sheet_of(&d.key);
    let ws = wb.worksheets.get(si);
    let unclassified = Some(format!("xlsx:unclassified:{}{}", d.kind, shape));
    match (d.kind.as_str(), &d.before, &d.after) {
        ("row", Some(b), None) => {
            let r: i32 = b.split(' ').nth(2).unwrap_or("0").parse().unwrap_or(0);
            let has_cells = ws.map(|w| w.sheet_data.get(&r).map(|m| !m.is_empty()).unwrap_or(false)).unwrap_or(false);
            if !has_cells { return Some("xlsx:row-attributes-without-cells".into()); }
        }
        ("sheet", Some(b), Some(a)) => {
            let col = |l: &str| -> String { match (l.find(" color="), l.find(" frozen=")) { (Some(p), Some(q)) if p < q => l[p + 7..q].to_string(), _ => String::new() } };
            let strip = |l: &str| l.replace(&format!(" color={}", col(l)), " color=*");
            if strip(b) == strip(a) && col(b) != "None" && col(a) == "None" { return Some("xlsx:sheet-color-not-exported".into()); }
            if ws.map(|w| ws_name_fragile(&w.name)).unwrap_or(false) { return Some("xlsx:sheet-name-whitespace-normalised".into()); }
        }
        ("cf", Some(b), Some(a)) => {
            if b.replace("Some(false)", "None") == *a { return Some("xlsx:cf-dxf-false-flag-dropped".into()); }
            if b.contains(" Text { operator: Equals") && a.contains(" Formula {") { return Some("xlsx:cf-text-equals-becomes-formula".into()); }
            if (b.contains("time_period: Between") || b.contains("time_period: NotBetween")) && a.contains(" Formula {") { return Some("xlsx:cf-timeperiod-between-becomes-formula".into()); }
            if b.contains(" IconSet {") && a.contains(" IconSet {") { return Some("xlsx:cf-iconset-icons-and-colors-not-kept".into()); }
            if b.contains(" IconRating {") && a.contains(" IconRating {") { return Some("xlsx:cf-iconrating-color-not-kept".into()); }
        }
        ("cell", Some(b), Some(a)) => {
            let (row, col) = rc_of(&d.key);
            let w = match ws { Some(w) => w, None => return unclassified };
            let cell = w.cell(row, col);
            if style_part(b) != style_part(a) {
                let norm = |s: &str| s.replace("diagonal_up: true", "diagonal_up: false").replace("diagonal_down: true", "diagonal_down: false");
                if b.replace(style_part(b), "") == a.replace(style_part(a), "") && norm(style_part(b)) == norm(style_part(a)) { return Some("xlsx:border-diagonal-flags-lost".into()); }
                if b.replace(style_part(b), "") == a.replace(style_part(a), "") && style_part(b).replace("style: Dotted", "style: Thin") == style_part(a) { return Some("xlsx:border-style-dotted-becomes-thin".into()); }
                // both causes in one border
                if b.replace(style_part(b), "") == a.replace(style_part(a), "") && norm(&style_part(b).replace("style: Dotted", "style: Thin")) == norm(style_part(a)) { return Some("xlsx:border-diagonal-flags-lost".into()); }
                return Some("xlsx:unclassified:cell-style".into());
            }
            let (wb_, wa) = (cell_words(b), cell_words(a));
            if let Some(Cell::SharedString { si: idx, .. }) = cell {
                if wb.shared_strings.get(*idx as usize).map(|t| crate::collides(t)).unwrap_or(false) { return Some("escape-lookalike-then-control".into()); }
            }
            if is_orphan_spill(w, row, col) && wb_.get(3) == Some(&"spill") && wa.get(3) != Some(&"spill") { return Some("xlsx:orphan-spill-cell-becomes-value".into()); }
            let ftext: Option<String> = match cell { Some(Cell::CellFormula { f, .. }) | Some(Cell::ArrayFormula { f, .. }) => w.shared_formulas.get(*f as usize).cloned(), _ => None };
            if let Some(Cell::CellFormula { f, .. }) | Some(Cell::ArrayFormula { f, .. }) = cell {
                if let Some((ironcalc_base::expressions::parser::Node::ParseErrorKind { .. }, _)) = orig.parsed_formulas.get(si).and_then(|v| v.get(*f as usize)) {
                    return Some("xlsx:unparsable-formula-reinterpreted".into());
                }
            }
            if let Some(t) = &ftext {
                if xlsx_escaped(t) { return Some("xlsx:formula-text-not-decoded".into()); }
                if wb.worksheets.iter().any(|x| ws_name_fragile(&x.name) && t.contains(&x.name)) { return Some("xlsx:sheet-name-whitespace-normalised".into()); }
                if t.contains("#N/IMPL") { return Some("xlsx:error-nimpl-display".into()); }
            }
            if b.contains(" err NIMPL ") && a.contains(" err ERROR ") { return Some("xlsx:error-nimpl-display".into()); }
            // same formula text?
            let fa = a.split(" Some(").nth(1); let fb = b.split(" Some(").nth(1);
            if let (Some(t), Some(fa), Some(fb)) = (&ftext, fa, fb) {
                let ta = fa.split("\") ").next().unwrap_or(""); let tb = fb.split("\") ").next().unwrap_or("");
                if ta != tb {
                    if ta.replace('@', "") == tb.replace('@', "") && ta.matches('@').count() > tb.matches('@').count() { return Some("xlsx:implicit-intersection-added".into()); }
                    let _ = t;
                    return Some("xlsx:unclassified:formula-text".into());
                }
                return None; // same formula, same style: the value follows something else
            }
            if wb_.get(3) == Some(&"spill") && wa.get(3) == Some(&"spill") { return None; }
        }
        ("cell", Some(_), None) if {
            let (row, col) = rc_of(&d.key);
            matches!(ws.and_then(|w| w.cell(row, col)), Some(Cell::ArrayFormula { r, .. }) if col + r.0 - 1 > 16384)
        } => { return Some("xlsx:array-range-off-grid-cell-dropped".into()); }
        ("cell", Some(b), None) | ("cell", None, Some(b)) => {
            // spill cells appear / vanish with the value of their anchor
            if b.contains(" spill ") { return None; }
        }
        _ => {}
    }
    unclassified
}

/// the snapshot the imported workbook is compared with: the original, saved in the internal format,
/// reloaded and evaluated once more. (The importer's result is evaluated from scratch; a
/// workbook whose cached values are stale or depend on the order of evaluation — C07/C31 —
/// would otherwise be charged to the xlsx round trip.)
pub fn baseline(m: &Model) -> Vec<String> {
    match Model::from_bytes(&m.to_bytes(), "en") {
        Ok(mut m0) => { m0.evaluate(); canon_lines(&m0) }
        Err(_) => canon_lines(m),
    }
}

/// one check: Ok(number of lines compared) or the classes of the differences
pub fn check_model(m: &Model) -> Result<usize, Vec<(String, String)>> {
    let a = baseline(m);
    match round_trip(m) {
        Trip::Ok(b) => {
            let ds = diff(&a, &b);
            if ds.is_empty() { return Ok(a.len()); }
            let mut out = vec![];
            let mut followers = vec![];
            for d in &ds {
                let c = match classify(m, d) { Some(c) => c, None => { followers.push(d); continue; } };
                out.push((c, format!("- {}\n+ {}", d.before.clone().unwrap_or_default().chars().take(700).collect::<String>(), d.after.clone().unwrap_or_default().chars().take(700).collect::<String>())));
            }
            // value-only differences are consequences when a root difference exists; alone they are a finding
            if out.is_empty() {
                if followers.is_empty() { return Ok(a.len()); }
                for d in followers { out.push(("xlsx:value-changed".to_string(), format!("- {}\n+ {}", d.before.clone().unwrap_or_default().chars().take(700).collect::<String>(), d.after.clone().unwrap_or_default().chars().take(700).collect::<String>()))); }
            }
            Err(out)
        }
        Trip::ExportPanic(e) => Err(vec![(classify_panic(m, &e), e)]),
        Trip::ExportErr(e) => Err(vec![("xlsx:export-error".into(), e)]),
        Trip::ImportErr(e) => {
            use ironcalc_base::types::Cell;
            let off = m.workbook.worksheets.iter().any(|w| w.sheet_data.iter().any(|(r, row)| row.values().any(|c| matches!(c, Cell::ArrayFormula { r: rg, .. } if r + rg.1 - 1 > 1_048_576))));
            if e.contains("Invalid range") && off { Err(vec![("xlsx:array-range-off-grid-import-error".into(), e)]) } else { Err(vec![("xlsx:import-error".into(), e)]) }
        }
        Trip::ImportPanic(e) => Err(vec![("xlsx:import-panic".into(), e)]),
        Trip::ModelErr(e) => Err(vec![("xlsx:from-workbook-error".into(), e)]),
    }
}

pub fn workbook_part(a: &Args, or: &mut Oracle) -> WbStats {
    let explore = a.extra.iter().any(|x| x == "explore");
    let mut rng = Rng::new(a.seed ^ 0xC24);
    let (nh, len) = if a.extra.iter().any(|x| x == "nohist") { (0u64, 0u64) } else if a.thorough { (400u64, 40u64) } else { (50, 25) };
    let mut trips = 0u64; let mut lines = 0u64; let mut stopped = 0u64;
    let mut hist: BTreeMap<String, (u64, String)> = BTreeMap::new();
    for h in 0..nh {
        let mut um = vh_hist::driver::fresh();
        let mut ops: Vec<Op> = vec![];
        let mut seen = std::collections::BTreeSet::new();
        for _ in 0..len {
            let op = gen_op(&mut rng, &ctx_of(&um), false);
            let _ = std::panic::catch_unwind(std::panic::AssertUnwindSafe(|| apply_op(&mut um, &op)));
            ops.push(op);
            trips += 1; or.checked += 1;
            match check_model(um.get_model()) {
                Ok(n) => lines += n as u64,
                Err(cl) => {
                    let mut stop = false;
                    for (c, detail) in cl {
                        if !RECORDED.contains(&c.as_str()) { stop = true; }
                        if !seen.insert(c.clone()) { continue; }
                        let e = hist.entry(c.clone()).or_insert((0, detail.clone()));
                        e.0 += 1;
                        or.fail(&c, json!({"history": h, "ops": ops_json(&ops)}), detail);
                    }
                    if stop {
                        stopped += 1;
                        if explore {
                            println!("---- history {h} stops after {} ops; last ops: {:?}", ops.len(), &ops[ops.len().saturating_sub(4)..]);
                            let a0 = baseline(um.get_model());
                            if let Trip::Ok(b0) = round_trip(um.get_model()) {
                                for d in diff(&a0, &b0) {
                                    let cut = |o: &Option<String>| o.clone().unwrap_or_default().split(" {fmt=").next().unwrap_or("").chars().take(260).collect::<String>();
                                    println!("   [{:?}]\n     - {}\n     + {}", classify(um.get_model(), &d), cut(&d.before), cut(&d.after));
                                }
                            }
                        }
                        break;
                    }
                }
            }
        }
    }
    // ---- coverage workbooks
    let mut books = cover::style_books();
    books.extend(cover::layout_books());
    books.extend(cover::name_link_books());
    books.extend(cover::cf_books());
    books.extend(cover::value_books());
    books.extend(cover::string_books(&mut rng, a.thorough));
    let nbooks = books.len();
    let mut book_classes: BTreeMap<String, Vec<String>> = BTreeMap::new();
    for (label, m) in &books {
        trips += 1; or.checked += 1;
        match check_model(m) {
            Ok(n) => lines += n as u64,
            Err(cl) => {
                let mut seen = std::collections::BTreeSet::new();
                for (c, detail) in &cl {
                    book_classes.entry(c.clone()).or_default().push(label.clone());
                    if !seen.insert(c.clone()) { continue; }
                    let e = hist.entry(c.clone()).or_insert((0, detail.clone()));
                    e.0 += 1;
                    or.fail(c, json!({"workbook": label}), detail.clone());
                }
                if explore {
                    println!("---- book {label}: {} differences", cl.len());
                    let mut shown: BTreeMap<String, u32> = BTreeMap::new();
                    for (c, detail) in &cl {
                        let k = shown.entry(c.clone()).or_insert(0); *k += 1;
                        if *k <= 3 { let d: String = detail.lines().map(|l| { let l2 = if c.contains("style") || c.contains("unclassified") { l.to_string() } else { l.split(" {fmt=").next().unwrap_or("").to_string() }; l2.chars().take(900).collect::<String>() }).collect::<Vec<_>>().join("\n     "); println!("   [{c}]\n     {d}"); }
                    }
                    for (c, k) in shown { println!("   total {c}: {k}"); }
                }
            }
        }
    }
    if explore {
        for (c, (n, d)) in &hist { println!("== {c} x{n}\n{d}\n"); }
        println!("histories {nh} trips {trips} stopped {stopped}");
    }
    WbStats { nontrivial: trips, samples: vec![format!("{nh} histories, {trips} workbooks exported and re-imported, {lines} snapshot lines compared, {stopped} histories stopped at a difference")],
        meta: json!({"coverage_workbooks": nbooks, "classes_in_coverage_workbooks": book_classes.iter().map(|(k, v)| (k.clone(), v.len())).collect::<BTreeMap<_, _>>(), "histories": nh, "round_trips": trips, "lines_compared": lines, "histories_stopped": stopped}) }
}
