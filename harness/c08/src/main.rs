//! C08 — "No cell ever stores a non-finite number": the property ORACLE on the implementation.
//!
//! * function sweep: every `ironcalc_base::Function` x extreme/degenerate argument tuples x argument
//!   shape (scalar literal, cell reference, range, array literal) x formula form (single cell, CSE,
//!   dynamic), each formula evaluated in a fresh model; afterwards EVERY cell of the workbook is scanned
//!   for a stored number that is not finite.  The sweep runs in child processes (re-exec of this
//!   binary) under `ulimit -v` and a per-formula watchdog; a killed child is resumed after the
//!   offending (function, tuple) which is recorded in `skipped_timeouts`.
//! * operators on arrays, the typed path (`set_user_input` with number-looking texts), the raw API
//!   (`update_cell_with_number`) and xlsx import of `<v>` run in the parent process.
//!
//! Model-vs-implementation cases are written by `model_cases` (owned by the C08 model owner).
use ironcalc_base::language::get_language;
use ironcalc_base::types::{ArrayKind, Cell, FormulaValue, SpillValue};
use ironcalc_base::{Function, Model};
use serde_json::{json, Value};
use std::collections::{BTreeMap, BTreeSet};
use std::io::Write;
use std::panic::{catch_unwind, AssertUnwindSafe};
use std::sync::atomic::{AtomicU64, Ordering};
use std::time::{Duration, Instant};
use vh_common::*;
#[path = "../../c06/src/dump.rs"]
mod dump;

mod xlsx;

// ------------------------------------------------------------------------------------------------
// argument values
// ------------------------------------------------------------------------------------------------

#[derive(Clone, Debug)]
pub enum CellIn {
    Empty,
    Num(f64),
    Text(&'static str),
    Bool(bool),
    /// through `set_user_input` (error literals)
    Input(&'static str),
}

pub struct Val {
    pub name: &'static str,
    /// the scalar literal ("" = omitted argument)
    pub lit: &'static str,
    /// the element of an array literal, if the value can appear in one
    pub arr: Option<&'static str>,
    pub cell: CellIn,
}

const N_REGULAR: usize = 19; // values 0..=18 are swept with arities 1..3; the rest only appear in mixed tuples
// quick tier: always present — incl. the domain-edge values 0, -0, empty, 1, -1, huge, so that a function that
// starts producing +-inf/NaN element-wise (e.g. LN over {0,..}) is seen in the quick sweep
const CORE: [usize; 10] = [0, 1, 2, 3, 4, 5, 7, 13, 20, 22];

fn values() -> Vec<Val> {
    fn v(name: &'static str, lit: &'static str, arr: Option<&'static str>, cell: CellIn) -> Val {
        Val { name, lit, arr, cell }
    }
    vec![
        v("1E308", "1E308", Some("1E308"), CellIn::Num(1e308)),             // 0
        v("-1E308", "-1E308", Some("-1E308"), CellIn::Num(-1e308)),         // 1
        v("1E-308", "1E-308", Some("1E-308"), CellIn::Num(1e-308)),         // 2
        v("0", "0", Some("0"), CellIn::Num(0.0)),                           // 3
        v("-0", "-0", Some("-0"), CellIn::Num(-0.0)),                       // 4
        v("empty", "", None, CellIn::Empty),                                // 5
        v("\"\"", "\"\"", Some("\"\""), CellIn::Text("")),                  // 6
        v("\"inf\"", "\"inf\"", Some("\"inf\""), CellIn::Text("inf")),      // 7
        v("\"nan\"", "\"nan\"", Some("\"nan\""), CellIn::Text("nan")),      // 8
        v("TRUE", "TRUE", Some("TRUE"), CellIn::Bool(true)),                // 9
        v("#DIV/0!", "#DIV/0!", Some("#DIV/0!"), CellIn::Input("#DIV/0!")), // 10
        v("#N/A", "#N/A", Some("#N/A"), CellIn::Input("#N/A")),             // 11
        v("#VALUE!", "#VALUE!", Some("#VALUE!"), CellIn::Input("#VALUE!")), // 12
        v("#NUM!", "#NUM!", Some("#NUM!"), CellIn::Input("#NUM!")),         // 13
        v("#REF!", "#REF!", Some("#REF!"), CellIn::Input("#REF!")),         // 14
        v("#NAME?", "#NAME?", Some("#NAME?"), CellIn::Input("#NAME?")),     // 15
        v("#NULL!", "#NULL!", Some("#NULL!"), CellIn::Input("#NULL!")),     // 16
        v("1000", "1000", Some("1000"), CellIn::Num(1000.0)),               // 17 moderate: overflows EXP, FACT, ... without being rejected as "too large"
        v("171", "171", Some("171"), CellIn::Num(171.0)),                   // 18
        // only in mixed tuples
        v("2", "2", Some("2"), CellIn::Num(2.0)),                           // 19
        v("-1", "-1", Some("-1"), CellIn::Num(-1.0)),                       // 20
        v("0.5", "0.5", Some("0.5"), CellIn::Num(0.5)),                     // 21
        v("1", "1", Some("1"), CellIn::Num(1.0)),                           // 22
        v("10", "10", Some("10"), CellIn::Num(10.0)),                       // 23
        v("400", "400", Some("400"), CellIn::Num(400.0)),                   // 24
        v("1024", "1024", Some("1024"), CellIn::Num(1024.0)),               // 25
        // thorough tier only (regular)
        v("-1000", "-1000", Some("-1000"), CellIn::Num(-1000.0)),           // 26
        v("1E15", "1E15", Some("1E15"), CellIn::Num(1e15)),                 // 27 beyond every date / integer range, still exact
        v("1E155", "1E155", Some("1E155"), CellIn::Num(1e155)),             // 28 squares overflow
    ]
}

const MIXED: [&[usize]; 20] = [
    &[0, 19],     // (1E308, 2)
    &[0, 20],     // (1E308, -1)
    &[20, 21],    // (-1, 0.5)
    &[19, 0],     // (2, 1E308)
    &[23, 24],    // (10, 400)
    &[19, 25],    // (2, 1024)
    &[0, 1],      // (1E308, -1E308)
    &[22, 22, 0], // (1, 1, 1E308)
    &[0, 22, 22], // (1E308, 1, 1)
    &[0, 0, 1],   // (1E308, 1E308, -1E308)
    &[3, 2],      // (0, 1E-308)
    &[22, 2],     // (1, 1E-308)
    // arities 4..6 (financial / statistical functions with many mandatory arguments)
    &[0, 0, 0, 0],
    &[0, 0, 0, 0, 0],
    &[0, 0, 0, 0, 0, 0],
    &[22, 22, 22, 22],
    &[19, 19, 19, 19, 19],
    &[19, 19, 19, 19, 19, 19],
    &[21, 19, 17, 0],             // (0.5, 2, 1000, 1E308)
    &[0, 19, 17, 17, 22, 22],     // (1E308, 2, 1000, 1000, 1, 1)
];

fn tuples(fi: usize, thorough: bool, seed: u64) -> Vec<Vec<usize>> {
    let mut regular: Vec<usize> = if thorough {
        // all of them, plus the benign 2 and 1 (more functions reach a non-error result)
        (0..N_REGULAR).chain([19, 20, 22, 26, 27, 28]).collect()
    } else {
        // the core values for every function, plus three of the remaining ones chosen from the seed
        let mut v: Vec<usize> = CORE.to_vec();
        let mut rest: Vec<usize> = (0..N_REGULAR).filter(|i| !CORE.contains(i)).collect();
        let mut rng = Rng::new(seed.wrapping_mul(1_000_003).wrapping_add(fi as u64));
        for _ in 0..3 {
            let i = rng.below(rest.len() as u64) as usize;
            v.push(rest.remove(i));
        }
        v
    };
    regular.sort();
    let mut out = vec![];
    for v in regular {
        for n in 1..=3 {
            out.push(vec![v; n]);
        }
    }
    for m in MIXED.iter() {
        out.push(m.to_vec());
    }
    out
}

// ------------------------------------------------------------------------------------------------
// shapes and forms
// ------------------------------------------------------------------------------------------------

#[derive(Clone, Copy, PartialEq, Debug)]
pub enum Shape { Scalar, Ref, Range, RangeRow, Array, ArrayCol, Array1 }
impl Shape {
    fn name(self) -> &'static str {
        match self {
            Shape::Scalar => "scalar", Shape::Ref => "ref", Shape::Range => "range_col", Shape::RangeRow => "range_row",
            Shape::Array => "array_row", Shape::ArrayCol => "array_col", Shape::Array1 => "array_1x1",
        }
    }
}
#[derive(Clone, Copy, PartialEq, Debug)]
pub enum Form { Single, Cse, DynMul, DynPow }
impl Form {
    fn name(self) -> &'static str {
        match self { Form::Single => "single", Form::Cse => "cse", Form::DynMul => "dynamic_mul", Form::DynPow => "dynamic_pow" }
    }
}

const ANCHOR: (i32, i32) = (10, 8); // H10; the inputs live in A1:F6

pub struct Item {
    pub tuple: usize,
    /// the names of the argument values, e.g. `0,0` or `1E308,2`
    pub tuple_names: String,
    pub shape: Shape,
    pub form: Form,
    pub formula: String,
    pub cells: Vec<(i32, i32, CellIn)>,
}

fn col_letter(c: usize) -> char { (b'A' + c as u8) as char }

fn items_for(fname: &str, fi: usize, thorough: bool, seed: u64, vals: &[Val]) -> Vec<Item> {
    let shapes: &[Shape] = if thorough {
        &[Shape::Scalar, Shape::Ref, Shape::Range, Shape::RangeRow, Shape::Array, Shape::ArrayCol, Shape::Array1]
    } else {
        &[Shape::Scalar, Shape::Ref, Shape::Range, Shape::Array, Shape::Array1]
    };
    let forms: &[Form] = if thorough { &[Form::Single, Form::Cse, Form::DynMul, Form::DynPow] } else { &[Form::Single, Form::Cse, Form::DynMul] };
    let mut out = vec![];
    for (ti, t) in tuples(fi, thorough, seed).iter().enumerate() {
        let tuple_names: String = t.iter().map(|&vi| vals[vi].name).collect::<Vec<_>>().join(",");
        for &shape in shapes {
            let mut cells: Vec<(i32, i32, CellIn)> = vec![];
            let mut args: Vec<String> = vec![];
            let mut ok = true;
            for (k, &vi) in t.iter().enumerate() {
                let v = &vals[vi];
                match shape {
                    Shape::Scalar => args.push(v.lit.to_string()),
                    Shape::Ref => {
                        cells.push((k as i32 + 1, 1, v.cell.clone()));
                        args.push(format!("A{}", k + 1));
                    }
                    Shape::Range => {
                        cells.push((1, k as i32 + 1, v.cell.clone()));
                        cells.push((2, k as i32 + 1, v.cell.clone()));
                        args.push(format!("{}1:{}2", col_letter(k), col_letter(k)));
                    }
                    Shape::RangeRow => {
                        cells.push((k as i32 + 1, 1, v.cell.clone()));
                        cells.push((k as i32 + 1, 2, v.cell.clone()));
                        args.push(format!("A{}:B{}", k + 1, k + 1));
                    }
                    Shape::Array | Shape::ArrayCol | Shape::Array1 => match v.arr {
                        None => ok = false,
                        Some(e) => args.push(match shape {
                            Shape::Array => format!("{{{e},{e}}}"),
                            Shape::ArrayCol => format!("{{{e};{e}}}"),
                            _ => format!("{{{e}}}"),
                        }),
                    },
                }
            }
            if !ok { continue; }
            let call = format!("{}({})", fname, args.join(","));
            for &form in forms {
                let formula = match form {
                    Form::Single | Form::Cse => format!("={call}"),
                    Form::DynMul => format!("={call}*{{1,1}}"),
                    Form::DynPow => format!("={call}^{{1,2}}"),
                };
                out.push(Item { tuple: ti, tuple_names: tuple_names.clone(), shape, form, formula, cells: cells.clone() });
            }
        }
    }
    out
}

fn function_names() -> Vec<String> {
    let language = get_language("en").expect("language en");
    Function::into_iter().map(|f| f.to_localized_name(language)).collect()
}

// ------------------------------------------------------------------------------------------------
// evaluation and the scan
// ------------------------------------------------------------------------------------------------

#[derive(Clone, Debug)]
pub struct Hit { pub sheet: usize, pub row: i32, pub col: i32, pub kind: &'static str, pub value: f64 }
impl Hit {
    fn json(&self) -> Value {
        json!({"sheet": self.sheet, "row": self.row, "col": self.col, "cell": self.kind,
               "value": format!("{}", self.value), "bits": format!("0x{:016x}", self.value.to_bits())})
    }
    /// the class is decided by WHERE the non-finite number sits
    fn class(&self) -> &'static str {
        match self.kind {
            // anchors and spill cells are written with an unguarded value only by the array branches of
            // set_cells_with_result (the scalar path into an ArrayFormula anchor goes through the guard)
            "ArrayFormula:Cse" | "ArrayFormula:Dynamic" | "SpillCell" => "array_branch_nonfinite",
            "CellFormula" => "scalar_branch_nonfinite",
            _ => "number_cell_nonfinite",
        }
    }
}

/// every cell of the workbook that stores a number which is not finite
pub fn scan(model: &Model) -> Vec<Hit> {
    let mut hits = vec![];
    for (si, ws) in model.workbook.worksheets.iter().enumerate() {
        for (r, row) in &ws.sheet_data {
            for (c, cell) in row {
                let (kind, v) = match cell {
                    Cell::NumberCell { v, .. } => ("NumberCell", *v),
                    Cell::CellFormula { v: FormulaValue::Number(x), .. } => ("CellFormula", *x),
                    Cell::ArrayFormula { v: FormulaValue::Number(x), kind, .. } => {
                        (match kind { ArrayKind::Cse => "ArrayFormula:Cse", ArrayKind::Dynamic => "ArrayFormula:Dynamic" }, *x)
                    }
                    Cell::SpillCell { v: SpillValue::Number(x), .. } => ("SpillCell", *x),
                    _ => continue,
                };
                if !v.is_finite() {
                    hits.push(Hit { sheet: si, row: *r, col: *c, kind, value: v });
                }
            }
        }
    }
    hits.sort_by_key(|h| (h.sheet, h.row, h.col));
    hits
}

fn place(m: &mut Model, row: i32, col: i32, ci: &CellIn) {
    match ci {
        CellIn::Empty => {}
        CellIn::Num(x) => { let _ = m.update_cell_with_number(0, row, col, *x); }
        CellIn::Text(s) => { let _ = m.update_cell_with_text(0, row, col, s); }
        CellIn::Bool(b) => { let _ = m.update_cell_with_bool(0, row, col, *b); }
        CellIn::Input(s) => { let _ = m.set_user_input(0, row, col, s.to_string()); }
    }
}

fn new_model<'a>() -> Model<'a> { Model::new_empty("m", "en", "UTC", "en").expect("new_empty") }

/// what the anchor cell holds after evaluation
fn anchor_kind(m: &Model, row: i32, col: i32) -> &'static str {
    let cell = m.workbook.worksheets[0].sheet_data.get(&row).and_then(|r| r.get(&col));
    let fv = match cell {
        Some(Cell::CellFormula { v, .. }) | Some(Cell::ArrayFormula { v, .. }) => v,
        Some(Cell::NumberCell { .. }) => return "number",
        Some(Cell::SharedString { .. }) => return "text",
        Some(Cell::BooleanCell { .. }) => return "bool",
        Some(Cell::ErrorCell { .. }) => return "error",
        _ => return "other",
    };
    match fv {
        FormulaValue::Number(_) => "number",
        FormulaValue::Text(_) => "text",
        FormulaValue::Boolean(_) => "bool",
        FormulaValue::Error { .. } => "error",
        FormulaValue::Unevaluated => "unevaluated",
    }
}

pub struct Outcome { pub panicked: bool, pub hits: Vec<Hit>, pub anchor: &'static str, pub rejected: bool }

/// one formula in a fresh model; `cse` enters it over a 2x2 area
fn eval_formula(cells: &[(i32, i32, CellIn)], formula: &str, cse: bool) -> Outcome {
    let r = catch_unwind(AssertUnwindSafe(|| {
        let mut m = new_model();
        for (r, c, ci) in cells { place(&mut m, *r, *c, ci); }
        let res = if cse {
            m.set_user_array_formula(0, ANCHOR.0, ANCHOR.1, 2, 2, formula)
        } else {
            m.set_user_input(0, ANCHOR.0, ANCHOR.1, formula.to_string())
        };
        m.evaluate();
        (scan(&m), anchor_kind(&m, ANCHOR.0, ANCHOR.1), res.is_err())
    }));
    match r {
        Ok((hits, anchor, rejected)) => Outcome { panicked: false, hits, anchor, rejected },
        Err(_) => Outcome { panicked: true, hits: vec![], anchor: "panic", rejected: false },
    }
}

/// Was the value of the formula an ARRAY whose first element is not finite?  Decided on the
/// implementation itself: entered as a 1x1 CSE formula, a scalar result goes through the guard of
/// the scalar branch (-> #NUM!) whereas an array result is written unguarded by the CSE branch.
fn result_is_nonfinite_array(cells: &[(i32, i32, CellIn)], formula: &str) -> bool {
    catch_unwind(AssertUnwindSafe(|| {
        let mut m = new_model();
        for (r, c, ci) in cells { place(&mut m, *r, *c, ci); }
        let _ = m.set_user_array_formula(0, ANCHOR.0, ANCHOR.1, 1, 1, formula);
        m.evaluate();
        scan(&m).iter().any(|h| (h.row, h.col) == ANCHOR && h.kind == "ArrayFormula:Cse")
    }))
    .unwrap_or(false)
}

/// the classes of one evaluated formula, unknown classes first, each with its hits
/// `src` names what produced the value: the classes of the unguarded array sinks are emitted PER SOURCE
/// (`array_branch_nonfinite:<src>`, `coerce_1x1_nonfinite:<src>`); lib/c08.py maps a source listed in
/// known/C08_array_nonfinite_baseline.txt (the sources that reach the sink on the unchanged tree) to the
/// known class and leaves a new source unmapped, i.e. a VIOLATION with the formula as replay.
fn classify(hits: &[Hit], cells: &[(i32, i32, CellIn)], formula: &str, src: &str) -> Vec<(String, Vec<Hit>)> {
    let mut out: Vec<(String, Vec<Hit>)> = vec![];
    for h in hits {
        let mut class = h.class();
        if class == "scalar_branch_nonfinite" && result_is_nonfinite_array(cells, formula) {
            // a formula the static analysis calls Scalar whose value is a 1x1 array: the coercion in
            // set_cells_with_result (`original_range == None`, 1x1) stores array[0][0] without the guard
            class = "coerce_1x1_nonfinite";
        }
        match out.iter_mut().find(|(c, _)| *c == class) {
            Some((_, v)) => v.push(h.clone()),
            None => out.push((class.to_string(), vec![h.clone()])),
        }
    }
    // per source AND per kind of value: `array_branch_nonfinite:LN("inf")->inf`
    for (class, hs) in out.iter_mut() {
        if class == "array_branch_nonfinite" || class == "coerce_1x1_nonfinite" {
            let mut kinds: Vec<&str> = hs.iter().map(|h| if h.value.is_nan() { "nan" } else if h.value > 0.0 { "inf" } else { "-inf" }).collect();
            kinds.sort(); kinds.dedup();
            *class = format!("{class}:{src}->{}", kinds.join("/"));
        }
    }
    out.sort_by_key(|(c, _)| if c == "scalar_branch_nonfinite" { 0 } else if c == "number_cell_nonfinite" { 1 } else if c.starts_with("coerce_1x1_nonfinite") { 2 } else { 3 });
    out
}

fn nontrivial(anchor: &str) -> bool { matches!(anchor, "number" | "text" | "bool") }

// ------------------------------------------------------------------------------------------------
// accumulation (child -> parent through JSON lines)
// ------------------------------------------------------------------------------------------------

#[derive(Default)]
struct Acc {
    checked: u64,
    nontrivial: u64,
    rejected: u64,
    panics: BTreeMap<String, u64>,
    dist: BTreeMap<String, u64>,
    per_class: BTreeMap<String, u64>,
    by_fn: BTreeMap<String, BTreeMap<String, u64>>, // class -> function -> formulas with a hit
    nontrivial_fns: BTreeSet<String>,
    fails: Vec<Value>,
    panic_samples: Vec<Value>,
}
impl Acc {
    fn to_json(&self) -> Value {
        json!({"checked": self.checked, "nontrivial": self.nontrivial, "rejected": self.rejected, "panics": self.panics, "dist": self.dist,
               "per_class": self.per_class, "by_fn": self.by_fn, "nontrivial_fns": self.nontrivial_fns, "fails": self.fails,
               "panic_samples": self.panic_samples})
    }
    fn merge_json(&mut self, v: &Value) {
        self.checked += v["checked"].as_u64().unwrap_or(0);
        self.nontrivial += v["nontrivial"].as_u64().unwrap_or(0);
        self.rejected += v["rejected"].as_u64().unwrap_or(0);
        let addmap = |dst: &mut BTreeMap<String, u64>, src: &Value| {
            if let Some(o) = src.as_object() {
                for (k, n) in o { *dst.entry(k.clone()).or_insert(0) += n.as_u64().unwrap_or(0); }
            }
        };
        addmap(&mut self.panics, &v["panics"]);
        addmap(&mut self.dist, &v["dist"]);
        addmap(&mut self.per_class, &v["per_class"]);
        if let Some(o) = v["by_fn"].as_object() {
            for (class, m) in o { addmap(self.by_fn.entry(class.clone()).or_default(), m); }
        }
        if let Some(a) = v["nontrivial_fns"].as_array() {
            for s in a { if let Some(s) = s.as_str() { self.nontrivial_fns.insert(s.to_string()); } }
        }
        if let Some(a) = v["fails"].as_array() { self.fails.extend(a.iter().cloned()); }
        if let Some(a) = v["panic_samples"].as_array() { self.panic_samples.extend(a.iter().cloned()); }
    }
}

fn fail_record(class: &str, section: &str, formula: &str, form: &str, shape: &str, function: &str, cells: &[(i32, i32, CellIn)], hits: &[Hit]) -> Value {
    let inputs: Vec<Value> = cells.iter().map(|(r, c, ci)| json!({"row": r, "col": c, "value": format!("{:?}", ci)})).collect();
    let hs: Vec<Value> = hits.iter().take(6).map(|h| h.json()).collect();
    let h0 = &hits[0];
    json!({"class": class,
           "input": {"section": section, "formula": formula, "form": form, "shape": shape, "function": function, "input_cells": inputs, "cells": hs},
           "detail": format!("{section}: `{formula}` entered as {form} at H10 ({shape} arguments) leaves {} in {} at row {} col {} ({} non-finite cell(s) in the workbook)",
                             h0.value, h0.kind, h0.row, h0.col, hits.len())})
}

// ------------------------------------------------------------------------------------------------
// child: the function sweep of one shard
// ------------------------------------------------------------------------------------------------

static CUR_START: AtomicU64 = AtomicU64::new(0); // ms since process start + 1 of the running item, 0 = idle

fn child_main(a: &Args) {
    let p = |i: usize| -> usize { a.extra[i].parse().expect("child arg") };
    let (shard, nshards, start_fi, start_k, tmo_ms) = (p(1), p(2), p(3), p(4), p(6) as u64);
    // skips: "fi:tuple" or "fi:*" separated by commas, "-" = none
    let mut skip_tuples: BTreeSet<(usize, usize)> = BTreeSet::new();
    let mut skip_fns: BTreeSet<usize> = BTreeSet::new();
    for s in a.extra[5].split(',').filter(|s| !s.is_empty() && *s != "-") {
        let (f, t) = s.split_once(':').expect("skip");
        let f: usize = f.parse().expect("skip fi");
        if t == "*" { skip_fns.insert(f); } else { skip_tuples.insert((f, t.parse().expect("skip tuple"))); }
    }
    let tmp = format!("{}/tmp/c08", a.out);
    let progress = std::fs::OpenOptions::new().write(true).create(true).truncate(true).open(format!("{tmp}/shard_{shard}.progress")).expect("progress file");
    let mut results = std::fs::OpenOptions::new().append(true).create(true).open(format!("{tmp}/shard_{shard}.jsonl")).expect("results file");

    let t0 = Instant::now();
    std::thread::spawn(move || loop {
        std::thread::sleep(Duration::from_millis(25));
        let s = CUR_START.load(Ordering::Relaxed);
        if s != 0 && t0.elapsed().as_millis() as u64 + 1 > s + tmo_ms {
            std::process::exit(124);
        }
    });

    let vals = values();
    let names = function_names();
    let mut acc = Acc::default();
    let mut reported: BTreeMap<String, (u64, usize)> = BTreeMap::new(); // class -> (records written, shortest formula)
    let mut since_ckpt = 0u64;
    let ckpt = |acc: &mut Acc, results: &mut std::fs::File, next: (usize, usize), done: bool| {
        let mut j = acc.to_json();
        j["t"] = json!("ckpt");
        j["next"] = json!([next.0, next.1]);
        j["done"] = json!(done);
        let mut line = serde_json::to_string(&j).unwrap();
        line.push('\n');
        results.write_all(line.as_bytes()).expect("write results");
        *acc = Acc::default();
    };
    for fi in (0..names.len()).filter(|fi| fi % nshards == shard && *fi >= start_fi) {
        if skip_fns.contains(&fi) { continue; }
        let fname = &names[fi];
        let items = items_for(fname, fi, a.thorough, a.seed, &vals);
        for (k, it) in items.iter().enumerate() {
            if fi == start_fi && k < start_k { continue; }
            if skip_tuples.contains(&(fi, it.tuple)) { continue; }
            {
                use std::os::unix::fs::FileExt;
                let rec = format!("{:>8} {:>8}\n", fi, k);
                let _ = progress.write_all_at(rec.as_bytes(), 0);
            }
            CUR_START.store(t0.elapsed().as_millis() as u64 + 1, Ordering::Relaxed);
            let out = eval_formula(&it.cells, &it.formula, it.form == Form::Cse);
            CUR_START.store(0, Ordering::Relaxed);

            acc.checked += 1;
            *acc.dist.entry(format!("form:{}", it.form.name())).or_insert(0) += 1;
            *acc.dist.entry(format!("shape:{}", it.shape.name())).or_insert(0) += 1;
            *acc.dist.entry(format!("result:{}", out.anchor)).or_insert(0) += 1;
            if out.rejected { acc.rejected += 1; }
            if out.panicked {
                *acc.panics.entry(fname.clone()).or_insert(0) += 1;
                if acc.panic_samples.len() < 2 { acc.panic_samples.push(json!({"function": fname, "formula": it.formula, "form": it.form.name()})); }
            }
            if nontrivial(out.anchor) {
                acc.nontrivial += 1;
                acc.nontrivial_fns.insert(fname.clone());
            }
            if !out.hits.is_empty() {
                // the source: the function, qualified by the wrapper of the dynamic forms (there the
                // operator produced the array, the function the operand)
                let call = format!("{fname}({})", it.tuple_names);
                let src = match it.form { Form::Single | Form::Cse => call, Form::DynMul => format!("{call}~mul"), Form::DynPow => format!("{call}~pow") };
                for (class, hs) in classify(&out.hits, &it.cells, &it.formula, &src) {
                    let base = class.split(':').next().unwrap_or("").to_string();
                    *acc.per_class.entry(class.clone()).or_insert(0) += 1;
                    *acc.by_fn.entry(base).or_default().entry(fname.clone()).or_insert(0) += 1;
                    let cap = if class.contains(':') { 2 } else { 6 };
                    let e = reported.entry(class.clone()).or_insert((0, usize::MAX));
                    if e.0 < cap || it.formula.len() < e.1 {
                        e.0 += 1;
                        e.1 = e.1.min(it.formula.len());
                        acc.fails.push(fail_record(&class, "function_sweep", &it.formula, it.form.name(), it.shape.name(), fname, &it.cells, &hs));
                    }
                }
            }
            since_ckpt += 1;
            if since_ckpt >= 100 {
                since_ckpt = 0;
                ckpt(&mut acc, &mut results, (fi, k + 1), false);
            }
        }
        since_ckpt = 0;
        ckpt(&mut acc, &mut results, (fi + 1, 0), false);
    }
    ckpt(&mut acc, &mut results, (names.len(), 0), true);
}

// ------------------------------------------------------------------------------------------------
// parent: shard driver
// ------------------------------------------------------------------------------------------------

struct ShardOut { acc: Acc, skipped: Vec<Value>, restarts: u64 }

fn run_shard(exe: &std::path::Path, a: &Args, shard: usize, nshards: usize, tmo_ms: u64, mem_kb: u64, hard_limit: Duration) -> ShardOut {
    let tmp = format!("{}/tmp/c08", a.out);
    let res_path = format!("{tmp}/shard_{shard}.jsonl");
    let prog_path = format!("{tmp}/shard_{shard}.progress");
    let _ = std::fs::remove_file(&res_path);
    let vals = values();
    let names = function_names();
    let mut skips: Vec<String> = vec![];
    let mut skipped: Vec<Value> = vec![];
    let mut offenders_per_fn: BTreeMap<usize, u32> = BTreeMap::new();
    let mut start = (0usize, 0usize);
    let mut restarts = 0u64;
    let t0 = Instant::now();
    loop {
        let _ = std::fs::remove_file(&prog_path);
        let skip_arg = if skips.is_empty() { "-".to_string() } else { skips.join(",") };
        let mut child = std::process::Command::new("sh")
            .arg("-c")
            .arg(format!("ulimit -v {mem_kb}; exec \"$0\" \"$@\""))
            .arg(exe)
            .arg(a.seed.to_string())
            .arg(if a.thorough { "thorough" } else { "quick" })
            .arg(&a.out)
            .args(["child", &shard.to_string(), &nshards.to_string(), &start.0.to_string(), &start.1.to_string(), &skip_arg, &tmo_ms.to_string()])
            .stdin(std::process::Stdio::null())
            .stdout(std::process::Stdio::null())
            .stderr(std::process::Stdio::null())
            .spawn()
            .expect("spawn child");
        let status = loop {
            match child.try_wait() {
                Ok(Some(st)) => break Some(st),
                Ok(None) => {
                    if t0.elapsed() > hard_limit {
                        let _ = child.kill();
                        let _ = child.wait();
                        break None;
                    }
                    std::thread::sleep(Duration::from_millis(20));
                }
                Err(_) => break None,
            }
        };
        // committed prefix of the results file = everything up to the last checkpoint line
        let text = std::fs::read_to_string(&res_path).unwrap_or_default();
        let mut committed = 0usize;
        let mut done = false;
        let mut pos = 0usize;
        for line in text.split_inclusive('\n') {
            pos += line.len();
            if !line.ends_with('\n') { break; }
            if let Ok(v) = serde_json::from_str::<Value>(line) {
                if v["t"] == "ckpt" {
                    committed = pos;
                    start = (v["next"][0].as_u64().unwrap_or(0) as usize, v["next"][1].as_u64().unwrap_or(0) as usize);
                    done = v["done"].as_bool().unwrap_or(false);
                }
            }
        }
        if committed < text.len() {
            if let Ok(f) = std::fs::OpenOptions::new().write(true).open(&res_path) { let _ = f.set_len(committed as u64); }
        }
        if done { break; }
        let Some(status) = status else {
            skipped.push(json!({"shard": shard, "reason": "shard exceeded the hard wall-clock limit; remaining functions of the shard not swept", "resume_at": [start.0, start.1]}));
            break;
        };
        let reason = {
            use std::os::unix::process::ExitStatusExt;
            match (status.code(), status.signal()) {
                (Some(124), _) => format!("timeout (> {tmo_ms} ms for one formula)"),
                (Some(c), _) => format!("child exit code {c}"),
                (None, Some(s)) => format!("child killed by signal {s} (6 = abort, typically allocation failure under ulimit -v {mem_kb} kB; 11 = stack overflow)"),
                _ => "child died".to_string(),
            }
        };
        let prog = std::fs::read_to_string(&prog_path).unwrap_or_default();
        let mut itp = prog.split_whitespace().filter_map(|x| x.parse::<usize>().ok());
        let (Some(fi), Some(k)) = (itp.next(), itp.next()) else {
            skipped.push(json!({"shard": shard, "reason": format!("{reason} before the first formula; shard abandoned"), "resume_at": [start.0, start.1]}));
            break;
        };
        let items = items_for(&names[fi], fi, a.thorough, a.seed, &vals);
        let it = &items[k.min(items.len() - 1)];
        let n_same = items.iter().enumerate().filter(|(j, x)| *j >= k && x.tuple == it.tuple).count();
        let cnt = offenders_per_fn.entry(fi).or_insert(0);
        *cnt += 1;
        let cap = if a.thorough { 24 } else { 8 };
        if *cnt > cap {
            skips.push(format!("{fi}:*"));
            skipped.push(json!({"function": names[fi], "formula": it.formula, "form": it.form.name(), "shape": it.shape.name(), "reason": reason,
                                "skipped": format!("rest of the function (more than {cap} offending tuples)"), "skipped_items": items.len() - k}));
            start = (fi + 1, 0);
        } else {
            skips.push(format!("{fi}:{}", it.tuple));
            skipped.push(json!({"function": names[fi], "formula": it.formula, "form": it.form.name(), "shape": it.shape.name(), "reason": reason,
                                "skipped": "this formula and the remaining shapes/forms of the same argument tuple", "skipped_items": n_same}));
        }
        restarts += 1;
        if restarts > 400 {
            skipped.push(json!({"shard": shard, "reason": "more than 400 restarts; shard abandoned", "resume_at": [start.0, start.1]}));
            break;
        }
    }
    let mut acc = Acc::default();
    for line in std::fs::read_to_string(&res_path).unwrap_or_default().lines() {
        if let Ok(v) = serde_json::from_str::<Value>(line) { acc.merge_json(&v); }
    }
    ShardOut { acc, skipped, restarts }
}

// ------------------------------------------------------------------------------------------------
// parent: in-process sections
// ------------------------------------------------------------------------------------------------

fn bits(x: f64) -> String { format!("0x{:016x}", x.to_bits()) }

fn formatted(m: &Model, row: i32, col: i32) -> String {
    match catch_unwind(AssertUnwindSafe(|| m.get_formatted_cell_value(0, row, col))) {
        Ok(Ok(s)) => s,
        Ok(Err(e)) => format!("Err({e})"),
        Err(_) => "PANIC".to_string(),
    }
}

fn describe_cell(m: &Model, row: i32, col: i32) -> Value {
    let cell = m.workbook.worksheets[0].sheet_data.get(&row).and_then(|r| r.get(&col)).cloned();
    let num = match &cell {
        Some(Cell::NumberCell { v, .. }) => Some(*v),
        Some(Cell::CellFormula { v: FormulaValue::Number(x), .. }) | Some(Cell::ArrayFormula { v: FormulaValue::Number(x), .. }) => Some(*x),
        Some(Cell::SpillCell { v: SpillValue::Number(x), .. }) => Some(*x),
        _ => None,
    };
    json!({"row": row, "col": col, "cell": format!("{:?}", cell), "number": num.map(|x| format!("{x}")), "bits": num.map(bits),
           "formatted": formatted(m, row, col),
           "content": m.get_localized_cell_content(0, row, col).unwrap_or_else(|e| format!("Err({e})"))})
}

/// the two known findings replayed on the real code (what is stored, what is displayed)
fn repro() -> Value {
    let mut out = serde_json::Map::new();
    let r = catch_unwind(AssertUnwindSafe(|| {
        let mut m = new_model();
        let res = m.set_user_input(0, 1, 1, "1e999".to_string());
        m.evaluate();
        json!({"input": "1e999", "set_user_input": format!("{:?}", res), "A1": describe_cell(&m, 1, 1)})
    }));
    out.insert("F08_typed_1e999".into(), r.unwrap_or(json!("PANIC")));
    let r = catch_unwind(AssertUnwindSafe(|| {
        let mut m = new_model();
        let res = m.set_user_input(0, 1, 1, "={1E308,1}*10".to_string());
        m.evaluate();
        json!({"input": "={1E308,1}*10", "set_user_input": format!("{:?}", res), "A1": describe_cell(&m, 1, 1), "B1": describe_cell(&m, 1, 2)})
    }));
    out.insert("F09_dynamic".into(), r.unwrap_or(json!("PANIC")));
    let r = catch_unwind(AssertUnwindSafe(|| {
        let mut m = new_model();
        let res = m.set_user_array_formula(0, 1, 1, 2, 2, "={1E308,1}*10");
        m.evaluate();
        json!({"input": "={1E308,1}*10 as CSE over A1:B2", "set_user_array_formula": format!("{:?}", res), "A1": describe_cell(&m, 1, 1), "B1": describe_cell(&m, 1, 2), "A2": describe_cell(&m, 2, 1)})
    }));
    out.insert("F09_cse".into(), r.unwrap_or(json!("PANIC")));
    let r = catch_unwind(AssertUnwindSafe(|| {
        let mut m = new_model();
        let _ = m.set_user_input(0, 1, 1, "=1E308*10".to_string());
        m.evaluate();
        json!({"input": "=1E308*10 (scalar branch, guarded)", "A1": describe_cell(&m, 1, 1)})
    }));
    out.insert("scalar_guard".into(), r.unwrap_or(json!("PANIC")));
    Value::Object(out)
}

/// is the text a plain decimal numeral with an exponent (after stripping sign, currency, percent, group separators)?
fn is_exponent_numeral(t: &str) -> bool {
    let s: String = t.trim().chars().filter(|c| !matches!(c, '$' | '€' | '%' | ',' | ' ')).collect();
    let s = s.strip_prefix(['-', '+']).unwrap_or(&s);
    let Some(epos) = s.find(['e', 'E']) else { return false };
    let (mant, exp) = (&s[..epos], &s[epos + 1..]);
    let exp = exp.strip_prefix(['-', '+']).unwrap_or(exp);
    let mant_ok = !mant.is_empty() && mant.chars().all(|c| c.is_ascii_digit() || c == '.') && mant.matches('.').count() <= 1 && mant.chars().any(|c| c.is_ascii_digit());
    mant_ok && !exp.is_empty() && exp.chars().all(|c| c.is_ascii_digit())
}
/// a plain decimal numeral without exponent
fn is_digit_numeral(t: &str) -> bool {
    let s: String = t.trim().chars().filter(|c| !matches!(c, '$' | '€' | '%' | ',' | ' ')).collect();
    let s = s.strip_prefix(['-', '+']).unwrap_or(&s);
    !s.is_empty() && s.chars().all(|c| c.is_ascii_digit() || c == '.') && s.matches('.').count() <= 1 && s.chars().any(|c| c.is_ascii_digit())
}

fn typed_texts(thorough: bool, rng: &mut Rng) -> Vec<String> {
    let mut v: Vec<String> = [
        "1e999", "-1e999", "+1e999", "1E309", "1e308", "1.8e308", "1.7976931348623157e308", "1.7976931348623159e308", "1.797693134862316e308",
        "inf", "-inf", "+inf", "Inf", "INF", "nan", "NaN", "NAN", "-nan", "infinity", "-infinity", "Infinity", "+Infinity",
        "1e999%", "$1e999", "1e999$", "€1e999", "1e999€", "-$1e999", "$-1e999", "1,000e999", "1,000,000e400", "1.5e+999", "1e+309", "1E+400",
        "0e999", "0.0e999", "1e-999", "-1e-999", "1e99999999999999999999", "9e307", "9e308", "10e307", "100e306", "0.1e310", ".1e310",
        "1e", "1e+", "e999", "1e999e1", "1e9999999", "1 e999", "1e 999", "(1e999)", "1e999 ", " 1e999", "1e999.5", "1/0", "1e400/1",
        "12:00e999", "1e999:00", "1e400%%", "1e310%", "1e309%", "1.0E310", "00001e999", "1e0999", "1_000e999",
        "'1e999", "=1e999", "=-1e999", "=1e999%", "=1E308*10",
    ].iter().map(|s| s.to_string()).collect();
    v.push("9".repeat(400));
    v.push(format!("-{}", "9".repeat(400)));
    v.push(format!("1{}", "0".repeat(308)));
    v.push(format!("1{}", "0".repeat(309)));
    v.push(format!("1{}.5", "0".repeat(310)));
    v.push(format!("${}", "9".repeat(310)));
    v.push(format!("{}%", "9".repeat(312)));
    v.push(format!("1{}", ",000".repeat(103)));
    v.push(format!("{}e-90", "9".repeat(400)));
    let n = if thorough { 4000 } else { 400 };
    for _ in 0..n {
        // random numerals around the overflow boundary
        let mant = match rng.below(4) { 0 => "1".to_string(), 1 => format!("{}", rng.range(1, 9999)), 2 => format!("{}.{}", rng.range(0, 99), rng.range(0, 99999)), _ => format!("0.{}", rng.range(1, 999)) };
        let exp = match rng.below(3) { 0 => rng.range(300, 320), 1 => rng.range(-400, 400), _ => rng.range(305, 100000) };
        let e = if rng.chance(1, 2) { "e" } else { "E" };
        let sign = if rng.chance(1, 4) { "-" } else { "" };
        let suffix = match rng.below(8) { 0 => "%", 1 => "$", _ => "" };
        let prefix = match rng.below(8) { 0 => "$", 1 => "€", _ => "" };
        let plus = if exp >= 0 && rng.chance(1, 3) { "+" } else { "" };
        v.push(format!("{sign}{prefix}{mant}{e}{plus}{exp}{suffix}"));
    }
    v
}

const OPERATOR_FORMULAS: [&str; 64] = [
    "={1E308,1}*10", "={\"inf\",1}*1", "={10}^400", "=A1:A2*10", "=-{1E308}*10", "={1E308,1}&\"\"", "=-{1E308,1}", "=-{-1E308,1}*10",
    "={1E308,1}%", "={1E308,1}%*1000", "={1E308,1}+{1E308,1}", "={-1E308,1}-{1E308,1}", "={1,1}/{1E-308,1}", "={1,1}/{1E-308,1}/{1E-308,1}",
    "={1E308}*10", "={1E308}+1E308", "=1E308*10", "=10^400", "=1/1E-308/1E-308", "=\"inf\"*1", "=\"nan\"+0", "=\"infinity\"*1", "=\"1e999\"*1",
    "={\"nan\",1}+0", "={\"1e999\",1}*1", "={\"infinity\",1}*1", "={\"-inf\",1}*1", "=SUM({1E308,1E308})", "=A1:A2+A1:A2", "=A1:A2^2", "=A1:A2/B1:B2",
    "=-A1:A2*10", "=A1:A2%*1000", "=A1:A2-C1:C2", "=A1*10", "=A1:A1*10", "=1e999", "={1e999}", "={1e999,1}", "=-1e999", "={-1e999;1}",
    "={1,2}*1e999", "={0,1}*1e999", "={1E308,1}*{10;1}", "={1E308;1}*{10,1}", "={0,1}/{0,1}", "={0}/{0}", "={0,1}^{-1,1}", "={-1,1}^{0.5,1}",
    "={1E308,1}*B1", "=B1*{1E308,1}", "=B1:B2*A1", "=IF({1,0},1E308*10,1)", "=IF({1,0},A1*10,1)", "=IFERROR({1E308,1}*10,0)", "=ABS({1E308,1}*10)",
    "=SUM({1E308,1}*10)", "=+{1E308,1}*10", "={1E308,1}*10*0", "={1E308,1}*10-{1E308,1}*10", "=@{1E308,1}*10", "=({1E308,1}*10)", "={1E308,1}*10=1", "={1E308,1}^2",
];

struct Parent { or: Oracle, dist: BTreeMap<String, u64>, panics: BTreeMap<String, u64>, nontrivial: u64, fails: Vec<Value> }

fn operators_section(p: &mut Parent) {
    // A1 = 1E308, A2 = 1, B1 = 10, B2 = 1E-308, C1 = -1E308, C2 = 1
    let cells: Vec<(i32, i32, CellIn)> = vec![
        (1, 1, CellIn::Num(1e308)), (2, 1, CellIn::Num(1.0)), (1, 2, CellIn::Num(10.0)), (2, 2, CellIn::Num(1e-308)),
        (1, 3, CellIn::Num(-1e308)), (2, 3, CellIn::Num(1.0)),
    ];
    for f in OPERATOR_FORMULAS.iter() {
        for (form, cse) in [("single", false), ("cse", true)] {
            let out = eval_formula(&cells, f, cse);
            p.or.checked += 1;
            *p.dist.entry(format!("operators:{form}")).or_insert(0) += 1;
            if out.panicked { *p.panics.entry("(operators)".to_string()).or_insert(0) += 1; }
            if nontrivial(out.anchor) { p.nontrivial += 1; }
            if !out.hits.is_empty() {
                for (class, hs) in classify(&out.hits, &cells, f, &format!("expr:{f}")) {
                    p.fails.push(fail_record(&class, "operators", f, form, "operator", "", &cells, &hs));
                }
            }
        }
    }
}

fn typed_section(p: &mut Parent, thorough: bool, seed: u64) -> Vec<Value> {
    let mut rng = Rng::new(seed ^ 0xC08);
    let mut stored_extremes: Vec<Value> = vec![];
    for t in typed_texts(thorough, &mut rng) {
        let r = catch_unwind(AssertUnwindSafe(|| {
            let mut m = new_model();
            let res = m.set_user_input(0, 1, 1, t.clone());
            m.evaluate();
            let hits = scan(&m);
            let shown = if hits.is_empty() { String::new() } else { formatted(&m, 1, 1) };
            (hits, anchor_kind(&m, 1, 1), res.is_err(), shown)
        }));
        p.or.checked += 1;
        *p.dist.entry("typed:set_user_input".to_string()).or_insert(0) += 1;
        let Ok((hits, anchor, _rej, shown)) = r else {
            *p.panics.entry("(typed)".to_string()).or_insert(0) += 1;
            continue;
        };
        if nontrivial(anchor) { p.nontrivial += 1; }
        if hits.is_empty() { continue; }
        let short: String = if t.len() > 60 { format!("{}…({} chars)", &t[..40], t.len()) } else { t.clone() };
        let h0 = &hits[0];
        // class by a predicate on the typed text and on where the number sits
        let class: String = if h0.kind != "NumberCell" {
            classify(&hits, &[], &t, &format!("expr:{short}"))[0].0.clone() // typed formulas: same classes as everywhere else
        } else if is_exponent_numeral(&t) {
            "typed_exponent_overflow".to_string()
        } else if is_digit_numeral(&t) {
            "typed_digits_overflow".to_string()
        } else {
            "typed_nonfinite_other".to_string()
        };
        if stored_extremes.len() < 12 { stored_extremes.push(json!({"typed": short, "stored": format!("{}", h0.value), "formatted": shown})); }
        p.fails.push(json!({"class": class,
            "input": {"section": "typed", "typed": t, "formula": short, "form": "set_user_input", "cells": hits.iter().map(|h| h.json()).collect::<Vec<_>>()},
            "detail": format!("typing `{short}` into A1 stores {} in a {} (displayed as `{shown}`)", h0.value, h0.kind)}));
    }
    stored_extremes
}

fn api_section(p: &mut Parent) {
    for (name, x) in [("f64::INFINITY", f64::INFINITY), ("f64::NEG_INFINITY", f64::NEG_INFINITY), ("f64::NAN", f64::NAN), ("f64::MAX", f64::MAX), ("f64::MIN_POSITIVE", f64::MIN_POSITIVE), ("-0.0", -0.0)] {
        let r = catch_unwind(AssertUnwindSafe(|| {
            let mut m = new_model();
            let res = m.update_cell_with_number(0, 1, 1, x);
            m.evaluate();
            (scan(&m), res.is_err(), formatted(&m, 1, 1))
        }));
        p.or.checked += 1;
        *p.dist.entry("api:update_cell_with_number".to_string()).or_insert(0) += 1;
        let Ok((hits, rejected, shown)) = r else { *p.panics.entry("(api)".to_string()).or_insert(0) += 1; continue; };
        if !rejected { p.nontrivial += 1; }
        if let Some(h0) = hits.first() {
            p.fails.push(json!({"class": "api_number_unchecked",
                "input": {"section": "api", "formula": format!("update_cell_with_number(0,1,1,{name})"), "form": "api", "cells": hits.iter().map(|h| h.json()).collect::<Vec<_>>()},
                "detail": format!("Model::update_cell_with_number(0,1,1,{name}) returns Ok and stores {} in a {} (displayed as `{shown}`)", h0.value, h0.kind)}));
        }
    }
}

// ------------------------------------------------------------------------------------------------

/// model-vs-implementation cases (cases/c08.in + cases/c08.impl): the SINK model
/// (Store.write with its scalar / dynamic / CSE / 1x1 branches) against set_cells_with_result,
/// on core-language formulas whose results overflow, in single-cell and CSE form; observed: the
/// 3x3 block at the formula cell, so non-finite numbers must appear in exactly the same cells.
fn model_cases(cs: &mut Cases, _a: &Args) {
    let formulas = [
        "=1E308*10", "=-1E308*10", "=1E308+1E308", "=10^400", "=A1*10", "=A1^2", "=A1/1E-300", "=-A1*10", "=A1%*1E300*1E10",
        "={1E308,1}*10", "={1E308;1}*10", "={10}^400", "={1E308}*10", "=A1:A2*10", "=A1:B1*10", "=A1:A2^2", "=-A1:A2*10",
        "=A1:A2*A1:B1", "={\"inf\",1}*1", "=\"inf\"*1", "={\"nan\",1}+0", "=ABS(A1:A2*10)", "=ABS({1E308,1}*10)",
        "=SUM(A1:A2*10)", "=SUM(A1,A1)", "=MAX(A1:A2)*10", "=MIN(A1*10,1)", "=AVERAGE(A1*10,1)", "=ROUND(A1*10,2)",
        "=IF(TRUE,A1*10,1)", "=IF({TRUE,FALSE},A1*10,1)", "=IF(A3:A4,A1:A2*10,7)", "=IFERROR(A1*10,1)", "=IFERROR({1E308,1}*10,1)",
        "=IFERROR(A1:A2*10,1)", "=ISNUMBER(A1*10)", "=A1*10&\"\"", "=A1:A2*10&\"\"", "=A1*10=A1*10", "=A1:A2*10>0", "=LEN(A1*10)",
        "=COUNT(A1*10)", "=COUNTA(A1:A2*10)", "=@A1:A2*10", "=A1:A2", "=A1:B2*1E308", "=1/0", "=A2/B2", "={1,2}/{0,1}",
    ];
    // the typed path (set_user_input -> parse_formatted_number -> parse_number's finiteness test, /repo 6e3cec0):
    // plain numerals in Rust's float grammar, so that the runner needs no cast table; what A1 holds afterwards
    let big = "9".repeat(400);
    let typed: Vec<String> = ["1e999", "-1e999", "1E309", "1e308", "1.8e308", "1.7e308", "-1.8e308", "123", "0", "2.5", "1e5", "1.5e10", "1e-400", "-7",
                              "12345678901234567890", "0.1", "1e0", "17e307", "18e307"].iter().map(|s| s.to_string()).chain([big.clone(), format!("-{big}"), format!("{}.5", &big[..310]), "1".to_string() + &"0".repeat(308), "1".to_string() + &"0".repeat(309)]).collect();
    for t in &typed {
        let r = catch_unwind(AssertUnwindSafe(|| {
            let mut m = Model::new_empty("m", "en", "UTC", "en").ok()?;
            m.set_user_input(0, 1, 1, t.clone()).ok()?;
            Some(dump::cell_obs(&m, 0, 1, 1))
        }));
        if let Ok(Some(obs)) = r { cs.case(&format!("ty {}", wire(t)), &obs); }
    }
    // the public API (guarded since /repo 0aeb22c): Err or the stored number
    for x in [f64::INFINITY, f64::NEG_INFINITY, f64::NAN, f64::MAX, f64::MIN, f64::MIN_POSITIVE, -0.0, 0.0, 1.5, -1e308, 5e-324] {
        let r = catch_unwind(AssertUnwindSafe(|| {
            let mut m = Model::new_empty("m", "en", "UTC", "en").ok()?;
            Some(match m.update_cell_with_number(0, 1, 1, x) { Ok(()) => dump::cell_obs(&m, 0, 1, 1), Err(_) => "err".to_string() })
        }));
        if let Ok(Some(obs)) = r { cs.case(&format!("api {}", dump::bits(x)), &obs); }
    }
    for form in 0..3 {
        for f in formulas {
            let r = catch_unwind(AssertUnwindSafe(|| {
                let mut m = Model::new_empty("m", "en", "UTC", "en").ok()?;
                m.update_cell_with_number(0, 1, 1, 1e308).ok()?; m.update_cell_with_number(0, 2, 1, 1.0).ok()?;
                m.update_cell_with_number(0, 1, 2, -1e308).ok()?; m.update_cell_with_bool(0, 3, 1, true).ok()?;
                m.update_cell_with_bool(0, 4, 1, false).ok()?;
                let (fr, fc) = (2, 30);
                match form {
                    0 => m.set_user_input(0, fr, fc, f.to_string()).ok()?,
                    1 => m.set_user_array_formula(0, fr, fc, 2, 2, f).ok()?,
                    _ => m.set_user_array_formula(0, fr, fc, 1, 1, f).ok()?,
                }
                let wb = dump::workbook(&m, false)?;
                let order = dump::eval_order(&m);
                let mut q = Vec::new();
                for r in fr..fr + 3 { for c in fc..fc + 3 { q.push((0u32, r, c)); } }
                m.evaluate();
                let obs: Vec<String> = q.iter().map(|&(s, r, c)| dump::cell_obs(&m, s, r, c)).collect();
                Some((format!("ev {} {} {}", dump::cells_str(&order), dump::cells_str(&q), wb), obs.join(" ")))
            }));
            if let Ok(Some((line, obs))) = r { cs.case(&line, &obs); }
        }
    }
}

fn main() {
    let a = Args::parse();
    if a.extra.first().map(|s| s.as_str()) == Some("child") {
        child_main(&a);
        return;
    }
    if a.extra.first().map(|s| s.as_str()) == Some("repro") {
        println!("{}", serde_json::to_string_pretty(&repro()).unwrap());
        return;
    }
    if a.extra.first().map(|s| s.as_str()) == Some("eval") {
        // vh_c08 1 quick /verif/cases eval single|cse '<formula>'   (cells as in the operators section)
        let cells: Vec<(i32, i32, CellIn)> = vec![(1, 1, CellIn::Num(1e308)), (2, 1, CellIn::Num(1.0)), (1, 2, CellIn::Num(10.0)), (2, 2, CellIn::Num(1e-308))];
        let out = eval_formula(&cells, &a.extra[2], a.extra[1] == "cse");
        println!("panicked={} anchor={} rejected={} hits={}", out.panicked, out.anchor, out.rejected,
                 serde_json::to_string(&out.hits.iter().map(|h| h.json()).collect::<Vec<_>>()).unwrap());
        return;
    }
    let t_start = Instant::now();
    let tmp = format!("{}/tmp/c08", a.out);
    std::fs::create_dir_all(&tmp).expect("tmp dir");
    let mut cs = Cases::new(&a.out, "c08");
    model_cases(&mut cs, &a);

    let mut p = Parent { or: Oracle::default(), dist: BTreeMap::new(), panics: BTreeMap::new(), nontrivial: 0, fails: vec![] };
    let repro_v = repro();
    operators_section(&mut p);
    let typed_stored = typed_section(&mut p, a.thorough, a.seed);
    api_section(&mut p);
    let mut imp_cases: Vec<(String, String)> = vec![];
    let xlsx_v = xlsx::xlsx_section(&mut p.or, &mut p.dist, &mut p.fails, &mut p.nontrivial, &tmp, &mut imp_cases);
    for (line, obs) in &imp_cases { cs.case(line, obs); }
    let t_inproc = t_start.elapsed().as_secs_f64();

    // ---- the function sweep, sharded over child processes --------------------------------------
    let names = function_names();
    let vals = values();
    let nshards: usize = std::env::var("C08_SHARDS").ok().and_then(|s| s.parse().ok()).unwrap_or(12);
    let tmo_ms: u64 = std::env::var("C08_TIMEOUT_MS").ok().and_then(|s| s.parse().ok()).unwrap_or(if a.thorough { 4000 } else { 2500 });
    let mem_kb: u64 = std::env::var("C08_MEM_KB").ok().and_then(|s| s.parse().ok()).unwrap_or(3_000_000);
    let hard = Duration::from_secs(if a.thorough { 1500 } else { 240 });
    let exe = std::env::current_exe().expect("current_exe");
    let mut shard_outs: Vec<ShardOut> = vec![];
    std::thread::scope(|s| {
        let handles: Vec<_> = (0..nshards).map(|i| { let exe = &exe; let a = &a; s.spawn(move || run_shard(exe, a, i, nshards, tmo_ms, mem_kb, hard)) }).collect();
        for h in handles { shard_outs.push(h.join().expect("shard thread")); }
    });
    let mut sweep = Acc::default();
    let mut skipped: Vec<Value> = vec![];
    let mut restarts = 0u64;
    for so in shard_outs {
        sweep.merge_json(&so.acc.to_json());
        skipped.extend(so.skipped);
        restarts += so.restarts;
    }

    // ---- merge ---------------------------------------------------------------------------------
    let mut or = p.or;
    or.checked += sweep.checked;
    let mut all_fails = p.fails;
    let parent_fail_count = all_fails.len();
    // exact per-class counts: parent sections count one per record, the sweep carries its own counters
    let mut per_class: BTreeMap<String, u64> = BTreeMap::new();
    for f in &all_fails { *per_class.entry(f["class"].as_str().unwrap_or("?").to_string()).or_insert(0) += 1; }
    for (k, n) in &sweep.per_class { *per_class.entry(k.clone()).or_insert(0) += n; }
    all_fails.extend(sweep.fails.iter().cloned());
    // shortest witnesses first (stable: by formula length, then text)
    all_fails.sort_by(|x, y| {
        let fx = x["input"]["formula"].as_str().unwrap_or("");
        let fy = y["input"]["formula"].as_str().unwrap_or("");
        (x["class"].as_str(), fx.len(), fx, x["input"]["form"].as_str()).cmp(&(y["class"].as_str(), fy.len(), fy, y["input"]["form"].as_str()))
    });
    all_fails.dedup_by(|y, x| x["class"] == y["class"] && x["input"]["formula"] == y["input"]["formula"] && x["input"]["form"] == y["input"]["form"]);
    for f in &all_fails {
        or.fail(f["class"].as_str().unwrap_or("?"), f["input"].clone(), f["detail"].as_str().unwrap_or("").to_string());
    }
    or.per_class = per_class;
    let _ = parent_fail_count;

    let mut dist = p.dist;
    for (k, n) in &sweep.dist { *dist.entry(format!("sweep:{k}")).or_insert(0) += n; }
    let mut panics = p.panics;
    for (k, n) in &sweep.panics { *panics.entry(k.clone()).or_insert(0) += n; }
    let never_nontrivial: Vec<&String> = names.iter().filter(|n| !sweep.nontrivial_fns.contains(*n)).collect();

    // samples: 10 formulas of the sweep chosen from the seed
    let mut rng = Rng::new(a.seed ^ 0x5A);
    let mut samples: Vec<String> = vec![];
    for _ in 0..10 {
        let fi = rng.below(names.len() as u64) as usize;
        let items = items_for(&names[fi], fi, a.thorough, a.seed, &vals);
        let it = &items[rng.below(items.len() as u64) as usize];
        samples.push(format!("{} [{} / {}]", it.formula, it.form.name(), it.shape.name()));
    }
    // functions that leave a non-finite number somewhere, per class (name -> formulas)
    let functions_with_nonfinite: BTreeMap<String, usize> = sweep.by_fn.iter().map(|(c, m)| (c.clone(), m.len())).collect();

    let wall = t_start.elapsed().as_secs_f64();
    cs.finish(json!({
        "oracle_checked": or.checked,
        "oracle_failures": or.failures,
        "oracle_failures_per_class": or.per_class,
        "functions": names.len(),
        "distribution": dist,
        "panics": panics,
        "panic_samples": sweep.panic_samples.iter().take(20).collect::<Vec<_>>(),
        "skipped_timeouts": skipped,
        "child_restarts": restarts,
        "samples": samples,
        "distinct_nontrivial": p.nontrivial + sweep.nontrivial,
        "sweep_formulas": sweep.checked,
        "sweep_rejected_by_setter": sweep.rejected,
        "functions_with_nonfinite_per_class": functions_with_nonfinite,
        "nonfinite_by_function": sweep.by_fn,
        "functions_never_nontrivial": never_nontrivial,
        "typed_stored_nonfinite_samples": typed_stored,
        "repro": repro_v,
        "xlsx": xlsx_v,
        "exhaustive": true,
        "settings": {"shards": nshards, "timeout_ms_per_formula": tmo_ms, "ulimit_v_kb": mem_kb},
        "wall_s": {"in_process_sections": t_inproc, "total": wall},
    }));
}
