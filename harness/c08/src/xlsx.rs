//! xlsx import of `<v>`: a workbook written by IronCalc's own exporter, with the text of one `<v>`
//! element replaced by an overflowing / non-finite numeral, read back through `load_from_xlsx`.
use crate::{formatted, scan};
use ironcalc::export::save_xlsx_to_writer;
use ironcalc::import::load_from_xlsx;
use ironcalc_base::Model;
use serde_json::{json, Value};
use std::collections::BTreeMap;
use std::io::{Cursor, Read, Write};
use std::panic::{catch_unwind, AssertUnwindSafe};
use vh_common::Oracle;

const SHEET: &str = "xl/worksheets/sheet1.xml";

fn base_workbook() -> Result<Vec<u8>, String> {
    let mut m = Model::new_empty("c08", "en", "UTC", "en")?;
    m.set_user_input(0, 1, 1, "12345".to_string())?; // A1: plain number
    m.set_user_input(0, 1, 2, "=A1*2".to_string())?; // B1: formula, cached value 24690
    m.evaluate();
    let w = save_xlsx_to_writer(&m, Cursor::new(Vec::new())).map_err(|e| format!("{e:?}"))?;
    Ok(w.into_inner())
}

/// copy of the archive with `from` replaced by `to` in the first worksheet part
fn patch(bytes: &[u8], from: &str, to: &str) -> Result<(Vec<u8>, bool), String> {
    let mut ar = zip::ZipArchive::new(Cursor::new(bytes)).map_err(|e| format!("{e:?}"))?;
    let mut zw = zip::ZipWriter::new(Cursor::new(Vec::new()));
    let opt = zip::write::FileOptions::default();
    let mut replaced = false;
    for i in 0..ar.len() {
        let mut f = ar.by_index(i).map_err(|e| format!("{e:?}"))?;
        let name = f.name().to_string();
        if f.is_dir() {
            zw.add_directory(name.trim_end_matches('/'), opt).map_err(|e| format!("{e:?}"))?;
            continue;
        }
        let mut data = vec![];
        f.read_to_end(&mut data).map_err(|e| format!("{e:?}"))?;
        if name == SHEET {
            let s = String::from_utf8(data).map_err(|e| format!("{e:?}"))?;
            replaced = s.contains(from);
            data = s.replacen(from, to, 1).into_bytes();
        }
        zw.start_file(name, opt).map_err(|e| format!("{e:?}"))?;
        zw.write_all(&data).map_err(|e| format!("{e:?}"))?;
    }
    let out = zw.finish().map_err(|e| format!("{e:?}"))?;
    Ok((out.into_inner(), replaced))
}

/// `cases`: (input line, observation) pairs for the model tie of the import conversion: what the patched cell holds right after load
pub fn xlsx_section(or: &mut Oracle, dist: &mut BTreeMap<String, u64>, fails: &mut Vec<Value>, nontrivial: &mut u64, tmp: &str, cases: &mut Vec<(String, String)>) -> Value {
    let base = match base_workbook() {
        Ok(b) => b,
        Err(e) => return json!({"status": "export failed", "error": e}),
    };
    let payloads = ["1e999", "-1e999", "1E309", "1.8e308", "inf", "-inf", "INF", "Infinity", "infinity", "NaN", "nan", "-NaN", "1e308", "12345.5", "", "abc", "1e-400", "-0", "17e307", "18e307", "+5", ".5", "5.", "1e", "0x10"];
    let targets = [("number_cell", "<v>12345</v>"), ("formula_cached_value", "<v>24690</v>")];
    let mut rows: Vec<Value> = vec![];
    let mut status = "ok".to_string();
    for (tname, from) in targets {
        for p in payloads {
            let (bytes, replaced) = match patch(&base, from, &format!("<v>{p}</v>")) {
                Ok(x) => x,
                Err(e) => { status = format!("patch failed: {e}"); continue; }
            };
            if !replaced { status = format!("the exported sheet does not contain {from}"); continue; }
            let path = format!("{tmp}/c08_{tname}.xlsx");
            if std::fs::write(&path, &bytes).is_err() { status = "cannot write the temporary xlsx".to_string(); continue; }
            or.checked += 1;
            *dist.entry(format!("xlsx:{tname}")).or_insert(0) += 1;
            let r = catch_unwind(AssertUnwindSafe(|| {
                let mut m = match load_from_xlsx(&path, "en", "UTC", "en") {
                    Ok(m) => m,
                    Err(e) => return Err(format!("{e:?}")),
                };
                let loaded = scan(&m);
                let stored = if tname == "number_cell" { crate::dump::cell_obs(&m, 0, 1, 1) } else { crate::dump::cell_obs(&m, 0, 1, 2) };
                let shown = if loaded.is_empty() { String::new() } else { formatted(&m, loaded[0].row, loaded[0].col) };
                m.evaluate();
                let after = scan(&m);
                Ok((loaded, after, shown, stored))
            }));
            let _ = std::fs::remove_file(&path);
            match r {
                Err(_) => rows.push(json!({"target": tname, "v": p, "outcome": "panic"})),
                Ok(Err(e)) => rows.push(json!({"target": tname, "v": p, "outcome": "rejected", "error": e.chars().take(120).collect::<String>()})),
                Ok(Ok((loaded, after, shown, stored))) => {
                    *nontrivial += 1;
                    cases.push((format!("imp {} {}", if tname == "number_cell" { "num" } else { "fv" }, vh_common::wire(p)), stored));
                    rows.push(json!({"target": tname, "v": p, "outcome": "loaded", "nonfinite_after_load": loaded.len(), "nonfinite_after_evaluate": after.len()}));
                    if let Some(h0) = loaded.first().or(after.first()) {
                        fails.push(json!({"class": "xlsx_import_nonfinite",
                            "input": {"section": "xlsx", "formula": format!("<v>{p}</v> in {tname}"), "form": "load_from_xlsx", "target": tname, "v": p,
                                      "persists_after_evaluate": !after.is_empty(),
                                      "cells": loaded.iter().chain(after.iter()).take(4).map(|h| h.json()).collect::<Vec<_>>()},
                            "detail": format!("an xlsx file whose sheet1.xml has <v>{p}</v> for the {tname} loads with {} stored in a {} at row {} col {} (displayed `{shown}`); {} non-finite cell(s) remain after evaluate()",
                                              h0.value, h0.kind, h0.row, h0.col, after.len())}));
                    }
                }
            }
        }
    }
    json!({"status": status, "files": rows})
}
