//! C13 — deleting rows or columns shifts the rest and breaks only what was deleted.
//! (a) reference arithmetic: DisplaceData::Row/Column with delta < 0 (band test, row < 1,
//!     "#REF!" corners of ranges), exhaustive windows + grid edges, vs Syntax/Displace.v;
//! (b) whole deletions on a real Model (`cmap`, `app`) vs the model; property oracle.
use serde_json::json;
use vh_displace_common::book::*;
use vh_displace_common::*;

fn main() {
    let a = Args::parse();
    debug_hooks();
    let mut rng = Rng::new(a.seed);
    let mut cs = Cases::new(&a.out, "c13");
    let mut or = Oracle::default();
    let mut st = Stats::default();

    arith::window_cases(&mut cs, &mut st, &[K_ROW, K_COL], &[-1, -2, -3, -4], a.thorough);
    ops::cmap_window(&mut cs, &mut st, &[K_ROW, K_COL], &[-1, -2, -4, -7]);
    ops::valid_cases(&mut cs, &mut st, &[-1, -2, -7, 0]);
    ops::app_window(&mut cs, &mut st, &[K_ROW, K_COL], if a.thorough { &[-1, -2, -3, -4, -7] } else { &[-1, -2, -7] }, a.thorough);

    let mut scratch = Scratch::new();
    let nbooks = if a.thorough { 2500 } else { 250 };
    let mut case = 0u64;
    for bi in 0..nbooks {
        let bk = gen_book(&mut rng, bi % 4 == 0);
        let mut ops_list = vec![];
        for rows in [true, false] {
            let last = if rows { LAST_ROW } else { LAST_COLUMN };
            let mk = |at: i32, k: i32| if rows { Op::DelRows(at, k) } else { Op::DelCols(at, k) };
            ops_list.push(mk(rng.range(2, 9) as i32, *rng.pick(&[1, 2, 3])));
            match bi % 5 {
                0 => ops_list.push(mk(1, *rng.pick(&[1, 2, 7]))),                       // the first lines
                1 => ops_list.push(mk(11 + rng.range(0, 3) as i32, *rng.pick(&[1, 2, 7]))), // after the data
                2 => ops_list.push(mk(rng.range(1, 9) as i32, 7)),                       // most of the data
                3 => ops_list.push(mk(last - rng.range(0, 8) as i32, 1)),                 // the end of the sheet
                _ => ops_list.push(mk(rng.range(1, 12) as i32, 1)),
            }
        }
        for op in ops_list {
            case += 1;
            let user = case % 2 == 0;
            let mut m = build(&bk);
            let before = dump(&m);
            let flaky = reevaluation_unstable(&mut m, &before);
            if !flaky.is_empty() { st.bump("books_with_values_changing_on_reevaluation"); }
            let ctx = Ctx { prop: "C13", case, entry: if user { "UserModel" } else { "Model" }, op_text: format!("{:?}", op), book: &bk, flaky: &flaky };
            let after = if user {
                let mut u = ironcalc_base::UserModel::from_model(m);
                if let Err(e) = op.apply_user(&mut u) { st.bump("op_refused"); st.sample(format!("refused {:?}: {e}", op)); continue; }
                dump(u.get_model())
            } else {
                let mut m = m;
                if let Err(e) = op.apply(&mut m) { st.bump("op_refused"); st.sample(format!("refused {:?}: {e}", op)); continue; }
                m.evaluate();
                dump(&m)
            };
            if splits_dynamic_array(&bk, &op) { st.bump("skipped_op_cuts_a_dynamic_array"); continue; }
            if splits_cse_array(&bk, &op) { or.fail("operation_cutting_a_cse_array_accepted", json!({"op": format!("{:?}", op), "workbook": book_json(&bk)}), "accepted".to_string()); continue; }
            st.bump("oracle_ops");
            check_relocation(&before, &after, &op, &ctx, &mut scratch, &mut or, &mut st);
        }
    }
    let distinct = st.distinct.len();
    cs.finish(json!({
        "distribution": st.counts, "samples": st.samples, "distinct_nontrivial": distinct,
        "oracle_checked": or.checked, "oracle_failures": or.failures, "oracle_failures_per_class": or.per_class,
    }));
}
