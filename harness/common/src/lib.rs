//! shared helpers: PRNG, wire format, case writer
use std::fmt::Write as _;
use std::fs::File;
use std::io::{BufWriter, Write};

/// splitmix64 — every random choice of a run derives from the one seed
pub struct Rng(pub u64);
impl Rng {
    pub fn new(seed: u64) -> Rng {
        // scramble the seed through the output function so that neighbouring seeds give
        // unrelated streams (a plain affine start would make seed+1 the same stream shifted by one)
        let mut r = Rng(seed ^ 0xD1B54A32D192ED03);
        let a = r.next();
        let b = r.next();
        Rng(a ^ b.rotate_left(29) ^ seed.rotate_left(32))
    }
    pub fn next(&mut self) -> u64 {
        self.0 = self.0.wrapping_add(0x9E3779B97F4A7C15);
        let mut z = self.0;
        z = (z ^ (z >> 30)).wrapping_mul(0xBF58476D1CE4E5B9);
        z = (z ^ (z >> 27)).wrapping_mul(0x94D049BB133111EB);
        z ^ (z >> 31)
    }
    pub fn below(&mut self, n: u64) -> u64 { if n == 0 { 0 } else { self.next() % n } }
    pub fn range(&mut self, lo: i64, hi: i64) -> i64 { lo + self.below((hi - lo + 1) as u64) as i64 }
    pub fn chance(&mut self, num: u64, den: u64) -> bool { self.below(den) < num }
    pub fn pick<'a, T>(&mut self, v: &'a [T]) -> &'a T { &v[self.below(v.len() as u64) as usize] }
}

/// text on the wire: code points in decimal joined by '.', empty text is "-"
pub fn wire(s: &str) -> String {
    if s.is_empty() { return "-".to_string(); }
    let mut out = String::new();
    for (i, c) in s.chars().enumerate() {
        if i > 0 { out.push('.'); }
        let _ = write!(out, "{}", c as u32);
    }
    out
}
pub fn unwire(w: &str) -> String {
    if w == "-" { return String::new(); }
    w.split('.').filter_map(|x| x.parse::<u32>().ok()).filter_map(char::from_u32).collect()
}
pub fn b(x: bool) -> &'static str { if x { "1" } else { "0" } }

pub struct Cases {
    pub fin: BufWriter<File>,
    pub fimpl: BufWriter<File>,
    pub n: u64,
    pub dir: String,
    pub prop: String,
}
impl Cases {
    pub fn new(dir: &str, prop: &str) -> Cases {
        std::fs::create_dir_all(dir).ok();
        Cases {
            fin: BufWriter::new(File::create(format!("{dir}/{prop}.in")).unwrap()),
            fimpl: BufWriter::new(File::create(format!("{dir}/{prop}.impl")).unwrap()),
            n: 0, dir: dir.to_string(), prop: prop.to_string(),
        }
    }
    pub fn case(&mut self, input: &str, obs: &str) {
        debug_assert!(!input.contains('\n') && !obs.contains('\n'));
        writeln!(self.fin, "{}", input).unwrap();
        writeln!(self.fimpl, "{}", obs).unwrap();
        self.n += 1;
    }
    pub fn finish(mut self, meta: serde_json::Value) {
        self.fin.flush().unwrap();
        self.fimpl.flush().unwrap();
        let mut m = meta;
        m["cases"] = serde_json::json!(self.n);
        std::fs::write(format!("{}/{}.meta.json", self.dir, self.prop), serde_json::to_string_pretty(&m).unwrap()).unwrap();
    }
}

/// collects oracle failures (property statement evaluated on the implementation)
#[derive(Default)]
pub struct Oracle {
    pub failures: Vec<serde_json::Value>,
    pub checked: u64,
    pub per_class: std::collections::BTreeMap<String, u64>,
}
impl Oracle {
    pub fn fail(&mut self, class: &str, input: serde_json::Value, detail: String) {
        let c = self.per_class.entry(class.to_string()).or_insert(0);
        *c += 1;
        if *c <= 5 {
            self.failures.push(serde_json::json!({"class": class, "input": input, "detail": detail}));
        }
    }
}

/// command line of every vh_cXX binary:  vh_cXX <seed> <quick|thorough> <outdir> [extra...]
pub struct Args { pub seed: u64, pub thorough: bool, pub out: String, pub extra: Vec<String> }
impl Args {
    pub fn parse() -> Args {
        let args: Vec<String> = std::env::args().collect();
        if args.len() < 4 {
            eprintln!("usage: {} <seed> <quick|thorough> <outdir> [extra...]", args[0]);
            std::process::exit(2);
        }
        // panics inside the implementation are observations, not noise on stderr
        std::panic::set_hook(Box::new(|_| {}));
        Args { seed: args[1].parse().unwrap_or(1), thorough: args[2] == "thorough", out: args[3].clone(), extra: args[4..].to_vec() }
    }
}
