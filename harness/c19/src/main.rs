//! vh_c19 — C19 "typed numbers are recognised exactly": cases + implementation observations.
//!   vh_c19 <seed> <quick|thorough> <outdir>            cases/c19.{in,impl,meta.json}
//!   vh_c19 <seed> <tier> <outdir> tables               cases/c19.tables.json (locale/language tables)
//!   vh_c19 <seed> <tier> <outdir> probe <loc> <lang> <text>...
use ironcalc_base::expressions::token::Error;
use ironcalc_base::types::Cell;
use ironcalc_base::Model;
use serde_json::json;
use vh_common::*;

pub const LOCALES: [&str; 6] = ["en", "de", "en-GB", "es", "fr", "it"];
pub const LANGS: [&str; 5] = ["en", "es", "fr", "de", "it"];

fn err_index(e: &Error) -> usize {
    // the order in which get_error_by_name tests the names
    match e {
        Error::REF => 0, Error::NAME => 1, Error::VALUE => 2, Error::DIV => 3, Error::NA => 4, Error::NUM => 5,
        Error::ERROR => 6, Error::NIMPL => 7, Error::SPILL => 8, Error::CALC => 9, Error::CIRC => 10, Error::NULL => 11,
    }
}

pub struct Ctx { pub m: Model<'static>, pub loc: &'static str, pub lang: &'static str, n: u32 }
fn leak(s: &str) -> &'static str { Box::leak(s.to_string().into_boxed_str()) }
impl Ctx {
    pub fn new(loc: &str, lang: &str) -> Ctx {
        let (loc, lang) = (leak(loc), leak(lang));
        Ctx { m: Model::new_empty("m", loc, "UTC", lang).unwrap(), loc, lang, n: 0 }
    }
    /// a fresh cell (default style) for every case; a fresh workbook every 20000 cases
    pub fn fresh(&mut self) {
        self.n += 1;
        if self.n % 20000 == 0 {
            self.m = Model::new_empty("m", self.loc, "UTC", self.lang).unwrap();
        } else {
            self.m.workbook.worksheets[0].sheet_data.clear();
        }
    }
    /// type `s` into a fresh A1 and describe the cell
    pub fn observe(&mut self, s: &str) -> Obs {
        self.fresh();
        let r = std::panic::catch_unwind(std::panic::AssertUnwindSafe(|| self.m.set_user_input(0, 1, 1, s.to_string())));
        match r {
            Err(_) => { self.m = Model::new_empty("m", self.loc, "UTC", self.lang).unwrap(); return Obs::Other("panic".into()); }
            Ok(Err(e)) => return Obs::Other(format!("reject:{}", e.len())),
            Ok(Ok(())) => {}
        }
        self.describe()
    }
    pub fn describe(&self) -> Obs {
        let cell = self.m.workbook.worksheets[0].cell(1, 1).cloned();
        let st = self.m.get_style_for_cell(0, 1, 1).unwrap();
        match cell {
            None | Some(Cell::EmptyCell { .. }) => Obs::Empty,
            Some(Cell::NumberCell { v, .. }) => Obs::Num(v, st.num_fmt.clone()),
            Some(Cell::BooleanCell { v, .. }) => Obs::Bool(v),
            Some(Cell::ErrorCell { ei, .. }) => Obs::Err(err_index(&ei)),
            Some(Cell::SharedString { si, .. }) => {
                let t = self.m.workbook.shared_strings.get(si as usize).cloned().unwrap_or_default();
                if st.quote_prefix { Obs::Quoted(t) } else { Obs::Text(t) }
            }
            Some(Cell::CellFormula { .. }) | Some(Cell::ArrayFormula { .. }) => Obs::Formula,
            Some(_) => Obs::Other("cellkind".into()),
        }
    }
}

#[derive(Debug, Clone, PartialEq)]
pub enum Obs { Empty, Num(f64, String), Bool(bool), Err(usize), Quoted(String), Text(String), Formula, Other(String) }
impl Obs {
    pub fn line(&self) -> String {
        match self {
            Obs::Empty => "empty".into(),
            Obs::Num(v, f) => format!("num {:x} {}", v.to_bits(), wire(f)),
            Obs::Bool(v) => format!("bool {}", b(*v)),
            Obs::Err(i) => format!("err {}", i),
            Obs::Quoted(t) => format!("quoted {}", wire(t)),
            Obs::Text(t) => format!("text {}", wire(t)),
            Obs::Formula => "formula".into(),
            Obs::Other(s) => format!("other {}", s),
        }
    }
}

pub fn alphabet(loc: &str) -> Vec<char> {
    let mut a: Vec<char> = "019.,+-eE%$€/ '".chars().collect();
    a.push(match loc { "fr" => '\u{202f}', "en-GB" => '£', _ => ':' });
    a
}

fn tables(out: &str) {
    let mut locs = serde_json::Map::new();
    for l in LOCALES {
        let loc = ironcalc_base::locale::get_locale(l).unwrap();
        let mut curs = vec!["$".to_string(), "€".to_string()];
        if !curs.contains(&loc.currency.symbol) { curs.push(loc.currency.symbol.clone()); }
        locs.insert(l.to_string(), json!({
            "dec": loc.numbers.symbols.decimal.chars().next().unwrap_or('.') as u32,
            "grp": loc.numbers.symbols.group.chars().next().unwrap_or(',') as u32,
            "dec_full": loc.numbers.symbols.decimal, "grp_full": loc.numbers.symbols.group,
            "cur": curs, "day_first": loc.dates.date_formats.short.starts_with('d'),
            "months_short": loc.dates.months_short, "months": loc.dates.months,
        }));
    }
    let mut langs = serde_json::Map::new();
    for l in LANGS {
        let g = ironcalc_base::language::get_language(l).unwrap();
        let e = &g.errors;
        langs.insert(l.to_string(), json!({
            "true": g.booleans.r#true, "false": g.booleans.r#false,
            "errors": [e.r#ref, e.name, e.value, e.div, e.na, e.num, e.error, e.nimpl, e.spill, e.calc, e.circ, e.null],
        }));
    }
    let mut supported = ironcalc_base::get_supported_locales(); supported.sort();
    std::fs::create_dir_all(out).ok();
    std::fs::write(format!("{out}/c19.tables.json"),
        serde_json::to_string_pretty(&json!({"locales": locs, "languages": langs, "supported_locales": supported})).unwrap()).unwrap();
}

// ---------- generation from the grammar of the property statement (the oracle side) ----------
struct Gen { text: String, lit: String, neg: bool, pct: bool, cur: Option<(String, u8)>, exp: bool, grouped: bool, dec: bool }

fn gen_number(rng: &mut Rng, dec: char, grp: char, curs: &[String]) -> Gen {
    let nd = match rng.below(10) { 0 => 0, 1..=5 => rng.range(1, 4) as usize, 6..=8 => rng.range(4, 12) as usize, _ => rng.range(12, 22) as usize };
    let digits: String = (0..nd).map(|i| if i == 0 && rng.chance(4, 5) { char::from(b'1' + rng.below(9) as u8) } else { char::from(b'0' + rng.below(10) as u8) }).collect();
    let grouped = nd > 0 && rng.chance(2, 5);
    let mut ip = String::new();
    if grouped {
        let first = if nd % 3 == 0 { 3 } else { nd % 3 };
        for (i, c) in digits.chars().enumerate() {
            if i >= first && (i - first) % 3 == 0 { ip.push(grp); }
            ip.push(c);
        }
    } else { ip = digits.clone(); }
    let grouped = grouped && nd > 3;
    let has_dec = nd == 0 || rng.chance(1, 2);
    let nf = if nd == 0 { rng.range(1, 6) as usize } else if has_dec { rng.range(0, 6) as usize } else { 0 };
    let frac: String = (0..nf).map(|_| char::from(b'0' + rng.below(10) as u8)).collect();
    let has_exp = rng.chance(1, 4);
    let (etxt, elit) = if has_exp {
        let e = match rng.below(8) { 0 => rng.range(280, 330), 1 => rng.range(-340, -300), _ => rng.range(-20, 20) };
        let m = if rng.chance(1, 2) { 'e' } else { 'E' };
        let s = if e < 0 { "-".to_string() } else if rng.chance(1, 3) { "+".to_string() } else { String::new() };
        let pad = if rng.chance(1, 5) { "0" } else { "" };
        (format!("{m}{s}{pad}{}", e.abs()), format!("e{}", e))
    } else { (String::new(), String::new()) };
    let mut body = ip.clone();
    let mut lit = if digits.is_empty() { "0".to_string() } else { digits.clone() };
    if has_dec { body.push(dec); lit.push('.'); body.push_str(&frac); lit.push_str(&frac); if frac.is_empty() { lit.push('0'); } }
    body.push_str(&etxt); lit.push_str(&elit);
    let sign = match rng.below(4) { 0 => "-", 1 => "+", _ => "" };
    let neg_inner = sign == "-";
    let sp = |rng: &mut Rng| if rng.chance(1, 4) { " " } else { "" };
    let (text, neg, pct, cur) = match rng.below(6) {
        0 => (format!("{sign}{body}{}%", sp(rng)), neg_inner, true, None),
        1 => { let c = rng.pick(curs).clone(); (format!("{c}{}{sign}{body}", sp(rng)), neg_inner, false, Some((c, 0))) }
        2 => { let c = rng.pick(curs).clone(); (format!("-{c}{}{body}", sp(rng)), true, false, Some((c, 1))) }
        3 => { let c = rng.pick(curs).clone(); (format!("{sign}{body}{}{c}", sp(rng)), neg_inner, false, Some((c, 2))) }
        _ => (format!("{sign}{body}"), neg_inner, false, None),
    };
    let text = format!("{}{}{}", sp(rng), text, sp(rng));
    Gen { text, lit, neg, pct, cur, exp: has_exp, grouped, dec: has_dec }
}

fn sig15(v: f64) -> String { format!("{:.14e}", v) }

/// days from 0001-01-01 (= 1) by Hinnant's algorithm, independent of the model's formula
fn days_from_civil(y: i64, m: i64, d: i64) -> i64 {
    let y = if m <= 2 { y - 1 } else { y };
    let era = if y >= 0 { y } else { y - 399 } / 400;
    let yoe = y - era * 400;
    let doy = (153 * (if m > 2 { m - 3 } else { m + 9 }) + 2) / 5 + d - 1;
    let doe = yoe * 365 + yoe / 4 - yoe / 100 + doy;
    era * 146097 + doe - 719468 + 719163
}
fn mlen(y: i64, m: i64) -> i64 { match m { 2 => if (y % 4 == 0 && y % 100 != 0) || y % 400 == 0 { 29 } else { 28 }, 4 | 6 | 9 | 11 => 30, _ => 31 } }

fn main() {
    let a = Args::parse();
    if a.extra.first().map(|s| s.as_str()) == Some("tables") { tables(&a.out); return; }
    if a.extra.first().map(|s| s.as_str()) == Some("probe") {
        let mut cx = Ctx::new(&a.extra[1], &a.extra[2]);
        for s in &a.extra[3..] { println!("{:?} -> {}  {:?}", s, cx.observe(s).line(), cx.observe(s)); }
        return;
    }
    tables(&a.out);
    let mut rng = Rng::new(a.seed);
    let mut cs = Cases::new(&a.out, "c19");
    let mut orc = Oracle::default();
    let mut dist = serde_json::Map::new();
    let mut samples: Vec<String> = vec![];
    let mut nontrivial = std::collections::HashSet::<u64>::new();
    let mut kinds = std::collections::BTreeMap::<String, u64>::new();

    // 0. the uppercase table the model uses for error names, on every code point below 0x250
    for c in 0u32..0x250 {
        if let Some(ch) = char::from_u32(c) {
            if c < 0x100 || c == 0x131 || c == 0x17f {
                let up: String = ch.to_uppercase().collect();
                cs.case(&format!("up {}", c), &wire(&up));
            }
            let ws = ch.is_whitespace();
            cs.case(&format!("ws {}", c), b(ws));
        }
    }
    for c in [0x1680u32, 0x2000, 0x2005, 0x200a, 0x200b, 0x2028, 0x2029, 0x202f, 0x205f, 0x3000, 0x3001, 0xfeff, 0x20ac] {
        cs.case(&format!("ws {}", c), b(char::from_u32(c).unwrap().is_whitespace()));
    }

    // 1. bounded-exhaustive strings
    for loc in LOCALES {
        let alpha = alphabet(loc);
        let maxlen = if loc == "en" || loc == "de" { 5 } else { 4 };
        let mut cx = Ctx::new(loc, "en");
        let mut count = 0u64;
        let mut run = |alpha: &[char], maxlen: usize, cs: &mut Cases, cx: &mut Ctx, minlen: usize| {
            let k = alpha.len();
            for len in minlen..=maxlen {
                let total = (k as u64).pow(len as u32);
                let mut buf = String::with_capacity(16);
                for mut idx in 0..total {
                    buf.clear();
                    for _ in 0..len { buf.push(alpha[(idx % k as u64) as usize]); idx /= k as u64; }
                    let o = cx.observe(&buf);
                    if let Obs::Num(v, f) = &o { nontrivial.insert(v.to_bits() ^ (f.len() as u64) << 52); *kinds.entry(format!("{loc}:{f}")).or_insert(0) += 1; }
                    cs.case(&format!("ui {} en {}", loc, wire(&buf)), &o.line());
                    count += 1;
                }
            }
        };
        run(&alpha, maxlen, &mut cs, &mut cx, 0);
        if a.thorough {
            // length 5 in the four remaining locales; length 6 over a 12-symbol sub-alphabet in en and de
            if maxlen == 4 { run(&alpha, 5, &mut cs, &mut cx, 5); }
            else {
                let sub: Vec<char> = "019.,+-e%$/ ".chars().collect();
                run(&sub, 6, &mut cs, &mut cx, 6);
            }
        }
        dist.insert(format!("exhaustive_{loc}"), json!(count));
    }

    // 2. random strings up to length 14 over the alphabet plus month names / currency symbols / date shapes
    let nrand = if a.thorough { 150_000 } else { 40_000 };
    for loc in LOCALES {
        let l = ironcalc_base::locale::get_locale(loc).unwrap();
        let alpha = alphabet(loc);
        let mut toks: Vec<String> = alpha.iter().map(|c| c.to_string()).collect();
        for t in ["2", "3", "5", "12", "31", "29", "30", "2020", "1999", "00", "000", "123", "999"] { toks.push(t.to_string()); }
        for m in l.dates.months_short.iter().chain(l.dates.months.iter()) { toks.push(m.clone()); }
        toks.push(l.numbers.symbols.group.clone()); toks.push(l.numbers.symbols.decimal.clone()); toks.push(l.currency.symbol.clone());
        let mut cx = Ctx::new(loc, "en");
        for _ in 0..nrand {
            let mut s = String::new();
            let n = rng.range(1, 8);
            for _ in 0..n { if s.chars().count() < 14 { s.push_str(rng.pick(&toks[..]).as_str()); } }
            let o = cx.observe(&s);
            if let Obs::Num(v, f) = &o { nontrivial.insert(v.to_bits() ^ (f.len() as u64) << 52); }
            cs.case(&format!("ui {} en {}", loc, wire(&s)), &o.line());
        }
        dist.insert(format!("random_{loc}"), json!(nrand));
    }

    // 3. dates: every (day, month, year-shape) x separator x padding, per locale; the expected serial
    //    is computed here, independently of the model (oracle) — and the case also goes to the model (tie)
    let mut ndates = 0u64;
    for loc in LOCALES {
        let l = ironcalc_base::locale::get_locale(loc).unwrap();
        let day_first = l.dates.date_formats.short.starts_with('d');
        let mut cx = Ctx::new(loc, "en");
        let years: [i64; 9] = [0, 5, 29, 30, 99, 1900, 1999, 2024, 9999];
        for sep in ['/', '-', '.'] {
            for yi in 0..years.len() {
                for m in 0..=13i64 {
                    for d in [0i64, 1, 9, 10, 28, 29, 30, 31, 32] {
                        for shape in 0..5 {
                            let y = years[yi];
                            let ys = if y < 100 { format!("{:02}", y) } else { format!("{}", y) };
                            let ms = match shape { 0 => format!("{}", m), 1 => format!("{:02}", m),
                                2 => if (1..=12).contains(&m) { l.dates.months_short[(m - 1) as usize].clone() } else { continue },
                                3 => if (1..=12).contains(&m) { l.dates.months[(m - 1) as usize].clone() } else { continue },
                                _ => format!("{}", m) };
                            let ds = if shape == 1 { format!("{:02}", d) } else { format!("{}", d) };
                            let iso = shape == 4;
                            if iso && y < 100 { continue; }
                            let text = if iso { format!("{ys}{sep}{ms}{sep}{ds}") }
                                       else if day_first { format!("{ds}{sep}{ms}{sep}{ys}") } else { format!("{ms}{sep}{ds}{sep}{ys}") };
                            let o = cx.observe(&text);
                            cs.case(&format!("ui {} en {}", loc, wire(&text)), &o.line());
                            ndates += 1;
                            // oracle: a valid calendar date in a supported shape is stored as its serial with a date format
                            let fy = if y < 30 { 2000 + y } else if y < 100 { 1900 + y } else { y };
                            let valid = (1..=12).contains(&m) && d >= 1 && d <= mlen(fy, m);
                            // a month name that contains the separator cannot be typed with that separator
                            let name_has_sep = shape >= 2 && shape <= 3 && ms.contains(sep);
                            orc.checked += 1;
                            if valid && !name_has_sep {
                                let expect = (days_from_civil(fy, m, d) - 693594) as f64;
                                match &o {
                                    Obs::Num(v, f) if *v == expect && f.contains('y') && f.contains(sep) => {}
                                    _ if !day_first && !iso && (shape == 2 || shape == 3) && ms.len() == 4 =>
                                        orc.fail("c19-four-byte-month-name-first", json!({"locale": loc, "text": text}), format!("month-first locale, month name of 4 bytes is taken for an ISO year: cell is {}", o.line())),
                                    _ => orc.fail("c19-valid-date-not-recognised", json!({"locale": loc, "text": text}), format!("expected serial {} with a date format, cell is {}", expect, o.line())),
                                }
                            } else if !valid {
                                if let Obs::Num(_, f) = &o { if f.contains('y') {
                                    orc.fail("c19-invalid-date-recognised", json!({"locale": loc, "text": text}), format!("not a calendar date, cell is {}", o.line()));
                                } }
                            }
                        }
                    }
                }
            }
        }
        // signed date components (Rust's integer parser accepts a sign)
        for text in ["+1/+2/+3", "1/1/-5", "1/1/+5", "+1/1/20", "1/+1/2020", "-999/1/1", "1.1.-5", "1/1/-999"] {
            let o = cx.observe(text);
            cs.case(&format!("ui {} en {}", loc, wire(text)), &o.line());
            orc.checked += 1;
            if let Obs::Num(_, f) = &o { if f.contains('y') {
                orc.fail("c19-signed-date-component", json!({"locale": loc, "text": text}), format!("a date component carries a sign, cell is {}", o.line()));
            } }
        }
    }
    dist.insert("dates".into(), json!(ndates));

    // 5. the design-phase witnesses, always (F06 and F08 were repaired in /repo: 6761320, 6e3cec0)
    {
        let mut cx = Ctx::new("en", "en");
        for (text, class, what) in [
            ("-$1e3", "c19-sign-lost-negcur-exponent", "F06"), ("1,,234", "c19-misplaced-group-separator", "F07"),
            ("5,", "c19-misplaced-group-separator", "F07"), ("5,,", "c19-misplaced-group-separator", "F07"),
            ("1234,567", "c19-misplaced-group-separator", "F07"), ("1,234567", "c19-misplaced-group-separator", "F07"),
            ("-$-5", "c19-double-sign-after-currency", "F07"), ("1e999", "c19-nonfinite-stored", "F08"),
        ] {
            let o = cx.observe(text);
            cs.case(&format!("ui en en {}", wire(text)), &o.line());
            orc.checked += 1;
            samples.push(format!("{what}: {:?} -> {}", text, o.line()));
            let bad = match (class, &o) {
                ("c19-sign-lost-negcur-exponent", Obs::Num(v, _)) => *v > 0.0,
                ("c19-nonfinite-stored", Obs::Num(v, _)) => !v.is_finite(),
                ("c19-sign-lost-negcur-exponent", _) | ("c19-nonfinite-stored", _) => false,
                (_, Obs::Num(_, _)) => true,
                _ => false,
            };
            if bad { orc.fail(class, json!({"locale": "en", "text": text}), format!("{what}: cell is {}", o.line())); }
        }
        // the binary64 overflow boundary, exactly: T = 2^1024 - 2^970 (first decimal that rounds to infinity),
        // T - 1, T + 1, the largest finite double, and the same with a fraction / exponent / grouping / sign
        let t = "179769313486231580793728971405303415079934132710037826936173778980444968292764750946649017977587207096330286416692887910946555547851940402630657488671505820681908902000708383676273854845817711531764475730270069855571366959622842914819860834936475292719074168444365510704342711559699508093042880177904174497792"; let tm1 = "179769313486231580793728971405303415079934132710037826936173778980444968292764750946649017977587207096330286416692887910946555547851940402630657488671505820681908902000708383676273854845817711531764475730270069855571366959622842914819860834936475292719074168444365510704342711559699508093042880177904174497791"; let tp1 = "179769313486231580793728971405303415079934132710037826936173778980444968292764750946649017977587207096330286416692887910946555547851940402630657488671505820681908902000708383676273854845817711531764475730270069855571366959622842914819860834936475292719074168444365510704342711559699508093042880177904174497793"; let mx = "179769313486231570814527423731704356798070567525844996598917476803157260780028538760589558632766878171540458953514382464234321326889464182768467546703537516986049910576551282076245490090389328944075868508455133942304583236903222948165808559332123348274797826204144723168738177180919299881250404026184124858368";
        let mut lits: Vec<String> = vec![t.into(), tm1.into(), tp1.into(), mx.into()];
        for x in [t, tm1, tp1, mx] {
            lits.push(format!("-{x}")); lits.push(format!("{x}.0")); lits.push(format!("{x}.5")); lits.push(format!("{x}e0")); lits.push(format!("{x}0e-1"));
            lits.push(format!("{}.{}e308", &x[..1], &x[1..])); lits.push(format!("0.{x}e309")); lits.push(format!("{x}%")); lits.push(format!("${x}")); lits.push(format!("-${x}"));
            lits.push(format!("{x}00%"));
        }
        for x in ["1e308", "1.7976931348623157e308", "1.7976931348623158e308", "1.7976931348623159e308", "1.797693134862315807e308", "1.797693134862315808e308",
                  "1.8e308", "2e308", "1e309", "0e999", "0.0e99999999999999999999", "1e400", "1e401", "1e-400", "1e-99999999999999999999", "1e99999999999999999999",
                  "0.00000000000000000001e328", "0.00000000000000000001e329", "17976931348623157e292", "17976931348623159e292", "1e30800%", "-$1e308", "-$1e309", "$2e308"] {
            lits.push(x.to_string());
        }
        for text in &lits {
            let o = cx.observe(text);
            cs.case(&format!("ui en en {}", wire(text)), &o.line());
            orc.checked += 1;
            if let Obs::Num(v, _) = &o { if !v.is_finite() { orc.fail("c19-nonfinite-stored", json!({"locale": "en", "text": text}), format!("cell is {}", o.line())); } }
        }
    }
    // 4. the property statement on the implementation: strings generated FROM the grammar
    let ngen = if a.thorough { 120_000 } else { 30_000 };
    let mut pct_inexact = 0u64;
    for loc in LOCALES {
        let l = ironcalc_base::locale::get_locale(loc).unwrap();
        let dec = l.numbers.symbols.decimal.chars().next().unwrap();
        let grp = l.numbers.symbols.group.chars().next().unwrap();
        let mut curs = vec!["$".to_string(), "€".to_string()];
        if !curs.contains(&l.currency.symbol) { curs.push(l.currency.symbol.clone()); }
        let mut cx = Ctx::new(loc, "en");
        for i in 0..ngen {
            let g = gen_number(&mut rng, dec, grp, &curs);
            let o = cx.observe(&g.text);
            cs.case(&format!("ui {} en {}", loc, wire(&g.text)), &o.line());
            orc.checked += 1;
            if i < 3 && loc == "de" { samples.push(format!("{loc}: {:?} -> {}", g.text, o.line())); }
            let inp = json!({"locale": loc, "text": g.text});
            // the expected number, from the parts: the plain decimal literal, sign applied, % as exponent - 2
            let lit = if g.pct { match g.lit.split_once('e') { Some((m, e)) => format!("{m}e{}", e.parse::<i64>().unwrap() - 2), None => format!("{}e-2", g.lit) } } else { g.lit.clone() };
            let mag: f64 = lit.parse().unwrap();
            let expect = if g.neg { -mag } else { mag };
            let negcur_exp = matches!(g.cur, Some((_, 1))) && g.exp;
            match &o {
                Obs::Num(v, f) => {
                    nontrivial.insert(v.to_bits() ^ (f.len() as u64) << 52);
                    if !v.is_finite() {
                        orc.fail("c19-nonfinite-stored", inp.clone(), format!("the cell holds {} (expected magnitude overflows f64)", v));
                    } else if !expect.is_finite() {
                        orc.fail("c19-wrong-value", inp.clone(), format!("expected overflow, cell holds {}", v));
                    } else if v.to_bits() != expect.to_bits() {
                        if g.pct && (v.to_bits() as i64 - expect.to_bits() as i64).abs() <= 1 { pct_inexact += 1; }
                        else if sig15(*v) == sig15(expect) { if g.pct { pct_inexact += 1; } else { orc.fail("c19-wrong-value", inp.clone(), format!("expected {:e} bits {:x}, cell holds {:e} bits {:x}", expect, expect.to_bits(), v, v.to_bits())); } }
                        else if negcur_exp && *v == -expect && expect != 0.0 { orc.fail("c19-sign-lost-negcur-exponent", inp.clone(), format!("expected {:e}, cell holds {:e}", expect, v)); }
                        else if negcur_exp && expect == 0.0 && *v == 0.0 { orc.fail("c19-sign-lost-negcur-exponent", inp.clone(), format!("expected -0, cell holds {:e}", v)); }
                        else { orc.fail("c19-wrong-value", inp.clone(), format!("expected {:e}, cell holds {:e}", expect, v)); }
                    }
                    // the format is of the kind of the input; an exponent takes precedence (as in the implementation)
                    let ok = if g.exp { f == "0.00E+00" }
                        else if g.pct { f.ends_with('%') && f.contains("#,##0") }
                        else if let Some((c, pos)) = &g.cur { if *pos == 2 { f.ends_with(c.as_str()) && f.starts_with("#,##0") } else { f.starts_with(c.as_str()) && f.contains("#,##0") } }
                        else if g.grouped { f.starts_with("#,##0") }
                        else { f == "general" };
                    let _ = g.dec;
                    if !ok { orc.fail("c19-format-kind", inp.clone(), format!("format {:?} is not of the kind of the input", f)); }
                }
                // a numeral whose magnitude overflows binary64 cannot be stored as that number: it stays text
                _ if !mag.is_finite() => {}
                other if g.pct && !g.lit.parse::<f64>().unwrap().is_finite() =>
                    orc.fail("c19-percent-numeral-overflow", inp, format!("the percentage is representable ({:e}) but the numeral before %% overflows: cell is {}", expect, other.line())),
                other => orc.fail("c19-number-not-recognised", inp, format!("cell is {}", other.line())),
            }
        }
        // negatives: mutations that contradict the statement must not be stored as numbers
        for i in 0..ngen / 3 {
            let g = gen_number(&mut rng, dec, grp, &curs);
            let t = g.text.trim().to_string();
            let (text, class): (String, &str) = match i % 6 {
                0 => { // double a group separator / add a trailing one
                    if let Some(p) = t.find(grp) { let mut x = t.clone(); x.insert(p, grp); (x, "c19-misplaced-group-separator") }
                    else if g.cur.is_none() && !g.pct && !g.dec && !g.exp && !t.is_empty() { (format!("{t}{grp}"), "c19-misplaced-group-separator") } else { continue } }
                1 => { // a group of the wrong size
                    if let Some(p) = t.rfind(grp) { let mut x = t.clone(); x.insert(p + grp.len_utf8(), '7'); (x, "c19-misplaced-group-separator") } else { continue } }
                2 => { // second sign after "-cur"
                    if let Some((c, 1)) = &g.cur { (t.replacen(&format!("-{c}"), &format!("-{c}-"), 1), "c19-double-sign-after-currency") } else { continue } }
                3 => { if g.dec { let mut x = t.clone(); let p = x.find(dec).unwrap(); x.insert(p, dec); (x, "c19-garbage-accepted") } else { continue } }
                4 => { (format!("{t}x"), "c19-garbage-accepted") }
                _ => { if g.exp { (t.replace(['e', 'E'], "ee"), "c19-garbage-accepted") } else { continue } }
            };
            let o = cx.observe(&text);
            cs.case(&format!("ui {} en {}", loc, wire(&text)), &o.line());
            orc.checked += 1;
            if let Obs::Num(v, f) = &o {
                if f.contains('y') { continue; } // a date by coincidence
                // wrong-size group in the FIRST position may just make a longer first group of <= 3 digits: recheck
                if class == "c19-misplaced-group-separator" && well_grouped(&text, dec, grp) { continue; }
                orc.fail(class, json!({"locale": loc, "text": text}), format!("not a number by the statement, cell holds {:e} with format {:?}", v, f));
            }
        }
    }
    dist.insert("from_grammar_per_locale".into(), json!(ngen));
    dist.insert("mutations_per_locale".into(), json!(ngen / 3));

    let checked = orc.checked;
    cs.finish(json!({
        "distribution": dist, "samples": samples, "oracle_checked": checked,
        "oracle_failures": orc.failures, "oracle_failures_per_class": orc.per_class,
        "distinct_nontrivial": nontrivial.len(), "percent_double_rounding_within_15_digits": pct_inexact,
        "formats_seen": kinds,
    }));
}

/// the integer part of `text` (after blanks, sign, currency) is d{1,3}(G ddd)* — used only to
/// discard mutations that happen to be well formed
fn well_grouped(text: &str, dec: char, grp: char) -> bool {
    let t: String = text.chars().filter(|c| c.is_ascii_digit() || *c == grp || *c == dec || *c == 'e' || *c == 'E').collect();
    let ip = t.split(|c| c == dec || c == 'e' || c == 'E').next().unwrap_or("");
    let gs: Vec<&str> = ip.split(grp).collect();
    if gs.len() < 2 { return true; }
    let f = gs[0].chars().count();
    (1..=3).contains(&f) && gs[1..].iter().all(|g| g.chars().count() == 3)
}
