//! C22 — cell-reference and sheet-name codecs: implementation side of the correspondence
//! (column letters, A1 / R1C1 reference parse + print, quote_name, the lexer's sheet prefix)
//! and the property oracle (print → read back) evaluated on the implementation.
use vh_common::*;
use ironcalc_base::expressions::lexer::{Lexer, LexerMode};
use ironcalc_base::expressions::parser::stringify::{to_english_string, to_rc_format};
use ironcalc_base::expressions::parser::{new_parser_english, Node};
use ironcalc_base::expressions::token::TokenType;
use ironcalc_base::expressions::types::CellReferenceRC;
use ironcalc_base::expressions::utils::{
    column_to_number, number_to_column, parse_reference_a1, parse_reference_r1c1, quote_name,
};
use ironcalc_base::language::get_language;
use ironcalc_base::locale::get_locale;
use serde_json::json;
use std::collections::HashMap;

fn c2n(s: &str) -> String {
    match column_to_number(s) {
        Ok(n) => format!("ok {n}"),
        Err(_) => "err".to_string(),
    }
}
fn n2c(n: i32) -> String {
    match number_to_column(n) {
        Some(s) => format!("some {}", wire(&s)),
        None => "none".to_string(),
    }
}
fn pref(r: Option<ironcalc_base::expressions::types::ParsedReference>) -> String {
    match r {
        Some(p) => format!("some {} {} {} {}", p.row, p.column, b(p.absolute_column), b(p.absolute_row)),
        None => "none".to_string(),
    }
}

const CTX_ROW: i32 = 5;
const CTX_COL: i32 = 7;

fn ref_node(row: i32, col: i32, absr: bool, absc: bool, sheet: Option<String>) -> Node {
    Node::ReferenceKind {
        sheet_name: sheet,
        sheet_index: 0,
        absolute_row: absr,
        absolute_column: absc,
        row: if absr { row } else { row - CTX_ROW },
        column: if absc { col } else { col - CTX_COL },
    }
}
fn ctx() -> CellReferenceRC {
    CellReferenceRC { sheet: "Sheet1".to_string(), row: CTX_ROW, column: CTX_COL }
}

/// first token + EOF in the given mode
fn lex_single(text: &str, mode: LexerMode) -> Option<TokenType> {
    let locale = get_locale("en").unwrap();
    let language = get_language("en").unwrap();
    let mut lx = Lexer::new(text, mode, locale, language);
    let t = lx.next_token();
    if lx.next_token() != TokenType::EOF {
        return None;
    }
    Some(t)
}

fn lex_ref(text: &str, mode: LexerMode) -> String {
    match lex_single(text, mode) {
        Some(TokenType::Reference { sheet: None, row, column, absolute_column, absolute_row }) => {
            format!("some {} {} {} {}", row, column, b(absolute_column), b(absolute_row))
        }
        _ => "none".to_string(),
    }
}

/// the sheet prefix the A1 lexer reads from `text` when what follows the '!' is exactly A1
fn lex_sheet(text: &str) -> String {
    match lex_single(text, LexerMode::A1) {
        Some(TokenType::Reference { sheet: Some(name), row: 1, column: 1, absolute_column: false, absolute_row: false }) => {
            // "a!A1" and "a!a1" both lex; the model is asked about the literal suffix "A1" only
            if text.ends_with("!A1") { format!("some {}", wire(&name)) } else { "none".to_string() }
        }
        _ => "none".to_string(),
    }
}

fn is_valid_sheet_name(name: &str) -> bool {
    let invalid = ['\\', '/', '*', '?', ':', '[', ']'];
    !name.is_empty() && name.chars().count() <= 31 && !name.contains(&invalid[..])
}

pub const NAME_ALPHABET: &[char] = &[
    'a', 'B', 'R', 'C', '1', '0', '_', '.', ' ', '\'', '!', '&', '=', '-', '+', '(', '$', ',', ';', '{', '"', '#',
    '%', '^', '@', '~', '|', '<', '\t', 'é', '٣', '–', '中', '²', '😀', 'x',
];

fn main() {
    let a = Args::parse();
    let (seed, thorough, out) = (a.seed, a.thorough, a.out.as_str());
    let mut rng = Rng::new(seed);
    let mut cs = Cases::new(out, "c22");
    let mut or = Oracle::default();
    let mut dist: HashMap<&str, u64> = HashMap::new();
    let mut samples: Vec<String> = vec![];

    // ---- character classes the model hard-codes (checked, not assumed) -------------------
    for &c in NAME_ALPHABET.iter().chain(['A', 'Z', 'z', '9', 'ñ', 'β', 'Ж', '½'].iter()) {
        cs.case(&format!("cls {}", c as u32), &format!("{} {} {}", b(c.is_alphabetic()), b(c.is_alphanumeric()), b(c.is_whitespace())));
    }
    for c in 0u32..128 {
        let ch = char::from_u32(c).unwrap();
        cs.case(&format!("cls {}", c), &format!("{} {} {}", b(ch.is_alphabetic()), b(ch.is_alphanumeric()), b(ch.is_whitespace())));
    }

    // ---- columns ------------------------------------------------------------------------
    for n in -5..=16390i32 {
        cs.case(&format!("n2c {n}"), &n2c(n));
        *dist.entry("n2c").or_insert(0) += 1;
    }
    for n in [i32::MIN, i32::MAX, 17576, 18278, 18279, 456976, -16384, 1 << 20] {
        cs.case(&format!("n2c {n}"), &n2c(n));
    }
    // oracle: bijection on the grid
    for n in 1..=16384i32 {
        or.checked += 1;
        match number_to_column(n) {
            Some(s) => {
                if column_to_number(&s) != Ok(n) {
                    or.fail("col_roundtrip", json!({"n": n, "letters": s}), format!("column_to_number(number_to_column({n})) = {:?}", column_to_number(&s)));
                }
            }
            None => or.fail("col_roundtrip", json!({"n": n}), format!("number_to_column({n}) = None")),
        }
    }
    // all letter strings up to length 3 (quick) / 4 (thorough)
    let maxlen = if thorough { 4 } else { 3 };
    let mut buf: Vec<u8> = vec![];
    fn rec(buf: &mut Vec<u8>, maxlen: usize, cs: &mut Cases, or: &mut Oracle) {
        if !buf.is_empty() {
            let s = std::str::from_utf8(buf).unwrap().to_string();
            cs.case(&format!("c2n {}", wire(&s)), &c2n(&s));
            or.checked += 1;
            if let Ok(n) = column_to_number(&s) {
                if number_to_column(n).as_deref() != Some(s.as_str()) {
                    or.fail("col_alias_short", json!({"letters": s}), format!("column_to_number({s}) = {n} but number_to_column({n}) = {:?}", number_to_column(n)));
                }
            }
        }
        if buf.len() == maxlen { return; }
        for c in b'A'..=b'Z' {
            buf.push(c);
            rec(buf, maxlen, cs, or);
            buf.pop();
        }
    }
    rec(&mut buf, maxlen, &mut cs, &mut or);
    // odd strings
    for s in ["", "a", "aA", "A1", "É", "AÉ", "A B", "$A", "XFD", "XFE", "xfd", "A\u{0}", "ÀB", "MWLQKWW", "MWLQKWX", "FXSHRXX", "FXSHRXW", "ZZZZZZZ", "AAAAAAAA", "MWLQKWWA"] {
        cs.case(&format!("c2n {}", wire(s)), &c2n(s));
    }
    // long random letter strings: 5..9 letters; plus aliasing candidates k*2^32 + n
    let nrand = if thorough { 400_000 } else { 40_000 };
    for _ in 0..nrand {
        let len = rng.range(4, 9) as usize;
        let s: String = (0..len).map(|_| (b'A' + rng.below(26) as u8) as char).collect();
        cs.case(&format!("c2n {}", wire(&s)), &c2n(&s));
        *dist.entry("c2n_long_random").or_insert(0) += 1;
    }
    let nalias = if thorough { 20_000 } else { 3_000 };
    for _ in 0..nalias {
        let k = rng.range(1, 1800) as u64; // 7 letters reach ~8.3e9, 8 letters ~2.2e11
        let n = rng.range(1, 16384) as u64;
        let mut v = k * (1u64 << 32) + n;
        let mut s = String::new();
        while v > 0 {
            let r = ((v - 1) % 26) as u8;
            s.insert(0, (b'A' + r) as char);
            v = (v - 1) / 26;
        }
        cs.case(&format!("c2n {}", wire(&s)), &c2n(&s));
        or.checked += 1;
        *dist.entry("c2n_alias_candidates").or_insert(0) += 1;
        if let Ok(m) = column_to_number(&s) {
            if number_to_column(m).as_deref() != Some(s.as_str()) {
                // a long "column" that the codec reads as a valid one: injectivity fails
                let class = if s.len() >= 7 { "col_alias_i32_wrap" } else { "col_alias_short" };
                or.fail(class, json!({"letters": s}), format!("column_to_number({s}) = {m}, number_to_column({m}) = {:?}", number_to_column(m)));
            }
        }
    }

    // ---- A1 references ------------------------------------------------------------------
    let rows_quick: Vec<i32> = {
        let mut v: Vec<i32> = (1..=60).collect();
        for k in 0..=20 { let p = 1i32 << k; v.extend([p - 1, p, p + 1]); }
        for p in [10, 100, 1000, 10_000, 100_000, 1_000_000] { v.extend([p - 1, p, p + 1]); }
        v.extend([1_048_575, 1_048_576]);
        if thorough { v.extend(61..=2000); }
        v.retain(|r| *r >= 1 && *r <= 1_048_576);
        v.sort(); v.dedup(); v
    };
    let flags = [(false, false), (false, true), (true, false), (true, true)];
    let colstep = if thorough { 1 } else { 1 };
    let mut a1_n = 0u64;
    for col in (1..=16384i32).step_by(colstep) {
        // every column with a rotating subset of rows (all rows for the first/last columns)
        let rows: Vec<i32> = if col <= 30 || col >= 16380 || thorough && col % 64 == 0 { rows_quick.clone() } else {
            vec![rows_quick[(col as usize * 7) % rows_quick.len()], rows_quick[(col as usize * 13 + 5) % rows_quick.len()]]
        };
        for &row in &rows {
            for &(absr, absc) in &flags {
                let node = ref_node(row, col, absr, absc, None);
                let text = to_english_string(&node, &ctx());
                cs.case(&format!("fa1 {row} {col} {} {}", b(absr), b(absc)), &format!("some {}", wire(&text)));
                cs.case(&format!("pa1 {}", wire(&text)), &pref(parse_reference_a1(&text)));
                a1_n += 1;
                or.checked += 1;
                let back = lex_ref(&text, LexerMode::A1);
                let want = format!("some {} {} {} {}", row, col, b(absc), b(absr));
                if back != want {
                    or.fail("a1_roundtrip", json!({"row": row, "col": col, "abs_row": absr, "abs_col": absc, "text": text}), format!("printed {text}, lexer read back {back}"));
                }
                // lower case is read as the same reference
                let lower = text.to_lowercase();
                if lex_ref(&lower, LexerMode::A1) != want {
                    or.fail("a1_lowercase", json!({"text": lower}), format!("{lower} not read as {want}"));
                }
                // R1C1 form
                let rc = to_rc_format(&node);
                let (nr, nc) = (if absr { row } else { row - CTX_ROW }, if absc { col } else { col - CTX_COL });
                cs.case(&format!("frc {nr} {nc} {} {}", b(absr), b(absc)), &wire(&rc));
                cs.case(&format!("lrc {}", wire(&rc)), &lex_ref(&rc, LexerMode::R1C1));
                let want_rc = format!("some {} {} {} {}", nr, nc, b(absc), b(absr));
                if lex_ref(&rc, LexerMode::R1C1) != want_rc {
                    or.fail("rc_roundtrip", json!({"row": nr, "col": nc, "abs_row": absr, "abs_col": absc, "text": rc}), format!("printed {rc}, lexer read back {}", lex_ref(&rc, LexerMode::R1C1)));
                }
            }
        }
    }
    dist.insert("a1_rc_roundtrips", a1_n);
    // off-grid positions print #REF!
    for (row, col) in [(0, 1), (-3, 2), (1, 0), (1, 16385), (1_048_577, 1), (5, -1)] {
        for &(absr, absc) in &flags {
            let text = to_english_string(&ref_node(row, col, absr, absc, None), &ctx());
            let obs = if text == "#REF!" { "ref".to_string() } else { format!("some {}", wire(&text)) };
            cs.case(&format!("fa1 {row} {col} {} {}", b(absr), b(absc)), &obs);
        }
    }
    // parse_reference_a1 / r1c1 on grammar-derived and mutated strings
    let frag = ["$", "A", "Z", "XFD", "XFE", "AA", "a", "1", "0", "9", "1048576", "1048577", "99999999999", "R", "C", "[", "]", "-", "+", "R1C1", "é", ""];
    let nmut = if thorough { 300_000 } else { 40_000 };
    for _ in 0..nmut {
        let k = rng.range(1, 6);
        let s: String = (0..k).map(|_| *rng.pick(&frag)).collect();
        cs.case(&format!("pa1 {}", wire(&s)), &pref(parse_reference_a1(&s)));
        cs.case(&format!("pr1 {}", wire(&s)), &pref(parse_reference_r1c1(&s)));
        *dist.entry("ref_mutations").or_insert(0) += 1;
    }
    // R1C1 texts in the lexer: shaped R<coord>C<coord> with odd integers
    let ints = ["", "0", "1", "-1", "+1", "-0", "12", "2147483647", "2147483648", "-2147483648", "-2147483649", "00012", "1048576", "-", "+", "1x"];
    for a in ints {
        for bb in ints {
            for (ba, bbr) in flags {
                let r = if ba { format!("R[{a}]") } else { format!("R{a}") };
                let c = if bbr { format!("C[{bb}]") } else { format!("C{bb}") };
                let s = format!("{r}{c}");
                cs.case(&format!("lrc {}", wire(&s)), &lex_ref(&s, LexerMode::R1C1));
                cs.case(&format!("pr1 {}", wire(&s)), &pref(parse_reference_r1c1(&s)));
            }
        }
    }

    // ---- ranges: print → lex (oracle only; the texts are built from the reference printer) --
    {
        let locale = get_locale("en").unwrap();
        let language = get_language("en").unwrap();
        let nr = if thorough { 200_000 } else { 20_000 };
        for i in 0..nr {
            let (r1, r2) = (rng.range(1, 1_048_576) as i32, rng.range(1, 1_048_576) as i32);
            let (c1, c2) = (rng.range(1, 16384) as i32, rng.range(1, 16384) as i32);
            let (f1, f2) = (flags[rng.below(4) as usize], flags[rng.below(4) as usize]);
            let kind = i % 3; // 0 cell range, 1 full columns, 2 full rows
            let node = match kind {
                0 => Node::RangeKind { sheet_name: None, sheet_index: 0,
                    absolute_row1: f1.0, absolute_column1: f1.1, row1: if f1.0 { r1 } else { r1 - CTX_ROW }, column1: if f1.1 { c1 } else { c1 - CTX_COL },
                    absolute_row2: f2.0, absolute_column2: f2.1, row2: if f2.0 { r2 } else { r2 - CTX_ROW }, column2: if f2.1 { c2 } else { c2 - CTX_COL } },
                1 => Node::RangeKind { sheet_name: None, sheet_index: 0,
                    absolute_row1: true, absolute_column1: f1.1, row1: 1, column1: if f1.1 { c1 } else { c1 - CTX_COL },
                    absolute_row2: true, absolute_column2: f2.1, row2: 1_048_576, column2: if f2.1 { c2 } else { c2 - CTX_COL } },
                _ => Node::RangeKind { sheet_name: None, sheet_index: 0,
                    absolute_row1: f1.0, absolute_column1: true, row1: if f1.0 { r1 } else { r1 - CTX_ROW }, column1: 1,
                    absolute_row2: f2.0, absolute_column2: true, row2: if f2.0 { r2 } else { r2 - CTX_ROW }, column2: 16384 },
            };
            let text = to_english_string(&node, &ctx());
            or.checked += 1;
            let mut lx = Lexer::new(&text, LexerMode::A1, locale, language);
            let t = lx.next_token();
            let eof = lx.next_token() == TokenType::EOF;
            let ok = match (&t, kind) {
                (TokenType::Range { sheet: None, left, right }, 0) => eof
                    && (left.row, left.column, left.absolute_row, left.absolute_column) == (r1, c1, f1.0, f1.1)
                    && (right.row, right.column, right.absolute_row, right.absolute_column) == (r2, c2, f2.0, f2.1),
                (TokenType::Range { sheet: None, left, right }, 1) => eof
                    && (left.row, left.column, left.absolute_column) == (1, c1, f1.1)
                    && (right.row, right.column, right.absolute_column) == (1_048_576, c2, f2.1),
                (TokenType::Range { sheet: None, left, right }, _) => eof
                    && (left.row, left.column, left.absolute_row) == (r1, 1, f1.0)
                    && (right.row, right.column, right.absolute_row) == (r2, 16384, f2.0),
                _ => false,
            };
            if !ok {
                or.fail("range_roundtrip", json!({"text": text, "kind": kind}), format!("printed range {text} read back as {:?}", t));
            }
            if i < 3 { samples.push(format!("range {text}")); }
            *dist.entry("range_roundtrips").or_insert(0) += 1;
        }
    }

    // boundary sweep: every combination of first/second/penultimate/last row and column with all
    // flag pairs — a range that merely TOUCHES the last row or column is not a full-column/row range
    {
        let locale = get_locale("en").unwrap();
        let language = get_language("en").unwrap();
        let rs = [1, 2, 1_048_575, 1_048_576];
        let cols = [1, 2, 16383, 16384];
        for &r1 in &rs { for &r2 in &rs { for &c1 in &cols { for &c2 in &cols {
            for f1 in flags { for f2 in flags {
                let node = Node::RangeKind { sheet_name: None, sheet_index: 0,
                    absolute_row1: f1.0, absolute_column1: f1.1, row1: if f1.0 { r1 } else { r1 - CTX_ROW }, column1: if f1.1 { c1 } else { c1 - CTX_COL },
                    absolute_row2: f2.0, absolute_column2: f2.1, row2: if f2.0 { r2 } else { r2 - CTX_ROW }, column2: if f2.1 { c2 } else { c2 - CTX_COL } };
                let text = to_english_string(&node, &ctx());
                or.checked += 1;
                *dist.entry("range_boundary_roundtrips").or_insert(0) += 1;
                let mut lx = Lexer::new(&text, LexerMode::A1, locale, language);
                let t = lx.next_token();
                let eof = lx.next_token() == TokenType::EOF;
                // what the printed text denotes: the same four corners (a full-column / full-row
                // spelling denotes rows 1..LAST / columns 1..LAST with absolute markers)
                let has_letters = text.contains(|ch: char| ch.is_ascii_alphabetic());
                let has_digits = text.contains(|ch: char| ch.is_ascii_digit());
                let ok = match &t {
                    TokenType::Range { sheet: None, left, right } => eof
                        && (left.row, left.column, right.row, right.column) == (r1, c1, r2, c2)
                        && (!has_letters || (left.absolute_column, right.absolute_column) == (f1.1, f2.1))
                        && (!has_digits || (left.absolute_row, right.absolute_row) == (f1.0, f2.0)),
                    _ => false,
                };
                if !ok && !has_letters && !has_digits {
                    // both the row part and the column part were dropped
                    or.fail("range_whole_sheet_prints_bare_colon", json!({"text": text, "flags": format!("{:?}{:?}", f1, f2)}), format!("the range $A$1:$XFD$1048576 is printed as {text:?}"));
                    continue;
                }
                if !ok {
                    or.fail("range_boundary_roundtrip", json!({"text": text, "r1": r1, "c1": c1, "r2": r2, "c2": c2, "flags": format!("{:?}{:?}", f1, f2)}), format!("range ({r1},{c1})-({r2},{c2}) printed as {text}, read back as {:?}", t));
                }
            } }
        } } } }
    }

    // ---- sheet names --------------------------------------------------------------------
    let mut names: Vec<String> = vec![];
    let nlen = if thorough { 3 } else { 2 };
    fn gen(cur: &mut String, depth: usize, maxd: usize, names: &mut Vec<String>) {
        if !cur.is_empty() { names.push(cur.clone()); }
        if depth == maxd { return; }
        for &c in NAME_ALPHABET {
            cur.push(c);
            gen(cur, depth + 1, maxd, names);
            cur.pop();
        }
    }
    gen(&mut String::new(), 0, nlen, &mut names);
    for s in ["Sheet1", "A1", "XFD1048576", "XFD1048577", "R1C1", "RC", "R[1]C[1]", "R-1C", "TRUE", "Sheet 1", "it's", "''", "'a'", "a''b", "2024", "1Data", "Data(2024)", "R1C1P", "A$1", "$A$1", "R", "C", "r1c1", "a1", "_x", "x.y", "é1", "中中", "βЖβ",
              "0123456789012345678901234567890", "a!b!c"] {
        names.push(s.to_string());
    }
    let nrandn = if thorough { 60_000 } else { 6_000 };
    for _ in 0..nrandn {
        let len = rng.range(3, 31);
        let s: String = (0..len).map(|_| *rng.pick(NAME_ALPHABET)).collect();
        names.push(s);
    }
    let mut n_names = 0u64;
    let mut n_quoted = 0u64;
    for name in &names {
        let q = quote_name(name);
        cs.case(&format!("qn {}", wire(name)), &wire(&q));
        let t1 = format!("{q}!A1");
        cs.case(&format!("lsp {}", wire(&t1)), &lex_sheet(&t1));
        let t2 = format!("{name}!A1");
        if !name.starts_with(char::is_whitespace) {
            cs.case(&format!("lsp {}", wire(&t2)), &lex_sheet(&t2));
        }
        if !is_valid_sheet_name(name) { continue; }
        n_names += 1;
        if q != *name { n_quoted += 1; }
        or.checked += 1;
        // the property: the quoted name in a formula is read back as exactly that sheet
        let mut parser = new_parser_english(vec![name.clone(), "Other".to_string()], vec![], HashMap::new());
        let formula = format!("{q}!A1");
        let node = parser.parse(&formula, &CellReferenceRC { sheet: "Other".to_string(), row: 1, column: 1 });
        let ok = matches!(&node, Node::ReferenceKind { sheet_name: Some(n), sheet_index: 0, row: 0, column: 0, absolute_row: false, absolute_column: false } if n == name);
        if !ok {
            let has_nonident = name.chars().any(|c| !(c.is_alphanumeric() || c == '_' || c == '.'));
            let first = name.chars().next().unwrap();
            let bad_start = !(first.is_alphabetic() || first == '_');
            let class = if q == *name && (has_nonident || bad_start) { "sheet_unquoted_nonident" } else { "sheet_roundtrip" };
            or.fail(class, json!({"name": name, "quoted": q}), format!("sheet {name:?} printed as {q:?}; formula {formula:?} parsed to {}", short(&node)));
        }
    }
    dist.insert("sheet_names_valid", n_names);
    dist.insert("sheet_names_quoted", n_quoted);
    samples.push(format!("qn {:?} -> {:?}", "it's", quote_name("it's")));
    samples.push(format!("fa1 row 12 col 28 $row -> {}", to_english_string(&ref_node(12, 28, true, false, None), &ctx())));
    samples.push("c2n MWLQKWW (=2^32+1 in bijective base 26)".to_string());

    let nontrivial = a1_n + n_quoted + 16384;
    cs.finish(json!({
        "oracle_failures": or.failures, "oracle_checked": or.checked, "oracle_failures_per_class": or.per_class,
        "distribution": dist, "samples": samples, "distinct_nontrivial": nontrivial,
        "exhaustive": true,
    }));
}

fn short(n: &Node) -> String {
    let s = format!("{:?}", n);
    s.chars().take(160).collect()
}
