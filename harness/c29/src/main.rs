//! C29 — row and column attributes change independently.
//! Implementation side of the correspondence (column descriptor surgery and row records of
//! `Worksheet`, driven through the `Model` wrappers) and the property oracle (the frame property
//! itself: getters of every (column, attribute) before and after each operation).
//!
//! Case lines (all integers):
//!   c  n <n*6: min max width custom hidden style+1>  k <k*3: kind j v>  m <m columns>
//!   cx ... same ... a <a*3 alphabet>      (one more step from the alphabet; hashed observation)
//!   r  n <n*6: r height custom_format custom_height s hidden>  k <k*3>  m <m rows>
//!   rx ... same ... a <a*3>
//! kinds: 0 set width/height, 1 set hidden, 2 set style, 3 delete style.
//! Observation: per step `ok` (rows: also per step whether the step creates the record), the
//! descriptor vector, and per observed column: shown width, actual width, hidden, style+1 (all -1 when the getter refuses), and the
//! style index an empty cell of that column reads (Model::get_cell_style_index, row 900000).
use ironcalc_base::types::{Col, Row, Style};
use ironcalc_base::{Model, COLUMN_WIDTH_FACTOR, ROW_HEIGHT_FACTOR};
use serde_json::json;
use vh_common::*;

const NSTYLES: usize = 8;

#[derive(Clone, Copy, PartialEq, Debug)]
struct Op { kind: u8, j: i32, v: i64 }

fn zi(x: f64) -> i64 {
    if x.fract() == 0.0 && x.abs() < 1e15 { x as i64 } else { -777_000_000 - (x.to_bits() % 1000) as i64 }
}

struct H { m: Model<'static>, styles: Vec<Style> }

impl H {
    fn new() -> H {
        let mut m = Model::new_empty("c29", "en", "UTC", "en").unwrap();
        let mut styles = vec![Style::default()];
        for k in 1..=NSTYLES {
            let mut s = Style::default();
            s.font.b = k & 1 == 1;
            s.font.i = k & 2 == 2;
            s.font.strike = k & 4 == 4;
            s.font.sz = 10 + k as i32;
            let idx = m.workbook.styles.create_new_style(&s);
            assert_eq!(idx as usize, k, "style pool indices are not 1..8");
            styles.push(s);
        }
        assert_eq!(m.workbook.styles.get_style_index(&Style::default()), Some(0));
        H { m, styles }
    }
    fn style_index(&self, s: &Style) -> i64 {
        self.styles.iter().position(|x| x == s).map(|p| p as i64).unwrap_or(-9)
    }
    fn cols(&self) -> &Vec<Col> { &self.m.workbook.worksheets[0].cols }
    fn rows(&self) -> &Vec<Row> { &self.m.workbook.worksheets[0].rows }
    fn set_cols(&mut self, c: &[Col]) { self.m.workbook.worksheets[0].cols = c.to_vec(); }
    fn set_rows(&mut self, r: &[Row]) { self.m.workbook.worksheets[0].rows = r.to_vec(); }

    // ---- columns ---------------------------------------------------------------------------
    fn apply_col(&mut self, o: Op) -> bool {
        let r = match o.kind {
            0 => self.m.set_column_width(0, o.j, o.v as f64),
            1 => self.m.set_column_hidden(0, o.j, o.v != 0),
            2 => { let s = self.styles[o.v as usize].clone(); self.m.set_column_style(0, o.j, &s) }
            _ => self.m.delete_column_style(0, o.j),
        };
        r.is_ok()
    }
    /// (shown, actual, hidden, style+1, style an empty cell of the column reads); -1 when the getter refuses
    fn col_obs(&self, j: i32) -> [i64; 5] {
        let ws = &self.m.workbook.worksheets[0];
        let shown = self.m.get_column_width(0, j).map(zi).unwrap_or(-1);
        let actual = ws.get_actual_column_width(j).map(zi).unwrap_or(-1);
        let hidden = self.m.is_column_hidden(0, j).map(|b| b as i64).unwrap_or(-1);
        // Model::get_column_style has no validity gate; the worksheet getter has one
        let style = match (self.m.get_column_style(0, j), ws.get_column_style(j)) {
            (Ok(ms), Ok(wi)) => {
                let mi = ms.map(|s| self.style_index(&s));
                if mi == wi.map(|x| x as i64) { mi.map(|x| x + 1).unwrap_or(0) } else { -9 }
            }
            (_, Err(_)) => -1,
            (Err(_), Ok(_)) => -8,
        };
        // the cell-level reading of the column style (no validity gate in get_cell_style_index)
        let eff = self.m.get_cell_style_index(0, 900_000, j).map(|x| x as i64).unwrap_or(-1);
        [shown, actual, hidden, style, eff]
    }
    fn cols_ints(&self, out: &mut Vec<i64>) {
        let cs = self.cols();
        out.push(cs.len() as i64);
        for c in cs {
            out.extend_from_slice(&[c.min as i64, c.max as i64, zi(c.width), c.custom_width as i64, c.hidden as i64, c.style.map(|s| s as i64 + 1).unwrap_or(0)]);
        }
    }

    // ---- rows ------------------------------------------------------------------------------
    fn apply_row(&mut self, o: Op) -> bool {
        let r = match o.kind {
            0 => self.m.set_row_height(0, o.j, o.v as f64),
            1 => self.m.set_row_hidden(0, o.j, o.v != 0),
            2 => { let s = self.styles[o.v as usize].clone(); self.m.set_row_style(0, o.j, &s) }
            _ => self.m.delete_row_style(0, o.j),
        };
        r.is_ok()
    }
    /// (shown height, hidden, get_row_style+1, actual height, s, custom_format, effective cell style)
    fn row_obs(&self, r: i32) -> [i64; 7] {
        let shown = self.m.get_row_height(0, r).map(zi).unwrap_or(-1);
        let hidden = self.m.is_row_hidden(0, r).map(|b| b as i64).unwrap_or(-1);
        let raw = match self.m.get_row_style(0, r) { Ok(Some(s)) => self.style_index(&s) + 1, Ok(None) => 0, Err(_) => -1 };
        let rec = self.rows().iter().find(|x| x.r == r);
        let actual = rec.map(|x| zi(x.height * ROW_HEIGHT_FACTOR)).unwrap_or(25);
        let s = rec.map(|x| x.s as i64).unwrap_or(0);
        let cf = rec.map(|x| x.custom_format as i64).unwrap_or(0);
        // an empty cell of a column that has no descriptor shows the row style when custom_format
        let eff = self.m.get_cell_style_index(0, r, 9000).map(|x| x as i64).unwrap_or(-1);
        [shown, hidden, raw, actual, s, cf, eff]
    }
    fn row_materialises(&self, o: Op) -> bool {
        let valid = (1..=1048576).contains(&o.j);
        let none = !self.rows().iter().any(|x| x.r == o.j);
        match o.kind { 0 => valid && o.v >= 0 && none, 1 => valid && none, _ => false }
    }
    fn rows_ints(&self, out: &mut Vec<i64>) {
        let rs = self.rows();
        out.push(rs.len() as i64);
        for x in rs {
            out.extend_from_slice(&[x.r as i64, zi(x.height), x.custom_format as i64, x.custom_height as i64, x.s as i64, x.hidden as i64]);
        }
    }
}

fn hash_ints(v: &[i64], mut h: u64) -> u64 {
    const MASK: u64 = (1u64 << 62) - 1;
    for &x in v {
        h = (h.wrapping_mul(1_000_003).wrapping_add((x + 1_000_000_007) as u64)) & MASK;
    }
    h
}

fn ints(v: &[i64]) -> String { v.iter().map(|x| x.to_string()).collect::<Vec<_>>().join(" ") }
fn ops_str(ops: &[Op]) -> String {
    let mut s = format!("{}", ops.len());
    for o in ops { s.push_str(&format!(" {} {} {}", o.kind, o.j, o.v)); }
    s
}
fn col_layout_str(cs: &[Col]) -> String {
    let mut s = format!("{}", cs.len());
    for c in cs { s.push_str(&format!(" {} {} {} {} {} {}", c.min, c.max, zi(c.width), c.custom_width as i64, c.hidden as i64, c.style.map(|x| x + 1).unwrap_or(0))); }
    s
}
fn row_layout_str(rs: &[Row]) -> String {
    let mut s = format!("{}", rs.len());
    for x in rs { s.push_str(&format!(" {} {} {} {} {} {}", x.r, zi(x.height), x.custom_format as i64, x.custom_height as i64, x.s, x.hidden as i64)); }
    s
}
fn list_str(v: &[i32]) -> String { format!("{} {}", v.len(), v.iter().map(|x| x.to_string()).collect::<Vec<_>>().join(" ")) }

fn col(min: i32, max: i32, width: f64, custom: bool, hidden: bool, style: Option<i32>) -> Col {
    Col { min, max, width, custom_width: custom, hidden, style }
}
fn row(r: i32, height: f64, cf: bool, ch: bool, s: i32, hidden: bool) -> Row {
    Row { r, height, custom_format: cf, custom_height: ch, s, hidden }
}

struct Ctx { cs: Cases, or: Oracle, nodes: u64, frame_checks: u64, defect_steps: u64, samples: Vec<String>, is_rows: bool }

const KIND_NAME: [&str; 4] = ["set_size", "set_hidden", "set_style", "delete_style"];

/// the frame property on the implementation for one step on columns
fn oracle_cols(h: &H, ctx: &mut Ctx, layout: &[Col], prefix: &[Op], o: Op, before: &[(i32, [i64; 5])], ok: bool, wf: bool) {
    if !wf { return; }
    for (j, b) in before {
        let a = h.col_obs(*j);
        ctx.frame_checks += 1;
        // expected observation
        let mut e = *b;
        if ok && *j == o.j {
            match o.kind {
                0 => e[1] = o.v,
                1 => e[2] = o.v,
                2 => e[3] = o.v + 1,
                _ => e[3] = 0,
            }
        }
        if e[2] >= 0 { e[0] = if e[2] == 1 { 0 } else { e[1] }; }
        let names = ["shown_width", "width", "hidden", "style"];
        for t in 1..4 {
            if a[t] != e[t] {
                // F23a/b/c are repaired (acf9a86, ae7cffd, 973383c): every column failure is a violation
                let class = format!("frame:col:{}:{}", KIND_NAME[o.kind as usize], names[t]);
                ctx.or.fail(&class, json!({"layout": col_layout_str(layout), "ops_before": ops_str(prefix), "op": [KIND_NAME[o.kind as usize], o.j, o.v], "column": j, "attribute": names[t]}),
                    format!("{} of column {} is {} after the step, expected {} (before: {})", names[t], j, a[t], e[t], b[t]));
            }
        }
        if a[3] >= 0 && a[4] != (a[3] - 1).max(0) {
            ctx.or.fail("frame:col:cell_level_style", json!({"layout": col_layout_str(layout), "ops_before": ops_str(prefix), "op": [KIND_NAME[o.kind as usize], o.j, o.v], "column": j}), format!("an empty cell of column {} reads style {} but get_column_style reads {}", j, a[4], a[3] - 1));
        }
        if a[2] >= 0 && a[0] != (if a[2] == 1 { 0 } else { a[1] }) {
            ctx.or.fail("getter:get_column_width", json!({"layout": col_layout_str(layout), "ops": ops_str(prefix), "column": j}), format!("get_column_width = {} but hidden = {} and actual width = {}", a[0], a[2], a[1]));
        }
    }
}

fn is_wf(cs: &[Col]) -> bool {
    let mut lo = 0;
    for c in cs { if !(lo < c.min && c.min <= c.max && c.max <= 16384) { return false; } lo = c.max; }
    true
}

/// one step on the current state; returns ok
fn col_step(h: &mut H, ctx: Option<&mut Ctx>, layout: &[Col], prefix: &[Op], o: Op, obs: &[i32]) -> i64 {
    match ctx {
        None => h.apply_col(o) as i64,
        Some(c) => {
            let before: Vec<(i32, [i64; 5])> = obs.iter().map(|&j| (j, h.col_obs(j))).collect();
            let wf = is_wf(h.cols());
            let ok = h.apply_col(o);
            oracle_cols(h, c, layout, prefix, o, &before, ok, wf);
            ok as i64
        }
    }
}
fn col_final(h: &H, oks: &[i64], obs: &[i32]) -> Vec<i64> {
    let mut out = oks.to_vec();
    h.cols_ints(&mut out);
    for &j in obs { out.extend_from_slice(&h.col_obs(j)); }
    out
}
/// observation of a column history, as integers; the oracle runs on steps >= oracle_from
fn col_observation(h: &mut H, ctx: Option<&mut Ctx>, layout: &[Col], ops: &[Op], obs: &[i32], oracle_from: usize) -> Vec<i64> {
    h.set_cols(layout);
    let mut oks = vec![];
    let mut ctx = ctx;
    for (i, &o) in ops.iter().enumerate() {
        let c = if i >= oracle_from { ctx.as_deref_mut() } else { None };
        oks.push(col_step(h, c, layout, &ops[..i], o, obs));
    }
    col_final(h, &oks, obs)
}

fn oracle_rows(h: &H, ctx: &mut Ctx, layout: &[Row], prefix: &[Op], o: Op, before: &[(i32, [i64; 7])], ok: bool, had_record: bool) {
    for (r, b) in before {
        let a = h.row_obs(*r);
        ctx.frame_checks += 1;
        let mut e = *b;
        if ok && *r == o.j {
            match o.kind {
                0 => e[3] = o.v,
                1 => e[1] = o.v,
                2 => { e[2] = o.v + 1; e[4] = o.v; e[5] = (o.v != 0) as i64; }
                _ => { e[2] = if had_record { 1 } else { 0 }; e[4] = 0; e[5] = 0; }
            }
        }
        if e[1] >= 0 { e[0] = if e[1] == 1 { 0 } else { e[3] }; }
        e[6] = if e[5] == 1 { e[4] } else { 0 };
        let names = ["shown_height", "hidden", "get_row_style", "height", "s", "custom_format", "effective_cell_style"];
        for t in 1..7 {
            if a[t] != e[t] {
                let class = if *r == o.j && (o.kind == 0 || o.kind == 1) && t == 2 && !had_record && b[2] == 0 && a[2] == 1 {
                    "row_style_materialises_on_record_creation".to_string()
                } else { format!("frame:row:{}:{}", KIND_NAME[o.kind as usize], names[t]) };
                ctx.or.fail(&class, json!({"layout": row_layout_str(layout), "ops_before": ops_str(prefix), "op": [KIND_NAME[o.kind as usize], o.j, o.v], "row": r, "attribute": names[t]}),
                    format!("{} of row {} is {} after the step, expected {} (before: {})", names[t], r, a[t], e[t], b[t]));
            }
        }
        if a[1] >= 0 && a[0] != (if a[1] == 1 { 0 } else { a[3] }) {
            ctx.or.fail("getter:get_row_height", json!({"layout": row_layout_str(layout), "ops": ops_str(prefix), "row": r}), format!("get_row_height = {} but hidden = {} and height = {}", a[0], a[1], a[3]));
        }
    }
}

fn row_step(h: &mut H, ctx: Option<&mut Ctx>, layout: &[Row], prefix: &[Op], o: Op, obs: &[i32]) -> (i64, i64) {
    let mt = h.row_materialises(o);
    match ctx {
        None => (h.apply_row(o) as i64, mt as i64),
        Some(c) => {
            let before: Vec<(i32, [i64; 7])> = obs.iter().map(|&r| (r, h.row_obs(r))).collect();
            let had = h.rows().iter().any(|x| x.r == o.j);
            let ok = h.apply_row(o);
            if mt { c.defect_steps += 1; }
            oracle_rows(h, c, layout, prefix, o, &before, ok, had);
            (ok as i64, mt as i64)
        }
    }
}
fn row_final(h: &H, oks: &[i64], mats: &[i64], obs: &[i32]) -> Vec<i64> {
    let mut out = oks.to_vec(); out.extend_from_slice(mats);
    h.rows_ints(&mut out);
    for &r in obs { out.extend_from_slice(&h.row_obs(r)); }
    out
}
fn row_observation(h: &mut H, ctx: Option<&mut Ctx>, layout: &[Row], ops: &[Op], obs: &[i32], oracle_from: usize) -> Vec<i64> {
    h.set_rows(layout);
    let mut oks = vec![]; let mut mats = vec![];
    let mut ctx = ctx;
    for (i, &o) in ops.iter().enumerate() {
        let c = if i >= oracle_from { ctx.as_deref_mut() } else { None };
        let (ok, d) = row_step(h, c, layout, &ops[..i], o, obs);
        oks.push(ok); mats.push(d);
    }
    row_final(h, &oks, &mats, obs)
}

/// depth-first enumeration of all operation sequences over `alphabet`; every node is a text case
/// (full observation); nodes at depth `text_depth` get one more level as a hashed `x` case
fn dfs(h: &mut H, ctx: &mut Ctx, layout_s: &str, cols: Option<&[Col]>, rows: Option<&[Row]>, alphabet: &[Op], obs: &[i32], ops: &mut Vec<Op>, text_depth: usize, hash_level: bool) {
    let tag = if ctx.is_rows { "r" } else { "c" };
    if !ops.is_empty() {
        // the oracle runs on the last step only: earlier steps were checked at the parent nodes
        let from = ops.len() - 1;
        let v = if let Some(cs) = cols { col_observation(h, Some(ctx), cs, ops, obs, from) } else { row_observation(h, Some(ctx), rows.unwrap(), ops, obs, from) };
        let line = format!("{} {} {} {}", tag, layout_s, ops_str(ops), list_str(obs));
        if ctx.samples.len() < 6 && ctx.nodes % 9973 == 17 { ctx.samples.push(format!("{} -> {}", line, ints(&v))); }
        ctx.cs.case(&line, &ints(&v));
        ctx.nodes += 1;
    }
    if ops.len() == text_depth {
        if hash_level {
            // replay the prefix once, then try every operation of the alphabet from that state
            let mut hsh = 0u64;
            let (mut oks, mut defs) = (vec![], vec![]);
            if let Some(cs) = cols {
                h.set_cols(cs);
                for (i, &o) in ops.iter().enumerate() { oks.push(col_step(h, None, cs, &ops[..i], o, obs)); }
                let saved = h.cols().clone();
                for &o in alphabet {
                    h.set_cols(&saved);
                    let k = col_step(h, Some(ctx), cs, ops, o, obs);
                    oks.push(k);
                    hsh = hash_ints(&col_final(h, &oks, obs), hsh);
                    oks.pop();
                    ctx.nodes += 1;
                }
            } else {
                let rs = rows.unwrap();
                h.set_rows(rs);
                for (i, &o) in ops.iter().enumerate() { let (k, d) = row_step(h, None, rs, &ops[..i], o, obs); oks.push(k); defs.push(d); }
                let saved = h.rows().clone();
                for &o in alphabet {
                    h.set_rows(&saved);
                    let (k, d) = row_step(h, Some(ctx), rs, ops, o, obs);
                    oks.push(k); defs.push(d);
                    hsh = hash_ints(&row_final(h, &oks, &defs, obs), hsh);
                    oks.pop(); defs.pop();
                    ctx.nodes += 1;
                }
            }
            let line = format!("{}x {} {} {} {}", tag, layout_s, ops_str(ops), list_str(obs), ops_str(alphabet));
            ctx.cs.case(&line, &format!("{}", hsh));
        }
        return;
    }
    for &o in alphabet {
        ops.push(o);
        dfs(h, ctx, layout_s, cols, rows, alphabet, obs, ops, text_depth, hash_level);
        ops.pop();
    }
}

fn main() {
    let a = Args::parse();
    if a.extra.first().map(|s| s.as_str()) == Some("probe") { probe(); return; }
    let mut rng = Rng::new(a.seed);
    let mut h = H::new();
    let cs = Cases::new(&a.out, "c29");
    let mut ctx = Ctx { cs, or: Oracle::default(), nodes: 0, frame_checks: 0, defect_steps: 0, samples: vec![], is_rows: false };

    // ---- exhaustive small scope: columns ---------------------------------------------------------
    // widths are pixel tokens that are multiples of 9 (stored = w / 9 exactly)
    let col_layouts: Vec<Vec<Col>> = vec![
        vec![],
        vec![col(2, 2, 5.0, true, false, None)],
        vec![col(1, 4, 5.0, true, false, Some(1))],                       // 4-column descriptor with a style
        vec![col(2, 3, 20.0, true, true, None)],                           // hidden 2-column descriptor
        vec![col(1, 2, 5.0, true, false, Some(2)), col(3, 4, 20.0, true, true, Some(1))],   // adjacent descriptors
        vec![col(2, 6, 10.0, true, false, Some(1))],                       // 5 columns, custom width equal to the default
        vec![col(1, 5, 7.0, false, false, Some(2))],                       // width present but custom_width off (imported)
        vec![col(1, 1, 5.0, true, true, Some(1)), col(3, 3, 20.0, true, false, None), col(4, 8, 5.0, false, true, None)],
        vec![col(3, 16384, 5.0, true, false, Some(1))],                    // descriptor reaching the last column
        vec![col(1, 16384, 10.0, false, false, Some(2))],                  // what set_style() on the sheet produces
        vec![col(2, 3, 0.0, true, false, None), col(4, 4, 5.0, true, true, Some(2))],      // zero width
        vec![col(1, 3, 5.0, true, true, Some(1)), col(4, 4, 20.0, false, false, Some(1)), col(5, 7, 5.0, true, false, None)],
        vec![col(16384, 16384, 5.0, true, true, Some(1))],                 // descriptor at column 16384
    ];
    let mut alphabet: Vec<Op> = vec![];
    for j in 1..=4 {
        for (k, v) in [(0u8, 45i64), (0, 180), (1, 1), (1, 0), (2, 1), (2, 2), (3, 0)] { alphabet.push(Op { kind: k, j, v }); }
    }
    let obs: Vec<i32> = (1..=8).collect();
    let text_depth = 3;
    for l in &col_layouts {
        let ls = col_layout_str(l);
        // the last layout is exercised at the far end of the grid
        if l.len() == 1 && l[0].min == 16384 {
            let alpha2: Vec<Op> = alphabet.iter().map(|o| Op { j: 16380 + o.j, ..*o }).collect();
            let obs2: Vec<i32> = (16377..=16384).collect();
            dfs(&mut h, &mut ctx, &ls, Some(l), None, &alpha2, &obs2, &mut vec![], text_depth, a.thorough);
        } else {
            dfs(&mut h, &mut ctx, &ls, Some(l), None, &alphabet, &obs, &mut vec![], text_depth, a.thorough);
        }
    }
    let col_nodes = ctx.nodes;

    // ---- refused calls and odd layouts (model tie; the oracle only on well-formed layouts) -----------
    let odd_layouts: Vec<Vec<Col>> = vec![
        vec![col(5, 6, 5.0, true, false, Some(1)), col(1, 2, 20.0, true, true, None)],           // unsorted
        vec![col(1, 5, 5.0, true, false, Some(1)), col(3, 8, 20.0, true, true, Some(2))],        // overlapping
        vec![col(2, 3, -1.0, true, false, None)],                                                // negative width: set_column_hidden is refused
        vec![col(4, 2, 5.0, true, false, None)],                                                 // min > max
    ];
    for l in col_layouts.iter().take(5).chain(odd_layouts.iter()) {
        let ls = col_layout_str(l);
        for j in [-1, 0, 1, 2, 3, 6, 16384, 16385, i32::MAX] {
            for (k, v) in [(0u8, 45i64), (0, -9), (0, 0), (0, 90), (1, 1), (1, 0), (2, 1), (3, 0)] {
                for (k2, j2, v2) in [(2u8, 3, 2i64), (0, 2, 45), (3, 3, 0), (1, 3, 1)] {
                    let ops = vec![Op { kind: k, j, v }, Op { kind: k2, j: j2, v: v2 }];
                    let obs3 = vec![0, 1, 2, 3, 4, 5, 6, 7, 16384, 16385];
                    let v = col_observation(&mut h, Some(&mut ctx), l, &ops, &obs3, 0);
                    ctx.cs.case(&format!("c {} {} {}", ls, ops_str(&ops), list_str(&obs3)), &ints(&v));
                    ctx.nodes += 1;
                }
            }
        }
    }

    // ---- random longer histories on far columns -----------------------------------------------------
    let nrandom = if a.thorough { 40_000 } else { 4_000 };
    for _ in 0..nrandom {
        // a random well-formed layout anywhere in the grid
        let base = *rng.pick(&[1i32, 100, 5000, 16000, 16360]);
        let mut l: Vec<Col> = vec![]; let mut lo = base - 1;
        for _ in 0..rng.below(5) {
            let min = lo + 1 + rng.below(3) as i32; let max = min + *rng.pick(&[0i32, 0, 1, 2, 5]);
            if max > 16384 { break; }
            l.push(col(min, max, *rng.pick(&[0.0, 5.0, 10.0, 20.0, 7.0]), rng.chance(3, 4), rng.chance(1, 3), if rng.chance(1, 2) { Some(rng.range(0, NSTYLES as i64) as i32) } else { None }));
            lo = max;
        }
        let hi = (lo + 3).min(16386);
        let n = rng.range(4, 25) as usize;
        let mut ops = vec![];
        for _ in 0..n {
            let j = rng.range((base - 1).max(0) as i64, hi as i64) as i32;
            let kind = rng.below(4) as u8;
            let v = match kind { 0 => *rng.pick(&[0i64, 9, 45, 90, 180, 900]), 1 => rng.below(2) as i64, 2 => rng.range(0, NSTYLES as i64), _ => 0 };
            ops.push(Op { kind, j, v });
        }
        let obs4: Vec<i32> = ((base - 1).max(0)..=hi).collect();
        let v = col_observation(&mut h, Some(&mut ctx), &l, &ops, &obs4, 0);
        ctx.cs.case(&format!("c {} {} {}", col_layout_str(&l), ops_str(&ops), list_str(&obs4)), &ints(&v));
        ctx.nodes += 1;
    }
    let col_total = ctx.nodes;

    // ---- exhaustive small scope: rows ---------------------------------------------------------------
    // heights are pixel tokens that are multiples of 25 (stored = h / 1.5625 = 16 h / 25 exactly)
    ctx.is_rows = true;
    let row_layouts: Vec<Vec<Row>> = vec![
        vec![],
        vec![row(2, 32.0, false, true, 0, false)],
        vec![row(3, 16.0, true, false, 1, true), row(1, 48.0, false, true, 0, false)],           // unsorted records
        vec![row(2, 32.0, false, true, 2, false), row(2, 48.0, true, true, 1, true)],              // duplicate record: the first wins
        vec![row(1, 16.0, false, false, 2, false), row(4, 0.0, true, true, 1, false)],             // s without custom_format (imported); zero height
        vec![row(1, 32.0, true, true, 1, true), row(2, 32.0, true, true, 1, true), row(3, 16.0, false, false, 0, true), row(4, 48.0, true, false, 2, false)],
        vec![row(1048576, 32.0, true, true, 1, true)],
    ];
    let mut ralpha: Vec<Op> = vec![];
    for r in 1..=4 {
        for (k, v) in [(0u8, 50i64), (0, 75), (1, 1), (1, 0), (2, 1), (2, 2), (2, 0), (3, 0)] { ralpha.push(Op { kind: k, j: r, v }); }
    }
    let robs: Vec<i32> = (1..=6).collect();
    for l in &row_layouts {
        let ls = row_layout_str(l);
        if l.len() == 1 && l[0].r == 1048576 {
            let alpha2: Vec<Op> = ralpha.iter().map(|o| Op { j: 1048572 + o.j, ..*o }).collect();
            let obs2: Vec<i32> = (1048571..=1048576).collect();
            dfs(&mut h, &mut ctx, &ls, None, Some(l), &alpha2, &obs2, &mut vec![], text_depth, a.thorough);
        } else {
            dfs(&mut h, &mut ctx, &ls, None, Some(l), &ralpha, &robs, &mut vec![], text_depth, a.thorough);
        }
    }
    // refused calls
    for l in row_layouts.iter().take(4) {
        let ls = row_layout_str(l);
        for r in [-1, 0, 1, 2, 1048576, 1048577, i32::MAX] {
            for (k, v) in [(0u8, 50i64), (0, -25), (0, 0), (1, 1), (1, 0), (2, 1), (2, 0), (3, 0)] {
                let ops = vec![Op { kind: k, j: r, v }, Op { kind: 0, j: 2, v: 75 }];
                // set_row_style / delete_row_style have no validity gate: they do create records for row 0 or -1
                let obs3 = vec![-1, 0, 1, 2, 3, 1048576, 1048577];
                let v = row_observation(&mut h, Some(&mut ctx), l, &ops, &obs3, 0);
                ctx.cs.case(&format!("r {} {} {}", ls, ops_str(&ops), list_str(&obs3)), &ints(&v));
                ctx.nodes += 1;
            }
        }
    }
    // random longer histories on far rows
    for _ in 0..nrandom {
        let base = *rng.pick(&[1i32, 1000, 500_000, 1_048_570]);
        let mut l: Vec<Row> = vec![];
        for _ in 0..rng.below(5) {
            l.push(row(base + rng.below(6) as i32, *rng.pick(&[0.0, 16.0, 32.0, 48.0]), rng.chance(1, 2), rng.chance(1, 2), rng.range(0, NSTYLES as i64) as i32, rng.chance(1, 3)));
        }
        let n = rng.range(4, 25) as usize;
        let mut ops = vec![];
        for _ in 0..n {
            let r = base - 1 + rng.below(9) as i32;
            let kind = rng.below(4) as u8;
            let v = match kind { 0 => *rng.pick(&[0i64, 25, 50, 75, 400]), 1 => rng.below(2) as i64, 2 => rng.range(0, NSTYLES as i64), _ => 0 };
            ops.push(Op { kind, j: r, v });
        }
        let obs4: Vec<i32> = (base - 1..=base + 8).collect();
        let v = row_observation(&mut h, Some(&mut ctx), &l, &ops, &obs4, 0);
        ctx.cs.case(&format!("r {} {} {}", row_layout_str(&l), ops_str(&ops), list_str(&obs4)), &ints(&v));
        ctx.nodes += 1;
    }

    // ---- the f64 premise of the theorems: (w / FACTOR) * FACTOR == w -----------------------------------
    // exhaustive over integer pixel sizes, random over fractional ones; the oracle is the read-back itself
    let mut fl_checked = 0u64; let mut fl_bad_w = 0u64; let mut fl_bad_h = 0u64; let mut first_bad_h: Vec<f64> = vec![];
    {
        let mut m = Model::new_empty("f", "en", "UTC", "en").unwrap();
        let mut sizes: Vec<f64> = (0..=2000).map(|x| x as f64).collect();
        for _ in 0..(if a.thorough { 200_000 } else { 20_000 }) {
            sizes.push(match rng.below(3) { 0 => rng.below(4000) as f64 / 4.0, 1 => rng.below(100_000) as f64 / 100.0, _ => rng.below(1_000_000_000) as f64 / 1e6 });
        }
        for &w in &sizes {
            fl_checked += 2;
            m.set_column_width(0, 3, w).unwrap();
            let g = m.get_column_width(0, 3).unwrap();
            if g != w {
                fl_bad_w += 1;
                let class = if (w / COLUMN_WIDTH_FACTOR) * COLUMN_WIDTH_FACTOR != w { "col_width_not_representable" } else { "frame:col:set_size:readback" };
                ctx.or.fail(class, json!({"op": "set_column_width", "column": 3, "width": w}), format!("get_column_width = {:?} after set_column_width({:?})", g, w));
            }
            m.set_row_height(0, 3, w).unwrap();
            let gh = m.get_row_height(0, 3).unwrap();
            if gh != w {
                fl_bad_h += 1; if first_bad_h.len() < 5 { first_bad_h.push(w); }
                let class = if (w / ROW_HEIGHT_FACTOR) * ROW_HEIGHT_FACTOR != w { "row_height_not_representable" } else { "frame:row:set_size:readback" };
                ctx.or.fail(class, json!({"op": "set_row_height", "row": 3, "height": w}), format!("get_row_height = {:?} after set_row_height({:?})", gh, w));
            }
            // hiding must not change the width that is read back after unhiding
            m.set_column_hidden(0, 3, true).unwrap(); m.set_column_hidden(0, 3, false).unwrap();
            let g2 = m.get_column_width(0, 3).unwrap();
            if g2 != g {
                let class = if (g / COLUMN_WIDTH_FACTOR) * COLUMN_WIDTH_FACTOR != g { "col_width_not_representable" } else { "frame:col:set_hidden:width" };
                ctx.or.fail(class, json!({"op": "hide, unhide", "column": 3, "width": g}), format!("width {:?} became {:?} after hide/unhide", g, g2));
            }
        }
    }

    let Ctx { cs, mut or, nodes, frame_checks, defect_steps, samples, .. } = ctx;
    or.checked = frame_checks + fl_checked;
    cs.finish(json!({
        "distribution": {
            "column_layouts": col_layouts.len(), "column_alphabet": alphabet.len(), "text_depth": text_depth, "hashed_extra_level": a.thorough,
            "column_exhaustive_nodes": col_nodes, "column_cases_total": col_total,
            "row_layouts": row_layouts.len(), "row_alphabet": ralpha.len(), "row_cases_total": nodes - col_total,
            "random_histories_each": nrandom, "row_steps_creating_a_record": defect_steps,
            "float_roundtrip_sizes": fl_checked / 2, "float_width_readback_failures": fl_bad_w, "float_height_readback_failures": fl_bad_h, "first_bad_heights": first_bad_h,
        },
        "distinct_nontrivial": nodes,
        "oracle_checked": or.checked,
        "oracle_failures": or.failures,
        "oracle_failures_per_class": or.per_class,
        "samples": samples,
    }));
}

fn probe() {
    let mut h = H::new();
    let l = vec![col(2, 5, 5.0, true, false, None)];
    let v = col_observation(&mut h, None, &l, &[Op { kind: 2, j: 3, v: 7 }], &[1, 2, 3, 4, 5, 6], 0);
    println!("F23a {}", ints(&v));
    let l = vec![col(3, 3, 5.0, true, true, None)];
    let v = col_observation(&mut h, None, &l, &[Op { kind: 2, j: 3, v: 7 }, Op { kind: 1, j: 3, v: 0 }], &[3], 0);
    println!("F23b {}", ints(&v));
    let l = vec![col(3, 3, 5.0, true, true, Some(7))];
    let v = col_observation(&mut h, None, &l, &[Op { kind: 3, j: 3, v: 0 }], &[3], 0);
    println!("F23c {}", ints(&v));
}
