//! C07 — evaluation is deterministic and independent of editing order.
//! No extracted model is run against this crate: the file pair cases/c07.{in,impl} only lists the
//! workbooks; everything is the property ORACLE evaluated on the implementation: a workbook (a set
//! of cell inputs) is built in many ways (entry order x evaluation schedule x save/reload points)
//! and all value dumps must equal the dump of the reference build (sorted entry, one evaluation).
mod classify;
mod gen;

use classify::*;
use gen::{a1, Input, KINDS};
use ironcalc_base::cell::CellValue;
use ironcalc_base::expressions::lexer::LexerMode;
use ironcalc_base::expressions::parser::new_parser_english;
use ironcalc_base::expressions::parser::stringify::to_rc_format;
use ironcalc_base::expressions::types::CellReferenceRC;
use ironcalc_base::types::CellType;
use ironcalc_base::Model;
use serde_json::{json, Value};
use std::collections::{BTreeMap, BTreeSet, HashMap};
use std::panic::{catch_unwind, AssertUnwindSafe};
use vh_common::*;
#[path = "../../c06/src/dump.rs"]
mod mdump;

#[derive(Clone, Copy, PartialEq, Debug)]
enum Step { Enter(usize), Eval, Reload }

type Dump = BTreeMap<(u32, i32, i32), String>;

fn n_sheets(w: &[Input]) -> u32 {
    let mut ns = 2;
    for x in w { ns = ns.max(x.0 + 1); if x.3.contains("Sheet3") { ns = 3; } }
    ns
}

fn new_model(ns: u32) -> Model<'static> {
    let mut m = Model::new_empty("c07", "en", "UTC", "en").expect("new_empty");
    for _ in 1..ns { m.new_sheet(); }
    m
}

fn cell_name(s: u32, r: i32, c: i32) -> String { format!("Sheet{}!{}", s + 1, a1(r, c)) }

/// canonical value dump: every cell present in sheet_data or in the input set; absent cells and
/// cells whose value is empty are the same thing (not listed)
fn dump(m: &Model, w: &[Input]) -> Dump {
    let mut keys: BTreeSet<(u32, i32, i32)> = w.iter().map(|x| (x.0, x.1, x.2)).collect();
    for (s, ws) in m.workbook.worksheets.iter().enumerate() {
        for (r, row) in ws.sheet_data.iter() { for c in row.keys() { keys.insert((s as u32, *r, *c)); } }
    }
    let mut d = Dump::new();
    for (s, r, c) in keys {
        let v = match m.get_cell_value_by_index(s, r, c) { Ok(v) => v, Err(e) => { d.insert((s, r, c), format!("!{e}")); continue; } };
        let t = match v {
            CellValue::None => continue,
            CellValue::Number(f) => format!("n:{:016x}({})", f.to_bits(), f),
            CellValue::Boolean(b) => format!("b:{}", b),
            CellValue::String(t) => {
                let is_err = matches!(m.get_cell_type(s, r, c), Ok(CellType::ErrorValue));
                if is_err { format!("e:{}", m.get_formatted_cell_value(s, r, c).unwrap_or(t)) } else { format!("s:{t}") }
            }
        };
        d.insert((s, r, c), t);
    }
    d
}

/// Err = some set_user_input was rejected
fn run_script(w: &[Input], alive: &[bool], ns: u32, script: &[Step]) -> Result<Dump, String> {
    let mut m = new_model(ns);
    for st in script {
        match *st {
            Step::Enter(i) => {
                if !alive[i] { continue; }
                let x = &w[i];
                m.set_user_input(x.0, x.1, x.2, x.3.clone()).map_err(|e| format!("{} <- {:?}: {e}", cell_name(x.0, x.1, x.2), x.3))?;
            }
            Step::Eval => m.evaluate(),
            Step::Reload => { m = Model::from_bytes(&m.to_bytes(), "en").map_err(|e| format!("from_bytes: {e}"))?; }
        }
    }
    let live: Vec<Input> = w.iter().enumerate().filter(|(i, _)| alive[*i]).map(|(_, x)| x.clone()).collect();
    Ok(dump(&m, &live))
}

fn first_diff(a: &Dump, b: &Dump) -> Option<String> {
    let keys: BTreeSet<&(u32, i32, i32)> = a.keys().chain(b.keys()).collect();
    for k in keys {
        let (x, y) = (a.get(k), b.get(k));
        if x != y {
            let sh = |v: Option<&String>| v.cloned().unwrap_or_else(|| "(empty)".to_string());
            return Some(format!("{}: reference {} / this build {}", cell_name(k.0, k.1, k.2), sh(x), sh(y)));
        }
    }
    None
}

fn reference_script(n: usize) -> Vec<Step> { let mut s: Vec<Step> = (0..n).map(Step::Enter).collect(); s.push(Step::Eval); s }

fn scripts(ord: &[usize], h: usize) -> Vec<(&'static str, Vec<Step>)> {
    let e: Vec<Step> = ord.iter().map(|i| Step::Enter(*i)).collect();
    let each: Vec<Step> = ord.iter().flat_map(|i| [Step::Enter(*i), Step::Eval]).collect();
    let with = |base: &Vec<Step>, tail: &[Step]| -> Vec<Step> { let mut v = base.clone(); v.extend_from_slice(tail); v };
    let h = h.min(e.len());
    let mid = |between: &[Step]| -> Vec<Step> { let mut v = e[..h].to_vec(); v.extend_from_slice(between); v.extend_from_slice(&e[h..]); v.push(Step::Eval); v };
    vec![
        ("end", with(&e, &[Step::Eval])),
        ("twice", with(&e, &[Step::Eval, Step::Eval])),
        ("reload_end", with(&e, &[Step::Eval, Step::Reload])),
        ("reload_end_eval", with(&e, &[Step::Eval, Step::Reload, Step::Eval])),
        ("each", each.clone()),
        ("each_twice", with(&each, &[Step::Eval])),
        ("each_reload_eval", with(&each, &[Step::Reload, Step::Eval])),
        ("eval_mid", mid(&[Step::Eval])),
        ("reload_mid", mid(&[Step::Reload])),
        ("reload_mid_eval", mid(&[Step::Eval, Step::Reload])),
    ]
}
fn base_class(mode: &str) -> &'static str {
    match mode { "twice" | "each_twice" => "not_idempotent", "reload_end" | "reload_end_eval" | "each_reload_eval" | "reload_mid" | "reload_mid_eval" => "reload_changes_values", _ => "order_dependent" }
}

/// the stored (R1C1) text of some formula does not read back as the formula (F02/F03): reload and the
/// shared-formula table (keyed by that text) then change what the cell computes
fn unfaithful_print(w: &[Input], ns: u32) -> bool {
    let names: Vec<String> = (0..ns).map(|s| format!("Sheet{}", s + 1)).collect();
    let mut parser = new_parser_english(names.clone(), vec![], HashMap::new());
    for x in w {
        let Some(body) = x.3.strip_prefix('=') else { continue };
        let cx = CellReferenceRC { sheet: names[x.0 as usize].clone(), row: x.1, column: x.2 };
        parser.set_lexer_mode(LexerMode::A1);
        let n1 = parser.parse(body, &cx);
        let s = to_rc_format(&n1);
        parser.set_lexer_mode(LexerMode::R1C1);
        let n2 = parser.parse(&s, &cx);
        parser.set_lexer_mode(LexerMode::A1);
        if n1 != n2 { return true; }
    }
    false
}

/// class of a (shrunk) failing workbook — a predicate on the inputs only
fn classify_inputs(w: &[Input], ns: u32, base: &str) -> String {
    let a = analyse(w);
    if competing_dynamic_arrays(w, &a) { return "competing_dynamic_arrays".into(); }
    if unfaithful_print(w, ns) { return "formula_print_not_faithful".into(); }
    if spill_ref_before_anchor(w, &a) { return "spill_ref_before_anchor".into(); }
    if circular_spill_dependency(w, &a) { return "circular_spill_dependency".into(); }
    if spill_depends_on_later_spill(w, &a) { return "spill_depends_on_later_spill".into(); }
    if direct_read_of_later_spill(w, &a) { return "direct_read_of_later_spill".into(); }
    if a.has_cycle() { return if a.absorbed_cycle() { "absorbed_cycle".into() } else { "cycle_order".into() }; }
    if raw_vs_stored_nonfinite(w, &a) { return "raw_vs_stored_nonfinite".into(); }
    if raw_vs_stored_empty(w, &a) { return "raw_vs_stored_empty".into(); }
    base.to_string()
}

fn differs(w: &[Input], alive: &[bool], ns: u32, script: &[Step]) -> Option<String> {
    let r = run_script(w, alive, ns, &reference_script(w.len())).ok()?;
    let d = run_script(w, alive, ns, script).ok()?;
    first_diff(&r, &d)
}

/// drop cells while the difference (same relative order, same schedule) persists
fn shrink(w: &[Input], ns: u32, script: &[Step]) -> (Vec<bool>, String) {
    let mut alive = vec![true; w.len()];
    let mut detail = differs(w, &alive, ns, script).unwrap_or_default();
    let mut budget = 600;
    loop {
        let mut changed = false;
        for i in (0..w.len()).rev() {
            if !alive[i] || budget == 0 { continue; }
            budget -= 1;
            alive[i] = false;
            match catch_unwind(AssertUnwindSafe(|| differs(w, &alive, ns, script))) {
                Ok(Some(d)) => { detail = d; changed = true; }
                _ => alive[i] = true,
            }
        }
        if !changed || budget == 0 { break; }
    }
    (alive, detail)
}

fn describe(w: &[Input], alive: &[bool], script: &[Step], mode: &str, ns: u32) -> Value {
    let inputs: Vec<Value> = w.iter().enumerate().filter(|(i, _)| alive[*i]).map(|(_, x)| json!([cell_name(x.0, x.1, x.2), x.3])).collect();
    let order: Vec<String> = script.iter().filter_map(|s| match s {
        Step::Enter(i) => if alive[*i] { Some(cell_name(w[*i].0, w[*i].1, w[*i].2)) } else { None },
        Step::Eval => Some("evaluate".into()), Step::Reload => Some("reload".into()) }).collect();
    json!({"inputs": inputs, "order": order, "mode": mode, "sheets": ns, "reference": "inputs entered in sorted (sheet,row,column) order, one evaluate()"})
}

#[derive(Default)]
struct WbResult { comparisons: u64, failing: u64, failures: Vec<(String, Value, String)>, entry_rejected: Option<String>, nontrivial: bool, has_cycle: bool, has_dynamic: bool, competing: bool }

fn check_workbook(w: &[Input], k: usize, rng: &mut Rng) -> WbResult {
    let mut res = WbResult::default();
    let n = w.len();
    let ns = n_sheets(w);
    let all = vec![true; n];
    {
        let a = analyse(w);
        res.has_cycle = a.has_cycle();
        res.has_dynamic = has_dynamic(&a);
        res.competing = competing_dynamic_arrays(w, &a);
    }
    let reference = match run_script(w, &all, ns, &reference_script(n)) { Ok(d) => d, Err(e) => { res.entry_rejected = Some(e); return res; } };
    res.nontrivial = w.iter().any(|x| x.3.starts_with('=') && reference.get(&(x.0, x.1, x.2)).map(|v| !v.starts_with("e:")).unwrap_or(false));
    // entry orders: sorted, reverse, k random permutations
    let mut orders: Vec<Vec<usize>> = vec![(0..n).collect(), (0..n).rev().collect()];
    for _ in 0..k {
        let mut p: Vec<usize> = (0..n).collect();
        for i in (1..n).rev() { let j = rng.below(i as u64 + 1) as usize; p.swap(i, j); }
        orders.push(p);
    }
    let mut runs: Vec<(usize, &'static str, Vec<Step>, Dump)> = vec![];
    for (oi, ord) in orders.iter().enumerate() {
        let h = if n >= 2 { rng.range(1, n as i64 - 1) as usize } else { 0 };
        for (name, sc) in scripts(ord, h) {
            if oi == 0 && name == "end" { continue; }
            match run_script(w, &all, ns, &sc) {
                Ok(d) => runs.push((oi, name, sc, d)),
                Err(e) => { res.entry_rejected = Some(e); return res; }
            }
        }
    }
    let mut seen_base: BTreeSet<&'static str> = BTreeSet::new();
    for (_oi, name, sc, d) in &runs {
        res.comparisons += 1;
        if first_diff(&reference, d).is_none() { continue; }
        res.failing += 1;
        let base = base_class(name);
        if !seen_base.insert(base) { continue; }
        let (alive, detail) = shrink(w, ns, sc);
        let live: Vec<Input> = w.iter().enumerate().filter(|(i, _)| alive[*i]).map(|(_, x)| x.clone()).collect();
        let class = classify_inputs(&live, ns, base);
        res.failures.push((class, describe(w, &alive, sc, name, ns), format!("[{name}] {detail}")));
    }
    res
}

fn inp(cells: &[(&str, &str)]) -> Vec<Input> {
    // "A1" on Sheet1, "2!A1" on Sheet2
    let mut v: Vec<Input> = cells.iter().map(|(c, t)| {
        let (s, rc) = match c.split_once('!') { Some((s, rc)) => (s.parse::<u32>().unwrap() - 1, rc), None => (0, *c) };
        let col = rc.chars().take_while(|ch| ch.is_ascii_alphabetic()).fold(0, |a, ch| a * 26 + (ch as i32 - 'A' as i32 + 1));
        let row: i32 = rc.chars().skip_while(|ch| ch.is_ascii_alphabetic()).collect::<String>().parse().unwrap();
        (s, row, col, t.to_string())
    }).collect();
    v.sort();
    v
}

fn short_dump(d: &Dump) -> String {
    d.iter().map(|(k, v)| {
        let v = if let Some(p) = v.find('(') { if v.starts_with("n:") { v[p + 1..v.len() - 1].to_string() } else { v.clone() } } else { v.clone() };
        format!("{}{}={}", if k.0 == 0 { String::new() } else { format!("S{}!", k.0 + 1) }, a1(k.1, k.2), v)
    }).collect::<Vec<_>>().join(" ")
}

/// run every order x schedule of a hand-made workbook and print what is observed
fn witness(name: &str, w: &[Input]) -> Value {
    let n = w.len();
    let ns = n_sheets(w);
    let all = vec![true; n];
    let mut obs: BTreeMap<String, Vec<String>> = BTreeMap::new();
    // all permutations for n <= 3, else sorted + reverse
    let mut orders: Vec<Vec<usize>> = vec![];
    if n <= 3 {
        fn perms(cur: &mut Vec<usize>, n: usize, out: &mut Vec<Vec<usize>>) {
            if cur.len() == n { out.push(cur.clone()); return; }
            for i in 0..n { if !cur.contains(&i) { cur.push(i); perms(cur, n, out); cur.pop(); } }
        }
        perms(&mut vec![], n, &mut orders);
    } else { orders.push((0..n).collect()); orders.push((0..n).rev().collect()); }
    for ord in &orders {
        let oname: Vec<String> = ord.iter().map(|i| a1(w[*i].1, w[*i].2)).collect();
        for h in 1..n.max(2) {
            for (mode, sc) in scripts(ord, h) {
                if h > 1 && !mode.contains("mid") { continue; }
                let d = match catch_unwind(AssertUnwindSafe(|| run_script(w, &all, ns, &sc))) { Ok(Ok(d)) => short_dump(&d), Ok(Err(e)) => format!("entry rejected: {e}"), Err(_) => "panic".to_string() };
                obs.entry(d).or_default().push(format!("{}:{}{}", oname.join(">"), mode, if mode.contains("mid") { format!("@{h}") } else { String::new() }));
            }
        }
    }
    let distinct = obs.len();
    let outcomes: Vec<Value> = obs.into_iter().map(|(d, modes)| json!({"values": d, "count": modes.len(), "builds": modes.into_iter().take(14).collect::<Vec<_>>()})).collect();
    json!({"name": name, "inputs": w.iter().map(|x| json!([cell_name(x.0, x.1, x.2), x.3])).collect::<Vec<_>>(), "distinct_outcomes": distinct, "outcomes": outcomes})
}

/// None: a formula outside the core language, a dynamic array (phase-1 restarts are not modelled) or a rejected input
fn model_case(w: &[Input]) -> Option<(String, String)> {
    std::panic::catch_unwind(std::panic::AssertUnwindSafe(|| {
        let mut m = ironcalc_base::Model::new_empty("m", "en", "UTC", "en").ok()?;
        m.new_sheet(); m.new_sheet();
        let mut sorted: Vec<Input> = w.to_vec(); sorted.sort();
        for (s, r, c, t) in &sorted { m.set_user_input(*s, *r, *c, t.clone()).ok()?; }
        let cells = mdump::all_cells(&m);
        if cells.iter().any(|&(s, r, c)| matches!(m.workbook.worksheets[s as usize].sheet_data[&r][&c], ironcalc_base::types::Cell::ArrayFormula { .. })) { return None; }
        let wb = mdump::workbook(&m, false)?;
        let order = mdump::eval_order(&m);
        m.evaluate();
        let obs: Vec<String> = cells.iter().map(|&(s, r, c)| mdump::cell_obs(&m, s, r, c)).collect();
        Some((format!("ev {} {} {}", mdump::cells_str(&order), mdump::cells_str(&cells), wb), obs.join(" ")))
    })).ok().flatten()
}


// ------------------------------------------------------------------------------------------------
// edit histories: the same cell receives several inputs over time (evaluation in between); the final
// workbook built DIRECTLY (sorted inputs, one evaluate) is the reference.  Dynamic arrays whose extent
// depends on input cells shrink and grow in each dimension, to 1x1 and to an error; every cell of the
// used area is compared, so a stale spill cell outside the final extent is seen.
// ------------------------------------------------------------------------------------------------
struct Hist { base: Vec<Input>, rounds: Vec<Vec<Input>> }

fn overlay(h: &Hist) -> Vec<Input> {
    let mut m: BTreeMap<(u32, i32, i32), String> = h.base.iter().map(|x| ((x.0, x.1, x.2), x.3.clone())).collect();
    for r in &h.rounds { for x in r { m.insert((x.0, x.1, x.2), x.3.clone()); } }
    m.into_iter().filter(|(_, t)| !t.is_empty()).map(|(k, t)| (k.0, k.1, k.2, t)).collect()
}

/// dynamic array(s) at B2 (and G9) whose extent is controlled by A12 (rows) and B12 (columns), at most 4x4
fn gen_history(rng: &mut Rng) -> Hist {
    let mut base: Vec<Input> = vec![];
    // a literal block the range-based anchors read: H1:K4
    for r in 1..=4 { for c in 8..=11 { base.push((0, r, c, format!("{}", (r - 1) * 4 + (c - 7)))); } }
    let dims = |rng: &mut Rng| -> (i64, i64) { *rng.pick(&[(4, 4), (1, 4), (4, 1), (2, 3), (3, 2), (1, 1), (2, 2), (1, 2), (2, 1), (3, 4)]) };
    let (r0, c0) = dims(rng);
    base.push((0, 12, 1, r0.to_string())); base.push((0, 12, 2, c0.to_string()));
    let anchor = match rng.below(9) {
        0 | 1 => "=SEQUENCE(A12,B12)", 2 => "=SEQUENCE(1,B12)", 3 => "=SEQUENCE(A12)", 4 => "=SEQUENCE(A12,B12)*10",
        5 => "=IF(A12>2,H1:H4,H1:H2)*IF(B12>2,H1:K1,H1:I1)", 6 => "=IF(B12>2,H1:K1,H1:I1)", 7 => "=TAKE(H1:K4,A12,B12)", _ => "=FILTER(H1:H4,H1:H4<=A12*4)",
    };
    base.push((0, 2, 2, anchor.to_string()));                         // B2, potential extent B2:E5
    if rng.chance(1, 3) { base.push((0, 9, 7, "=SEQUENCE(B12,A12)".to_string())); } // G9, potential extent G9:J12
    // scalar readers before and after the arrays in sheet order
    for (r, c, t) in [(1, 1, "=SUM(B2:E5)"), (1, 2, "=COUNT(B2:E5)"), (1, 3, "=E2"), (1, 4, "=B5&\"|\""), (14, 1, "=SUM(B2:E5)"), (14, 2, "=D2"), (14, 3, "=COUNTA(B2:E2)"), (14, 4, "=C3+1")] {
        if rng.chance(2, 3) { base.push((0, r, c, t.to_string())); }
    }
    let mut rounds: Vec<Vec<Input>> = vec![];
    let (mut r, mut c) = (r0, c0);
    for _ in 0..rng.range(1, 4) {
        let mut e: Vec<Input> = vec![];
        match rng.below(7) {
            0 => { r = *rng.pick(&[1, 2, 3, 4]); e.push((0, 12, 1, r.to_string())); }                       // rows only
            1 => { c = *rng.pick(&[1, 2, 3, 4]); e.push((0, 12, 2, c.to_string())); }                       // columns only
            2 => { let d = dims(rng); r = d.0; c = d.1; e.push((0, 12, 1, r.to_string())); e.push((0, 12, 2, c.to_string())); } // both
            3 => { r = 1; c = 1; e.push((0, 12, 1, "1".into())); e.push((0, 12, 2, "1".into())); }          // to 1x1
            4 => { e.push((0, 12, if rng.chance(1, 2) { 1 } else { 2 }, rng.pick(&["abc", "0", "-1", "#N/A"]).to_string())); } // to an error
            5 => { c = (c % 4) + 1; e.push((0, 12, 2, c.to_string())); e.push((0, rng.range(1, 4) as i32, rng.range(8, 11) as i32, "50".into())); }
            _ => { r = (r % 4) + 1; e.push((0, 12, 1, r.to_string())); }
        }
        rounds.push(e);
    }
    // end on valid sizes most of the time, so that the final workbook has a spill
    if rng.chance(3, 4) { let d = dims(rng); rounds.push(vec![(0, 12, 1, d.0.to_string()), (0, 12, 2, d.1.to_string())]); }
    Hist { base, rounds }
}

fn run_history(h: &Hist, ns: u32, fin: &[Input], mode: &str) -> Result<Dump, String> {
    let mut m = new_model(ns);
    let mut base = h.base.clone();
    base.sort();
    if mode == "reverse_base" { base.reverse(); }
    let enter = |m: &mut Model, x: &Input| m.set_user_input(x.0, x.1, x.2, x.3.clone()).map_err(|e| format!("{} <- {:?}: {e}", cell_name(x.0, x.1, x.2), x.3));
    for x in &base { enter(&mut m, x)?; if mode == "eval_each" { m.evaluate(); } }
    m.evaluate();
    for r in &h.rounds {
        if mode == "reload_between" { m = Model::from_bytes(&m.to_bytes(), "en").map_err(|e| format!("from_bytes: {e}"))?; }
        for x in r { enter(&mut m, x)?; if mode == "eval_each" { m.evaluate(); } }
        m.evaluate();
        if mode == "twice" { m.evaluate(); }
    }
    if mode == "reload_end" { m = Model::from_bytes(&m.to_bytes(), "en").map_err(|e| format!("from_bytes: {e}"))?; m.evaluate(); }
    Ok(dump(&m, fin))
}

/// (comparisons, failures)
fn check_history(h: &Hist) -> (u64, Vec<(String, Value, String)>) {
    let fin = overlay(h);
    let ns = 2;
    let all = vec![true; fin.len()];
    let reference = match run_script(&fin, &all, ns, &reference_script(fin.len())) { Ok(d) => d, Err(_) => return (0, vec![]) };
    let mut fails = vec![]; let mut n = 0;
    for mode in ["stepwise", "twice", "eval_each", "reload_between", "reload_end", "reverse_base"] {
        let Ok(d) = run_history(h, ns, &fin, mode) else { continue };
        n += 1;
        if let Some(diff) = first_diff(&reference, &d) {
            // known shapes are predicates on the FINAL workbook; the generator keeps potential extents disjoint at every step
            let class = classify_inputs(&fin, ns, "history_dependent");
            let js = json!({"base": h.base.iter().map(|x| json!([cell_name(x.0, x.1, x.2), x.3])).collect::<Vec<_>>(),
                            "rounds": h.rounds.iter().map(|r| r.iter().map(|x| json!([cell_name(x.0, x.1, x.2), x.3])).collect::<Vec<_>>()).collect::<Vec<_>>(),
                            "mode": mode, "reference": "the final workbook entered directly in sorted order, one evaluate()"});
            fails.push((class, js, format!("[history/{mode}] {diff}")));
            break;
        }
    }
    (n, fails)
}

fn main() {
    let a = Args::parse();
    let (seed, thorough, out) = (a.seed, a.thorough, a.out.as_str());
    let mut rng = Rng::new(seed);
    let mut cs = Cases::new(out, "c07");
    let mut or = Oracle::default();
    let mut dist: BTreeMap<String, u64> = BTreeMap::new();
    let mut samples: Vec<String> = vec![];
    let mut stats: BTreeMap<&str, u64> = BTreeMap::new();
    let mut failing_per_kind: BTreeMap<String, u64> = BTreeMap::new();
    let t0 = std::time::Instant::now();

    // ---- corpus / witnesses (run first) ---------------------------------------------------
    let corpus: Vec<(&str, Vec<Input>)> = vec![
        ("F29 competing dynamic arrays", inp(&[("C2", "=A1:C1"), ("E1", "=SEQUENCE(2)")])),
        ("F29 with data", inp(&[("A1", "1"), ("B1", "2"), ("C1", "3"), ("C2", "=A1:C1"), ("E1", "=SEQUENCE(2)")])),
        ("F29 + cycle (idempotence)", inp(&[("C2", "=A1:C1"), ("E1", "=SEQUENCE(2)"), ("A1", "=E2+1")])),
        ("F10 absorbed cycle, absorber first in sheet order", inp(&[("A1", "=IFERROR(B1,5)"), ("B1", "=A1+1")])),
        ("F10 absorbed cycle, positions swapped", inp(&[("B1", "=IFERROR(A1,5)"), ("A1", "=B1+1")])),
        ("F10 three cells", inp(&[("A1", "=B1+1"), ("B1", "=IFERROR(C1,5)"), ("C1", "=A1*2"), ("D1", "=ISNUMBER(A1)")])),
        ("plain cycle", inp(&[("A1", "=B1+1"), ("B1", "=A1*2"), ("C1", "=SUM(A1:B1)"), ("D1", "=MIN(A1:B1)")])),
        ("raw vs stored empty: reader before source", inp(&[("A1", "=B1&\"x\""), ("B1", "=C1")])),
        ("raw vs stored empty: reader after source", inp(&[("B1", "=A1&\"x\""), ("A1", "=C1")])),
        ("raw vs stored empty: two readers", inp(&[("A1", "=B1&\"x\""), ("B1", "=C1"), ("D1", "=B1&\"x\""), ("A2", "=ISBLANK(B1)"), ("D2", "=ISBLANK(B1)"), ("A3", "=COUNTA(B1:B1)"), ("D3", "=COUNTA(B1:B1)")])),
        ("raw vs stored nonfinite: reader before source", inp(&[("A1", "=ISNUMBER(B1)"), ("B1", "=1E308*10"), ("A2", "=IFERROR(B1*0,7)")])),
        ("raw vs stored nonfinite: reader after source", inp(&[("B1", "=ISNUMBER(A1)"), ("A1", "=1E308*10"), ("B2", "=IFERROR(A1*0,7)")])),
        ("raw vs stored nonfinite: two readers", inp(&[("A1", "=ISNUMBER(B1)"), ("B1", "=1E308*10"), ("D1", "=ISNUMBER(B1)"), ("A2", "=B1*0"), ("D2", "=B1*0")])),
        ("F02 shared formula alias", inp(&[("A1", "=(1&2)+3"), ("A2", "=1&2+3")])),
        ("F02 single formula", inp(&[("A1", "=(1&2)+3")])),
        ("spill feeds spill", inp(&[("A1", "=SEQUENCE(3)"), ("C1", "=A1#*2"), ("E1", "=SUM(C1#)"), ("E2", "=C3+1")])),
        ("spill ref before its anchor", inp(&[("D4", "=E4#*2"), ("E4", "=SEQUENCE(3)*10")])),
        ("spill ref after its anchor", inp(&[("A1", "=SEQUENCE(3)*10"), ("B1", "=A1#*2")])),
        ("spill ref before its anchor, scalar reader", inp(&[("A1", "=SUM(B1#)"), ("B1", "=SEQUENCE(3)")])),
        ("anchor reads, through a scalar formula, a later anchor's spill", inp(&[("F1", "=C1:C2"), ("C2", "=IFERROR(E3,0)"), ("D2", "=SEQUENCE(2,2)")])),
        ("same, dependent anchor placed after", inp(&[("F4", "=C1:C2"), ("C2", "=IFERROR(E3,0)"), ("D2", "=SEQUENCE(2,2)")])),
        ("direct read of the LAST ROW of a later anchor's spill", inp(&[("A1", "=B12:C12*1"), ("B10", "=G1:G3*1"), ("G1", "1"), ("G2", "2"), ("G3", "3")])),
        ("direct read of the FIRST ROW of a later anchor's spill", inp(&[("A1", "=B10:C10*1"), ("B10", "=G1:G3*1"), ("G1", "1"), ("G2", "2"), ("G3", "3")])),
        ("direct read of the LAST COLUMN of a later anchor's spill", inp(&[("A1", "=D10:D11*1"), ("B10", "=SEQUENCE(2,3)")])),
        ("direct read of a corner cell of a later anchor's spill", inp(&[("A1", "=D11:D11*1"), ("B10", "=SEQUENCE(2,3)"), ("A3", "=SUM(A1:A2)")])),
        ("direct read of a later anchor's spill on the other sheet", inp(&[("A1", "=Sheet2!B12:C12*1"), ("2!B10", "=G1:G3*1"), ("2!G1", "1"), ("2!G2", "2"), ("2!G3", "3")])),
        ("direct read of an EARLIER anchor's last row", inp(&[("F14", "=B12:C12*1"), ("B10", "=G1:G3*1"), ("G1", "1"), ("G2", "2"), ("G3", "3")])),
        ("cross sheet", inp(&[("2!A1", "=Sheet1!A1+1"), ("A1", "=SUM(Sheet2!B1:B2)"), ("2!B1", "4"), ("2!B2", "=B1*2")])),
    ];
    let mut witnesses: Vec<Value> = vec![];
    let kq = if thorough { 12 } else { 4 };
    let mut wb_index = 0u64;
    let mut entry_rejected = 0u64;
    let mut nontrivial = 0u64;
    let mut rejected_samples: Vec<String> = vec![];
    let mut kind_class: BTreeMap<String, u64> = BTreeMap::new();
    let mut handle = |kind: &str, w: &[Input], res: Result<WbResult, ()>, or: &mut Oracle, cs: &mut Cases, idx: u64| {
        // the tie of the store model (Eval/Store.v) on this workbook: built in sorted order, dumped
        // for the extracted evaluator before evaluation, stored values compared after it
        match model_case(w) {
            Some((line, obs)) => cs.case(&line, &obs),
            None => cs.case(&format!("wb {idx} kind {kind} cells {}", w.len()), "ok"),
        }
        *dist.entry(kind.to_string()).or_insert(0) += 1;
        match res {
            Err(()) => or.fail("panic", json!({"inputs": w.iter().map(|x| json!([cell_name(x.0, x.1, x.2), x.3])).collect::<Vec<_>>()}), "panic while building/evaluating the workbook".to_string()),
            Ok(r) => {
                or.checked += r.comparisons;
                *stats.entry("failing_comparisons").or_insert(0) += r.failing;
                if r.has_cycle { *stats.entry("workbooks_with_cycle").or_insert(0) += 1; }
                if r.has_dynamic { *stats.entry("workbooks_with_dynamic_arrays").or_insert(0) += 1; }
                if r.competing { *stats.entry("workbooks_with_competing_dynamic_arrays").or_insert(0) += 1; }
                if r.has_dynamic && !r.competing { *stats.entry("workbooks_with_noncompeting_dynamic_arrays").or_insert(0) += 1; }
                if r.nontrivial { nontrivial += 1; }
                if let Some(e) = r.entry_rejected { entry_rejected += 1; if rejected_samples.len() < 3 { rejected_samples.push(e); } }
                if !r.failures.is_empty() { *failing_per_kind.entry(kind.to_string()).or_insert(0) += 1; }
                for (class, input, detail) in r.failures { *kind_class.entry(format!("{kind}/{class}")).or_insert(0) += 1; or.fail(&class, input, detail); }
            }
        }
    };
    for (name, w) in &corpus {
        witnesses.push(witness(name, w));
        let res = catch_unwind(AssertUnwindSafe(|| check_workbook(w, kq, &mut rng))).map_err(|_| ());
        handle("corpus", w, res, &mut or, &mut cs, wb_index);
        wb_index += 1;
    }

    // ---- generated workbooks --------------------------------------------------------------
    let total = if thorough { 3000 } else { 150 };
    for i in 0..total {
        // chains of depth 200 are expensive under evaluate-after-every-edit: 1 in 25
        let kind = if i % 25 == 7 { 1 } else { [0, 2, 3, 4, 5, 6, 7, 0, 3, 7, 2, 6, 7][i % 13] };
        let w = gen::gen_workbook(&mut rng, kind);
        if samples.len() < 10 && i % 13 == 0 {
            samples.push(format!("{}: {}", KINDS[kind], w.iter().take(8).map(|x| format!("{}<-{}", cell_name(x.0, x.1, x.2), x.3)).collect::<Vec<_>>().join("  ")));
        }
        let k = if kind == 1 { 2 } else { kq };
        let res = catch_unwind(AssertUnwindSafe(|| check_workbook(&w, k, &mut rng))).map_err(|_| ());
        handle(KINDS[kind], &w, res, &mut or, &mut cs, wb_index);
        wb_index += 1;
    }
    drop(handle);
    // ---- edit histories with resizing dynamic arrays ---------------------------------------------
    let mut hist_corpus: Vec<Hist> = vec![
        Hist { base: inp(&[("A1", "=SEQUENCE(1,A3)"), ("A3", "4")]), rounds: vec![inp(&[("A3", "2")])] },
        Hist { base: inp(&[("A1", "=SEQUENCE(A6,B6)"), ("A6", "3"), ("B6", "3"), ("F1", "=SUM(A1:C3)")]), rounds: vec![inp(&[("B6", "1")]), inp(&[("A6", "1"), ("B6", "2")])] },
        Hist { base: inp(&[("B2", "=SEQUENCE(A9,2)"), ("A9", "4"), ("A1", "=C5")]), rounds: vec![inp(&[("A9", "abc")]), inp(&[("A9", "2")])] },
    ];
    let nh = if thorough { 1500 } else { 120 };
    let mut hist_checked = 0u64; let mut hist_failing = 0u64;
    for i in 0..(hist_corpus.len() + nh) {
        let h = if i < hist_corpus.len() { std::mem::replace(&mut hist_corpus[i], Hist { base: vec![], rounds: vec![] }) } else { gen_history(&mut rng) };
        let res = catch_unwind(AssertUnwindSafe(|| check_history(&h)));
        cs.case(&format!("wb {wb_index} kind edit_history cells {}", h.base.len()), "ok");
        *dist.entry("edit_history".to_string()).or_insert(0) += 1;
        wb_index += 1;
        match res {
            Err(_) => or.fail("panic", json!({"history": h.base.iter().map(|x| json!([cell_name(x.0, x.1, x.2), x.3])).collect::<Vec<_>>()}), "panic while replaying an edit history".to_string()),
            Ok((n, fails)) => {
                or.checked += n; hist_checked += n;
                if !fails.is_empty() { hist_failing += 1; }
                for (class, input, detail) in fails { *kind_class.entry(format!("edit_history/{class}")).or_insert(0) += 1; or.fail(&class, input, detail); }
                if samples.len() < 14 && i % 40 == 3 { samples.push(format!("edit_history: {} then {:?}", h.base.iter().filter(|x| x.3.starts_with('=')).map(|x| format!("{}<-{}", cell_name(x.0, x.1, x.2), x.3)).collect::<Vec<_>>().join(" "), h.rounds)); }
            }
        }
    }
    stats.insert("edit_history_comparisons", hist_checked);
    stats.insert("edit_histories_failing", hist_failing);
    stats.insert("elapsed_ms", t0.elapsed().as_millis() as u64);

    cs.finish(json!({
        "oracle_checked": or.checked, "workbooks": wb_index, "distribution": dist,
        "oracle_failures": or.failures, "oracle_failures_per_class": or.per_class,
        "samples": samples, "witnesses": witnesses, "distinct_nontrivial": nontrivial,
        "entry_rejected": entry_rejected, "entry_rejected_samples": rejected_samples, "stats": stats, "workbooks_failing_per_kind": failing_per_kind, "failures_per_kind_and_class": kind_class,
        "exhaustive": false,
    }));
}
