//! C07 — workbook generators.  A workbook is a SET of cell inputs (sheet, row, column, text as typed);
//! every random choice comes from the passed Rng.  No volatile functions, no full-column ranges.
use std::collections::BTreeSet;
use vh_common::Rng;

pub type Input = (u32, i32, i32, String);

pub const KINDS: [&str; 8] = ["dag", "chain200", "cycle_plain", "cycle_absorbed", "cross_sheet", "empty_and_nonfinite", "dynamic_arrays", "spill_boundary_reads"];
pub const ROWS: i32 = 8;
pub const COLS: i32 = 6;

pub fn col_name(c: i32) -> String {
    let mut c = c;
    let mut s = String::new();
    while c > 0 {
        s.insert(0, (b'A' + ((c - 1) % 26) as u8) as char);
        c = (c - 1) / 26;
    }
    s
}
pub fn a1(r: i32, c: i32) -> String { format!("{}{}", col_name(c), r) }
pub fn rng_text(r1: i32, c1: i32, r2: i32, c2: i32) -> String { format!("{}:{}", a1(r1, c1), a1(r2, c2)) }

/// reference text for (s,r,c) as seen from sheet `cur`
fn qref(rng: &mut Rng, cur: u32, s: u32, r: i32, c: i32) -> String {
    if s == cur { a1(r, c) } else if rng.chance(1, 4) { format!("'Sheet{}'!{}", s + 1, a1(r, c)) } else { format!("Sheet{}!{}", s + 1, a1(r, c)) }
}
fn qrange(cur: u32, s: u32, r1: i32, c1: i32, r2: i32, c2: i32) -> String {
    if s == cur { rng_text(r1, c1, r2, c2) } else { format!("Sheet{}!{}", s + 1, rng_text(r1, c1, r2, c2)) }
}

fn literal_typed(rng: &mut Rng) -> String {
    const L: [&str; 22] = ["0", "1", "2", "3", "7", "10", "-1", "-4", "2.5", "0.5", "100", "12", "abc", "x", "12a", "TRUE", "FALSE", "#N/A", "#DIV/0!", "10%", "1e3", "5"];
    rng.pick(&L).to_string()
}
fn literal_num_typed(rng: &mut Rng) -> String {
    const L: [&str; 10] = ["0", "1", "2", "3", "7", "10", "-1", "2.5", "0.5", "4"];
    rng.pick(&L).to_string()
}
fn literal_in_formula(rng: &mut Rng) -> String {
    const L: [&str; 18] = ["0", "1", "2", "3", "10", "2.5", "0.5", "100", "\"a\"", "\"\"", "\"12\"", "\"xy\"", "TRUE", "FALSE", "#N/A", "#DIV/0!", "#VALUE!", "7"];
    rng.pick(&L).to_string()
}

pub struct Ctx { pub refs: Vec<String>, pub ranges: Vec<String> }

/// random expression over the vocabulary of the property (ranges only inside aggregating functions)
pub fn expr(rng: &mut Rng, d: u32, cx: &Ctx) -> String {
    if d == 0 || rng.chance(1, 4) {
        if !cx.refs.is_empty() && rng.chance(3, 5) { return rng.pick(&cx.refs).clone(); }
        return literal_in_formula(rng);
    }
    let sub = |rng: &mut Rng| -> String {
        let e = expr(rng, d - 1, cx);
        if rng.chance(1, 3) { format!("({e})") } else { e }
    };
    let agg_arg = |rng: &mut Rng| -> String {
        if !cx.ranges.is_empty() && rng.chance(2, 3) { rng.pick(&cx.ranges).clone() } else { expr(rng, d - 1, cx) }
    };
    match rng.below(30) {
        0..=9 => {
            const OPS: [&str; 12] = ["+", "-", "*", "/", "^", "&", "=", "<>", "<", ">", "<=", ">="];
            let (a, b) = (sub(rng), sub(rng));
            format!("{a}{}{b}", rng.pick(&OPS))
        }
        10 => format!("-{}", sub(rng)),
        11 => format!("{}%", sub(rng)),
        12 | 13 => format!("IF({},{},{})", sub(rng), sub(rng), sub(rng)),
        14 => format!("AND({},{})", sub(rng), sub(rng)),
        15 => format!("OR({},{})", sub(rng), sub(rng)),
        16 => format!("NOT({})", sub(rng)),
        17..=21 => {
            const F: [&str; 6] = ["SUM", "MIN", "MAX", "COUNT", "COUNTA", "AVERAGE"];
            let f = *rng.pick(&F);
            let n = rng.range(1, 3);
            let args: Vec<String> = (0..n).map(|_| agg_arg(rng)).collect();
            format!("{f}({})", args.join(","))
        }
        22 => format!("ABS({})", sub(rng)),
        23 => format!("ROUND({},{})", sub(rng), rng.range(0, 2)),
        24 => format!("LEN({})", sub(rng)),
        25 => format!("CONCAT({},{})", sub(rng), agg_arg(rng)),
        26 => format!("ISNUMBER({})", sub(rng)),
        27 => format!("ISTEXT({})", sub(rng)),
        28 => {
            if !cx.refs.is_empty() { format!("ISBLANK({})", rng.pick(&cx.refs)) } else { format!("ISBLANK({})", sub(rng)) }
        }
        _ => format!("IFERROR({},{})", sub(rng), sub(rng)),
    }
}

fn pick_positions(rng: &mut Rng, ns: u32, n: usize, one_sheet: Option<u32>) -> Vec<(u32, i32, i32)> {
    let mut set: BTreeSet<(u32, i32, i32)> = BTreeSet::new();
    let mut out = vec![];
    let mut guard = 0;
    while out.len() < n && guard < 10_000 {
        guard += 1;
        let s = match one_sheet { Some(s) => s, None => rng.below(ns as u64) as u32 };
        let p = (s, rng.range(1, ROWS as i64) as i32, rng.range(1, COLS as i64) as i32);
        if set.insert(p) { out.push(p); }
    }
    out
}

/// kinds 0 and 4: formulas in rank order reference only lower ranks (acyclic by construction)
fn gen_dag(rng: &mut Rng, cross: bool) -> Vec<Input> {
    let ns = rng.range(2, 3) as u32;
    let n = rng.range(6, 40) as usize;
    let one = if cross || rng.chance(1, 2) { None } else { Some(rng.below(ns as u64) as u32) };
    let pos = pick_positions(rng, ns, n, one);
    let n = pos.len();
    let nlit = std::cmp::max(2, n * rng.range(25, 50) as usize / 100);
    let mut out: Vec<Input> = vec![];
    for k in 0..n {
        let (s, r, c) = pos[k];
        if k < nlit || rng.chance(1, 10) {
            out.push((s, r, c, literal_typed(rng)));
            continue;
        }
        let lower: Vec<(u32, i32, i32)> = pos[..k].iter().copied().filter(|p| cross || p.0 == s).collect();
        let mut refs: Vec<String> = vec![];
        for _ in 0..4 {
            if lower.is_empty() { break; }
            let p = *rng.pick(&lower);
            refs.push(qref(rng, s, p.0, p.1, p.2));
        }
        if rng.chance(1, 6) {
            // a reference to a cell that has no input at all
            for _ in 0..10 {
                let p = (if cross { rng.below(ns as u64) as u32 } else { s }, rng.range(1, ROWS as i64) as i32, rng.range(1, COLS as i64) as i32);
                if !pos.contains(&p) { refs.push(qref(rng, s, p.0, p.1, p.2)); break; }
            }
        }
        let mut ranges: Vec<String> = vec![];
        for _ in 0..6 {
            let rs = if cross { rng.below(ns as u64) as u32 } else { s };
            let (r1, c1) = (rng.range(1, ROWS as i64) as i32, rng.range(1, COLS as i64) as i32);
            let (r2, c2) = (std::cmp::min(ROWS, r1 + rng.range(0, 3) as i32), std::cmp::min(COLS, c1 + rng.range(0, 2) as i32));
            let ok = pos.iter().enumerate().all(|(j, p)| !(p.0 == rs && p.1 >= r1 && p.1 <= r2 && p.2 >= c1 && p.2 <= c2) || j < k);
            if ok { ranges.push(qrange(s, rs, r1, c1, r2, c2)); }
            if ranges.len() >= 2 { break; }
        }
        let cx = Ctx { refs, ranges };
        let d = rng.range(1, 3) as u32;
        out.push((s, r, c, format!("={}", expr(rng, d, &cx))));
    }
    out
}

fn gen_chain(rng: &mut Rng) -> Vec<Input> {
    let ns = rng.range(2, 3) as u32;
    let s = rng.below(ns as u64) as u32;
    let col = rng.range(1, COLS as i64) as i32;
    let depth = 200;
    let mut out: Vec<Input> = vec![(s, 1, col, "1".to_string())];
    const STEP: [&str; 5] = ["+1", "*1+1", "-1", "+0.5", "&\"\"+1"];
    let step = *rng.pick(&STEP);
    for i in 2..=depth {
        let st = if rng.chance(1, 20) { *rng.pick(&STEP) } else { step };
        out.push((s, i, col, format!("={}{}", a1(i - 1, col), st)));
    }
    let ccol = if col == COLS { 1 } else { col + 1 };
    let cs = if rng.chance(1, 2) { s } else { (s + 1) % ns };
    let nc = rng.range(2, 4);
    for j in 0..nc {
        let t = match rng.below(4) {
            0 => qref(rng, cs, s, depth, col),
            1 => format!("SUM({})", qrange(cs, s, 1, col, depth, col)),
            2 => { let rr = rng.range(2, depth as i64) as i32; format!("{}*2", qref(rng, cs, s, rr, col)) }
            _ => format!("MAX({})+1", qrange(cs, s, rng.range(1, 100) as i32, col, depth, col)),
        };
        out.push((cs, 1 + j as i32, ccol, format!("={t}")));
    }
    out
}

const PLAIN_OPS: [&str; 14] = ["{}+1", "{}*2", "-{}", "{}&\"a\"", "{}^2", "{}%", "({})", "{}+{L}", "SUM({},1)", "MAX({},{L})", "ABS({})", "ROUND({},0)", "LEN({})", "CONCAT({},\"z\")"];
const ABSORB_OPS: [&str; 14] = ["IFERROR({},5)", "ISNUMBER({})", "IF(ISERROR({}),1,{})", "ISBLANK({})", "COUNT({R})", "AND(FALSE,{})", "OR(TRUE,{})", "IF(TRUE,1,{})", "IF(FALSE,{},2)", "ISTEXT({})", "COUNTA({R})", "IFERROR({}+1,{L})", "IF({L}>0,{},3)", "COUNT({},{L})"];
const PLAIN_READ: [&str; 9] = ["{}+1", "SUM({R})", "MIN({R})", "MAX({R})", "AVERAGE({R})", "{}&\"r\"", "-{}", "{}*{L}", "SUM({R},{})"];
const ABSORB_READ: [&str; 8] = ["IFERROR({},7)", "ISNUMBER({})", "COUNT({R})", "COUNTA({R})", "IF(ISERROR({}),\"e\",{})", "ISBLANK({})", "ISTEXT({})", "OR(TRUE,{})"];

fn fill(t: &str, x: &str, l: &str, r: &str) -> String { t.replace("{}", x).replace("{L}", l).replace("{R}", r) }

fn gen_cycle(rng: &mut Rng, absorbing: bool) -> Vec<Input> {
    let ns = rng.range(2, 3) as u32;
    let n_extra_lit = rng.range(2, 6) as usize;
    let n_read = rng.range(2, 6) as usize;
    let n_ind = rng.range(0, 3) as usize;
    let ncyc = if rng.chance(1, 5) { 2 } else { 1 };
    let lens: Vec<usize> = (0..ncyc).map(|_| rng.range(1, 5) as usize).collect();
    let total = lens.iter().sum::<usize>() + n_extra_lit + n_read + n_ind;
    let cross = rng.chance(1, 4);
    let home = rng.below(ns as u64) as u32;
    let pos = pick_positions(rng, ns, total, if cross { None } else { Some(home) });
    let mut it = pos.iter().copied();
    let mut out: Vec<Input> = vec![];
    let lits: Vec<(u32, i32, i32)> = (0..n_extra_lit).filter_map(|_| it.next()).collect();
    for &(s, r, c) in &lits { out.push((s, r, c, literal_num_typed(rng))); }
    let mut cyc_cells: Vec<(u32, i32, i32)> = vec![];
    let mut bodies: Vec<(u32, i32, i32, (u32, i32, i32))> = vec![]; // cell, successor
    for l in &lens {
        let cells: Vec<(u32, i32, i32)> = (0..*l).filter_map(|_| it.next()).collect();
        for i in 0..cells.len() { bodies.push((cells[i].0, cells[i].1, cells[i].2, cells[(i + 1) % cells.len()])); }
        cyc_cells.extend(cells);
    }
    // a range that contains the cycle cells of the first sheet used by the cycle
    let range_over = |cur: u32, cells: &[(u32, i32, i32)]| -> String {
        let s0 = cells[0].0;
        let same: Vec<&(u32, i32, i32)> = cells.iter().filter(|p| p.0 == s0).collect();
        let r1 = same.iter().map(|p| p.1).min().unwrap();
        let r2 = same.iter().map(|p| p.1).max().unwrap();
        let c1 = same.iter().map(|p| p.2).min().unwrap();
        let c2 = same.iter().map(|p| p.2).max().unwrap();
        qrange(cur, s0, r1, c1, r2, c2)
    };
    if cyc_cells.is_empty() { return out; }
    let mut used_absorb = false;
    let nb = bodies.len();
    for (i, &(s, r, c, succ)) in bodies.iter().enumerate() {
        let x = qref(rng, s, succ.0, succ.1, succ.2);
        let l = if lits.is_empty() { "2".to_string() } else { let p = *rng.pick(&lits); qref(rng, s, p.0, p.1, p.2) };
        let rr = range_over(s, &cyc_cells);
        let want_abs = absorbing && (rng.chance(1, 3) || (i + 1 == nb && !used_absorb && rng.chance(1, 2)));
        let t = if want_abs { used_absorb = true; *rng.pick(&ABSORB_OPS) } else { *rng.pick(&PLAIN_OPS) };
        out.push((s, r, c, format!("={}", fill(t, &x, &l, &rr))));
    }
    let mut readers: Vec<(u32, i32, i32)> = vec![];
    for i in 0..n_read {
        let Some((s, r, c)) = it.next() else { break };
        // read a cycle cell, or (1/4) another reader
        let tgt = if !readers.is_empty() && rng.chance(1, 4) { *rng.pick(&readers) } else { *rng.pick(&cyc_cells) };
        let x = qref(rng, s, tgt.0, tgt.1, tgt.2);
        let l = if lits.is_empty() { "2".to_string() } else { let p = *rng.pick(&lits); qref(rng, s, p.0, p.1, p.2) };
        let rr = range_over(s, &cyc_cells);
        let want_abs = absorbing && (rng.chance(1, 2) || (i + 1 == n_read && !used_absorb));
        let t = if want_abs { used_absorb = true; *rng.pick(&ABSORB_READ) } else { *rng.pick(&PLAIN_READ) };
        out.push((s, r, c, format!("={}", fill(t, &x, &l, &rr))));
        readers.push((s, r, c));
    }
    for _ in 0..n_ind {
        let Some((s, r, c)) = it.next() else { break };
        let refs: Vec<String> = lits.iter().map(|p| qref(rng, s, p.0, p.1, p.2)).collect();
        let cx = Ctx { refs, ranges: vec![] };
        out.push((s, r, c, format!("={}", expr(rng, 2, &cx))));
    }
    out
}

/// kind 5: formulas whose raw result differs from what is stored (empty reference -> 0, inf -> #NUM!)
fn gen_empty_nonfinite(rng: &mut Rng) -> Vec<Input> {
    let ns = rng.range(2, 3) as u32;
    let n_src = rng.range(1, 4) as usize;
    let n_cons = rng.range(3, 10) as usize;
    let n_lit = rng.range(1, 4) as usize;
    let cross = rng.chance(1, 4);
    let home = rng.below(ns as u64) as u32;
    // reserve some positions that stay EMPTY
    let pos = pick_positions(rng, ns, n_src + n_cons + n_lit + 4, if cross { None } else { Some(home) });
    let mut it = pos.iter().copied();
    let empties: Vec<(u32, i32, i32)> = (0..4).filter_map(|_| it.next()).collect();
    let mut out: Vec<Input> = vec![];
    let mut lits = vec![];
    for _ in 0..n_lit { if let Some((s, r, c)) = it.next() { out.push((s, r, c, literal_typed(rng))); lits.push((s, r, c)); } }
    let mut srcs: Vec<(u32, i32, i32)> = vec![];
    const NF: [&str; 6] = ["1E308*10", "-1E308*10", "1E308+1E308", "1E308*1E308", "-(1E308*10)", "1E308*10+1"];
    for _ in 0..n_src {
        let Some((s, r, c)) = it.next() else { break };
        let e = *rng.pick(&empties);
        let t = match rng.below(8) {
            0..=2 => qref(rng, s, e.0, e.1, e.2),
            3 => format!("IF(TRUE,{})", qref(rng, s, e.0, e.1, e.2)),
            4 => { if srcs.is_empty() { qref(rng, s, e.0, e.1, e.2) } else { let p = *rng.pick(&srcs); qref(rng, s, p.0, p.1, p.2) } }
            _ => rng.pick(&NF).to_string(),
        };
        out.push((s, r, c, format!("={t}")));
        srcs.push((s, r, c));
    }
    const CONS: [&str; 18] = ["{}&\"x\"", "ISBLANK({})", "COUNTA({R})", "ISNUMBER({})", "IFERROR({},7)", "{}*0", "{}+1", "LEN({})", "{}=0", "{}=\"\"", "IFERROR({}*0,7)", "COUNT({R})", "SUM({R})", "ISTEXT({})", "CONCAT({},\"|\")", "IF({},1,2)", "MAX({R})", "-{}"];
    let mut cons: Vec<(u32, i32, i32)> = vec![];
    for _ in 0..n_cons {
        let Some((s, r, c)) = it.next() else { break };
        // read a source (mostly), an empty cell directly, or another consumer
        let tgt = match rng.below(6) { 0 => *rng.pick(&empties), 1 if !cons.is_empty() => *rng.pick(&cons), _ => if srcs.is_empty() { *rng.pick(&empties) } else { *rng.pick(&srcs) } };
        let x = qref(rng, s, tgt.0, tgt.1, tgt.2);
        let (r1, r2) = (std::cmp::max(1, tgt.1 - rng.range(0, 2) as i32), std::cmp::min(ROWS, tgt.1 + rng.range(0, 2) as i32));
        // the range must not contain the consumer itself
        let rr = if tgt.0 == s && tgt.2 == c && r >= r1 && r <= r2 { qrange(s, tgt.0, tgt.1, tgt.2, tgt.1, tgt.2) } else { qrange(s, tgt.0, r1, tgt.2, r2, tgt.2) };
        let t = *rng.pick(&CONS);
        out.push((s, r, c, format!("={}", fill(t, &x, "1", &rr))));
        cons.push((s, r, c));
    }
    out
}

#[derive(Clone, Copy)]
struct Rect { s: u32, r1: i32, c1: i32, r2: i32, c2: i32 }
impl Rect {
    fn meets(&self, o: &Rect) -> bool { self.s == o.s && self.r1 <= o.r2 && o.r1 <= self.r2 && self.c1 <= o.c2 && o.c1 <= self.c2 }
    fn has(&self, p: &(u32, i32, i32)) -> bool { p.0 == self.s && p.1 >= self.r1 && p.1 <= self.r2 && p.2 >= self.c1 && p.2 <= self.c2 }
}

/// kind 6: dynamic arrays; in `disjoint` mode potential extents avoid each other and every other input
fn gen_dynamic(rng: &mut Rng) -> Vec<Input> {
    let disjoint = rng.chance(1, 2);
    let s: u32 = if rng.chance(1, 5) { 1 } else { 0 };
    let n_lit = rng.range(3, 8) as usize;
    let n_anchor = rng.range(2, 5) as usize;
    let n_cons = rng.range(2, 5) as usize;
    let mut out: Vec<Input> = vec![];
    let mut taken: Vec<(u32, i32, i32)> = vec![];
    let mut extents: Vec<(Rect, (i32, i32))> = vec![]; // potential extent, (h,w)
    // literals: a block in the upper-left corner plus random ones
    let lit_block = Rect { s, r1: 1, c1: 1, r2: rng.range(1, 3) as i32, c2: rng.range(1, 3) as i32 };
    let mut k = 0;
    'outer: for r in lit_block.r1..=lit_block.r2 { for c in lit_block.c1..=lit_block.c2 {
        if k >= n_lit { break 'outer; }
        out.push((s, r, c, literal_num_typed(rng))); taken.push((s, r, c)); k += 1;
    } }
    for _ in 0..n_anchor {
        // template -> (text, h, w)
        let (text, h, w): (String, i32, i32) = match rng.below(12) {
            0 | 1 => {
                let (r1, c1) = (rng.range(1, 3) as i32, rng.range(1, 3) as i32);
                let (h, w) = *rng.pick(&[(1, 3), (3, 1), (2, 2), (1, 2), (2, 1)]);
                (rng_text(r1, c1, r1 + h - 1, c1 + w - 1), h, w)
            }
            2 => { let n = rng.range(2, 3) as i32; (format!("SEQUENCE({n})"), n, 1) }
            3 => ("SEQUENCE(2,2)".to_string(), 2, 2),
            4 => ("SEQUENCE(1,3)".to_string(), 1, 3),
            5 => {
                let (r1, c1) = (rng.range(1, 3) as i32, rng.range(1, 3) as i32);
                let (h, w) = *rng.pick(&[(3, 1), (1, 3), (2, 2)]);
                (format!("{}*2", rng_text(r1, c1, r1 + h - 1, c1 + w - 1)), h, w)
            }
            6 => { let t = *rng.pick(&[("{1,2;3,4}", 2, 2), ("{1,2,3}", 1, 3), ("{1;2}", 2, 1), ("{\"a\",TRUE;#N/A,4}", 2, 2)]); (t.0.to_string(), t.1, t.2) }
            7 | 8 if !extents.is_empty() => {
                // spill reference to an earlier anchor, or a range over its potential extent
                let idx = rng.below(extents.len() as u64) as usize;
                let (e, (h, w)) = extents[idx];
                match rng.below(3) {
                    0 => (format!("{}#", a1(e.r1, e.c1)), h, w),
                    1 => (format!("{}#*2", a1(e.r1, e.c1)), h, w),
                    _ => (format!("{}+1", rng_text(e.r1, e.c1, e.r2, e.c2)), h, w),
                }
            }
            9 => {
                let p = if !taken.is_empty() { *rng.pick(&taken) } else { (s, 1, 1) };
                (format!("SEQUENCE(MIN(3,{}))", a1(p.1, p.2)), 3, 1)
            }
            10 => {
                let (r1, c1) = (rng.range(1, 3) as i32, rng.range(1, 3) as i32);
                (format!("{}+{}", rng_text(r1, c1, r1 + 1, c1), rng_text(r1, c1 + 1, r1 + 1, c1 + 1)), 2, 1)
            }
            _ => { let n = rng.range(2, 3) as i32; (format!("SEQUENCE({n})*10"), n, 1) }
        };
        for _try in 0..30 {
            let (r, c) = (rng.range(1, (ROWS - h + 1) as i64) as i32, rng.range(1, (COLS - w + 1) as i64) as i32);
            if taken.contains(&(s, r, c)) { continue; }
            let e = Rect { s, r1: r, c1: c, r2: r + h - 1, c2: c + w - 1 };
            if disjoint && (taken.iter().any(|p| e.has(p)) || extents.iter().any(|(o, _)| o.meets(&e))) { continue; }
            out.push((s, r, c, format!("={text}")));
            taken.push((s, r, c));
            extents.push((e, (h, w)));
            break;
        }
    }
    // remaining literals at random places
    for _ in k..n_lit {
        for _try in 0..20 {
            let p = (s, rng.range(1, ROWS as i64) as i32, rng.range(1, COLS as i64) as i32);
            if taken.contains(&p) || (disjoint && extents.iter().any(|(e, _)| e.has(&p))) { continue; }
            out.push((p.0, p.1, p.2, literal_num_typed(rng))); taken.push(p); break;
        }
    }
    // consumers reading spill cells (same sheet or the other one)
    for _ in 0..n_cons {
        if extents.is_empty() { break; }
        let (e, _) = *rng.pick(&extents);
        let cs = if rng.chance(1, 4) { 1 - s.min(1) } else { s };
        for _try in 0..20 {
            let p = (cs, rng.range(1, ROWS as i64) as i32, rng.range(1, COLS as i64) as i32);
            if taken.contains(&p) || (disjoint && extents.iter().any(|(e, _)| e.has(&p))) { continue; }
            let (pr, pc) = (rng.range(e.r1 as i64, e.r2 as i64) as i32, rng.range(e.c1 as i64, e.c2 as i64) as i32);
            let cell = qref(rng, cs, s, pr, pc);
            let rr = qrange(cs, s, e.r1, e.c1, e.r2, e.c2);
            let t = match rng.below(7) {
                0 => format!("{cell}+1"), 1 => format!("SUM({rr})"), 2 => format!("COUNT({rr})"), 3 => format!("{cell}&\"x\""),
                4 => format!("SUM({}#)", qref(rng, cs, s, e.r1, e.c1)), 5 => format!("MAX({rr})*2"), _ => format!("IFERROR({cell},0)"),
            };
            out.push((p.0, p.1, p.2, format!("={t}"))); taken.push(p); break;
        }
    }
    out
}


/// kind 7: a PRODUCER dynamic array Q (extent h x w) and CONSUMER dynamic arrays that read, as a plain
/// range (no `#`, no scalar formula in between), exactly the first row / last row / first column /
/// last column / one corner cell / an interior cell / the whole of Q's spill; the consumer is placed
/// before or after Q in (sheet,row,column) order, on the same or on the other sheet; optionally a
/// second consumer reads the boundary of the first one (a chain of direct reads), plus scalar readers.
/// Extents are pairwise disjoint and cover no input: the spill-order repair of `evaluate` (phase 1,
/// `position_in_support`) must make every entry order and schedule agree.
fn gen_boundary(rng: &mut Rng) -> Vec<Input> {
    let mut out: Vec<Input> = vec![];
    let (h, w) = *rng.pick(&[(3, 1), (1, 3), (2, 2), (3, 2), (2, 3), (3, 3), (1, 2), (2, 1)]);
    let consumer_first = rng.chance(1, 2);          // consumer before the producer in sheet order
    let other_sheet = rng.chance(1, 4);
    // sheets: consumer before => consumer on the lower sheet
    let (sq, sp): (u32, u32) = if !other_sheet { (0, 0) } else if consumer_first { (1, 0) } else { (0, 1) };
    // the literal block the producer may lift: K1.. on the producer's sheet (columns 11..13, rows 1..3)
    let (lr, lc) = (1, 11);
    for r in 0..h { for c in 0..w { out.push((sq, lr + r, lc + c, format!("{}", (r * 3 + c + 1) * if rng.chance(1, 5) { -1 } else { 1 }))); } }
    let lit = rng_text(lr, lc, lr + h - 1, lc + w - 1);
    // anchors: two bands of rows, columns 2..; the band decides the sheet order on the same sheet
    let (q_row, p_row) = if consumer_first { (7 + rng.range(0, 2) as i32, 1 + rng.range(0, 1) as i32) } else { (1 + rng.range(0, 1) as i32, 7 + rng.range(0, 2) as i32) };
    let q_col = 2 + rng.range(0, 2) as i32;
    let p_col = 1 + rng.range(0, 3) as i32;
    let q_text = match rng.below(6) {
        0 | 1 | 2 => format!("={lit}*1"),
        3 => format!("=SEQUENCE({h},{w})"),
        4 => format!("=SEQUENCE({h},{w})*10"),
        _ => format!("={lit}+0"),
    };
    out.push((sq, q_row, q_col, q_text));
    // the part of Q's spill the consumer reads
    let (qr2, qc2) = (q_row + h - 1, q_col + w - 1);
    let part = |k: u64| -> (i32, i32, i32, i32) {
        match k {
            0 => (q_row, q_col, q_row, qc2),   // first row
            1 => (qr2, q_col, qr2, qc2),       // last row
            2 => (q_row, q_col, qr2, q_col),   // first column
            3 => (q_row, qc2, qr2, qc2),       // last column
            4 => (q_row, q_col, q_row, q_col), // corners
            5 => (q_row, qc2, q_row, qc2),
            6 => (qr2, q_col, qr2, q_col),
            7 => (qr2, qc2, qr2, qc2),
            8 => (q_row, q_col, qr2, qc2),     // everything
            _ => ((q_row + qr2) / 2, (q_col + qc2) / 2, qr2, qc2), // from the middle to the end
        }
    };
    let (r1, c1, r2, c2) = part(rng.below(10));
    let rr = qrange(sp, sq, r1, c1, r2, c2);
    let p_text = match rng.below(5) { 0 | 1 => format!("={rr}*1"), 2 => format!("={rr}+0"), 3 => format!("={rr}*2"), _ => format!("={rr}") };
    out.push((sp, p_row, p_col, p_text));
    let (ph, pw) = (r2 - r1 + 1, c2 - c1 + 1);
    // a second consumer reading the boundary of the first one (rows 12.., far from everything)
    if rng.chance(1, 3) {
        let (a, b, c, d) = match rng.below(3) { 0 => (p_row, p_col, p_row, p_col + pw - 1), 1 => (p_row + ph - 1, p_col, p_row + ph - 1, p_col + pw - 1), _ => (p_row, p_col + pw - 1, p_row + ph - 1, p_col + pw - 1) };
        out.push((sp, 12, 6, format!("={}*1", rng_text(a, b, c, d))));
    }
    // scalar readers of both spills, after everything in sheet order and before everything
    let qcell = qref(rng, sp, sq, qr2, qc2);
    out.push((sp, 16, 1, format!("=SUM({})", qrange(sp, sq, q_row, q_col, qr2, qc2))));
    out.push((sp, 16, 2, format!("={qcell}+1")));
    out.push((sp, 16, 3, format!("=SUM({})", rng_text(p_row, p_col, p_row + ph - 1, p_col + pw - 1))));
    if rng.chance(1, 2) && !(p_row == 1 && p_col == 1) && !(sq == sp && q_row == 1 && q_col == 1) {
        out.push((sp, 1, 1, format!("=COUNT({})", rng_text(p_row, p_col, p_row + ph - 1, p_col + pw - 1))));
    }
    out
}

pub fn gen_workbook(rng: &mut Rng, kind: usize) -> Vec<(u32, i32, i32, String)> {
    let mut w = match kind {
        0 => gen_dag(rng, false),
        1 => gen_chain(rng),
        2 => gen_cycle(rng, false),
        3 => gen_cycle(rng, true),
        4 => gen_dag(rng, true),
        5 => gen_empty_nonfinite(rng),
        6 => gen_dynamic(rng),
        _ => gen_boundary(rng),
    };
    w.sort();
    w.dedup_by(|a, b| (a.0, a.1, a.2) == (b.0, b.1, b.2));
    w
}
