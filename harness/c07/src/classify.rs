//! C07 — predicates on the INPUT workbook (never on the outcome) that define the finding classes.
//! A small tokenizer over the formula texts the generators produce: references, ranges, function
//! names (with nesting), array literals, SEQUENCE dimensions and the `#` spill operator.
use crate::gen::Input;
use std::collections::HashMap;

#[derive(Clone, Debug)]
pub struct RefUse { pub sheet: Option<u32>, pub r1: i32, pub c1: i32, pub r2: i32, pub c2: i32, pub is_range: bool, pub in_agg: bool, pub spill: bool }

#[derive(Clone, Debug, Default)]
pub struct Parsed { pub refs: Vec<RefUse>, pub funcs: Vec<String>, pub shapes: Vec<(i32, i32)>, pub bare_ref: bool, pub is_formula: bool }

const AGG: [&str; 9] = ["SUM", "MIN", "MAX", "COUNT", "COUNTA", "AVERAGE", "AND", "OR", "CONCAT"];
pub const ABSORBING: [&str; 16] = ["IFERROR", "IFNA", "ISNUMBER", "ISTEXT", "ISBLANK", "ISERROR", "ISERR", "ISNA", "ISLOGICAL", "IF", "AND", "OR", "COUNT", "COUNTA", "TYPE", "ERROR.TYPE"];

fn parse_cell_ref(s: &str) -> Option<(i32, i32)> {
    let b: Vec<char> = s.chars().filter(|c| *c != '$').collect();
    let mut i = 0;
    let mut col = 0i32;
    while i < b.len() && b[i].is_ascii_alphabetic() { col = col * 26 + (b[i].to_ascii_uppercase() as i32 - 'A' as i32 + 1); i += 1; }
    if i == 0 || i > 3 || i == b.len() { return None; }
    let mut row = 0i32;
    let start = i;
    while i < b.len() && b[i].is_ascii_digit() { row = row.saturating_mul(10).saturating_add(b[i] as i32 - '0' as i32); i += 1; }
    if i != b.len() || i - start > 7 || row == 0 { return None; }
    Some((row, col))
}
fn sheet_index(name: &str) -> Option<u32> {
    let n = name.to_ascii_uppercase();
    n.strip_prefix("SHEET").and_then(|d| d.parse::<u32>().ok()).filter(|d| *d >= 1).map(|d| d - 1)
}

pub fn parse(text: &str) -> Parsed {
    let mut p = Parsed::default();
    let Some(body) = text.strip_prefix('=') else { return p };
    p.is_formula = true;
    let ch: Vec<char> = body.chars().collect();
    let n = ch.len();
    let mut i = 0;
    let mut stack: Vec<String> = vec![];
    let mut pending_sheet: Option<u32> = None;
    let mut ntokens = 0;
    let read_ident = |i: &mut usize| -> String {
        let st = *i;
        while *i < n && (ch[*i].is_ascii_alphanumeric() || ch[*i] == '_' || ch[*i] == '.' || ch[*i] == '$') { *i += 1; }
        ch[st..*i].iter().collect()
    };
    while i < n {
        let c = ch[i];
        if c == '"' {
            i += 1;
            while i < n { if ch[i] == '"' { if i + 1 < n && ch[i + 1] == '"' { i += 2; continue; } break; } i += 1; }
            i += 1; ntokens += 1; continue;
        }
        if c == '\'' {
            let st = i + 1; i += 1;
            while i < n && ch[i] != '\'' { i += 1; }
            let name: String = ch[st..i.min(n)].iter().collect();
            i += 1;
            if i < n && ch[i] == '!' { i += 1; pending_sheet = sheet_index(&name); }
            continue;
        }
        if c.is_ascii_digit() || (c == '.' && i + 1 < n && ch[i + 1].is_ascii_digit()) {
            while i < n && (ch[i].is_ascii_digit() || ch[i] == '.') { i += 1; }
            if i < n && (ch[i] == 'E' || ch[i] == 'e') {
                let mut j = i + 1;
                if j < n && (ch[j] == '+' || ch[j] == '-') { j += 1; }
                if j < n && ch[j].is_ascii_digit() { while j < n && ch[j].is_ascii_digit() { j += 1; } i = j; }
            }
            ntokens += 1; continue;
        }
        if c.is_ascii_alphabetic() || c == '$' || c == '_' {
            let id = read_ident(&mut i);
            if i < n && ch[i] == '!' { i += 1; pending_sheet = sheet_index(&id); continue; }
            if i < n && ch[i] == '(' {
                let up = id.to_ascii_uppercase();
                if up == "SEQUENCE" {
                    // arguments as raw text
                    let mut depth = 0; let mut j = i; let mut args: Vec<String> = vec![String::new()];
                    while j < n {
                        if ch[j] == '(' { depth += 1; if depth > 1 { args.last_mut().unwrap().push('('); } }
                        else if ch[j] == ')' { depth -= 1; if depth == 0 { break; } args.last_mut().unwrap().push(')'); }
                        else if ch[j] == ',' && depth == 1 { args.push(String::new()); }
                        else { args.last_mut().unwrap().push(ch[j]); }
                        j += 1;
                    }
                    let dim = |a: Option<&String>| -> i32 { match a { None => 1, Some(t) => t.trim().parse::<i32>().unwrap_or(3).clamp(1, 64) } };
                    p.shapes.push((dim(args.first()), dim(args.get(1))));
                }
                p.funcs.push(up.clone());
                stack.push(up);
                i += 1; ntokens += 1; continue;
            }
            if let Some((r, cc)) = parse_cell_ref(&id) {
                let in_agg = stack.iter().any(|f| AGG.contains(&f.as_str()));
                let mut u = RefUse { sheet: pending_sheet.take(), r1: r, c1: cc, r2: r, c2: cc, is_range: false, in_agg, spill: false };
                if i < n && ch[i] == ':' {
                    let mut j = i + 1;
                    let id2 = read_ident(&mut j);
                    if let Some((r2, c2)) = parse_cell_ref(&id2) {
                        u.r1 = r.min(r2); u.r2 = r.max(r2); u.c1 = cc.min(c2); u.c2 = cc.max(c2); u.is_range = true; i = j;
                    }
                } else if i < n && ch[i] == '#' { u.spill = true; i += 1; }
                p.refs.push(u);
                ntokens += 1; continue;
            }
            pending_sheet = None; ntokens += 1; continue; // TRUE / FALSE / names
        }
        match c {
            '(' => { stack.push(String::new()); i += 1; ntokens += 1; }
            ')' => { stack.pop(); i += 1; ntokens += 1; }
            '#' => { i += 1; while i < n && (ch[i].is_ascii_alphanumeric() || ch[i] == '/') { i += 1; } if i < n && (ch[i] == '!' || ch[i] == '?') { i += 1; } ntokens += 1; }
            '{' => {
                let mut j = i + 1; let mut rows = 1; let mut cols = 1; let mut first = true; let mut inq = false;
                while j < n && (inq || ch[j] != '}') {
                    if ch[j] == '"' { inq = !inq; }
                    if !inq { if ch[j] == ';' { rows += 1; first = false; } else if ch[j] == ',' && first { cols += 1; } }
                    j += 1;
                }
                p.shapes.push((rows, cols)); i = j + 1; ntokens += 1;
            }
            _ => { i += 1; if !c.is_whitespace() { ntokens += 1; } }
        }
    }
    p.bare_ref = ntokens == 1 && p.refs.len() == 1 && !p.refs[0].is_range && !p.refs[0].spill;
    p
}

pub struct Analysis {
    pub parsed: Vec<Parsed>,
    pub index: HashMap<(u32, i32, i32), usize>,
    /// potential extent (h, w) of every input; (1,1) for scalars
    pub extent: Vec<(i32, i32)>,
    pub deps: Vec<Vec<usize>>,
}

fn own_shape(p: &Parsed) -> (i32, i32) {
    let (mut h, mut w) = (1, 1);
    for s in &p.shapes { h = h.max(s.0); w = w.max(s.1); }
    for u in &p.refs { if u.is_range && !u.in_agg { h = h.max(u.r2 - u.r1 + 1); w = w.max(u.c2 - u.c1 + 1); } }
    (h, w)
}

pub fn analyse(w: &[Input]) -> Analysis {
    let parsed: Vec<Parsed> = w.iter().map(|x| parse(&x.3)).collect();
    let index: HashMap<(u32, i32, i32), usize> = w.iter().enumerate().map(|(i, x)| ((x.0, x.1, x.2), i)).collect();
    let mut extent: Vec<(i32, i32)> = parsed.iter().map(own_shape).collect();
    // `X#` takes the extent of X (iterate to a fixed point, bounded)
    for _ in 0..4 {
        for i in 0..w.len() {
            for u in &parsed[i].refs {
                if u.spill && !u.in_agg {
                    let s = u.sheet.unwrap_or(w[i].0);
                    if let Some(&j) = index.get(&(s, u.r1, u.c1)) { let e = extent[j]; extent[i] = (extent[i].0.max(e.0), extent[i].1.max(e.1)); }
                }
            }
        }
    }
    let mut deps: Vec<Vec<usize>> = vec![vec![]; w.len()];
    for i in 0..w.len() {
        for u in &parsed[i].refs {
            let s = u.sheet.unwrap_or(w[i].0);
            let (mut r2, mut c2) = (u.r2, u.c2);
            if u.spill { if let Some(&j) = index.get(&(s, u.r1, u.c1)) { r2 = u.r1 + extent[j].0 - 1; c2 = u.c1 + extent[j].1 - 1; } }
            for j in 0..w.len() {
                if w[j].0 != s { continue; }
                // j's cell, or j's potential spill area, meets the referenced rectangle
                let (jr2, jc2) = (w[j].1 + extent[j].0 - 1, w[j].2 + extent[j].1 - 1);
                if w[j].1 <= r2 && u.r1 <= jr2 && w[j].2 <= c2 && u.c1 <= jc2 && !deps[i].contains(&j) { deps[i].push(j); }
            }
        }
    }
    Analysis { parsed, index, extent, deps }
}

impl Analysis {
    fn reach(&self, from: usize) -> Vec<bool> {
        let n = self.deps.len();
        let mut seen = vec![false; n];
        let mut st: Vec<usize> = self.deps[from].clone();
        while let Some(x) = st.pop() { if !seen[x] { seen[x] = true; st.extend(self.deps[x].iter().copied()); } }
        seen
    }
    pub fn reach_from(&self, from: usize) -> Vec<bool> { self.reach(from) }
    /// cells on a dependency cycle
    pub fn on_cycle(&self) -> Vec<bool> { (0..self.deps.len()).map(|i| self.reach(i)[i]).collect() }
    pub fn has_cycle(&self) -> bool { self.on_cycle().iter().any(|b| *b) }
    /// some formula on a cycle, or reading one (transitively), uses an error-absorbing / type-testing function
    pub fn absorbed_cycle(&self) -> bool {
        let oc = self.on_cycle();
        if !oc.iter().any(|b| *b) { return false; }
        for i in 0..self.deps.len() {
            let r = self.reach(i);
            let touches = oc[i] || (0..oc.len()).any(|j| r[j] && oc[j]);
            if touches && self.parsed[i].funcs.iter().any(|f| ABSORBING.contains(&f.as_str())) { return true; }
        }
        false
    }
}

/// two dynamic anchors with intersecting potential extents, or a potential extent covering another input
pub fn competing_dynamic_arrays(w: &[Input], a: &Analysis) -> bool {
    for i in 0..w.len() {
        let (h, wd) = a.extent[i];
        if h == 1 && wd == 1 { continue; }
        let (r2, c2) = (w[i].1 + h - 1, w[i].2 + wd - 1);
        for j in 0..w.len() {
            if j == i || w[j].0 != w[i].0 { continue; }
            let (jr2, jc2) = (w[j].1 + a.extent[j].0 - 1, w[j].2 + a.extent[j].1 - 1);
            if w[j].1 <= r2 && w[i].1 <= jr2 && w[j].2 <= c2 && w[i].2 <= jc2 { return true; }
        }
    }
    false
}
pub fn has_dynamic(a: &Analysis) -> bool { a.extent.iter().any(|e| *e != (1, 1)) }

/// a formula that is a bare reference to a cell without input (directly or through such formulas),
/// read by another formula
pub fn raw_vs_stored_empty(w: &[Input], a: &Analysis) -> bool {
    let n = w.len();
    let mut emptyv = vec![false; n];
    for _ in 0..4 {
        for i in 0..n {
            if !a.parsed[i].bare_ref { continue; }
            let u = &a.parsed[i].refs[0];
            let s = u.sheet.unwrap_or(w[i].0);
            match a.index.get(&(s, u.r1, u.c1)) { None => emptyv[i] = true, Some(&j) => if emptyv[j] { emptyv[i] = true; } }
        }
    }
    (0..n).any(|i| emptyv[i] && (0..n).any(|k| k != i && a.deps[k].contains(&i)))
}
/// a formula that overflows (the generators' only source is the literal 1E308) read by another formula
pub fn raw_vs_stored_nonfinite(w: &[Input], a: &Analysis) -> bool {
    let n = w.len();
    (0..n).any(|i| a.parsed[i].is_formula && w[i].3.contains("1E308") && (0..n).any(|k| k != i && a.deps[k].contains(&i)))
}

/// a dynamic-array formula uses the spill operator `X#` (outside an aggregating function) on an anchor X that comes LATER in (sheet,row,column) order:
/// `X#` reads the extent stored on X by the PREVIOUS evaluation (1x1 for a fresh anchor) without
/// evaluating X first
pub fn spill_ref_before_anchor(w: &[Input], a: &Analysis) -> bool {
    for i in 0..w.len() {
        for u in &a.parsed[i].refs {
            if !u.spill || u.in_agg { continue; }
            let s = u.sheet.unwrap_or(w[i].0);
            if let Some(&j) = a.index.get(&(s, u.r1, u.c1)) {
                if a.extent[j] != (1, 1) && (w[j].0, w[j].1, w[j].2) > (w[i].0, w[i].1, w[i].2) { return true; }
            }
        }
    }
    false
}

/// a dynamic anchor lies on a dependency cycle that runs through potential spill areas (it reads, directly
/// or not, a cell of its own spill or of a spill that depends on it): phase 1 of `evaluate` exhausts its
/// restart bound (n*n+1) and falls through to phase 2 with the anchors in whatever order the last restart
/// left, so extents stored by the PREVIOUS evaluate leak into the values (evaluate is not idempotent)
pub fn circular_spill_dependency(w: &[Input], a: &Analysis) -> bool {
    let oc = a.on_cycle();
    (0..w.len()).any(|i| oc[i] && a.extent[i] != (1, 1))
}

/// F33, tight: a dynamic anchor P depends THROUGH A SCALAR FORMULA IN BETWEEN on a dynamic anchor Q that
/// comes LATER in (sheet,row,column) order (reading a cell of a potential spill area counts as reading
/// its anchor): phase 1 of `evaluate` visits P first, the scalar formula is evaluated on demand and
/// marked, and the order repair (`position_in_support`) only looks at what P read DIRECTLY.
/// A DIRECT read of Q's spill by P is NOT in this class (the repair must handle it, see below).
pub fn spill_depends_on_later_spill(w: &[Input], a: &Analysis) -> bool {
    for i in 0..w.len() {
        if a.extent[i] == (1, 1) { continue; }
        for &k in &a.deps[i] {
            // the intermediate: a scalar FORMULA that P reads directly
            if k == i || a.extent[k] != (1, 1) || !a.parsed[k].is_formula { continue; }
            let r = a.reach_from(k);
            for j in 0..w.len() {
                if j != i && r[j] && a.extent[j] != (1, 1) && (w[j].0, w[j].1, w[j].2) > (w[i].0, w[i].1, w[i].2) { return true; }
            }
        }
    }
    false
}

/// a dynamic anchor P reads DIRECTLY, as a plain reference or range (not `X#`), a cell of the potential
/// spill area of a dynamic anchor Q that comes LATER in (sheet,row,column) order.  `evaluate` repairs
/// this order in phase 1, so such workbooks must be order-independent and idempotent: a failure here
/// is NOT a known finding (class `direct_read_of_later_spill`, unlisted).
pub fn direct_read_of_later_spill(w: &[Input], a: &Analysis) -> bool {
    for i in 0..w.len() {
        if a.extent[i] == (1, 1) { continue; }
        for &j in &a.deps[i] {
            if j != i && a.extent[j] != (1, 1) && (w[j].0, w[j].1, w[j].2) > (w[i].0, w[i].1, w[i].2)
                && !a.parsed[i].refs.iter().any(|u| u.spill) { return true; }
        }
    }
    false
}
